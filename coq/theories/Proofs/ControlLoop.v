(* C09, part 3: a Repeat ... RepeatEnd loop with a straight-line body, executed by `exec`. *)
From Coq Require Import ZArith List Lia Bool.
From EB Require Import Vm.Exec Proofs.Control Proofs.ControlExec.
Open Scope list_scope.
Open Scope Z_scope.

(* operations that neither transfer control nor touch the repeat stack *)
Definition straight_line (o : op) : bool :=
  match o with
  | ORepeat | ORepeatEnd | OJumpIf | OHalt | OHaltIf | OCompute | OComputeEnd => false
  | _ => true
  end.

(* the operations `seg` sit at pc, pc+1, ... *)
Fixpoint seg_at (oa : Z -> option op) (p : Z) (seg : list op) : Prop :=
  match seg with
  | [] => True
  | o :: rest => oa p = Some o /\ seg_at oa (p + 1) rest
  end.

(* declarative execution of a straight-line segment: one `step_basic` per operation, pc + 1 each time;
   an error is reported like `exec` reports it (pc, class, state at the failing operation) *)
Fixpoint run_seq (E : env) (seg : list op) (v : vm) : outcome (Z * errc * vm) vm :=
  match seg with
  | [] => Ok v
  | o :: rest =>
      match step_basic E o v with
      | Ok (v', _) => run_seq E rest (set_pc v' (pc v' + 1))
      | Err e => Err (pc v, e, v)
      | Panic s => Panic s
      | OutOfFuel => OutOfFuel
      end
  end.

Definition cost_sum (E : env) (seg : list op) : Z := fold_right (fun o a => e_cost E o + a) 0 seg.

Lemma cost_sum_nonneg E seg : (forall o, 0 <= e_cost E o) -> 0 <= cost_sum E seg.
Proof. intros H. induction seg as [|o rest IH]; cbn [cost_sum fold_right]; [lia|]. specialize (H o). fold (cost_sum E rest). lia. Qed.

Lemma straight_not_compute o : straight_line o = true -> o <> OCompute.
Proof. intros H ->. discriminate. Qed.

Lemma straight_step E o v v' c : straight_line o = true -> step_basic E o v = Ok (v', c) ->
  c = CNext /\ pc v' = pc v /\ rstack v' = rstack v /\ parent_memory v' = parent_memory v /\ halt v' = halt v.
Proof.
  intros S H. pose proof (step_basic_frame E o v v' c H) as (Hpc & Hpm & Hh & Hr).
  pose proof (step_basic_ctl E o v v' c H) as Hc.
  assert (Hrep : is_repeat_op o = false) by (destruct o; try reflexivity; discriminate).
  repeat split; auto.
  destruct c as [|p| | |p g h]; [reflexivity| | | |contradiction].
  - destruct Hc as [[-> _]|[-> _]]; discriminate.
  - destruct Hc as [[-> _]|[-> _]]; discriminate.
  - destruct Hc as [-> _]; discriminate.
Qed.

Lemma run_seq_ok_inv E seg : forallb straight_line seg = true -> forall v v1,
  run_seq E seg v = Ok v1 ->
  pc v1 = pc v + zlen seg /\ rstack v1 = rstack v /\ parent_memory v1 = parent_memory v /\ halt v1 = halt v.
Proof.
  induction seg as [|o rest IH]; intros S v v1 H.
  - inversion H; subst. unfold zlen. cbn [length Z.of_nat]. rewrite Z.add_0_r. auto.
  - cbn [forallb] in S. apply andb_true_iff in S. destruct S as [So Sr].
    cbn [run_seq] in H. destruct (step_basic E o v) as [[v' c]| | |] eqn:Sb; try discriminate.
    destruct (straight_step E o v v' c So Sb) as (_ & Hpc & Hr & Hpm & Hh).
    destruct (IH Sr _ _ H) as (Ipc & Ir & Ipm & Ih). cbn [pc rstack parent_memory halt set_pc] in *.
    unfold zlen in *. cbn [length]. rewrite Nat2Z.inj_succ. repeat split; try congruence. lia.
Qed.

(* (a) exec on a straight-line segment = run_seq, then exec on the rest *)
Lemma exec_straight E oa limit : (forall o, 0 <= e_cost E o) ->
  forall seg, forallb straight_line seg = true ->
  forall v spent tr f,
  seg_at oa (pc v) seg -> pc v + zlen seg <= usize_max ->
  gas_ok limit (spent + cost_sum E seg) -> 0 <= spent ->
  exec (length seg + f) E oa limit v spent tr =
  bind (run_seq E seg v) (fun v1 => exec f E oa limit v1 (spent + cost_sum E seg) (rev seg ++ tr)).
Proof.
  intros Hc. induction seg as [|o rest IH]; intros S v spent tr f Hat Hpc G Hs.
  - cbn [length Nat.add run_seq bind cost_sum fold_right rev app]. rewrite Z.add_0_r. reflexivity.
  - cbn [forallb] in S. apply andb_true_iff in S. destruct S as [So Sr].
    cbn [seg_at] in Hat. destruct Hat as [Ho Hrest].
    unfold zlen in Hpc. cbn [length] in Hpc. rewrite Nat2Z.inj_succ in Hpc.
    cbn [cost_sum fold_right] in G |- *. fold (cost_sum E rest) in G |- *.
    pose proof (cost_sum_nonneg E rest Hc) as Hcr. pose proof (Hc o) as Hco.
    assert (G1 : gas_ok limit (spent + e_cost E o)) by (destruct G; split; lia).
    cbn [length Nat.add].
    rewrite (exec_step_basic _ E oa limit v spent tr o Ho (straight_not_compute o So) G1).
    cbn [run_seq]. destruct (step_basic E o v) as [[v' c]| | |] eqn:Sb; try reflexivity.
    destruct (straight_step E o v v' c So Sb) as (-> & Hpc' & _).
    unfold exec_continue. cbn [app].
    destruct (Z.ltb_spec usize_max (pc v' + 1)); [lia|].
    rewrite (IH Sr (set_pc v' (pc v' + 1)) (spent + e_cost E o) (o :: tr) f).
    + cbn [rev]. rewrite <- app_assoc. cbn [app]. rewrite Z.add_assoc. reflexivity.
    + cbn [pc set_pc]. rewrite Hpc'. exact Hrest.
    + cbn [pc set_pc]. unfold zlen. lia.
    + rewrite <- Z.add_assoc. exact G.
    + lia.
Qed.

(* ---------- the loop ---------- *)
(* the successive states of the top slot: each RepeatEnd turns one into the next and jumps to b; the last pops *)
Fixpoint chain (b : Z) (r : list slot) (sls : list slot) : Prop :=
  match sls with
  | [] => False
  | sl :: rest =>
      match rest with
      | [] => op_repeat_end (sl :: r) = Ok (r, None)
      | sl' :: _ => op_repeat_end (sl :: r) = Ok (sl' :: r, Some b) /\ chain b r rest
      end
  end.

(* run the body once per slot state, each time from pc = b with that slot on top of r *)
Fixpoint run_iters (E : env) (body : list op) (b : Z) (r : list slot) (sls : list slot) (v : vm)
    : outcome (Z * errc * vm) vm :=
  match sls with
  | [] => Ok v
  | sl :: rest =>
      let* v1 := run_seq E body (set_pc (set_stack_rep v (stack v) (sl :: r)) b) in
      run_iters E body b r rest v1
  end.

(* after the loop: slot popped, pc after RepeatEnd *)
Definition loop_exit (v : vm) (r : list slot) (p : Z) : vm := set_pc (set_stack_rep v (stack v) r) p.

(* executed operations, most recent first *)
Fixpoint loop_tr (body : list op) (k : nat) (tr : list op) : list op :=
  match k with O => tr | S k' => loop_tr body k' (ORepeatEnd :: rev body ++ tr) end.

Lemma loop_tr_concat body k tr : loop_tr body k tr = concat (repeat (ORepeatEnd :: rev body) k) ++ tr.
Proof.
  revert tr. induction k as [|k IH]; intros tr; [reflexivity|].
  cbn [loop_tr]. rewrite IH.
  replace (S k) with (k + 1)%nat by lia. rewrite repeat_app, concat_app. cbn [repeat concat].
  rewrite app_nil_r, <- app_assoc. reflexivity.
Qed.

Lemma bind_assoc {Er A B C} (x : outcome Er A) (g : A -> outcome Er B) (h : B -> outcome Er C) :
  bind (bind x g) h = bind x (fun a => bind (g a) h).
Proof. destruct x; reflexivity. Qed.

Section Loop.
  Variables (E : env) (oa : Z -> option op) (limit : Z) (body : list op) (b : Z) (r : list slot).
  Hypothesis cost_nonneg : forall o, 0 <= e_cost E o.
  Hypothesis body_straight : forallb straight_line body = true.
  Hypothesis body_at : seg_at oa b body.
  Hypothesis end_at : oa (b + zlen body) = Some ORepeatEnd.
  Hypothesis end_fits : b + zlen body + 1 <= usize_max.

  Let e := b + zlen body.
  Let cB := cost_sum E body.
  Let cE := e_cost E ORepeatEnd.
  Let L := length body.

  (* (b) from a RepeatEnd with the remaining slot states `rest` still to run *)
  Lemma loop_from_end : forall rest sl v spent tr f,
    pc v = e -> rstack v = sl :: r -> chain b r (sl :: rest) -> 0 <= spent ->
    gas_ok limit (spent + cE + Z.of_nat (length rest) * (cB + cE)) ->
    exec (length rest * (L + 1) + 1 + f) E oa limit v spent tr =
    bind (run_iters E body b r rest v) (fun vend =>
      exec f E oa limit (loop_exit vend r (e + 1)) (spent + cE + Z.of_nat (length rest) * (cB + cE))
           (loop_tr body (length rest) (ORepeatEnd :: tr))).
  Proof.
    pose proof (cost_sum_nonneg E body cost_nonneg) as HcB. fold cB in HcB.
    pose proof (cost_nonneg ORepeatEnd) as HcE. fold cE in HcE.
    induction rest as [|sl' rest' IH]; intros sl v spent tr f Hpc Hr Hch Hs G.
    - cbn [length Nat.mul Nat.add Z.of_nat run_iters bind loop_tr] in *.
      rewrite Z.mul_0_l, Z.add_0_r in *. cbn [chain] in Hch.
      assert (Sb : step_basic E ORepeatEnd v = Ok (set_stack_rep v (stack v) r, CNext)).
      { cbn [step_basic]. rewrite Hr, Hch. reflexivity. }
      rewrite (exec_step_next f E oa limit v spent tr ORepeatEnd (set_stack_rep v (stack v) r)).
      + cbn [pc set_stack_rep]. rewrite Hpc. reflexivity.
      + rewrite Hpc. exact end_at.
      + discriminate.
      + exact G.
      + exact Sb.
      + cbn [pc set_stack_rep]. rewrite Hpc. exact end_fits.
    - change (chain b r (sl :: sl' :: rest')) with
        (op_repeat_end (sl :: r) = Ok (sl' :: r, Some b) /\ chain b r (sl' :: rest')) in Hch.
      destruct Hch as [Hstep Hch].
      cbn [length] in *. rewrite Nat2Z.inj_succ in G |- *.
      assert (Sb : step_basic E ORepeatEnd v = Ok (set_stack_rep v (stack v) (sl' :: r), CPc b)).
      { cbn [step_basic]. rewrite Hr, Hstep. reflexivity. }
      assert (Hm : 0 <= Z.of_nat (length rest') * (cB + cE)) by (apply Z.mul_nonneg_nonneg; lia).
      replace (S (length rest') * (L + 1) + 1 + f)%nat
        with (S (L + (length rest' * (L + 1) + 1 + f)))%nat by lia.
      rewrite (exec_step_jump _ E oa limit v spent tr ORepeatEnd (set_stack_rep v (stack v) (sl' :: r)) b).
      2:{ rewrite Hpc. exact end_at. }
      2:{ discriminate. }
      2:{ destruct G; split; lia. }
      2:{ exact Sb. }
      unfold L. rewrite (exec_straight E oa limit cost_nonneg body body_straight).
      2:{ exact body_at. }
      2:{ cbn [pc set_pc]. lia. }
      2:{ fold cB cE. destruct G; split; lia. }
      2:{ lia. }
      cbn [run_iters]. rewrite bind_assoc. fold cE cB L.
      destruct (run_seq E body (set_pc (set_stack_rep v (stack v) (sl' :: r)) b)) as [v1| | |] eqn:RS;
        cbn [bind]; try reflexivity.
      destruct (run_seq_ok_inv E body body_straight _ _ RS) as (Hpc1 & Hr1 & _).
      cbn [pc rstack set_pc set_stack_rep] in Hpc1, Hr1.
      rewrite (IH sl' v1 (spent + cE + cB) (rev body ++ ORepeatEnd :: tr) f Hpc1 Hr1 Hch).
      + cbn [loop_tr].
        replace (spent + cE + cB + cE + Z.of_nat (length rest') * (cB + cE))
          with (spent + cE + Z.succ (Z.of_nat (length rest')) * (cB + cE)) by lia.
        reflexivity.
      + lia.
      + destruct G; split; lia.
  Qed.

  (* from the Repeat: pop the operands, run the body once per slot state, leave the loop *)
  Lemma loop_from_repeat : forall sl0 rest v s spent tr f,
    pc v + 1 = b -> oa (pc v) = Some ORepeat ->
    op_repeat (pc v) (stack v) (rstack v) = Ok (s, sl0 :: r) -> rstack v = r ->
    chain b r (sl0 :: rest) -> 0 <= spent ->
    let iters := S (length rest) in
    let total := spent + e_cost E ORepeat + Z.of_nat iters * (cB + cE) in
    gas_ok limit total ->
    exec (1 + iters * (L + 1) + f) E oa limit v spent tr =
    bind (run_iters E body b r (sl0 :: rest) (set_stack v s)) (fun vend =>
      exec f E oa limit (loop_exit vend r (e + 1)) total (loop_tr body iters (ORepeat :: tr))).
  Proof.
    intros sl0 rest v s spent tr f Hb Ho Hrep Hr Hch Hs iters total G.
    pose proof (cost_sum_nonneg E body cost_nonneg) as HcB. fold cB in HcB.
    pose proof (cost_nonneg ORepeatEnd) as HcE. fold cE in HcE.
    pose proof (cost_nonneg ORepeat) as HcR.
    assert (Hzb : 0 <= zlen body) by (unfold zlen; lia).
    assert (Hm : 0 <= Z.of_nat (length rest) * (cB + cE)) by (apply Z.mul_nonneg_nonneg; lia).
    unfold total, iters in *. clear total iters. rewrite Nat2Z.inj_succ in G |- *.
    assert (Sb : step_basic E ORepeat v = Ok (set_stack_rep v s (sl0 :: r), CNext)).
    { cbn [step_basic]. rewrite Hrep. reflexivity. }
    replace (1 + S (length rest) * (L + 1) + f)%nat
      with (S (L + (length rest * (L + 1) + 1 + f)))%nat by lia.
    rewrite (exec_step_next _ E oa limit v spent tr ORepeat (set_stack_rep v s (sl0 :: r)) Ho).
    2:{ discriminate. }
    2:{ destruct G; split; lia. }
    2:{ exact Sb. }
    2:{ cbn [pc set_stack_rep]. lia. }
    cbn [pc set_stack_rep] . rewrite Hb.
    unfold L. rewrite (exec_straight E oa limit cost_nonneg body body_straight).
    2:{ exact body_at. }
    2:{ cbn [pc set_pc]. lia. }
    2:{ fold cB cE. destruct G; split; lia. }
    2:{ lia. }
    cbn [run_iters]. rewrite bind_assoc. fold cB cE L.
    change (set_stack_rep (set_stack v s) (stack (set_stack v s)) (sl0 :: r)) with (set_stack_rep v s (sl0 :: r)).
    fold (set_stack_rep v s (sl0 :: r)).
    destruct (run_seq E body (set_pc (set_stack_rep v s (sl0 :: r)) b)) as [v1| | |] eqn:RS;
      cbn [bind]; try reflexivity.
    destruct (run_seq_ok_inv E body body_straight _ _ RS) as (Hpc1 & Hr1 & _).
    cbn [pc rstack set_pc set_stack_rep] in Hpc1, Hr1.
    rewrite (loop_from_end rest sl0 v1 (spent + e_cost E ORepeat + cB) (rev body ++ ORepeat :: tr) f Hpc1 Hr1 Hch).
    - cbn [loop_tr].
      replace (spent + e_cost E ORepeat + cB + cE + Z.of_nat (length rest) * (cB + cE))
        with (spent + e_cost E ORepeat + Z.succ (Z.of_nat (length rest)) * (cB + cE)) by lia.
      reflexivity.
    - lia.
    - destruct G; split; lia.
  Qed.
End Loop.

(* ---------- the slot states of an upward / downward loop ---------- *)
Fixpoint zrange_down (hi : Z) (k : nat) : list Z :=
  match k with O => [] | S k' => hi :: zrange_down (hi - 1) k' end.

(* counter values seen by the body: 0..max(n,1)-1 upward; n, n-1, .., 1 (or just n when n <= 1) downward *)
Definition loop_counters (up : bool) (n : Z) : list Z :=
  if up then zrange_from 0 (Z.to_nat (Z.max n 1)) else zrange_down n (Z.to_nat (Z.max n 1)).

Definition loop_slots (up : bool) (n b : Z) : list slot :=
  map (fun c => mk_slot c (if up then Some n else None) b) (loop_counters up n).

Lemma zrange_from_length s k : length (zrange_from s k) = k.
Proof. revert s. induction k as [|k IH]; intros s; cbn [zrange_from length]; [reflexivity|]. rewrite IH. reflexivity. Qed.
Lemma zrange_down_length s k : length (zrange_down s k) = k.
Proof. revert s. induction k as [|k IH]; intros s; cbn [zrange_down length]; [reflexivity|]. rewrite IH. reflexivity. Qed.

Lemma loop_slots_length up n b : length (loop_slots up n b) = Z.to_nat (Z.max n 1).
Proof.
  unfold loop_slots, loop_counters. rewrite map_length.
  destruct up; [apply zrange_from_length|apply zrange_down_length].
Qed.

Lemma chain_up n b r : n <= i64_max -> forall k c, 0 <= c -> c + Z.of_nat (S k) = Z.max n 1 ->
  chain b r (map (fun c => mk_slot c (Some n) b) (zrange_from c (S k))).
Proof.
  intros Hn. induction k as [|k IH]; intros c Hc Hk.
  - cbn [zrange_from map chain]. apply repeat_end_up_last; lia.
  - change (zrange_from c (S (S k))) with (c :: zrange_from (c + 1) (S k)).
    rewrite map_cons. specialize (IH (c + 1)).
    change (zrange_from (c + 1) (S k)) with ((c + 1) :: zrange_from (c + 1 + 1) k) in IH |- *.
    rewrite map_cons in IH |- *.
    split.
    + apply repeat_end_up_more; lia.
    + apply IH; lia.
Qed.

Lemma chain_down b r : forall k c, c - Z.of_nat (S k) = Z.min (c - 1) 0 \/ (k = O /\ c <= 1) ->
  chain b r (map (fun c => mk_slot c None b) (zrange_down c (S k))).
Proof.
  induction k as [|k IH]; intros c Hk.
  - cbn [zrange_down map chain]. apply repeat_end_down_last. lia.
  - change (zrange_down c (S (S k))) with (c :: zrange_down (c - 1) (S k)).
    rewrite map_cons. specialize (IH (c - 1)).
    change (zrange_down (c - 1) (S k)) with ((c - 1) :: zrange_down (c - 1 - 1) k) in IH |- *.
    rewrite map_cons in IH |- *.
    split.
    + apply repeat_end_down_more; lia.
    + apply IH. lia.
Qed.

Lemma chain_loop_slots up n b r : i64 n -> chain b r (loop_slots up n b).
Proof.
  intros Hn. unfold i64 in Hn. unfold loop_slots, loop_counters.
  destruct (Z.to_nat (Z.max n 1)) as [|k] eqn:K; [lia|].
  destruct up.
  - apply chain_up; lia.
  - apply chain_down. destruct k; lia.
Qed.

(* ---------- programs given as lists ---------- *)
Lemma op_at_app pre o post : op_at (pre ++ o :: post) (zlen pre) = Some o.
Proof.
  unfold op_at, zlen. rewrite app_length. cbn [length].
  destruct (Z.ltb_spec (Z.of_nat (length pre)) 0); [lia|].
  destruct (Z.leb_spec (Z.of_nat (length pre + S (length post))) (Z.of_nat (length pre))); [lia|].
  cbn [orb]. rewrite Nat2Z.id. rewrite nth_error_app2 by lia. rewrite Nat.sub_diag. reflexivity.
Qed.

Lemma seg_at_app seg : forall pre post, seg_at (op_at (pre ++ seg ++ post)) (zlen pre) seg.
Proof.
  induction seg as [|o rest IH]; intros pre post; cbn [seg_at]; [exact I|]. split.
  - cbn [app]. apply op_at_app.
  - specialize (IH (pre ++ [o]) post). rewrite <- app_assoc in IH. cbn [app] in IH.
    unfold zlen in IH |- *. rewrite app_length in IH. cbn [length] in IH.
    replace (Z.of_nat (length pre) + 1) with (Z.of_nat (length pre + 1)) by lia. exact IH.
Qed.

Lemma op_at_outside ops p : p < 0 \/ zlen ops <= p -> op_at ops p = None.
Proof.
  intros H. unfold op_at. destruct (Z.ltb_spec p 0); [reflexivity|].
  destruct (Z.leb_spec (zlen ops) p); [reflexivity|lia].
Qed.

(* The loop theorem for a program given as a list of operations. *)
Theorem repeat_program : forall E pre body post limit v upw n s spent tr f,
  let ops := pre ++ ORepeat :: body ++ ORepeatEnd :: post in
  let b := zlen pre + 1 in
  let after := zlen pre + zlen body + 2 in
  forallb straight_line body = true ->
  zlen ops <= usize_max ->
  (forall o, 0 <= e_cost E o) -> 0 <= spent ->
  pc v = zlen pre -> stack v = upw :: n :: s -> (upw = 0 \/ upw = 1) -> i64 n -> zlen (rstack v) < 4096 ->
  let up := upw =? 1 in
  let iters := Z.max n 1 in
  let total := spent + e_cost E ORepeat + iters * (cost_sum E body + e_cost E ORepeatEnd) in
  gas_ok limit total ->
  exec (1 + Z.to_nat iters * (length body + 1) + f) E (op_at ops) limit v spent tr =
  bind (run_iters E body b (rstack v) (loop_slots up n b) (set_stack v s)) (fun vend =>
    exec f E (op_at ops) limit (loop_exit vend (rstack v) after) total
         (loop_tr body (Z.to_nat iters) (ORepeat :: tr))).
Proof.
  intros E pre body post limit v upw n s spent tr f ops b after Hsl Hlen Hc Hs Hpc Hst Hu Hn Hr up iters total G.
  assert (Hlen' : zlen pre + zlen body + 2 + zlen post = zlen ops).
  { unfold ops, zlen. rewrite app_length. cbn [length]. rewrite app_length. cbn [length]. lia. }
  assert (Hpost : 0 <= zlen post) by (unfold zlen; lia).
  assert (Hpre : 0 <= zlen pre) by (unfold zlen; lia).
  assert (Hbody : 0 <= zlen body) by (unfold zlen; lia).
  pose proof (chain_loop_slots up n b (rstack v) Hn) as Hch.
  pose proof (loop_slots_length up n b) as Hl.
  destruct (loop_slots up n b) as [|sl0 rest] eqn:SL; [cbn [chain] in Hch; contradiction|].
  cbn [length] in Hl.
  assert (Hsl0 : sl0 = if up then mk_slot 0 (Some n) b else mk_slot n None b).
  { unfold loop_slots, loop_counters in SL. destruct (Z.to_nat (Z.max n 1)) as [|k]; [discriminate|].
    destruct up; cbn [zrange_from zrange_down map] in SL; inversion SL; reflexivity. }
  assert (Hrep : op_repeat (pc v) (stack v) (rstack v) = Ok (s, sl0 :: rstack v)).
  { rewrite Hst, Hpc, Hsl0. rewrite op_repeat_ok by (try assumption; lia). reflexivity. }
  assert (Hiters : Z.to_nat iters = S (length rest)) by (unfold iters; lia).
  assert (Hiz : iters = Z.of_nat (S (length rest))) by (unfold iters in *; lia).
  rewrite Hiters. unfold total. rewrite Hiz.
  assert (Hafter : after = b + zlen body + 1) by (unfold after, b; lia).
  rewrite Hafter.
  apply (loop_from_repeat E (op_at ops) limit body b (rstack v) Hc Hsl).
  - unfold ops, b. replace (ORepeat :: body ++ ORepeatEnd :: post) with ([ORepeat] ++ body ++ ORepeatEnd :: post) by reflexivity.
    rewrite app_assoc.
    replace (zlen pre + 1) with (zlen (pre ++ [ORepeat])) by (unfold zlen; rewrite app_length; cbn [length]; lia).
    apply seg_at_app.
  - unfold ops, b.
    replace (pre ++ ORepeat :: body ++ ORepeatEnd :: post) with ((pre ++ ORepeat :: body) ++ ORepeatEnd :: post)
      by (rewrite <- app_assoc; reflexivity).
    replace (zlen pre + 1 + zlen body) with (zlen (pre ++ ORepeat :: body))
      by (unfold zlen; rewrite app_length; cbn [length]; lia).
    apply op_at_app.
  - unfold b. lia.
  - rewrite Hpc. reflexivity.
  - rewrite Hpc. unfold ops. apply op_at_app.
  - exact Hrep.
  - reflexivity.
  - exact Hch.
  - exact Hs.
  - unfold total in G. rewrite Hiz in G. exact G.
Qed.

(* the success case, spelled out: if every iteration of the body succeeds, exec continues after the loop *)
Corollary repeat_program_ok : forall E pre body post limit v upw n s spent tr f vend,
  let ops := pre ++ ORepeat :: body ++ ORepeatEnd :: post in
  let b := zlen pre + 1 in
  forallb straight_line body = true ->
  zlen ops <= usize_max ->
  (forall o, 0 <= e_cost E o) -> 0 <= spent ->
  pc v = zlen pre -> stack v = upw :: n :: s -> (upw = 0 \/ upw = 1) -> i64 n -> zlen (rstack v) < 4096 ->
  let total := spent + e_cost E ORepeat + Z.max n 1 * (cost_sum E body + e_cost E ORepeatEnd) in
  gas_ok limit total ->
  run_iters E body b (rstack v) (loop_slots (upw =? 1) n b) (set_stack v s) = Ok vend ->
  exec (1 + Z.to_nat (Z.max n 1) * (length body + 1) + f) E (op_at ops) limit v spent tr =
  exec f E (op_at ops) limit (loop_exit vend (rstack v) (zlen pre + zlen body + 2)) total
       (loop_tr body (Z.to_nat (Z.max n 1)) (ORepeat :: tr)).
Proof.
  intros E pre body post limit v upw n s spent tr f vend ops b Hsl Hlen Hc Hs Hpc Hst Hu Hn Hr total G Hrun.
  unfold ops, total. rewrite (repeat_program E pre body post limit v upw n s spent tr f); try assumption.
  fold b. rewrite Hrun. reflexivity.
Qed.

(* ... and an error in the body is the error of the whole execution, with the same pc and state *)
Corollary repeat_program_err : forall E pre body post limit v upw n s spent tr f x,
  let ops := pre ++ ORepeat :: body ++ ORepeatEnd :: post in
  let b := zlen pre + 1 in
  forallb straight_line body = true ->
  zlen ops <= usize_max ->
  (forall o, 0 <= e_cost E o) -> 0 <= spent ->
  pc v = zlen pre -> stack v = upw :: n :: s -> (upw = 0 \/ upw = 1) -> i64 n -> zlen (rstack v) < 4096 ->
  gas_ok limit (spent + e_cost E ORepeat + Z.max n 1 * (cost_sum E body + e_cost E ORepeatEnd)) ->
  run_iters E body b (rstack v) (loop_slots (upw =? 1) n b) (set_stack v s) = Err x ->
  exec (1 + Z.to_nat (Z.max n 1) * (length body + 1) + f) E (op_at ops) limit v spent tr = Err x.
Proof.
  intros E pre body post limit v upw n s spent tr f x ops b Hsl Hlen Hc Hs Hpc Hst Hu Hn Hr G Hrun.
  unfold ops. rewrite (repeat_program E pre body post limit v upw n s spent tr f); try assumption.
  fold b. rewrite Hrun. reflexivity.
Qed.

(* the counter values, in closed form *)
Lemma loop_counters_up n : forall i, (i < Z.to_nat (Z.max n 1))%nat ->
  nth i (loop_counters true n) 0 = Z.of_nat i.
Proof.
  unfold loop_counters. generalize (Z.to_nat (Z.max n 1)) as k.
  assert (H : forall k s i, (i < k)%nat -> nth i (zrange_from s k) 0 = s + Z.of_nat i).
  { induction k as [|k IH]; intros s i Hi; [lia|]. destruct i as [|i]; cbn [zrange_from nth].
    - cbn [Z.of_nat]. lia.
    - rewrite IH by lia. lia. }
  intros k i Hi. rewrite H by assumption. lia.
Qed.

Lemma loop_counters_down n : forall i, (i < Z.to_nat (Z.max n 1))%nat ->
  nth i (loop_counters false n) 0 = n - Z.of_nat i.
Proof.
  unfold loop_counters. generalize (Z.to_nat (Z.max n 1)) as k.
  assert (H : forall k s i, (i < k)%nat -> nth i (zrange_down s k) 0 = s - Z.of_nat i).
  { induction k as [|k IH]; intros s i Hi; [lia|]. destruct i as [|i]; cbn [zrange_down nth].
    - cbn [Z.of_nat]. lia.
    - rewrite IH by lia. lia. }
  intros k i Hi. apply H. assumption.
Qed.

Lemma loop_counters_length up n : length (loop_counters up n) = Z.to_nat (Z.max n 1).
Proof. unfold loop_counters. destruct up; [apply zrange_from_length|apply zrange_down_length]. Qed.

(* ---------- a small environment for examples ---------- *)
Definition demo_env : env :=
  {| e_solutions := []; e_index := 0%nat;
     e_pre := fun _ _ _ => None; e_post := fun _ _ _ => None;
     e_cost := fun _ => 1;
     e_sha256 := fun _ => repeat 0 32;
     e_ed25519 := fun _ _ _ => None;
     e_secp := fun _ _ _ => SecpParseErr |}.

Definition final_stack (x : X) : option (list Z) :=
  match x with Ok (v, _, _) => Some (stack v) | _ => None end.
Definition final_pc (x : X) : option Z :=
  match x with Ok (v, _, _) => Some (pc v) | _ => None end.
