(* Content addresses (C17): sorting of addresses, order independence and injectivity of the pre-images. *)
From Coq Require Import ZArith List Lia Bool Permutation Sorted.
From EB Require Import Hash.Addr Spec.PredicateSpec.
Import ListNotations.
Open Scope list_scope.
Open Scope Z_scope.

(* ---------- bytes_leb is a total order ---------- *)

Lemma bytes_leb_refl : forall a, bytes_leb a a = true.
Proof.
  induction a as [|x a IH]; cbn [bytes_leb]; auto.
  rewrite Z.ltb_irrefl. exact IH.
Qed.

Lemma bytes_leb_total : forall a b, bytes_leb a b = true \/ bytes_leb b a = true.
Proof.
  induction a as [|x a IH]; intros [|y b]; cbn [bytes_leb]; auto.
  destruct (Z.ltb_spec x y); auto.
  destruct (Z.ltb_spec y x); auto.
Qed.

Lemma bytes_leb_trans : forall a b c,
  bytes_leb a b = true -> bytes_leb b c = true -> bytes_leb a c = true.
Proof.
  induction a as [|x a IH]; intros [|y b] [|z c]; cbn [bytes_leb]; auto; try discriminate.
  destruct (Z.ltb_spec x y), (Z.ltb_spec y x), (Z.ltb_spec y z), (Z.ltb_spec z y),
           (Z.ltb_spec x z), (Z.ltb_spec z x); try lia; try discriminate; auto.
  apply IH.
Qed.

(* antisymmetry holds for all byte lists (lexicographic order with prefixes first) *)
Lemma bytes_leb_antisym_strong : forall a b,
  bytes_leb a b = true -> bytes_leb b a = true -> a = b.
Proof.
  induction a as [|x a IH]; intros [|y b]; cbn [bytes_leb]; auto; try discriminate.
  destruct (Z.ltb_spec x y), (Z.ltb_spec y x); try lia; try discriminate.
  intros Hab Hba. f_equal; [lia | auto].
Qed.

Lemma bytes_leb_antisym : forall a b,
  bytes_leb a b = true -> bytes_leb b a = true -> length a = length b -> a = b.
Proof. intros a b Hab Hba _. exact (bytes_leb_antisym_strong a b Hab Hba). Qed.

(* ---------- insertion sort ---------- *)

Definition addr_le (a b : list Z) : Prop := bytes_leb a b = true.
Definition addrs_sorted (l : list (list Z)) : Prop := StronglySorted addr_le l.

Lemma sort_addrs_cons : forall a l, sort_addrs (a :: l) = insert_sorted a (sort_addrs l).
Proof. reflexivity. Qed.

Lemma insert_sorted_perm : forall x l, Permutation (x :: l) (insert_sorted x l).
Proof.
  intros x l. induction l as [|y r IH]; cbn [insert_sorted]; auto.
  destruct (bytes_leb x y); auto.
  eapply perm_trans; [apply perm_swap|]. apply perm_skip. exact IH.
Qed.

Lemma sort_addrs_perm : forall l, Permutation l (sort_addrs l).
Proof.
  induction l as [|a l IH]; [constructor|].
  rewrite sort_addrs_cons.
  eapply perm_trans; [|apply insert_sorted_perm]. apply perm_skip. exact IH.
Qed.

Lemma Forall_perm {A} (P : A -> Prop) : forall l l', Permutation l l' -> Forall P l -> Forall P l'.
Proof.
  intros l l' Hp Hf. rewrite Forall_forall in *. intros x Hx.
  apply Hf. eapply Permutation_in; [apply Permutation_sym; exact Hp | exact Hx].
Qed.

Lemma insert_sorted_sorted : forall x l, addrs_sorted l -> addrs_sorted (insert_sorted x l).
Proof.
  intros x l. induction l as [|y r IH]; intros Hs; cbn [insert_sorted].
  - constructor; constructor.
  - inversion Hs as [|y' r' Hr Hy]; subst.
    destruct (bytes_leb x y) eqn:Hxy.
    + constructor; [exact Hs|]. constructor; [exact Hxy|].
      rewrite Forall_forall in *. intros z Hz.
      eapply bytes_leb_trans; [exact Hxy | apply Hy; exact Hz].
    + constructor; [apply IH; exact Hr|].
      apply (Forall_perm _ (x :: r)); [apply insert_sorted_perm|].
      constructor; [|exact Hy].
      destruct (bytes_leb_total x y) as [Hc|Hc]; [congruence | exact Hc].
Qed.

Lemma sort_addrs_sorted : forall l, addrs_sorted (sort_addrs l).
Proof.
  induction l as [|a l IH]; [constructor|].
  rewrite sort_addrs_cons. apply insert_sorted_sorted. exact IH.
Qed.

(* a sorted list is determined by its multiset *)
Lemma sorted_perm_eq : forall l l',
  addrs_sorted l -> addrs_sorted l' -> Permutation l l' -> l = l'.
Proof.
  induction l as [|a r IH]; intros l' Hs Hs' Hp.
  - apply Permutation_nil in Hp. congruence.
  - destruct l' as [|b r']; [apply Permutation_sym, Permutation_nil in Hp; discriminate|].
    inversion Hs as [|a0 r0 Hr Ha]; subst.
    inversion Hs' as [|b0 r0' Hr' Hb]; subst.
    assert (Hab : a = b).
    { assert (Hle1 : addr_le a b).
      { assert (Hin : In b (a :: r)) by
          (eapply Permutation_in; [apply Permutation_sym; exact Hp | left; reflexivity]).
        destruct Hin as [He|Hin]; [subst; apply bytes_leb_refl|].
        rewrite Forall_forall in Ha. apply Ha. exact Hin. }
      assert (Hle2 : addr_le b a).
      { assert (Hin : In a (b :: r')) by (eapply Permutation_in; [exact Hp | left; reflexivity]).
        destruct Hin as [He|Hin]; [subst; apply bytes_leb_refl|].
        rewrite Forall_forall in Hb. apply Hb. exact Hin. }
      apply bytes_leb_antisym_strong; assumption. }
    subst b. f_equal. apply IH; [exact Hr | exact Hr' |].
    eapply Permutation_cons_inv. exact Hp.
Qed.

Lemma sort_addrs_canonical_strong : forall l l', Permutation l l' -> sort_addrs l = sort_addrs l'.
Proof.
  intros l l' Hp. apply sorted_perm_eq; try apply sort_addrs_sorted.
  eapply perm_trans; [apply Permutation_sym, sort_addrs_perm|].
  eapply perm_trans; [exact Hp | apply sort_addrs_perm].
Qed.

Lemma sort_addrs_canonical : forall l l',
  Permutation l l' -> Forall (fun a => length a = 32%nat) l -> sort_addrs l = sort_addrs l'.
Proof. intros l l' Hp _. exact (sort_addrs_canonical_strong l l' Hp). Qed.

Lemma sort_addrs_eq_perm : forall l l', sort_addrs l = sort_addrs l' -> Permutation l l'.
Proof.
  intros l l' He. eapply perm_trans; [apply sort_addrs_perm|].
  rewrite He. apply Permutation_sym, sort_addrs_perm.
Qed.

Lemma sort_addrs_idem : forall l, addrs_sorted l -> sort_addrs l = l.
Proof.
  intros l Hs. apply sorted_perm_eq; [apply sort_addrs_sorted | exact Hs |].
  apply Permutation_sym, sort_addrs_perm.
Qed.

(* ---------- splitting a concatenation of equal-size chunks ---------- *)

Lemma app_eq_len {A} : forall (a b x y : list A),
  length a = length b -> a ++ x = b ++ y -> a = b /\ x = y.
Proof.
  induction a as [|h a IH]; intros [|k b] x y Hl He; cbn in *; try discriminate; auto.
  injection He as Hh Ht. injection Hl as Hl.
  destruct (IH b x y Hl Ht) as [E1 E2]. subst. auto.
Qed.

Lemma concat_length_chunks {A} (n : nat) : forall (l : list (list A)),
  Forall (fun a => length a = n) l -> length (concat l) = (length l * n)%nat.
Proof.
  induction l as [|a l IH]; intros Hf; cbn [concat length]; auto.
  inversion Hf as [|a' l' Ha Hl]; subst.
  rewrite app_length, IH by exact Hl. lia.
Qed.

Lemma concat_chunks_inj {A} (n : nat) : forall (l l' : list (list A)) (s s' : list A),
  (0 < n)%nat ->
  Forall (fun a => length a = n) l -> Forall (fun a => length a = n) l' ->
  length s = length s' ->
  concat l ++ s = concat l' ++ s' -> l = l' /\ s = s'.
Proof.
  intros l l' s s' Hn Hf Hf' Hs He.
  assert (Hlen : length l = length l').
  { apply (f_equal (@length A)) in He. rewrite !app_length in He.
    rewrite (concat_length_chunks n l Hf), (concat_length_chunks n l' Hf') in He.
    nia. }
  clear Hn. revert l' Hf' Hlen He.
  induction l as [|a l IH]; intros [|b l'] Hf' Hlen He; cbn [length] in Hlen; try discriminate.
  - cbn [concat app] in He. auto.
  - inversion Hf as [|a0 l0 Ha Hl]; subst. inversion Hf' as [|b0 l0' Hb Hl']; subst.
    cbn [concat] in He. rewrite <- !app_assoc in He.
    apply app_eq_len in He; [|congruence]. destruct He as [Eab He].
    injection Hlen as Hlen.
    destruct (IH Hl l' Hl' Hlen He) as [E1 E2]. subst. auto.
Qed.

(* ---------- the address functions ---------- *)

Section AddrProofs.
  Variable H : list Z -> list Z.

  Lemma zero_addr_length : length zero_addr = 32%nat.
  Proof. reflexivity. Qed.

  Lemma predicate_addr_length : (forall bs, length (H bs) = 32%nat) ->
    forall p, length (predicate_addr H p) = 32%nat.
  Proof.
    intros Hlen p. unfold predicate_addr. destruct (predicate_preimage p); [apply Hlen | reflexivity].
  Qed.

  Lemma solution_addr_length : (forall bs, length (H bs) = 32%nat) ->
    forall s, length (solution_addr H s) = 32%nat.
  Proof. intros Hlen s. apply Hlen. Qed.

  (* -- 2. order independence -- *)

  Lemma contract_preimage_of_addrs_perm : forall l l' salt,
    Permutation l l' -> contract_preimage_of_addrs l salt = contract_preimage_of_addrs l' salt.
  Proof.
    intros l l' salt Hp. unfold contract_preimage_of_addrs.
    rewrite (sort_addrs_canonical_strong l l' Hp). reflexivity.
  Qed.

  Lemma set_preimage_of_addrs_perm : forall l l',
    Permutation l l' -> set_preimage_of_addrs l = set_preimage_of_addrs l'.
  Proof.
    intros l l' Hp. unfold set_preimage_of_addrs.
    rewrite (sort_addrs_canonical_strong l l' Hp). reflexivity.
  Qed.

  (* the 32-byte hypothesis is not needed: bytes_leb is a total order on all byte lists *)
  Lemma contract_preimage_perm : forall ps ps' salt,
    Permutation ps ps' -> contract_preimage H ps salt = contract_preimage H ps' salt.
  Proof.
    intros ps ps' salt Hp. unfold contract_preimage.
    apply contract_preimage_of_addrs_perm. apply Permutation_map. exact Hp.
  Qed.

  Lemma contract_addr_perm : forall ps ps' salt,
    Permutation ps ps' -> (forall bs, length (H bs) = 32%nat) ->
    contract_preimage H ps salt = contract_preimage H ps' salt /\
    contract_addr H ps salt = contract_addr H ps' salt.
  Proof.
    intros ps ps' salt Hp _. unfold contract_addr.
    rewrite (contract_preimage_perm ps ps' salt Hp). auto.
  Qed.

  Lemma set_preimage_perm : forall sols sols',
    Permutation sols sols' -> set_preimage H sols = set_preimage H sols'.
  Proof.
    intros sols sols' Hp. unfold set_preimage.
    apply set_preimage_of_addrs_perm. apply Permutation_map. exact Hp.
  Qed.

  Lemma set_addr_perm : forall sols sols',
    Permutation sols sols' -> (forall bs, length (H bs) = 32%nat) ->
    set_preimage H sols = set_preimage H sols' /\ set_addr H sols = set_addr H sols'.
  Proof.
    intros sols sols' Hp _. unfold set_addr. rewrite (set_preimage_perm sols sols' Hp). auto.
  Qed.

  (* -- 3. injectivity (multiset) of the from_*_addrs pre-images -- *)

  Lemma contract_preimage_of_addrs_injective : forall l l' salt salt',
    Forall (fun a => length a = 32%nat) l -> Forall (fun a => length a = 32%nat) l' ->
    length salt = 32%nat -> length salt' = 32%nat ->
    contract_preimage_of_addrs l salt = contract_preimage_of_addrs l' salt' ->
    Permutation l l' /\ salt = salt'.
  Proof.
    intros l l' salt salt' Hf Hf' Hs Hs' He. unfold contract_preimage_of_addrs in He.
    apply (concat_chunks_inj 32) in He; try lia.
    - destruct He as [E1 E2]. split; [apply sort_addrs_eq_perm; exact E1 | exact E2].
    - eapply Forall_perm; [apply sort_addrs_perm | exact Hf].
    - eapply Forall_perm; [apply sort_addrs_perm | exact Hf'].
  Qed.

  Lemma set_preimage_of_addrs_injective : forall l l',
    Forall (fun a => length a = 32%nat) l -> Forall (fun a => length a = 32%nat) l' ->
    set_preimage_of_addrs l = set_preimage_of_addrs l' -> Permutation l l'.
  Proof.
    intros l l' Hf Hf' He. unfold set_preimage_of_addrs in He.
    assert (He' : concat (sort_addrs l) ++ @nil Z = concat (sort_addrs l') ++ []) by (rewrite He; reflexivity).
    apply (concat_chunks_inj 32) in He'; try lia; auto.
    - destruct He' as [E1 _]. apply sort_addrs_eq_perm. exact E1.
    - eapply Forall_perm; [apply sort_addrs_perm | exact Hf].
    - eapply Forall_perm; [apply sort_addrs_perm | exact Hf'].
  Qed.

  Lemma Forall_map_length {A} (f : A -> list Z) (n : nat) : forall l,
    (forall x, length (f x) = n) -> Forall (fun a => length a = n) (map f l).
  Proof. intros l Hx. apply Forall_forall. intros a Ha. apply in_map_iff in Ha. destruct Ha as [x [E _]]. subst. apply Hx. Qed.

  (* "up to SHA-256": equal contract pre-images have the same multiset of predicate addresses and salt *)
  Lemma contract_preimage_injective_multiset : forall ps ps' salt salt',
    (forall bs, length (H bs) = 32%nat) -> length salt = 32%nat -> length salt' = 32%nat ->
    contract_preimage H ps salt = contract_preimage H ps' salt' ->
    Permutation (map (predicate_addr H) ps) (map (predicate_addr H) ps') /\ salt = salt'.
  Proof.
    intros ps ps' salt salt' Hlen Hs Hs' He. unfold contract_preimage in He.
    apply contract_preimage_of_addrs_injective in He; auto;
      apply Forall_map_length; apply predicate_addr_length; exact Hlen.
  Qed.

  Lemma set_preimage_injective_multiset : forall sols sols',
    (forall bs, length (H bs) = 32%nat) ->
    set_preimage H sols = set_preimage H sols' ->
    Permutation (map (solution_addr H) sols) (map (solution_addr H) sols').
  Proof.
    intros sols sols' Hlen He. unfold set_preimage in He.
    apply set_preimage_of_addrs_injective in He; auto;
      apply Forall_map_length; apply solution_addr_length; exact Hlen.
  Qed.

  (* an injective map reflects permutations *)
  Lemma perm_map_inj {A B} (f : A -> B) (P : A -> Prop) :
    (forall x y, P x -> P y -> f x = f y -> x = y) ->
    forall l l', Forall P l -> Forall P l' -> Permutation (map f l) (map f l') -> Permutation l l'.
  Proof.
    intros Hinj l l' Hf Hf' Hp.
    apply Permutation_sym in Hp.
    destruct (Permutation_map_inv f l Hp) as [l3 [E Hp3]].
    assert (Hf3 : Forall P l3) by (eapply Forall_perm; [exact Hp3 | exact Hf]).
    assert (El : l' = l3).
    { clear Hp Hp3 Hf. revert l3 E Hf3. induction l' as [|a l' IH]; intros [|b l3] E Hf3; cbn in E; try discriminate; auto.
      injection E as E1 E2. inversion Hf' as [|a0 l0 Pa Pl]; subst. inversion Hf3 as [|b0 l03 Pb Pl3]; subst.
      f_equal; [apply Hinj; assumption | apply IH; assumption]. }
    subst l3. exact Hp3.
  Qed.

  (* -- 5. predicate / program pre-images -- *)

  Lemma predicate_preimage_is_encoding : forall p bs,
    predicate_preimage p = Some bs <-> encode_predicate p = Ok bs.
  Proof.
    intros p bs. unfold predicate_preimage.
    destruct (encode_predicate p) as [b|e|s|]; split; intros E; try discriminate; congruence.
  Qed.

  Lemma predicate_addr_is_hash_of_encoding : forall p bs,
    encode_predicate p = Ok bs -> predicate_addr H p = H bs.
  Proof. intros p bs E. unfold predicate_addr, predicate_preimage. rewrite E. reflexivity. Qed.

  Lemma predicate_preimage_injective :
    (forall p q bs, wf_pred p -> wf_pred q -> encode_predicate p = Ok bs -> encode_predicate q = Ok bs -> p = q) ->
    forall p q bs, wf_pred p -> wf_pred q ->
      predicate_preimage p = Some bs -> predicate_preimage q = Some bs -> p = q.
  Proof.
    intros Hinj p q bs Wp Wq Ep Eq.
    apply predicate_preimage_is_encoding in Ep. apply predicate_preimage_is_encoding in Eq.
    exact (Hinj p q bs Wp Wq Ep Eq).
  Qed.

  Lemma program_preimage : forall b, program_addr H b = H b.
  Proof. reflexivity. Qed.

  (* -- 6. helpers agree -- *)

  Lemma helpers_agree : forall ps salt sols,
    contract_addr H ps salt = H (contract_preimage_of_addrs (map (predicate_addr H) ps) salt) /\
    set_addr H sols = H (set_preimage_of_addrs (map (solution_addr H) sols)).
  Proof. intros. split; reflexivity. Qed.

  Lemma invalid_predicate_addr_zero : forall p e,
    encode_predicate p = Err e -> predicate_addr H p = repeat 0 32.
  Proof. intros p e E. unfold predicate_addr, predicate_preimage. rewrite E. reflexivity. Qed.

  (* all predicates that cannot be encoded share one address: nothing of them is hashed *)
  Lemma invalid_predicates_collide : forall p q e e',
    encode_predicate p = Err e -> encode_predicate q = Err e' -> predicate_addr H p = predicate_addr H q.
  Proof.
    intros p q e e' Ep Eq.
    rewrite (invalid_predicate_addr_zero p e Ep), (invalid_predicate_addr_zero q e' Eq). reflexivity.
  Qed.

  (* -- if H is collision free on the hashed encodings, the contract address pre-image determines the
        multiset of (valid, well-formed) predicates -- *)
  Definition valid_pred (p : predicate) : Prop := wf_pred p /\ exists bs, encode_predicate p = Ok bs.

  Lemma contract_preimage_injective_preds :
    (forall p q bs, wf_pred p -> wf_pred q -> encode_predicate p = Ok bs -> encode_predicate q = Ok bs -> p = q) ->
    (forall a b, H a = H b -> a = b) ->
    forall ps ps' salt salt',
    (forall bs, length (H bs) = 32%nat) -> length salt = 32%nat -> length salt' = 32%nat ->
    Forall valid_pred ps -> Forall valid_pred ps' ->
    contract_preimage H ps salt = contract_preimage H ps' salt' ->
    Permutation ps ps' /\ salt = salt'.
  Proof.
    intros Hinj Hcf ps ps' salt salt' Hlen Hs Hs' Vp Vp' He.
    destruct (contract_preimage_injective_multiset ps ps' salt salt' Hlen Hs Hs' He) as [Hp Es].
    split; [|exact Es].
    apply (perm_map_inj (predicate_addr H) valid_pred); auto.
    intros x y [Wx [bx Ex]] [Wy [by_ Ey]] Exy.
    rewrite (predicate_addr_is_hash_of_encoding x bx Ex), (predicate_addr_is_hash_of_encoding y by_ Ey) in Exy.
    apply Hcf in Exy. subst by_. exact (Hinj x y bx Wx Wy Ex Ey).
  Qed.
End AddrProofs.
