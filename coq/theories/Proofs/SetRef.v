(* The two-pass entry point (Check/Set.v: two_pass) against the reference semantics of a whole solution set
   (Spec/GraphRef.v: reference).  Composition of the per-predicate theorems (Proofs/TwoMode.v, lifted in
   Proofs/SetRefNode.v) through check_solutions_go / check_set_predicates / decode_mutations_set. *)
From Coq Require Import ZArith List Lia Bool Permutation Arith.
From EB Require Import Check.Set Spec.GraphRef Spec.InnerSpec Spec.TwoPassSpec Proofs.InnerEval Proofs.Deferred
  Proofs.KahnBase Proofs.Kahn Proofs.KahnRef Proofs.TwoMode Proofs.SetRefVm Proofs.SetRefNode Proofs.SetRefMuts.
Import ListNotations.
Open Scope list_scope.
Local Open Scope nat_scope.

Arguments sat_add_u64 : simpl never.

(* ------------------------------------------------------------------------------------------ *)
(* the runs of one solution *)

Lemma run_for_respects_leaf fuel lk st sols post i p : run_respects_leaf (run_for fuel lk st sols post i p).
Proof. intros ix ins g o H. unfold run_for in H. eapply run_program_not_leaf; eauto. Qed.

Lemma run_for_gas_nonneg fuel lk st sols post i p : gas_nonneg (run_for fuel lk st sols post i p).
Proof. intros ix leaf ins o g H. unfold run_for in H. apply run_program_gas in H. lia. Qed.

Lemma rof_nil pre : read_or_fallback [] pre = pre.
Proof. reflexivity. Qed.

Lemma check_predicate_as_inner fuel lk st ca mode sols i post cache :
  check_predicate fuel lk ca mode {| sc_solutions := sols; sc_index := i; sc_pre := state_view st; sc_post := post |} cache =
  let p := sol_predicate_of lk (nth i sols empty_solution) in
  check_predicate_inner (run_for fuel lk st sols post i p) p ca (node_is_deferred lk p) mode cache.
Proof. reflexivity. Qed.

(* ------------------------------------------------------------------------------------------ *)
(* graphs *)

Lemma graph_ok_sorts p : KahnBase.closed p -> graph_ok p = true ->
  exists pm sorted, create_parent_map p = Ok pm /\ parallel_topo_sort p pm = Ok sorted.
Proof.
  intros Hc H. apply (graph_ok_iff_sort_ok p Hc) in H as (levels & H). unfold sort_of in H.
  apply bind_ok in H as (pm & Hpm & H). eauto.
Qed.

Lemma graph_bad_rejected p : KahnBase.closed p -> graph_ok p = false ->
  exists ix, forall run ca is_def mode cache,
    check_predicate_inner run p ca is_def mode cache
    = Ok {| ir_res := Err (PInvalidNodeEdges ix); ir_cache := cache; ir_events := [] |}.
Proof.
  intros Hc H.
  assert (Hn : ~ exists levels, sort_of p = Ok levels).
  { intros Hex. apply (graph_ok_iff_sort_ok p Hc) in Hex. congruence. }
  destruct (create_parent_map_total p) as [NP NF].
  destruct (create_parent_map p) as [pm|[ix]|s|] eqn:Epm.
  - destruct (kahn_no_fuel_no_panic p pm Epm) as [NF2 NP2].
    destruct (parallel_topo_sort p pm) as [sorted|[ix]|s|] eqn:Et.
    + exfalso. apply Hn. exists sorted. unfold sort_of. rewrite Epm. exact Et.
    + exists ix. intros. eapply malformed_topo_sort; eauto.
    + exfalso. exact (NP2 s eq_refl).
    + exfalso. exact (NF2 eq_refl).
  - exists ix. intros. apply malformed_parent_map. exact Epm.
  - exfalso. exact (NP s eq_refl).
  - exfalso. exact (NF eq_refl).
Qed.

Lemma dref_memb lk p v : v < length (p_nodes p) ->
  is_deferred_ref lk p v = memb v (find_deferred p (node_is_deferred lk p)).
Proof.
  intros Hv. unfold is_deferred_ref.
  pose proof (find_deferred_matches_ref p (node_is_deferred lk p) v Hv) as H.
  destruct (memb v (find_deferred p (node_is_deferred lk p))) eqn:Em.
  - apply memb_In in Em. apply H. exact Em.
  - apply memb_false in Em. destruct (deferred_ref p (node_is_deferred lk p) (length (p_nodes p)) v) eqn:Ed; [|reflexivity].
    exfalso. apply Em. apply H. reflexivity.
Qed.

(* a node that is not deferred has a program without post-state reads *)
Lemma not_deferred_no_post lk p v :
  memb v (find_deferred p (node_is_deferred lk p)) = false -> node_is_deferred lk p v = false.
Proof.
  intros Hm. destruct (node_is_deferred lk p v) eqn:Ed; [|reflexivity]. exfalso.
  apply memb_false in Hm. apply Hm. apply find_deferred_spec. exists v. split; [|split; [exact Ed|apply Relation_Operators.rt_refl]].
  unfold node_is_deferred, node_program in Ed.
  destruct (nth_error (p_nodes p) v) as [nd|] eqn:En; [apply nth_error_Some; congruence|].
  vm_compute in Ed. discriminate.
Qed.

(* ------------------------------------------------------------------------------------------ *)
(* check_solutions_go / check_set_predicates / check_and_compute / two_pass, unfolded *)

Lemma csg_Forall2 fuel lk ca mode sols pre post caches : forall ixs rs,
  check_solutions_go fuel lk ca mode sols pre post ixs caches = Ok rs ->
  Forall2 (fun i r => check_predicate fuel lk ca mode
                        {| sc_solutions := sols; sc_index := i; sc_pre := pre; sc_post := post |} (nth i caches []) = Ok r) ixs rs.
Proof.
  induction ixs as [|i ixs IH]; intros rs H; cbn [check_solutions_go] in H.
  - injection H as <-. constructor.
  - apply bind_ok in H as (r & Hr & H). apply bind_ok in H as (rs' & Hrs & H). injection H as <-.
    constructor; auto.
Qed.

Definition csp_failed (indexed : list (nat * inner_result)) : list (nat * perr2) :=
  flat_map (fun ir => match ir_res (snd ir) with Err e => [(fst ir, e)] | _ => [] end) indexed.
Definition csp_events (indexed : list (nat * inner_result)) : list (nat * nat * list sm) :=
  flat_map (fun ir => map (fun ev => (fst ir, fst ev, snd ev)) (ir_events (snd ir))) indexed.
Definition csp_gas (indexed : list (nat * inner_result)) : Z :=
  fold_left (fun a ir => match ir_res (snd ir) with Ok (g, _) => sat_add_u64 a g | _ => a end) indexed 0%Z.
Definition csp_data (indexed : list (nat * inner_result)) : list (nat * list (list Z)) :=
  map (fun ir => (fst ir, match ir_res (snd ir) with Ok (_, d) => d | _ => [] end)) indexed.
Definition csp_caches (indexed : list (nat * inner_result)) : list (list (nat * sm)) :=
  map (fun ir => ir_cache (snd ir)) indexed.

Lemma csp_unfold fuel lk ca mode sols pre post caches sr :
  check_set_predicates fuel lk ca mode sols pre post caches = Ok sr ->
  exists rs, check_solutions_go fuel lk ca mode sols pre post (seq 0 (length sols)) caches = Ok rs /\
    let indexed := combine (seq 0 (length sols)) rs in
    sr_events sr = csp_events indexed /\
    ((csp_failed indexed = [] /\ sr_res sr = Ok (csp_gas indexed, csp_data indexed) /\ sr_caches sr = csp_caches indexed) \/
     (csp_failed indexed <> [] /\ sr_res sr = Err (SFailed (csp_failed indexed)))).
Proof.
  unfold check_set_predicates. intros H. apply bind_ok in H as (rs & Hrs & H). exists rs. split; [exact Hrs|].
  cbv zeta in H. fold (csp_failed (combine (seq 0 (length sols)) rs)) in H.
  fold (csp_events (combine (seq 0 (length sols)) rs)) in H.
  cbv zeta. destruct (csp_failed (combine (seq 0 (length sols)) rs)) as [|f fl] eqn:Ef; injection H as <-; cbn [sr_events sr_res sr_caches].
  - split; [reflexivity|]. left. auto.
  - split; [reflexivity|]. right. split; [discriminate|reflexivity].
Qed.

Lemma cac_unfold fuel lk ca mode sols pre post caches cr :
  check_and_compute fuel lk ca mode sols pre post caches = Ok cr ->
  exists sr, check_set_predicates fuel lk ca mode sols pre post caches = Ok sr /\
    cr_events cr = sr_events sr /\ cr_caches cr = sr_caches sr /\
    match sr_res sr with
    | Ok (gas, data) => (exists sols', decode_mutations_set data sols = Ok sols' /\ cr_res cr = Ok (gas, sols')) \/
                        (exists e, decode_mutations_set data sols = Err e /\ cr_res cr = Err e)
    | Err e => cr_res cr = Err e
    | _ => False
    end.
Proof.
  unfold check_and_compute. intros H. apply bind_ok in H as (sr & Hsr & H). exists sr. split; [exact Hsr|].
  destruct (sr_res sr) as [[gas data]|e|s|]; try discriminate.
  - destruct (decode_mutations_set data sols) as [sols'|e|s|]; try discriminate; injection H as <-; cbn; eauto 7.
  - injection H as <-. cbn. auto.
Qed.

Lemma tp_unfold fuel lk ca sols st r :
  two_pass fuel lk ca sols st = Ok r ->
  exists cr1, check_and_compute fuel lk ca Outputs sols (state_view st) (state_view st) (map (fun _ => []) sols) = Ok cr1 /\
    tp_events1 r = cr_events cr1 /\
    match cr_res cr1 with
    | Ok (gas1, sols1) =>
        exists cr2, check_and_compute fuel lk ca Checks sols1 (state_view st)
                      (read_or_fallback (build_post_state sols1) (state_view st)) (cr_caches cr1) = Ok cr2 /\
          tp_events2 r = cr_events cr2 /\
          match cr_res cr2 with
          | Ok (gas2, sols2) => tp_res r = Ok (sat_add_u64 gas1 gas2, sols2)
          | Err e => tp_res r = Err e
          | _ => False
          end
    | Err e => tp_res r = Err e /\ tp_events2 r = []
    | _ => False
    end.
Proof.
  unfold two_pass. intros H. apply bind_ok in H as (cr1 & H1 & H). rewrite rof_nil in H1. exists cr1. split; [exact H1|].
  destruct (cr_res cr1) as [[gas1 sols1]|e|s|]; try discriminate.
  - apply bind_ok in H as (cr2 & H2 & H).
    destruct (cr_res cr2) as [[gas2 sols2]|e|s|] eqn:E2; try discriminate; injection H as <-; cbn [tp_events1 tp_events2 tp_res];
      (split; [reflexivity|]); exists cr2; rewrite E2; auto.
  - injection H as <-. cbn. auto.
Qed.

(* ------------------------------------------------------------------------------------------ *)
(* (a) a solution with an invalid graph: rejected, nothing of it is run *)

Lemma Forall2_In_l {A B} (R : A -> B -> Prop) l l' x : Forall2 R l l' -> In x l -> exists y, In y l' /\ R x y.
Proof.
  induction 1 as [|a b l l' Hab F IH]; intros []; [subst; exists b; split; [now left|auto]|].
  destruct (IH H) as (y & Hy & Hr). exists y. split; [now right|auto].
Qed.

Lemma Forall2_combine_In {A B} (R : A -> B -> Prop) l l' x y : Forall2 R l l' -> In (x, y) (combine l l') -> R x y.
Proof.
  induction 1 as [|a b l l' Hab F IH]; intros []; [congruence|auto].
Qed.

Lemma Forall2_In_combine {A B} (R : A -> B -> Prop) l l' x : Forall2 R l l' -> In x l -> exists y, In (x, y) (combine l l') /\ R x y.
Proof.
  induction 1 as [|a b l l' Hab F IH]; intros []; [subst; exists b; split; [now left|auto]|].
  destruct (IH H) as (y & Hy & Hr). exists y. split; [now right|auto].
Qed.

Section Invalid.
  Variable fuel : nat.
  Variable lk : lookup.
  Variable st : state.
  Hypothesis Hclosed : forall c a, KahnBase.closed (lk_predicate lk c a).

  Lemma invalid_pass ca mode sols post caches sr i :
    i < length sols -> graph_ok (sol_predicate_of lk (nth i sols empty_solution)) = false ->
    check_set_predicates fuel lk ca mode sols (state_view st) post caches = Ok sr ->
    (exists errs ix, sr_res sr = Err (SFailed errs) /\ In (i, PInvalidNodeEdges ix) errs) /\
    (forall v ins, ~ In (i, v, ins) (sr_events sr)).
  Proof.
    intros Hi Hbad H. apply csp_unfold in H as (rs & Hrs & Hev & Hres). cbv zeta in Hev, Hres.
    apply csg_Forall2 in Hrs.
    destruct (graph_bad_rejected _ (Hclosed _ _) Hbad) as (ix & Hrej).
    assert (Hin : In i (seq 0 (length sols))) by (apply in_seq; lia).
    destruct (Forall2_In_combine _ _ _ i Hrs Hin) as (ri & Hri & Hc).
    rewrite check_predicate_as_inner in Hc. cbv zeta in Hc. rewrite Hrej in Hc. injection Hc as <-.
    assert (Hf : In (i, PInvalidNodeEdges ix) (csp_failed (combine (seq 0 (length sols)) rs))).
    { unfold csp_failed. apply in_flat_map. eexists. split; [exact Hri|]. cbn. now left. }
    split.
    - destruct Hres as [(Hnil & _)|(_ & Hres)]; [rewrite Hnil in Hf; destruct Hf|]. eauto.
    - intros v ins Hin'. rewrite Hev in Hin'. unfold csp_events in Hin'. apply in_flat_map in Hin' as ([j rj] & Hj & Hin').
      apply in_map_iff in Hin' as (ev & E & Hin'). cbn [fst snd] in E, Hin'. injection E as -> _ _.
      pose proof (Forall2_combine_In _ _ _ _ _ Hrs Hj) as Hcj. cbn beta in Hcj.
      rewrite check_predicate_as_inner in Hcj. cbv zeta in Hcj. rewrite Hrej in Hcj. injection Hcj as <-. exact Hin'.
  Qed.

  Theorem invalid_graph_rejected ca sols i r :
    reference fuel lk st sols = RefInvalidGraph i ->
    two_pass fuel lk ca sols st = Ok r ->
    i < length sols /\ graph_ok (sol_predicate_of lk (nth i sols empty_solution)) = false /\
    (exists errs ix, tp_res r = Err (SFailed errs) /\ In (i, PInvalidNodeEdges ix) errs) /\
    (forall v ins, ~ In (i, v, ins) (tp_events1 r)) /\ (forall v ins, ~ In (i, v, ins) (tp_events2 r)).
  Proof.
    unfold reference. intros Href H.
    destruct (find _ (seq 0 (length sols))) as [j|] eqn:Ef.
    2:{ destruct (pass_all _ _ _ _ _ _ _) as [s1| | |]; try discriminate.
        destruct (negb _); [discriminate|]. destruct (apply_all _ _) as [sols1| | |]; try discriminate.
        destruct (pass_all _ _ _ _ _ _ _) as [s2| | |]; try discriminate.
        destruct (negb _); [discriminate|]. destruct (apply_all _ _) as [sols2| | |]; discriminate. }
    injection Href as Eji. subst j. apply find_some in Ef as [Hin Hbad]. apply in_seq in Hin. apply negb_true_iff in Hbad.
    assert (Hlt : i < length sols) by lia.
    split; [exact Hlt|]. split; [exact Hbad|].
    apply tp_unfold in H as (cr1 & H1 & Hev1 & H).
    apply cac_unfold in H1 as (sr & Hsr & Hev & _ & Hcr).
    destruct (invalid_pass _ _ _ _ _ _ i Hlt Hbad Hsr) as ((errs & ix & Hres & Hin') & Hnoev).
    rewrite Hres in Hcr. rewrite Hcr in H. destruct H as [Htp Hev2].
    split; [eauto|]. split.
    - intros v ins. rewrite Hev1, Hev. apply Hnoev.
    - intros v ins. rewrite Hev2. intros [].
  Qed.
End Invalid.

(* ------------------------------------------------------------------------------------------ *)
(* one pass over all solutions: the model's results against pass_all *)

Lemma summ_all_irrel p a b X :
  ps_ok (summarize p a X) = ps_ok (summarize p b X) /\ ps_gas (summarize p a X) = ps_gas (summarize p b X) /\
  ps_data (summarize p a X) = ps_data (summarize p b X).
Proof. repeat split; reflexivity. Qed.

Section PassGen.
  Variable E : nat -> outcome unit (list (nat * nval)).
  Variable Sm : nat -> list (nat * nval) -> pass_summary.
  Variable M : nat -> inner_result -> Prop.

  Fixpoint pass_gen (ixs : list nat) : outcome unit (list (nat * pass_summary)) :=
    match ixs with
    | [] => Ok []
    | i :: r => let* vals := E i in let* rest := pass_gen r in Ok ((i, Sm i vals) :: rest)
    end.

  Definition node_rel (ir : nat * inner_result) (s : nat * pass_summary) : Prop :=
    fst s = fst ir /\ exists g d, ir_res (snd ir) = Ok (g, d) /\ ps_ok (snd s) = true /\ ps_gas (snd s) = g /\
                                 Permutation (ps_data (snd s)) d.

  Hypothesis Hdich : forall i r, M i r -> (exists g d, ir_res r = Ok (g, d)) \/ (exists e, ir_res r = Err e).
  Hypothesis HOK : forall i r g d, M i r -> ir_res r = Ok (g, d) ->
    exists vals, E i = Ok vals /\ ps_ok (Sm i vals) = true /\ ps_gas (Sm i vals) = g /\ Permutation (ps_data (Sm i vals)) d.
  Hypothesis HERR : forall i r e vals, M i r -> ir_res r = Err e -> E i = Ok vals -> ps_ok (Sm i vals) = false.

  Lemma pass_gen_cases : forall ixs rs, Forall2 M ixs rs ->
    (csp_failed (combine ixs rs) = [] /\ exists sums, pass_gen ixs = Ok sums /\ Forall2 node_rel (combine ixs rs) sums) \/
    (csp_failed (combine ixs rs) <> [] /\ forall sums, pass_gen ixs = Ok sums -> forallb (fun s => ps_ok (snd s)) sums = false).
  Proof.
    induction 1 as [|i r ixs rs Hir F IH].
    - left. split; [reflexivity|]. exists []. split; [reflexivity|constructor].
    - cbn [combine pass_gen]. unfold csp_failed. cbn [flat_map fst snd]. fold (csp_failed (combine ixs rs)).
      destruct (Hdich i r Hir) as [(g & d & Er)|(e & Er)]; rewrite Er.
      + destruct IH as [(Hnil & sums & Hpg & Hrel)|(Hne & Hall)].
        * left. split; [exact Hnil|]. destruct (HOK i r g d Hir Er) as (vals & He & A & B & C).
          exists ((i, Sm i vals) :: sums). rewrite He, Hpg. split; [reflexivity|]. constructor; [|exact Hrel].
          split; [reflexivity|]. exists g, d. auto.
        * right. split; [exact Hne|]. intros sums Hs. apply bind_ok in Hs as (vals & He & Hs).
          apply bind_ok in Hs as (rest & Hr & Hs). injection Hs as <-. cbn [forallb snd]. rewrite (Hall rest Hr). apply andb_false_r.
      + right. split; [discriminate|]. intros sums Hs. apply bind_ok in Hs as (vals & He & Hs).
        apply bind_ok in Hs as (rest & Hr & Hs). injection Hs as <-. cbn [forallb snd]. rewrite (HERR i r e vals Hir Er He). reflexivity.
  Qed.
End PassGen.

Lemma node_rel_ok indexed sums : Forall2 node_rel indexed sums -> forallb (fun s => ps_ok (snd s)) sums = true.
Proof.
  induction 1 as [|ir s indexed sums (_ & g & d & _ & Hok & _) F IH]; [reflexivity|]. cbn [forallb]. now rewrite Hok, IH.
Qed.

Lemma node_rel_gas indexed sums : Forall2 node_rel indexed sums -> forall a,
  fold_left (fun a ir => match ir_res (snd ir) with Ok (g, _) => sat_add_u64 a g | _ => a end) indexed a =
  fold_left (fun a s => sat_add_u64 a (ps_gas (snd s))) sums a.
Proof.
  induction 1 as [|ir s indexed sums (_ & g & d & Er & _ & Hg & _) F IH]; intros a; [reflexivity|].
  cbn [fold_left]. rewrite Er, Hg. apply IH.
Qed.

Lemma node_rel_data indexed sums : Forall2 node_rel indexed sums ->
  drel (csp_data indexed) (map (fun s => (fst s, ps_data (snd s))) sums).
Proof.
  induction 1 as [|ir s indexed sums (Hi & g & d & Er & _ & _ & HP) F IH]; [constructor|].
  cbn [csp_data map]. constructor; [|exact IH]. split; cbn [fst snd]; [now symmetry|]. rewrite Er. now apply Permutation_sym.
Qed.

Lemma pass_all_gen fuel lk st sols post second : forall ixs,
  pass_all fuel lk st sols post second ixs =
  pass_gen (fun i => let p := sol_predicate_of lk (nth i sols empty_solution) in
                     eval_pass p (run_for fuel lk st sols post i p) (fun v => negb second && is_deferred_ref lk p v))
           (fun i vals => let p := sol_predicate_of lk (nth i sols empty_solution) in
                          summarize p vals (filter (fun e => Bool.eqb (is_deferred_ref lk p (fst e)) second) vals)) ixs.
Proof.
  induction ixs as [|i ixs IH]; [reflexivity|]. cbn [pass_all pass_gen]. rewrite IH. reflexivity.
Qed.

Lemma Forall2_impl_In {A B} (R R' : A -> B -> Prop) l l' :
  (forall x y, In x l -> R x y -> R' x y) -> Forall2 R l l' -> Forall2 R' l l'.
Proof.
  intros H F. induction F as [|x y l l' Hxy F IH]; constructor.
  - apply H; [now left|exact Hxy].
  - apply IH. intros a b Ha. apply H. now right.
Qed.

Lemma Forall2_nth_both {A B} (R : A -> B -> Prop) da db : forall l l' i, Forall2 R l l' -> i < length l ->
  R (nth i l da) (nth i l' db) /\ In (nth i l da, nth i l' db) (combine l l') /\
  nth i (combine l l') (da, db) = (nth i l da, nth i l' db).
Proof.
  intros l l' i F. revert i. induction F as [|x y l l' Hxy F IH]; intros i Hi; [simpl in Hi; lia|].
  destruct i as [|i]; simpl.
  - split; [exact Hxy|]. split; [now left|reflexivity].
  - simpl in Hi. destruct (IH i ltac:(lia)) as (A1 & A2 & A3). split; [exact A1|]. split; [now right|exact A3].
Qed.

Lemma Forall2_len {A B} (R : A -> B -> Prop) l l' : Forall2 R l l' -> length l = length l'.
Proof. induction 1; simpl; congruence. Qed.

Lemma nth_map_nil {A B} (l : list A) i : nth i (map (fun _ => @nil B) l) [] = [].
Proof. revert i. induction l; intros [|i]; simpl; auto. Qed.

Lemma csp_failed_nil indexed : csp_failed indexed = [] -> forall i r e, In (i, r) indexed -> ir_res r <> Err e.
Proof.
  intros H i r e Hin He. pose proof (flat_map_nil_inv _ _ H (i, r) Hin) as Hx. cbn [fst snd] in Hx. rewrite He in Hx. discriminate.
Qed.

(* ------------------------------------------------------------------------------------------ *)
(* the whole set *)

Section Main.
  Variable fuel : nat.
  Variable lk : lookup.
  Variable st : state.
  Hypothesis Hclosed : forall c a, KahnBase.closed (lk_predicate lk c a).
  Hypothesis Hbytes : forall a, Forall byte (lk_program lk a).
  Notation pre := (state_view st).
  Notation P sols i := (sol_predicate_of lk (nth i sols empty_solution)).

  Lemma node_program_bytes p v : Forall byte (node_program lk p v).
  Proof. unfold node_program. destruct (nth_error _ _); [apply Hbytes|constructor]. Qed.

  Lemma P_sim sols sols' i : Forall2 sol_sim sols sols' -> P sols i = P sols' i.
  Proof.
    intros H. destruct (Forall2_nth_sim sols sols' i H) as (A & B & _). unfold sol_predicate_of. now rewrite A, B.
  Qed.

  Definition E1 (sols : list solution) (i : nat) :=
    let p := P sols i in eval_pass p (run_for fuel lk st sols pre i p) (fun v => negb false && is_deferred_ref lk p v).
  Definition SmR (second : bool) (sols : list solution) (i : nat) (vals : list (nat * nval)) :=
    let p := P sols i in summarize p vals (filter (fun e => Bool.eqb (is_deferred_ref lk p (fst e)) second) vals).
  Definition M1 (ca : bool) (sols : list solution) (i : nat) (r : inner_result) : Prop :=
    i < length sols /\ graph_ok (P sols i) = true /\
    check_predicate_inner (run_for fuel lk st sols pre i (P sols i)) (P sols i) ca (node_is_deferred lk (P sols i)) Outputs [] = Ok r.

  Lemma M1_dich ca sols i r : M1 ca sols i r -> (exists g d, ir_res r = Ok (g, d)) \/ (exists e, ir_res r = Err e).
  Proof. intros (_ & _ & H). eapply inner_res_ok_or_err; eauto. Qed.

  Lemma M1_OK ca sols i r g d : M1 ca sols i r -> ir_res r = Ok (g, d) ->
    exists vals, E1 sols i = Ok vals /\ ps_ok (SmR false sols i vals) = true /\ ps_gas (SmR false sols i vals) = g /\
                 Permutation (ps_data (SmR false sols i vals)) d.
  Proof.
    intros (Hi & Hg & Hc) Hr. destruct (graph_ok_sorts _ (Hclosed _ _) Hg) as (pm & sorted & Hcpm & Htopo).
    destruct (first_pass_ok _ _ _ (is_deferred_ref lk (P sols i)) pm sorted Hcpm Htopo (dref_memb lk _)
                (run_for_respects_leaf _ _ _ _ _ _ _) (run_for_gas_nonneg _ _ _ _ _ _ _) [] ca r Hc g d Hr)
      as (vals & He & A & B & C).
    exists vals. split; [exact He|]. split; [exact A|]. split; [exact B|exact C].
  Qed.

  Lemma M1_ERR ca sols i r e vals : M1 ca sols i r -> ir_res r = Err e -> E1 sols i = Ok vals ->
    ps_ok (SmR false sols i vals) = false.
  Proof.
    intros (Hi & Hg & Hc) Hr He. destruct (graph_ok_sorts _ (Hclosed _ _) Hg) as (pm & sorted & Hcpm & Htopo).
    exact (first_pass_err _ _ _ (is_deferred_ref lk (P sols i)) pm sorted Hcpm Htopo (dref_memb lk _)
             (run_for_respects_leaf _ _ _ _ _ _ _) [] ca r Hc e vals Hr He).
  Qed.

  (* ---------- second pass ---------- *)
  Section Second.
    Variable ca : bool.
    Variables sols solsA solsB : list solution.
    Variable rs1 : list inner_result.
    Hypothesis HextA : sext sols solsA.
    Hypothesis HextB : sext sols solsB.
    Hypothesis HAB : srel solsA solsB.
    Hypothesis HF1 : Forall2 (M1 ca sols) (seq 0 (length sols)) rs1.
    Hypothesis Hok1 : csp_failed (combine (seq 0 (length sols)) rs1) = [].

    Definition caches1 : list (list (nat * sm)) := csp_caches (combine (seq 0 (length sols)) rs1).
    Definition postA : view := read_or_fallback (build_post_state solsA) pre.
    Definition E2 (i : nat) :=
      let p := P solsB i in
      eval_pass p (run_for fuel lk st solsB (overlay_view st solsB) i p) (fun v => negb true && is_deferred_ref lk p v).
    Definition M2 (i : nat) (r : inner_result) : Prop :=
      i < length sols /\
      check_predicate_inner (run_for fuel lk st solsA postA i (P solsA i)) (P solsA i) ca (node_is_deferred lk (P solsA i)) Checks
                            (nth i caches1 []) = Ok r.

    Definition dummy_ir : inner_result := {| ir_res := Ok (0%Z, []); ir_cache := []; ir_events := [] |}.

    Lemma first_of i : i < length sols -> exists r1 g1 d1,
      M1 ca sols i r1 /\ ir_res r1 = Ok (g1, d1) /\ nth i caches1 [] = ir_cache r1.
    Proof.
      intros Hi.
      destruct (Forall2_nth_both (M1 ca sols) 0 dummy_ir _ _ i HF1) as (A1 & A2 & A3); [rewrite seq_length; exact Hi|].
      rewrite seq_nth in A1, A2, A3 by exact Hi. cbn [plus] in A1, A2, A3.
      exists (nth i rs1 dummy_ir).
      destruct (M1_dich _ _ _ _ A1) as [(g & d & Er)|(e & Er)].
      2:{ exfalso. exact (csp_failed_nil _ Hok1 _ _ e A2 Er). }
      exists g, d. split; [exact A1|]. split; [exact Er|].
      unfold caches1, csp_caches. change (@nil (nat * sm)) with ((fun ir : nat * inner_result => ir_cache (snd ir)) (0, dummy_ir)).
      rewrite map_nth, A3. reflexivity.
    Qed.

    Lemma sims_A : Forall2 sol_sim sols solsA. Proof. apply sext_sims. exact HextA. Qed.
    Lemma sims_B : Forall2 sol_sim sols solsB. Proof. apply sext_sims. exact HextB. Qed.

    Lemma runR_eq i p v leaf ins :
      run_for fuel lk st solsB (overlay_view st solsB) i p v leaf ins =
      run12 (find_deferred p (node_is_deferred lk p)) (run_for fuel lk st sols pre i p) (run_for fuel lk st solsA postA i p) v leaf ins.
    Proof.
      unfold run12, run_for. destruct (memb v (find_deferred p (node_is_deferred lk p))) eqn:Em.
      - apply (run_program_sim true); [|discriminate].
        split; [|split; [reflexivity|split; [reflexivity|]]]; cbn [sc_solutions sc_index sc_pre sc_post].
        + apply srel_sims. apply srel_sym. exact HAB.
        + intros _ c k n. unfold overlay_view, postA, pre_v.
          apply (post_views_equal sols solsB solsA pre HextB HextA (srel_sym _ _ HAB)).
      - apply (run_program_sim false).
        + split; [|split; [reflexivity|split; [reflexivity|discriminate]]]; cbn [sc_solutions].
          eapply Forall2_sym_; [|exact sims_B]. intros x y. apply sol_sim_sym.
        + intros _. split; [apply node_program_bytes|]. exact (not_deferred_no_post lk p v Em).
    Qed.

    Lemma M2_dich i r : M2 i r -> (exists g d, ir_res r = Ok (g, d)) \/ (exists e, ir_res r = Err e).
    Proof. intros (_ & H). eapply inner_res_ok_or_err; eauto. Qed.

    Lemma M2_setup i r : M2 i r -> exists pm sorted r1 g1 d1,
      create_parent_map (P sols i) = Ok pm /\ parallel_topo_sort (P sols i) pm = Ok sorted /\
      check_predicate_inner (run_for fuel lk st sols pre i (P sols i)) (P sols i) ca (node_is_deferred lk (P sols i)) Outputs [] = Ok r1 /\
      ir_res r1 = Ok (g1, d1) /\
      check_predicate_inner (run_for fuel lk st solsA postA i (P sols i)) (P sols i) ca (node_is_deferred lk (P sols i)) Checks
                            (ir_cache r1) = Ok r /\
      P solsB i = P sols i.
    Proof.
      intros (Hi & Hc). destruct (first_of i Hi) as (r1 & g1 & d1 & (_ & Hg & Hc1) & Er1 & Ecache).
      destruct (graph_ok_sorts _ (Hclosed _ _) Hg) as (pm & sorted & Hcpm & Htopo).
      rewrite <- (P_sim sols solsA i sims_A), Ecache in Hc.
      exists pm, sorted, r1, g1, d1. repeat split; auto. symmetry. apply P_sim. exact sims_B.
    Qed.

    Lemma M2_OK i r g d : M2 i r -> ir_res r = Ok (g, d) ->
      exists vals, E2 i = Ok vals /\ ps_ok (SmR true solsB i vals) = true /\ ps_gas (SmR true solsB i vals) = g /\
                   Permutation (ps_data (SmR true solsB i vals)) d.
    Proof.
      intros HM Hr. destruct (M2_setup i r HM) as (pm & sorted & r1 & g1 & d1 & Hcpm & Htopo & Hc1 & Er1 & Hc2 & EP).
      unfold E2, SmR. rewrite EP. cbv zeta.
      destruct (second_pass_ok _ _ (run_for fuel lk st solsB (overlay_view st solsB) i (P sols i)) _ _
                  (is_deferred_ref lk (P sols i)) pm sorted Hcpm Htopo (dref_memb lk _)
                  (run_for_respects_leaf _ _ _ _ _ _ _) [] ca ca r1 r g1 d1 Hc1 Er1
                  (run_for_respects_leaf _ _ _ _ _ _ _) (run_for_gas_nonneg _ _ _ _ _ _ _) Hc2
                  (runR_eq i (P sols i)) g d Hr)
        as (vals & He & A & B & C).
      exists vals. split; [exact He|]. split; [exact A|]. split; [exact B|exact C].
    Qed.

    Lemma M2_ERR i r e vals : M2 i r -> ir_res r = Err e -> E2 i = Ok vals -> ps_ok (SmR true solsB i vals) = false.
    Proof.
      intros HM Hr He. destruct (M2_setup i r HM) as (pm & sorted & r1 & g1 & d1 & Hcpm & Htopo & Hc1 & Er1 & Hc2 & EP).
      unfold E2, SmR in *. rewrite EP in *. cbv zeta in *.
      exact (second_pass_err _ _ (run_for fuel lk st solsB (overlay_view st solsB) i (P sols i)) _ _
               (is_deferred_ref lk (P sols i)) pm sorted Hcpm Htopo (dref_memb lk _)
               (run_for_respects_leaf _ _ _ _ _ _ _) [] ca ca r1 r g1 d1 Hc1 Er1
               (run_for_respects_leaf _ _ _ _ _ _ _) Hc2 (runR_eq i (P sols i)) e vals Hr He).
    Qed.
  End Second.
End Main.

(* ------------------------------------------------------------------------------------------ *)
(* the composition *)

Section Final.
  Variable fuel : nat.
  Variable lk : lookup.
  Variable st : state.
  Hypothesis Hclosed : forall c a, KahnBase.closed (lk_predicate lk c a).
  Hypothesis Hbytes : forall a, Forall byte (lk_program lk a).
  Notation pre := (state_view st).
  Notation P sols i := (sol_predicate_of lk (nth i sols empty_solution)).

  Lemma pass_all_E1 sols ixs :
    pass_all fuel lk st sols (pre_v st) false ixs = pass_gen (E1 fuel lk st sols) (SmR lk false sols) ixs.
  Proof. exact (pass_all_gen fuel lk st sols (pre_v st) false ixs). Qed.

  Lemma pass_all_E2 solsB ixs :
    pass_all fuel lk st solsB (overlay_view st solsB) true ixs = pass_gen (E2 fuel lk st solsB) (SmR lk true solsB) ixs.
  Proof. exact (pass_all_gen fuel lk st solsB (overlay_view st solsB) true ixs). Qed.

  Lemma to_M1 ca sols rs : (forall i, i < length sols -> graph_ok (P sols i) = true) ->
    Forall2 (fun i r => check_predicate fuel lk ca Outputs
                          {| sc_solutions := sols; sc_index := i; sc_pre := pre; sc_post := pre |}
                          (nth i (map (fun _ => []) sols) []) = Ok r) (seq 0 (length sols)) rs ->
    Forall2 (M1 fuel lk st ca sols) (seq 0 (length sols)) rs.
  Proof.
    intros Hg. apply Forall2_impl_In. intros i r Hi H. apply in_seq in Hi. rewrite nth_map_nil in H.
    split; [lia|]. split; [apply Hg; lia|exact H].
  Qed.

  Lemma to_M2 ca sols solsA rs1 rs :
    Forall2 (fun i r => check_predicate fuel lk ca Checks
                          {| sc_solutions := solsA; sc_index := i; sc_pre := pre;
                             sc_post := read_or_fallback (build_post_state solsA) pre |}
                          (nth i (caches1 sols rs1) []) = Ok r) (seq 0 (length sols)) rs ->
    Forall2 (M2 fuel lk st ca sols solsA rs1) (seq 0 (length sols)) rs.
  Proof.
    apply Forall2_impl_In. intros i r Hi H. apply in_seq in Hi. split; [lia|exact H].
  Qed.

  Definition ref_gas (s : list (nat * pass_summary)) : Z := fold_left (fun a s => sat_add_u64 a (ps_gas (snd s))) s 0%Z.

  Lemma csp_gas_ref indexed sums : Forall2 node_rel indexed sums -> csp_gas indexed = ref_gas sums.
  Proof. intros H. unfold csp_gas, ref_gas. apply node_rel_gas. exact H. Qed.

  Theorem two_pass_vs_reference ca sols r :
    find (fun i => negb (graph_ok (P sols i))) (seq 0 (length sols)) = None ->
    two_pass fuel lk ca sols st = Ok r ->
    (forall g solsA, tp_res r = Ok (g, solsA) ->
       exists solsB runs, reference fuel lk st sols = RefOk g solsB runs /\ srel solsA solsB) /\
    (forall e, tp_res r = Err e -> forall g s runs, reference fuel lk st sols <> RefOk g s runs) /\
    ((exists x, tp_res r = Ok x) \/ (exists e, tp_res r = Err e)).
  Proof.
    intros Hfind H.
    assert (Hgraphs : forall i, i < length sols -> graph_ok (P sols i) = true).
    { intros i Hi. apply negb_false_iff. apply (find_none _ _ Hfind i). apply in_seq. lia. }
    apply tp_unfold in H as (cr1 & H1 & _ & Hm).
    apply cac_unfold in H1 as (sr1 & Hsr1 & _ & Hcaches1 & Hcr1).
    apply csp_unfold in Hsr1 as (rs1 & Hrs1 & _ & Hres1). cbv zeta in Hres1.
    apply csg_Forall2 in Hrs1. pose proof (to_M1 ca sols rs1 Hgraphs Hrs1) as HF1.
    destruct (pass_gen_cases (E1 fuel lk st sols) (SmR lk false sols) (M1 fuel lk st ca sols)
                (M1_dich fuel lk st ca sols) (M1_OK fuel lk st Hclosed ca sols) (M1_ERR fuel lk st Hclosed ca sols) _ _ HF1)
      as [(Hnil & s1 & Hpg1 & Hrel1)|(Hne & Hall1)].
    2:{ (* a predicate fails in the first pass *)
      destruct Hres1 as [(Hnil & _)|(_ & Hres1)]; [contradiction|].
      rewrite Hres1 in Hcr1. rewrite Hcr1 in Hm. destruct Hm as [Htp _].
      split; [intros g solsA E; congruence|]. split; [|right; eauto].
      intros e _ g s runs. unfold reference. rewrite Hfind, pass_all_E1.
      destruct (pass_gen _ _ _) as [s1| | |] eqn:Epg; try discriminate. first [rewrite (Hall1 s1 Epg)|rewrite (Hall1 s1 eq_refl)]. discriminate. }
    destruct Hres1 as [(_ & Hres1 & Hc1)|(Hne & _)]; [|contradiction].
    rewrite Hres1 in Hcr1.
    pose proof (node_rel_ok _ _ Hrel1) as Hok1. pose proof (node_rel_data _ _ Hrel1) as Hd1.
    destruct Hcr1 as [(solsA & HdA & Hcr1)|(e & HdA & Hcr1)].
    2:{ (* the data outputs of the first pass are not valid mutations *)
      rewrite Hcr1 in Hm. destruct Hm as [Htp _].
      destruct (DMS_rel_err _ _ _ _ _ Hd1 (srel_refl sols) HdA) as (e' & HdB).
      split; [intros g solsA E; congruence|]. split; [|right; eauto].
      intros e0 _ g s runs. unfold reference. rewrite Hfind, pass_all_E1, Hpg1, Hok1. cbn [negb]. unfold apply_all.
      rewrite HdB. discriminate. }
    destruct (DMS_rel _ _ Hd1 _ _ (srel_refl sols) _ HdA) as (solsB & HdB & HAB).
    pose proof (DMS_ext _ _ _ HdA) as HextA. pose proof (DMS_ext _ _ _ HdB) as HextB.
    rewrite Hcr1 in Hm. destruct Hm as (cr2 & H2 & _ & Hm).
    apply cac_unfold in H2 as (sr2 & Hsr2 & _ & _ & Hcr2).
    apply csp_unfold in Hsr2 as (rs2 & Hrs2 & _ & Hres2). cbv zeta in Hres2.
    apply csg_Forall2 in Hrs2.
    assert (HlenA : length solsA = length sols) by (symmetry; eapply Forall2_len; exact HextA).
    rewrite HlenA in Hrs2, Hres2. rewrite Hcaches1, Hc1 in Hrs2.
    pose proof (to_M2 ca sols solsA rs1 rs2 Hrs2) as HF2.
    assert (Hprefix : reference fuel lk st sols =
              match pass_gen (E2 fuel lk st solsB) (SmR lk true solsB) (seq 0 (length sols)) with
              | Ok s2 => if negb (forallb (fun s => ps_ok (snd s)) s2) then RefFailed
                         else match apply_all s2 solsB with
                              | Ok sols2 => RefOk (sat_add_u64 (ref_gas s1) (ref_gas s2)) sols2
                                              (flat_map (fun s => map (fun r => (fst s, fst r, snd r)) (ps_runs (snd s))) (s1 ++ s2))
                              | Err _ => RefFailed
                              | Panic _ => RefPanic
                              | OutOfFuel => RefFuel
                              end
              | Err _ => RefPanic | Panic _ => RefPanic | OutOfFuel => RefFuel
              end).
    { unfold reference. rewrite Hfind, pass_all_E1, Hpg1, Hok1. cbn [negb]. unfold apply_all at 1.
      rewrite HdB, pass_all_E2. reflexivity. }
    destruct (pass_gen_cases (E2 fuel lk st solsB) (SmR lk true solsB) (M2 fuel lk st ca sols solsA rs1)
                (M2_dich fuel lk st ca sols solsA rs1)
                (M2_OK fuel lk st Hclosed Hbytes ca sols solsA solsB rs1 HextA HextB HAB HF1 Hnil)
                (M2_ERR fuel lk st Hclosed Hbytes ca sols solsA solsB rs1 HextA HextB HAB HF1 Hnil) _ _ HF2)
      as [(Hnil2 & s2 & Hpg2 & Hrel2)|(Hne2 & Hall2)].
    2:{ (* a predicate fails in the second pass *)
      destruct Hres2 as [(Hnil2 & _)|(_ & Hres2)]; [contradiction|].
      rewrite Hres2 in Hcr2. rewrite Hcr2 in Hm.
      split; [intros g solsA' E; congruence|]. split; [|right; eauto].
      intros e _ g s runs. rewrite Hprefix.
      destruct (pass_gen (E2 fuel lk st solsB) (SmR lk true solsB) (seq 0 (length sols))) as [s2| | |] eqn:Epg; try discriminate.
      first [rewrite (Hall2 s2 Epg)|rewrite (Hall2 s2 eq_refl)]. discriminate. }
    destruct Hres2 as [(_ & Hres2 & _)|(Hne2 & _)]; [|contradiction].
    rewrite Hres2 in Hcr2.
    pose proof (node_rel_ok _ _ Hrel2) as Hok2. pose proof (node_rel_data _ _ Hrel2) as Hd2.
    rewrite Hpg2, Hok2 in Hprefix. cbn [negb] in Hprefix. unfold apply_all in Hprefix.
    destruct Hcr2 as [(solsA2 & HdA2 & Hcr2)|(e & HdA2 & Hcr2)]; rewrite Hcr2 in Hm.
    - destruct (DMS_rel _ _ Hd2 _ _ HAB _ HdA2) as (solsB2 & HdB2 & HAB2).
      rewrite HdB2 in Hprefix.
      split; [|split; [intros e E; congruence|left; eauto]].
      intros g solsA' E. rewrite Hm in E. injection E as <- <-.
      eexists solsB2, _. split; [|exact HAB2]. rewrite Hprefix.
      rewrite (csp_gas_ref _ _ Hrel1), (csp_gas_ref _ _ Hrel2). reflexivity.
    - destruct (DMS_rel_err _ _ _ _ _ Hd2 HAB HdA2) as (e' & HdB2).
      rewrite HdB2 in Hprefix.
      split; [intros g solsA' E; congruence|]. split; [|right; eauto].
      intros e0 _ g s runs. rewrite Hprefix. discriminate.
  Qed.
End Final.

(* ------------------------------------------------------------------------------------------ *)
(* packaging *)

Lemma reference_invalid_iff fuel lk st sols i :
  reference fuel lk st sols = RefInvalidGraph i <->
  find (fun i => negb (graph_ok (sol_predicate_of lk (nth i sols empty_solution)))) (seq 0 (length sols)) = Some i.
Proof.
  unfold reference. destruct (find _ (seq 0 (length sols))) as [j|] eqn:Ef.
  - split; intros H; injection H as ->; reflexivity.
  - split; [|discriminate].
    destruct (pass_all _ _ _ _ _ _ _) as [s1| | |]; try discriminate.
    destruct (negb _); [discriminate|]. destruct (apply_all _ _) as [sols1| | |]; try discriminate.
    destruct (pass_all _ _ _ _ _ _ _) as [s2| | |]; try discriminate.
    destruct (negb _); [discriminate|]. destruct (apply_all _ _) as [sols2| | |]; discriminate.
Qed.

Lemma map_snd_combine {A B C} (f : B -> C) : forall (l : list A) (l' : list B), length l = length l' ->
  map (fun x => f (snd x)) (combine l l') = map f l'.
Proof.
  induction l as [|a l IH]; intros [|b l'] H; simpl in *; try discriminate; [reflexivity|]. f_equal. apply IH. lia.
Qed.

Section Package.
  Variable fuel : nat.
  Variable lk : lookup.
  Variable st : state.
  Hypothesis Hclosed : forall c a, KahnBase.closed (lk_predicate lk c a).
  Hypothesis Hbytes : forall a, Forall byte (lk_program lk a).
  Notation pre := (state_view st).
  Notation P sols i := (sol_predicate_of lk (nth i sols empty_solution)).

  (* the first pass alone *)
  Theorem first_pass_vs_reference ca sols sr :
    (forall i, i < length sols -> graph_ok (P sols i) = true) ->
    check_set_predicates fuel lk ca Outputs sols pre pre (map (fun _ => []) sols) = Ok sr ->
    exists rs,
      Forall2 (fun i r => check_predicate fuel lk ca Outputs
                            {| sc_solutions := sols; sc_index := i; sc_pre := pre; sc_post := pre |} [] = Ok r)
              (seq 0 (length sols)) rs /\
      (forall g data, sr_res sr = Ok (g, data) ->
         sr_caches sr = map ir_cache rs /\
         exists s1, pass_all fuel lk st sols (pre_v st) false (seq 0 (length sols)) = Ok s1 /\
                    forallb (fun s => ps_ok (snd s)) s1 = true /\
                    g = fold_left (fun a s => sat_add_u64 a (ps_gas (snd s))) s1 0%Z /\
                    drel data (map (fun s => (fst s, ps_data (snd s))) s1)) /\
      (forall e, sr_res sr = Err e ->
         forall s1, pass_all fuel lk st sols (pre_v st) false (seq 0 (length sols)) = Ok s1 ->
                    forallb (fun s => ps_ok (snd s)) s1 = false).
  Proof.
    intros Hgraphs H. apply csp_unfold in H as (rs & Hrs & _ & Hres). cbv zeta in Hres.
    apply csg_Forall2 in Hrs. exists rs. split.
    { eapply Forall2_impl_In; [|exact Hrs]. intros i r _ Hc. cbn beta in Hc. rewrite nth_map_nil in Hc. exact Hc. }
    pose proof (to_M1 fuel lk st ca sols rs Hgraphs Hrs) as HF1.
    assert (Hlen : length (seq 0 (length sols)) = length rs) by (eapply Forall2_len; exact Hrs).
    rewrite pass_all_E1.
    destruct (pass_gen_cases (E1 fuel lk st sols) (SmR lk false sols) (M1 fuel lk st ca sols)
                (M1_dich fuel lk st ca sols) (M1_OK fuel lk st Hclosed ca sols) (M1_ERR fuel lk st Hclosed ca sols) _ _ HF1)
      as [(Hnil & s1 & Hpg1 & Hrel1)|(Hne & Hall1)].
    - destruct Hres as [(_ & Hres & Hc)|(Hne & _)]; [|contradiction]. split.
      + intros g data E. rewrite Hres in E. injection E as <- <-. split.
        * rewrite Hc. unfold csp_caches. apply map_snd_combine. exact Hlen.
        * exists s1. split; [exact Hpg1|]. split; [exact (node_rel_ok _ _ Hrel1)|].
          split; [exact (csp_gas_ref _ _ Hrel1)|exact (node_rel_data _ _ Hrel1)].
      + intros e E. congruence.
    - destruct Hres as [(Hnil & _)|(_ & Hres)]; [contradiction|]. split.
      + intros g data E. congruence.
      + intros e _ s1 Hs1. exact (Hall1 s1 Hs1).
  Qed.

  Theorem two_pass_equals_reference ca sols r :
    two_pass fuel lk ca sols st = Ok r ->
    (forall i, reference fuel lk st sols = RefInvalidGraph i ->
       (exists errs ix, tp_res r = Err (SFailed errs) /\ In (i, PInvalidNodeEdges ix) errs) /\
       (forall v ins, ~ In (i, v, ins) (tp_events1 r)) /\ (forall v ins, ~ In (i, v, ins) (tp_events2 r))) /\
    (forall g solsB runs, reference fuel lk st sols = RefOk g solsB runs ->
       exists solsA, tp_res r = Ok (g, solsA) /\ srel solsA solsB) /\
    (reference fuel lk st sols = RefFailed -> exists e, tp_res r = Err e) /\
    (forall x, tp_res r = Ok x -> exists g s runs, reference fuel lk st sols = RefOk g s runs).
  Proof.
    intros H.
    destruct (find (fun i => negb (graph_ok (P sols i))) (seq 0 (length sols))) as [j|] eqn:Ef.
    - pose proof (proj2 (reference_invalid_iff fuel lk st sols j) Ef) as Hrj.
      destruct (invalid_graph_rejected fuel lk st Hclosed ca sols j r Hrj H) as (_ & _ & (errs & ix & Htp & Hin) & Hev1 & Hev2).
      split; [|split; [|split]].
      + intros i Hi. rewrite Hrj in Hi. injection Hi as <-. eauto 6.
      + intros g solsB runs E. congruence.
      + intros E. congruence.
      + intros x E. congruence.
    - destruct (two_pass_vs_reference fuel lk st Hclosed Hbytes ca sols r Ef H) as (Hok & Herr & Hdich).
      split; [|split; [|split]].
      + intros i Hi. apply reference_invalid_iff in Hi. congruence.
      + intros g solsB runs E. destruct Hdich as [([g' solsA] & Etp)|(e & Etp)].
        * destruct (Hok g' solsA Etp) as (solsB' & runs' & E' & Hrel). rewrite E in E'. injection E' as <- <- _.
          exists solsA. auto.
        * exfalso. exact (Herr e Etp g solsB runs E).
      + intros E. destruct Hdich as [([g' solsA] & Etp)|(e & Etp)]; [|eauto].
        destruct (Hok g' solsA Etp) as (solsB' & runs' & E' & _). congruence.
      + intros [g solsA] Etp. destruct (Hok g solsA Etp) as (solsB & runs & E & _). eauto.
  Qed.
End Package.
