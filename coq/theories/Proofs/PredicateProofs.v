(* Lemmas about the predicate binary codec (round trip, errors, size, injectivity, totality)
   and about Predicate::node_edges.  Parts of C18, C06, C17. *)
From Coq Require Import ZArith List Lia Bool.
From EB Require Import Types.PredicateCodec Spec.PredicateSpec.
Import ListNotations.
Open Scope list_scope.
Open Scope Z_scope.

(* ---------- constants ---------- *)
Lemma max_nodes_eq : max_nodes = 1000. Proof. reflexivity. Qed.
Lemma max_edges_eq : max_edges = 1000. Proof. reflexivity. Qed.
Lemma node_size_bytes_eq : node_size_bytes = 34. Proof. reflexivity. Qed.
Lemma edge_size_bytes_eq : edge_size_bytes = 2. Proof. reflexivity. Qed.
Lemma len_size_bytes_eq : len_size_bytes = 2. Proof. reflexivity. Qed.

(* ---------- small list facts ---------- *)
Lemma plen_app {A} (a b : list A) : zlen (a ++ b) = zlen a + zlen b.
Proof. unfold zlen. rewrite app_length. lia. Qed.
Lemma plen_nonneg {A} (l : list A) : 0 <= zlen l.
Proof. unfold zlen. lia. Qed.

Lemma pForall_firstn {A} (P : A -> Prop) n l : Forall P l -> Forall P (firstn n l).
Proof.
  intros H. rewrite <- (firstn_skipn n l) in H. apply Forall_app in H. exact (proj1 H).
Qed.
Lemma pForall_skipn {A} (P : A -> Prop) n l : Forall P l -> Forall P (skipn n l).
Proof.
  intros H. rewrite <- (firstn_skipn n l) in H. apply Forall_app in H. exact (proj2 H).
Qed.
Lemma pIn_firstn {A} (x : A) n l : In x (firstn n l) -> In x l.
Proof. intros H. rewrite <- (firstn_skipn n l). apply in_or_app. left. exact H. Qed.
Lemma pIn_skipn {A} (x : A) n l : In x (skipn n l) -> In x l.
Proof. intros H. rewrite <- (firstn_skipn n l). apply in_or_app. right. exact H. Qed.

Lemma flat_map_length_const {A B} (f : A -> list B) k l :
  Forall (fun x => length (f x) = k) l -> length (flat_map f l) = (k * length l)%nat.
Proof.
  induction l as [|x l IH]; intros H; cbn [flat_map length]; [lia|].
  pose proof (Forall_inv H) as Hx. pose proof (Forall_inv_tail H) as Ht. cbv beta in Hx.
  rewrite app_length, Hx, (IH Ht). lia.
Qed.

Lemma Forall_flat_map {A B} (P : B -> Prop) (f : A -> list B) l :
  (forall x, In x l -> Forall P (f x)) -> Forall P (flat_map f l).
Proof.
  induction l as [|x l IH]; intros H; cbn [flat_map]; [constructor|].
  apply Forall_app. split; [apply H; left; reflexivity|]. apply IH. intros y Hy. apply H. right. exact Hy.
Qed.

Lemma map_id_Forall {A} (f : A -> A) l : Forall (fun x => f x = x) l -> map f l = l.
Proof.
  induction l as [|x l IH]; intros H; cbn [map]; [reflexivity|].
  pose proof (Forall_inv H) as Hx. pose proof (Forall_inv_tail H) as Ht. cbv beta in Hx.
  rewrite Hx, (IH Ht). reflexivity.
Qed.

(* chunks_exact over a concatenation of equal-size pieces returns the pieces. *)
Lemma chunks_flat_map {A} (f : A -> list Z) (k : nat) (l : list A) : forall fuel,
  (0 < k)%nat -> Forall (fun x => length (f x) = k) l -> (length l <= fuel)%nat ->
  chunks fuel k (flat_map f l) = map f l.
Proof.
  induction l as [|x l IH]; intros fuel Hk HF Hfuel.
  - destruct fuel as [|fuel]; cbn [chunks flat_map map length]; [reflexivity|].
    destruct k as [|k]; [lia|reflexivity].
  - destruct fuel as [|fuel]; [cbn [length] in Hfuel; lia|].
    pose proof (Forall_inv HF) as Hx. pose proof (Forall_inv_tail HF) as Ht. cbv beta in Hx.
    cbn [chunks flat_map map].
    destruct (Nat.ltb_spec (length (f x ++ flat_map f l)) k) as [Hc|_].
    { rewrite app_length in Hc. lia. }
    rewrite (firstn_app_exact (f x) (flat_map f l) k Hx), (skipn_app_exact (f x) (flat_map f l) k Hx).
    f_equal. apply IH; [exact Hk|exact Ht|cbn [length] in Hfuel; lia].
Qed.

(* ---------- get_range ---------- *)
Lemma get_range_mid (a b c bs : list Z) x y :
  bs = a ++ b ++ c -> x = zlen a -> y = zlen a + zlen b -> get_range x y bs = Some b.
Proof.
  intros -> -> ->. unfold get_range.
  destruct (Z.ltb_spec (zlen a + zlen b) (zlen a)) as [H1|_]; [pose proof (plen_nonneg b); lia|].
  destruct (Z.ltb_spec (zlen (a ++ b ++ c)) (zlen a + zlen b)) as [H2|_].
  { rewrite !plen_app in H2. pose proof (plen_nonneg c). lia. }
  cbn [orb]. f_equal.
  replace (Z.to_nat (zlen a + zlen b - zlen a)) with (length b) by (unfold zlen; lia).
  replace (Z.to_nat (zlen a)) with (length a) by (unfold zlen; lia).
  rewrite (skipn_app_exact a (b ++ c) (length a) eq_refl).
  apply firstn_app_exact. reflexivity.
Qed.

Lemma get_range_cases a b bs :
  a <= b ->
  (zlen bs < b /\ get_range a b bs = None) \/ (b <= zlen bs /\ get_range a b bs = Some (pslice a b bs)).
Proof.
  intros H. unfold get_range.
  destruct (Z.ltb_spec b a) as [H1|_]; [lia|].
  destruct (Z.ltb_spec (zlen bs) b) as [H2|H2]; cbn [orb]; [left|right]; split; auto.
Qed.

(* get_range never fails for any reason other than its two bound checks. *)
Lemma get_range_none_iff a b bs : get_range a b bs = None <-> b < a \/ zlen bs < b.
Proof.
  unfold get_range.
  destruct (Z.ltb_spec b a) as [H1|H1]; destruct (Z.ltb_spec (zlen bs) b) as [H2|H2]; cbn [orb];
    split; intros H; try reflexivity; try discriminate; try (left; assumption); try (right; assumption).
  exfalso. destruct H; lia.
Qed.

(* ---------- nodes ---------- *)
Lemma encode_node_length n : wf_node n -> length (encode_node n) = 34%nat.
Proof.
  intros [_ [Hl _]]. unfold encode_node, bytes_of_u16. rewrite app_length, be_bytes_length, Hl. reflexivity.
Qed.

Lemma encode_node_byte n : wf_node n -> Forall byte (encode_node n).
Proof.
  intros [_ [_ Hb]]. unfold encode_node, bytes_of_u16. apply Forall_app. split; [apply be_bytes_byte|exact Hb].
Qed.

Lemma decode_encode_node n : wf_node n -> decode_node (encode_node n) = n.
Proof.
  intros [Hr [Hl Hb]]. destruct n as [s pr]. cbn [n_edge_start n_program] in *.
  unfold decode_node, encode_node. cbn [n_edge_start n_program].
  rewrite (firstn_app_exact (bytes_of_u16 s) pr 2 (be_bytes_length 2 s)).
  rewrite (skipn_app_exact (bytes_of_u16 s) pr 2 (be_bytes_length 2 s)).
  rewrite (u16_roundtrip s Hr). reflexivity.
Qed.

Lemma bytes_of_u16_length z : length (bytes_of_u16 z) = 2%nat.
Proof. apply be_bytes_length. Qed.
Lemma bytes_of_u16_zlen z : zlen (bytes_of_u16 z) = 2.
Proof. unfold zlen. rewrite bytes_of_u16_length. reflexivity. Qed.

Lemma nodes_bytes_zlen nodes : Forall wf_node nodes -> zlen (flat_map encode_node nodes) = 34 * zlen nodes.
Proof.
  intros H. unfold zlen. rewrite (flat_map_length_const encode_node 34 nodes); [lia|].
  eapply Forall_impl; [|exact H]. intros n Hn. apply encode_node_length. exact Hn.
Qed.
Lemma edges_bytes_zlen (edges : list Z) : zlen (flat_map bytes_of_u16 edges) = 2 * zlen edges.
Proof.
  unfold zlen. rewrite (flat_map_length_const bytes_of_u16 2 edges); [lia|].
  apply Forall_forall. intros e _. apply bytes_of_u16_length.
Qed.

(* ---------- decoding a structured byte string ---------- *)
Lemma decode_struct (L1 N L2 E extra : list Z) n e :
  zlen L1 = 2 -> u16_of_bytes L1 = n -> zlen N = 34 * n ->
  zlen L2 = 2 -> u16_of_bytes L2 = e -> zlen E = 2 * e ->
  decode_predicate (L1 ++ N ++ L2 ++ E ++ extra) =
  Ok {| p_nodes := map decode_node (firstn (Z.to_nat n) (chunks (length N) 34 N));
        p_edges := map u16_of_bytes (chunks (length E) 2 E) |}.
Proof.
  intros HL1 V1 HN HL2 V2 HE.
  set (B := L1 ++ N ++ L2 ++ E ++ extra).
  assert (G1 : get_range 0 2 B = Some L1).
  { apply (get_range_mid [] L1 (N ++ L2 ++ E ++ extra)); [reflexivity|reflexivity|].
    change (zlen (@nil Z)) with 0. lia. }
  assert (G2 : get_range 2 (2 + n * 34) B = Some N).
  { apply (get_range_mid L1 N (L2 ++ E ++ extra)); [reflexivity|lia|lia]. }
  assert (G3 : get_range (n * 34 + 2) (n * 34 + 2 + 2) B = Some L2).
  { apply (get_range_mid (L1 ++ N) L2 (E ++ extra)).
    - unfold B. rewrite <- !app_assoc. reflexivity.
    - rewrite plen_app. lia.
    - rewrite plen_app. lia. }
  assert (G4 : get_range (n * 34 + 2 + 2) (n * 34 + 2 + 2 + e * 2) B = Some E).
  { apply (get_range_mid (L1 ++ N ++ L2) E extra).
    - unfold B. rewrite <- !app_assoc. reflexivity.
    - rewrite !plen_app. lia.
    - rewrite !plen_app. lia. }
  unfold decode_predicate.
  rewrite len_size_bytes_eq, node_size_bytes_eq, edge_size_bytes_eq.
  rewrite G1. cbv beta iota zeta. rewrite V1.
  rewrite G2. cbv beta iota zeta.
  rewrite G3. cbv beta iota zeta. rewrite V2.
  rewrite G4. cbv beta iota zeta.
  reflexivity.
Qed.

(* ---------- 1. round trip ---------- *)
Lemma decode_encode_predicate_extra p extra :
  wf_pred p -> zlen (p_nodes p) <= 1000 -> zlen (p_edges p) <= 1000 ->
  exists bs, encode_predicate p = Ok bs /\ decode_predicate (bs ++ extra) = Ok p.
Proof.
  intros [Hn He] Ln Le. destruct p as [nodes edges]. cbn [p_nodes p_edges] in *.
  unfold encode_predicate. cbn [p_nodes p_edges].
  rewrite max_nodes_eq, max_edges_eq.
  destruct (Z.ltb_spec 1000 (zlen nodes)) as [C1|_]; [lia|].
  destruct (Z.ltb_spec 1000 (zlen edges)) as [C2|_]; [lia|].
  eexists. split; [reflexivity|].
  rewrite <- !app_assoc.
  pose proof (plen_nonneg nodes) as P1. pose proof (plen_nonneg edges) as P2.
  rewrite (decode_struct (bytes_of_u16 (zlen nodes)) (flat_map encode_node nodes)
             (bytes_of_u16 (zlen edges)) (flat_map bytes_of_u16 edges) extra (zlen nodes) (zlen edges)).
  - f_equal.
    assert (F34 : Forall (fun x => length (encode_node x) = 34%nat) nodes).
    { eapply Forall_impl; [|exact Hn]. intros n Hw. apply encode_node_length. exact Hw. }
    assert (F2 : Forall (fun x => length (bytes_of_u16 x) = 2%nat) edges).
    { apply Forall_forall. intros x _. apply bytes_of_u16_length. }
    rewrite (chunks_flat_map encode_node 34 nodes (length (flat_map encode_node nodes))); [|lia|exact F34|].
    2:{ rewrite (flat_map_length_const encode_node 34 nodes F34). lia. }
    rewrite (chunks_flat_map bytes_of_u16 2 edges (length (flat_map bytes_of_u16 edges))); [|lia|exact F2|].
    2:{ rewrite (flat_map_length_const bytes_of_u16 2 edges F2). lia. }
    rewrite firstn_all2 by (rewrite map_length; unfold zlen; lia).
    rewrite !map_map.
    rewrite (map_id_Forall (fun x => decode_node (encode_node x)) nodes).
    2:{ eapply Forall_impl; [|exact Hn]. intros n Hw. apply decode_encode_node. exact Hw. }
    rewrite (map_id_Forall (fun x => u16_of_bytes (bytes_of_u16 x)) edges).
    2:{ eapply Forall_impl; [|exact He]. intros x Hx. apply u16_roundtrip. exact Hx. }
    reflexivity.
  - apply bytes_of_u16_zlen.
  - apply u16_roundtrip. unfold u16. lia.
  - apply nodes_bytes_zlen. exact Hn.
  - apply bytes_of_u16_zlen.
  - apply u16_roundtrip. unfold u16. lia.
  - apply edges_bytes_zlen.
Qed.

Lemma decode_encode_predicate p :
  wf_pred p -> zlen (p_nodes p) <= 1000 -> zlen (p_edges p) <= 1000 ->
  exists bs, encode_predicate p = Ok bs /\ decode_predicate bs = Ok p.
Proof.
  intros W Ln Le. destruct (decode_encode_predicate_extra p [] W Ln Le) as [bs [E D]].
  exists bs. split; [exact E|]. rewrite app_nil_r in D. exact D.
Qed.

(* ---------- 2. encoder errors ---------- *)
Lemma encode_err_nodes p : encode_predicate p = Err TooManyNodes <-> 1000 < zlen (p_nodes p).
Proof.
  unfold encode_predicate. rewrite max_nodes_eq, max_edges_eq.
  destruct (Z.ltb_spec 1000 (zlen (p_nodes p))) as [C1|C1].
  - split; intros _; [exact C1|reflexivity].
  - destruct (Z.ltb_spec 1000 (zlen (p_edges p))) as [C2|C2]; split; intros H; try discriminate; exfalso; lia.
Qed.

Lemma encode_err_edges p :
  encode_predicate p = Err TooManyEdges <-> zlen (p_nodes p) <= 1000 /\ 1000 < zlen (p_edges p).
Proof.
  unfold encode_predicate. rewrite max_nodes_eq, max_edges_eq.
  destruct (Z.ltb_spec 1000 (zlen (p_nodes p))) as [C1|C1].
  - split; intros H; [discriminate|exfalso; lia].
  - destruct (Z.ltb_spec 1000 (zlen (p_edges p))) as [C2|C2]; split; intros H.
    + split; assumption.
    + reflexivity.
    + discriminate.
    + exfalso; lia.
Qed.

Lemma encode_ok_iff p :
  (exists bs, encode_predicate p = Ok bs) <-> zlen (p_nodes p) <= 1000 /\ zlen (p_edges p) <= 1000.
Proof.
  unfold encode_predicate. rewrite max_nodes_eq, max_edges_eq.
  destruct (Z.ltb_spec 1000 (zlen (p_nodes p))) as [C1|C1].
  - split; [intros [bs H]; discriminate|intros H; exfalso; lia].
  - destruct (Z.ltb_spec 1000 (zlen (p_edges p))) as [C2|C2].
    + split; [intros [bs H]; discriminate|intros H; exfalso; lia].
    + split; [intros _; split; assumption|intros _; eexists; reflexivity].
Qed.

Lemma encode_total p : (forall s, encode_predicate p <> Panic s) /\ encode_predicate p <> OutOfFuel.
Proof.
  unfold encode_predicate.
  destruct (max_nodes <? zlen (p_nodes p)); [split; [intros s|]; discriminate|].
  destruct (max_edges <? zlen (p_edges p)); split; try intros s; discriminate.
Qed.

(* the bytes produced on success, spelled out *)
Lemma encode_ok_bytes p bs :
  encode_predicate p = Ok bs ->
  bs = bytes_of_u16 (zlen (p_nodes p)) ++ flat_map encode_node (p_nodes p)
       ++ bytes_of_u16 (zlen (p_edges p)) ++ flat_map bytes_of_u16 (p_edges p).
Proof.
  unfold encode_predicate.
  destruct (max_nodes <? zlen (p_nodes p)); [discriminate|].
  destruct (max_edges <? zlen (p_edges p)); [discriminate|].
  intros H. injection H as H. symmetry. exact H.
Qed.

(* ---------- 3. size ---------- *)
Lemma encode_length p bs :
  wf_pred p -> encode_predicate p = Ok bs ->
  zlen bs = 34 * zlen (p_nodes p) + 2 * zlen (p_edges p) + 4.
Proof.
  intros [Hn He] H. apply encode_ok_bytes in H. subst bs.
  rewrite !plen_app, !bytes_of_u16_zlen, (nodes_bytes_zlen _ Hn), edges_bytes_zlen. lia.
Qed.

Lemma encoded_size_formula p :
  predicate_encoded_size p = 34 * zlen (p_nodes p) + 2 * zlen (p_edges p) + 4.
Proof.
  unfold predicate_encoded_size. rewrite node_size_bytes_eq, edge_size_bytes_eq, len_size_bytes_eq. lia.
Qed.

Lemma encoded_size_eq_length p bs :
  wf_pred p -> encode_predicate p = Ok bs ->
  predicate_encoded_size p = zlen bs /\
  zlen bs = 34 * zlen (p_nodes p) + 2 * zlen (p_edges p) + 4.
Proof.
  intros W H. pose proof (encode_length p bs W H) as L. rewrite encoded_size_formula. split; lia.
Qed.

(* ---------- 4. injectivity, bytes ---------- *)
Lemma encode_predicate_injective p q bs :
  wf_pred p -> wf_pred q -> encode_predicate p = Ok bs -> encode_predicate q = Ok bs -> p = q.
Proof.
  intros Wp Wq Hp Hq.
  assert (Bp : zlen (p_nodes p) <= 1000 /\ zlen (p_edges p) <= 1000) by (apply encode_ok_iff; eauto).
  assert (Bq : zlen (p_nodes q) <= 1000 /\ zlen (p_edges q) <= 1000) by (apply encode_ok_iff; eauto).
  destruct (decode_encode_predicate p Wp (proj1 Bp) (proj2 Bp)) as [b1 [E1 D1]].
  destruct (decode_encode_predicate q Wq (proj1 Bq) (proj2 Bq)) as [b2 [E2 D2]].
  rewrite Hp in E1. rewrite Hq in E2.
  injection E1 as E1. injection E2 as E2. subst b1 b2.
  rewrite D1 in D2. injection D2 as D2. exact D2.
Qed.

Lemma encode_bytes p bs : wf_pred p -> encode_predicate p = Ok bs -> Forall byte bs.
Proof.
  intros [Hn He] H. apply encode_ok_bytes in H. subst bs.
  apply Forall_app; split; [|apply Forall_app; split; [|apply Forall_app; split]].
  - apply be_bytes_byte.
  - apply Forall_flat_map. intros n Hin. apply encode_node_byte.
    rewrite Forall_forall in Hn. apply Hn. exact Hin.
  - apply be_bytes_byte.
  - apply Forall_flat_map. intros e _. apply be_bytes_byte.
Qed.

(* ---------- 5. decoder totality and failure ---------- *)
Lemma decode_predicate_total bs :
  (forall s, decode_predicate bs <> Panic s) /\ decode_predicate bs <> OutOfFuel.
Proof.
  unfold decode_predicate.
  destruct (get_range 0 len_size_bytes bs) as [nb|]; [|split; [intros s|]; discriminate].
  destruct (get_range len_size_bytes _ bs) as [nbytes|]; [|split; [intros s|]; discriminate].
  cbv zeta.
  destruct (get_range _ _ bs) as [eb|]; [|split; [intros s|]; discriminate].
  destruct (get_range _ _ bs) as [ebytes|]; split; try intros s; discriminate.
Qed.

Lemma hdr_nodes_nonneg bs : Forall byte bs -> 0 <= hdr_nodes bs < 65536.
Proof.
  intros H. unfold hdr_nodes, u16_of_bytes.
  pose proof (be_val_nonneg (firstn 2 bs) (pForall_firstn byte 2 bs H)) as R.
  pose proof (firstn_le_length 2 bs) as L.
  assert (256 ^ Z.of_nat (length (firstn 2 bs)) <= 256 ^ 2) by (apply Z.pow_le_mono_r; lia).
  lia.
Qed.

Lemma hdr_edges_nonneg bs : Forall byte bs -> 0 <= hdr_edges bs < 65536.
Proof.
  intros H. unfold hdr_edges, u16_of_bytes.
  set (l := firstn 2 _).
  assert (Hl : Forall byte l) by (apply pForall_firstn, pForall_skipn; exact H).
  pose proof (be_val_nonneg l Hl) as R.
  assert (L : (length l <= 2)%nat) by apply firstn_le_length.
  assert (256 ^ Z.of_nat (length l) <= 256 ^ 2) by (apply Z.pow_le_mono_r; lia).
  lia.
Qed.

(* One case analysis gives everything: either some documented field is cut short and the decoder
   reports BytesTooShort, or none is and it succeeds. *)
Lemma decode_cases bs :
  Forall byte bs ->
  (too_short bs /\ decode_predicate bs = Err BytesTooShort) \/
  (~ too_short bs /\ exists p, decode_predicate bs = Ok p).
Proof.
  intros HB. pose proof (hdr_nodes_nonneg bs HB) as Rn. pose proof (hdr_edges_nonneg bs HB) as Re.
  unfold too_short, decode_predicate.
  rewrite len_size_bytes_eq, node_size_bytes_eq, edge_size_bytes_eq.
  destruct (get_range_cases 0 2 bs ltac:(lia)) as [[S1 G1]|[S1 G1]]; rewrite G1.
  { left. split; [left; exact S1|reflexivity]. }
  change (pslice 0 2 bs) with (firstn 2 bs). cbv beta iota zeta.
  change (u16_of_bytes (firstn 2 bs)) with (hdr_nodes bs).
  set (n := hdr_nodes bs) in *.
  destruct (get_range_cases 2 (2 + n * 34) bs ltac:(lia)) as [[S2 G2]|[S2 G2]]; rewrite G2.
  { left. split; [right; left; lia|reflexivity]. }
  cbv beta iota zeta.
  destruct (get_range_cases (n * 34 + 2) (n * 34 + 2 + 2) bs ltac:(lia)) as [[S3 G3]|[S3 G3]]; rewrite G3.
  { left. split; [right; right; left; lia|reflexivity]. }
  cbv beta iota zeta.
  assert (EQ : u16_of_bytes (pslice (n * 34 + 2) (n * 34 + 2 + 2) bs) = hdr_edges bs).
  { unfold hdr_edges, pslice. fold n.
    replace (Z.to_nat (n * 34 + 2 + 2 - (n * 34 + 2))) with 2%nat by lia.
    replace (n * 34 + 2) with (2 + 34 * n) by lia. reflexivity. }
  rewrite EQ. set (e := hdr_edges bs) in *.
  destruct (get_range_cases (n * 34 + 2 + 2) (n * 34 + 2 + 2 + e * 2) bs ltac:(lia)) as [[S4 G4]|[S4 G4]]; rewrite G4.
  { left. split; [right; right; right; lia|reflexivity]. }
  right. split; [lia|]. eexists. reflexivity.
Qed.

Lemma decode_too_short_iff bs :
  Forall byte bs -> (decode_predicate bs = Err BytesTooShort <-> too_short bs).
Proof.
  intros HB. destruct (decode_cases bs HB) as [[T D]|[T [p D]]]; rewrite D; split; intros H.
  - exact T.
  - reflexivity.
  - discriminate.
  - contradiction.
Qed.

Lemma decode_ok_iff bs :
  Forall byte bs -> ((exists p, decode_predicate bs = Ok p) <-> ~ too_short bs).
Proof.
  intros HB. destruct (decode_cases bs HB) as [[T D]|[T [p D]]]; rewrite D; split; intros H.
  - destruct H as [q H]. discriminate.
  - contradiction.
  - exact T.
  - exists p. reflexivity.
Qed.

(* Without the byte hypothesis: the only error is BytesTooShort (there is only one constructor). *)
Lemma decode_result bs : decode_predicate bs = Err BytesTooShort \/ exists p, decode_predicate bs = Ok p.
Proof.
  pose proof (decode_predicate_total bs) as [NP NF].
  destruct (decode_predicate bs) as [p|e|s|] eqn:D.
  - right. exists p. reflexivity.
  - left. destruct e. reflexivity.
  - exfalso. exact (NP s eq_refl).
  - exfalso. exact (NF eq_refl).
Qed.

(* ---------- 6. node_edges ---------- *)
Lemma doc_edge_end_next p ix nx :
  nth_error (p_nodes p) (S ix) = Some nx -> n_edge_start nx <> 65535 -> doc_edge_end p ix = n_edge_start nx.
Proof.
  intros H Hne. unfold doc_edge_end. rewrite H.
  destruct (Z.eqb_spec (n_edge_start nx) 65535) as [E|_]; [contradiction|reflexivity].
Qed.
Lemma doc_edge_end_next_leaf p ix nx :
  nth_error (p_nodes p) (S ix) = Some nx -> n_edge_start nx = 65535 -> doc_edge_end p ix = zlen (p_edges p).
Proof. intros H E. unfold doc_edge_end. rewrite H, E. reflexivity. Qed.
Lemma doc_edge_end_last p ix :
  nth_error (p_nodes p) (S ix) = None -> doc_edge_end p ix = zlen (p_edges p).
Proof. intros H. unfold doc_edge_end. rewrite H. reflexivity. Qed.

Lemma node_edges_oob p ix : (length (p_nodes p) <= ix)%nat -> node_edges p ix = None.
Proof. intros H. unfold node_edges. apply nth_error_None in H. rewrite H. reflexivity. Qed.

Lemma node_edges_leaf p ix nd :
  nth_error (p_nodes p) ix = Some nd -> n_edge_start nd = 65535 -> node_edges p ix = Some [].
Proof. intros H E. unfold node_edges. rewrite H, E. reflexivity. Qed.

Lemma node_edges_nonleaf p ix nd :
  nth_error (p_nodes p) ix = Some nd -> n_edge_start nd <> 65535 ->
  node_edges p ix =
  if (doc_edge_end p ix <? n_edge_start nd) || (zlen (p_edges p) <? doc_edge_end p ix) then None
  else Some (pslice (n_edge_start nd) (doc_edge_end p ix) (p_edges p)).
Proof.
  intros H Hne. unfold node_edges. rewrite H.
  destruct (Z.eqb_spec (n_edge_start nd) edge_max) as [E|_]; [unfold edge_max in E; contradiction|].
  reflexivity.
Qed.

Lemma node_edges_in_range p ix nd :
  nth_error (p_nodes p) ix = Some nd -> n_edge_start nd <> 65535 ->
  n_edge_start nd <= doc_edge_end p ix <= zlen (p_edges p) ->
  node_edges p ix = Some (pslice (n_edge_start nd) (doc_edge_end p ix) (p_edges p)).
Proof.
  intros H Hne R. rewrite (node_edges_nonleaf p ix nd H Hne).
  destruct (Z.ltb_spec (doc_edge_end p ix) (n_edge_start nd)) as [C|_]; [lia|].
  destruct (Z.ltb_spec (zlen (p_edges p)) (doc_edge_end p ix)) as [C|_]; [lia|]. reflexivity.
Qed.

Lemma node_edges_out_of_range p ix nd :
  nth_error (p_nodes p) ix = Some nd -> n_edge_start nd <> 65535 ->
  ~ (n_edge_start nd <= doc_edge_end p ix <= zlen (p_edges p)) ->
  node_edges p ix = None.
Proof.
  intros H Hne R. rewrite (node_edges_nonleaf p ix nd H Hne).
  destruct (Z.ltb_spec (doc_edge_end p ix) (n_edge_start nd)) as [C|C1]; [reflexivity|].
  destruct (Z.ltb_spec (zlen (p_edges p)) (doc_edge_end p ix)) as [C|C2]; [reflexivity|]. exfalso. lia.
Qed.

Lemma node_edges_documented_range p ix :
  ((length (p_nodes p) <= ix)%nat -> node_edges p ix = None) /\
  (forall nd, nth_error (p_nodes p) ix = Some nd ->
     (n_edge_start nd = 65535 -> node_edges p ix = Some []) /\
     (n_edge_start nd <> 65535 ->
        let e_start := n_edge_start nd in
        let e_end := doc_edge_end p ix in
        (e_start <= e_end <= zlen (p_edges p) ->
           node_edges p ix = Some (firstn (Z.to_nat (e_end - e_start)) (skipn (Z.to_nat e_start) (p_edges p)))) /\
        (~ (e_start <= e_end <= zlen (p_edges p)) -> node_edges p ix = None))).
Proof.
  split; [apply node_edges_oob|]. intros nd H. split; [apply node_edges_leaf; exact H|].
  intros Hne. cbv zeta. split.
  - apply node_edges_in_range; assumption.
  - apply node_edges_out_of_range; assumption.
Qed.

(* iff form for a non-leaf node *)
Lemma node_edges_some_iff p ix nd l :
  nth_error (p_nodes p) ix = Some nd -> n_edge_start nd <> 65535 ->
  (node_edges p ix = Some l <->
   n_edge_start nd <= doc_edge_end p ix <= zlen (p_edges p) /\
   l = firstn (Z.to_nat (doc_edge_end p ix - n_edge_start nd)) (skipn (Z.to_nat (n_edge_start nd)) (p_edges p))).
Proof.
  intros H Hne. split.
  - intros E.
    destruct (Z_le_dec (n_edge_start nd) (doc_edge_end p ix)) as [A|A];
    [destruct (Z_le_dec (doc_edge_end p ix) (zlen (p_edges p))) as [B|B]|].
    + rewrite (node_edges_in_range p ix nd H Hne (conj A B)) in E. injection E as E.
      split; [split; assumption|]. symmetry. exact E.
    + rewrite (node_edges_out_of_range p ix nd H Hne) in E by lia. discriminate.
    + rewrite (node_edges_out_of_range p ix nd H Hne) in E by lia. discriminate.
  - intros [R ->]. apply node_edges_in_range; assumption.
Qed.

Lemma node_edges_total p ix :
  node_edges p ix = None \/
  exists l, node_edges p ix = Some l /\ (forall e, In e l -> In e (p_edges p)).
Proof.
  unfold node_edges.
  destruct (nth_error (p_nodes p) ix) as [nd|]; [|left; reflexivity].
  destruct (n_edge_start nd =? edge_max).
  { right. exists []. split; [reflexivity|]. intros e []. }
  cbv zeta.
  destruct (orb _ _); [left; reflexivity|].
  right. eexists. split; [reflexivity|]. intros e He.
  apply pIn_firstn in He. apply pIn_skipn in He. exact He.
Qed.

Lemma node_edges_length p ix l : node_edges p ix = Some l -> (length l <= length (p_edges p))%nat.
Proof.
  unfold node_edges.
  destruct (nth_error (p_nodes p) ix) as [nd|]; [|discriminate].
  destruct (n_edge_start nd =? edge_max).
  { intros H. injection H as H. subst l. cbn [length]. lia. }
  cbv zeta.
  destruct (orb _ _); [discriminate|].
  intros H. injection H as H. subst l.
  rewrite firstn_length, skipn_length. lia.
Qed.

(* The slice of a well-formed non-leaf node has exactly e_end - e_start elements. *)
Lemma node_edges_slice_length p ix nd l :
  nth_error (p_nodes p) ix = Some nd -> n_edge_start nd <> 65535 -> 0 <= n_edge_start nd ->
  node_edges p ix = Some l -> zlen l = doc_edge_end p ix - n_edge_start nd.
Proof.
  intros H Hne H0 E. apply (node_edges_some_iff p ix nd l H Hne) in E. destruct E as [R ->].
  unfold zlen in *. rewrite firstn_length, skipn_length. lia.
Qed.

(* ---------- 7. examples ---------- *)
Definition ex_pred : predicate :=
  {| p_nodes := [ {| n_edge_start := 0; n_program := repeat 7 32 |};
                  {| n_edge_start := 65535; n_program := repeat 8 32 |};
                  {| n_edge_start := 65535; n_program := repeat 255 32 |} ];
     p_edges := [1; 2] |}.

Definition ex_bytes : list Z :=
  match encode_predicate ex_pred with Ok bs => bs | _ => [] end.

Lemma ex_pred_wf : wf_pred ex_pred.
Proof.
  unfold wf_pred, wf_node, ex_pred, byte. cbn [p_nodes p_edges n_edge_start n_program repeat].
  repeat constructor; try reflexivity; try discriminate.
Qed.

Lemma ex_encode_len : encode_predicate ex_pred = Ok ex_bytes /\ zlen ex_bytes = 110 /\ predicate_encoded_size ex_pred = 110.
Proof. vm_compute. repeat split; reflexivity. Qed.
Lemma ex_roundtrip : decode_predicate ex_bytes = Ok ex_pred.
Proof. vm_compute. reflexivity. Qed.
Lemma ex_roundtrip_extra : decode_predicate (ex_bytes ++ [1; 2; 3]) = Ok ex_pred.
Proof. vm_compute. reflexivity. Qed.
Lemma ex_truncated : decode_predicate (firstn 109 ex_bytes) = Err BytesTooShort.
Proof. vm_compute. reflexivity. Qed.
Lemma ex_truncated_all :
  forallb (fun k => match decode_predicate (firstn k ex_bytes) with Err BytesTooShort => true | _ => false end)
          (seq 0 110) = true.
Proof. vm_compute. reflexivity. Qed.
Lemma ex_node_edges :
  node_edges ex_pred 0 = Some [1; 2] /\ node_edges ex_pred 1 = Some [] /\
  node_edges ex_pred 2 = Some [] /\ node_edges ex_pred 3 = None.
Proof. vm_compute. repeat split; reflexivity. Qed.
(* a non-leaf node followed by a non-leaf node, and a node whose range is out of bounds *)
Definition ex_pred2 : predicate :=
  {| p_nodes := [ {| n_edge_start := 0; n_program := repeat 1 32 |};
                  {| n_edge_start := 1; n_program := repeat 2 32 |};
                  {| n_edge_start := 5; n_program := repeat 3 32 |} ];
     p_edges := [1; 2; 2] |}.
Lemma ex_node_edges2 :
  node_edges ex_pred2 0 = Some [1] /\ node_edges ex_pred2 1 = None /\ node_edges ex_pred2 2 = None.
Proof. vm_compute. repeat split; reflexivity. Qed.
