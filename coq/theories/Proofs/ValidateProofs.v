(* Proofs about the validators (Check/Validate.v) and the mutation-computing part of the set
   checker (Check/Set.v: apply_muts, apply_outputs, decode_mutations_set, check_and_compute, two_pass).
   Used by Properties/C16.v and Properties/C04Validate.v. *)
From Coq Require Import ZArith List Lia Bool Permutation.
From EB Require Import Check.Validate.
Import ListNotations.
Open Scope list_scope.
Open Scope Z_scope.

(* ---------- the limits ---------- *)
Lemma max_solutions_eq : max_solutions = 100. Proof. reflexivity. Qed.
Lemma max_predicate_data_eq : max_predicate_data = 100. Proof. reflexivity. Qed.
Lemma max_state_mutations_eq : max_state_mutations = 1000. Proof. reflexivity. Qed.
Lemma max_value_size_eq : max_value_size = 10000. Proof. reflexivity. Qed.
Lemma max_key_size_eq : max_key_size = 1000. Proof. reflexivity. Qed.
Lemma max_predicates_eq : max_predicates = 100. Proof. reflexivity. Qed.
Lemma max_nodes_eq : max_nodes = 1000. Proof. reflexivity. Qed.
Lemma max_edges_eq : max_edges = 1000. Proof. reflexivity. Qed.

(* ---------- keys ---------- *)
Lemma zlist_eqb_true (a b : list Z) : zlist_eqb a b = true <-> a = b.
Proof. unfold zlist_eqb. destruct (list_eq_dec Z.eq_dec a b) as [e|n]; split; congruence. Qed.

Lemma key_in_true (k : list Z) (ks : list (list Z)) : key_in k ks = true <-> In k ks.
Proof.
  unfold key_in. rewrite existsb_exists. split.
  - intros [x [Hin He]]. apply zlist_eqb_true in He. subst x. exact Hin.
  - intros H. exists k. split; [exact H | apply zlist_eqb_true; reflexivity].
Qed.

Lemma key_in_false (k : list Z) (ks : list (list Z)) : key_in k ks = false <-> ~ In k ks.
Proof. rewrite <- key_in_true. destruct (key_in k ks); split; congruence. Qed.

Lemma key_dec (a b : list Z) : {a = b} + {a <> b}.
Proof. exact (list_eq_dec Z.eq_dec a b). Qed.

(* an outcome of a validator: accepted or a typed error, nothing else *)
Definition ok_or_err {E : Type} (x : outcome E unit) : Prop := x = Ok tt \/ exists e, x = Err e.

Lemma ok_or_err_ok {E : Type} : ok_or_err (@Ok E unit tt).
Proof. left. reflexivity. Qed.
Lemma ok_or_err_err {E : Type} (e : E) : ok_or_err (@Err E unit e).
Proof. right. exists e. reflexivity. Qed.

(* ---------- total number of mutations ---------- *)
Definition total_mutations (sols : list solution) : Z :=
  fold_right (fun s a => zlen (sol_muts s) + a) 0 sols.

Lemma total_mutations_cons s r : total_mutations (s :: r) = zlen (sol_muts s) + total_mutations r.
Proof. reflexivity. Qed.

Lemma state_mutations_fold (sols : list solution) (a : Z) :
  fold_left (fun a s => a + zlen (sol_muts s)) sols a = a + total_mutations sols.
Proof.
  revert a. induction sols as [|s r IH]; intros a.
  - cbn [fold_left total_mutations fold_right]. lia.
  - cbn [fold_left]. rewrite IH, total_mutations_cons. lia.
Qed.

Lemma state_mutations_len_total (sols : list solution) : state_mutations_len sols = total_mutations sols.
Proof. unfold state_mutations_len. rewrite state_mutations_fold. lia. Qed.

Lemma total_mutations_perm (a b : list solution) : Permutation a b -> total_mutations a = total_mutations b.
Proof.
  intros H. induction H as [|x l l' Hp IH|x y l|l l' l'' H1 IH1 H2 IH2].
  - reflexivity.
  - rewrite !total_mutations_cons, IH. reflexivity.
  - rewrite !total_mutations_cons. lia.
  - congruence.
Qed.

Lemma Forall_perm {A : Type} (P : A -> Prop) (a b : list A) : Permutation a b -> Forall P a -> Forall P b.
Proof.
  intros H HF. rewrite Forall_forall in *. intros x Hx. apply HF.
  apply Permutation_in with (l := b); [apply Permutation_sym; exact H | exact Hx].
Qed.

Lemma zlen_perm {A : Type} (a b : list A) : Permutation a b -> zlen a = zlen b.
Proof. intros H. unfold zlen. rewrite (Permutation_length H). reflexivity. Qed.

(* ---------- check_solutions ---------- *)
Lemma existsb_gt_false (n : Z) (l : list (list Z)) :
  existsb (fun v => n <? zlen v) l = false <-> Forall (fun v => zlen v <= n) l.
Proof.
  induction l as [|v l IH]; cbn [existsb].
  - split; auto.
  - rewrite orb_false_iff, IH. split.
    + intros [H1 H2]. apply Z.ltb_ge in H1. constructor; assumption.
    + intros H. inversion H as [|x y Hx Hy]; subst. split; [apply Z.ltb_ge; assumption | assumption].
Qed.

Lemma check_solutions_go_iff (ix : nat) (sols : list solution) :
  Validate.check_solutions_go ix sols = Ok tt <->
  Forall (fun s => zlen (sol_data s) <= 100 /\ Forall (fun v => zlen v <= 10000) (sol_data s)) sols.
Proof.
  revert ix. induction sols as [|s r IH]; intros ix; cbn [Validate.check_solutions_go].
  - split; auto.
  - rewrite max_predicate_data_eq, max_value_size_eq.
    destruct (Z.ltb_spec 100 (zlen (sol_data s))) as [Hd|Hd].
    + split; [discriminate|]. intros H. inversion H as [|x y [Hx _] Hy]; subst. lia.
    + destruct (existsb (fun v => 10000 <? zlen v) (sol_data s)) eqn:He.
      * split; [discriminate|]. intros H. inversion H as [|x y [_ Hx] Hy]; subst.
        apply existsb_gt_false in Hx. congruence.
      * apply existsb_gt_false in He. rewrite IH. split.
        -- intros H. constructor; [split; assumption | assumption].
        -- intros H. inversion H; subst; assumption.
Qed.

Lemma check_solutions_go_total (ix : nat) (sols : list solution) :
  ok_or_err (Validate.check_solutions_go ix sols).
Proof.
  revert ix. induction sols as [|s r IH]; intros ix; cbn [Validate.check_solutions_go].
  - apply ok_or_err_ok.
  - destruct (max_predicate_data <? zlen (sol_data s)); [apply ok_or_err_err|].
    destruct (existsb (fun v => max_value_size <? zlen v) (sol_data s)); [apply ok_or_err_err|].
    apply IH.
Qed.

Lemma check_solutions_iff (sols : list solution) :
  check_solutions sols = Ok tt <->
  1 <= zlen sols <= 100 /\
  Forall (fun s => zlen (sol_data s) <= 100 /\ Forall (fun v => zlen v <= 10000) (sol_data s)) sols.
Proof.
  unfold check_solutions. destruct sols as [|s r].
  - split; [discriminate|]. unfold zlen. cbn [length]. lia.
  - rewrite max_solutions_eq.
    assert (Hpos : 1 <= zlen (s :: r)) by (unfold zlen; cbn [length]; lia).
    destruct (Z.ltb_spec 100 (zlen (s :: r))) as [Hd|Hd].
    + split; [discriminate | lia].
    + rewrite check_solutions_go_iff. split; [intros H; split; [lia | exact H] | intros [_ H]; exact H].
Qed.

Lemma check_solutions_total (sols : list solution) : ok_or_err (check_solutions sols).
Proof.
  unfold check_solutions. destruct sols as [|s r]; [apply ok_or_err_err|].
  destruct (max_solutions <? zlen (s :: r)); [apply ok_or_err_err | apply check_solutions_go_total].
Qed.

(* ---------- check_set_state_mutations ---------- *)
Lemma check_muts_iff (ix : nat) (seen : list (list Z)) (ms : list mutation) :
  check_muts ix seen ms = Ok tt <->
  Forall (fun m => ~ In (m_key m) seen) ms /\ NoDup (map m_key ms) /\
  Forall (fun m => zlen (m_key m) <= 1000 /\ zlen (m_value m) <= 10000) ms.
Proof.
  revert seen. induction ms as [|m r IH]; intros seen; cbn [check_muts map].
  - split; [intros _; repeat split; constructor | reflexivity].
  - rewrite max_key_size_eq, max_value_size_eq.
    destruct (key_in (m_key m) seen) eqn:Hk.
    { split; [discriminate|]. intros [H _]. apply key_in_true in Hk.
      inversion H as [|x y Hx Hy]; subst. contradiction. }
    apply key_in_false in Hk.
    destruct (Z.ltb_spec 1000 (zlen (m_key m))) as [Hks|Hks].
    { split; [discriminate|]. intros [_ [_ H]]. inversion H as [|x y [Hx _] Hy]; subst. lia. }
    destruct (Z.ltb_spec 10000 (zlen (m_value m))) as [Hvs|Hvs].
    { split; [discriminate|]. intros [_ [_ H]]. inversion H as [|x y [_ Hx] Hy]; subst. lia. }
    rewrite IH. split.
    + intros [Hs [Hn Hz]]. rewrite Forall_forall in Hs. split; [|split].
      * constructor; [exact Hk|]. apply Forall_forall. intros x Hx Hin.
        apply (Hs x Hx). right. exact Hin.
      * constructor; [|exact Hn]. intros Hin. apply in_map_iff in Hin.
        destruct Hin as [x [Hxe Hx]]. apply (Hs x Hx). left. symmetry. exact Hxe.
      * constructor; [split; assumption | exact Hz].
    + intros [Hs [Hn Hz]].
      inversion Hs as [|x1 y1 Hs1 Hs2]; subst.
      inversion Hn as [|x2 y2 Hn1 Hn2]; subst.
      inversion Hz as [|x3 y3 Hz1 Hz2]; subst.
      split; [|split; assumption].
      apply Forall_forall. intros x Hx [Hin|Hin].
      * apply Hn1. apply in_map_iff. exists x. split; [symmetry; exact Hin | exact Hx].
      * rewrite Forall_forall in Hs2. exact (Hs2 x Hx Hin).
Qed.

Lemma check_muts_nil_iff (ix : nat) (ms : list mutation) :
  check_muts ix [] ms = Ok tt <->
  NoDup (map m_key ms) /\ Forall (fun m => zlen (m_key m) <= 1000 /\ zlen (m_value m) <= 10000) ms.
Proof.
  rewrite check_muts_iff. split.
  - intros [_ H]. exact H.
  - intros H. split; [|exact H]. apply Forall_forall. intros x _ Hin. exact Hin.
Qed.

Lemma check_muts_total (ix : nat) (seen : list (list Z)) (ms : list mutation) : ok_or_err (check_muts ix seen ms).
Proof.
  revert seen. induction ms as [|m r IH]; intros seen; cbn [check_muts].
  - apply ok_or_err_ok.
  - destruct (key_in (m_key m) seen); [apply ok_or_err_err|].
    destruct (max_key_size <? zlen (m_key m)); [apply ok_or_err_err|].
    destruct (max_value_size <? zlen (m_value m)); [apply ok_or_err_err|].
    apply IH.
Qed.

Lemma check_muts_all_iff (ix : nat) (sols : list solution) :
  check_muts_all ix sols = Ok tt <->
  Forall (fun s => NoDup (map m_key (sol_muts s)) /\
                   Forall (fun m => zlen (m_key m) <= 1000 /\ zlen (m_value m) <= 10000) (sol_muts s)) sols.
Proof.
  revert ix. induction sols as [|s r IH]; intros ix; cbn [check_muts_all].
  - split; auto.
  - destruct (check_muts_total ix [] (sol_muts s)) as [Hm|[e Hm]].
    + rewrite Hm. cbn [bind]. rewrite IH. apply check_muts_nil_iff in Hm. split.
      * intros H. constructor; assumption.
      * intros H. inversion H; subst; assumption.
    + rewrite Hm. cbn [bind]. split; [discriminate|]. intros H.
      inversion H as [|x y Hx Hy]; subst. apply (check_muts_nil_iff ix) in Hx. congruence.
Qed.

Lemma check_muts_all_total (ix : nat) (sols : list solution) : ok_or_err (check_muts_all ix sols).
Proof.
  revert ix. induction sols as [|s r IH]; intros ix; cbn [check_muts_all].
  - apply ok_or_err_ok.
  - destruct (check_muts_total ix [] (sol_muts s)) as [Hm|[e Hm]]; rewrite Hm; cbn [bind].
    + apply IH.
    + apply ok_or_err_err.
Qed.

Lemma check_set_state_mutations_iff (sols : list solution) :
  check_set_state_mutations sols = Ok tt <->
  total_mutations sols <= 1000 /\
  Forall (fun s => NoDup (map m_key (sol_muts s)) /\
                   Forall (fun m => zlen (m_key m) <= 1000 /\ zlen (m_value m) <= 10000) (sol_muts s)) sols.
Proof.
  unfold check_set_state_mutations. rewrite max_state_mutations_eq, state_mutations_len_total.
  destruct (Z.ltb_spec 1000 (total_mutations sols)) as [Hd|Hd].
  - split; [discriminate | lia].
  - rewrite check_muts_all_iff. split; [intros H; split; [lia | exact H] | intros [_ H]; exact H].
Qed.

Lemma check_set_state_mutations_total (sols : list solution) : ok_or_err (check_set_state_mutations sols).
Proof.
  unfold check_set_state_mutations.
  destruct (max_state_mutations <? state_mutations_len sols); [apply ok_or_err_err | apply check_muts_all_total].
Qed.

(* ---------- check_set ---------- *)
Definition set_valid (sols : list solution) : Prop :=
  1 <= zlen sols <= 100 /\
  Forall (fun s => zlen (sol_data s) <= 100 /\ Forall (fun v => zlen v <= 10000) (sol_data s)) sols /\
  total_mutations sols <= 1000 /\
  Forall (fun s => NoDup (map m_key (sol_muts s)) /\
                   Forall (fun m => zlen (m_key m) <= 1000 /\ zlen (m_value m) <= 10000) (sol_muts s)) sols.

Theorem check_set_iff (sols : list solution) :
  check_set sols = Ok tt <->
  (1 <= zlen sols <= 100 /\
   Forall (fun s => zlen (sol_data s) <= 100 /\ Forall (fun v => zlen v <= 10000) (sol_data s)) sols /\
   total_mutations sols <= 1000 /\
   Forall (fun s => NoDup (map m_key (sol_muts s)) /\
                    Forall (fun m => zlen (m_key m) <= 1000 /\ zlen (m_value m) <= 10000) (sol_muts s)) sols).
Proof.
  unfold check_set.
  destruct (check_solutions_total sols) as [Hs|[e Hs]]; rewrite Hs; cbn [bind].
  - rewrite check_set_state_mutations_iff. apply check_solutions_iff in Hs. tauto.
  - split; [discriminate|]. intros [H1 [H2 _]].
    assert (Hc : check_solutions sols = Ok tt) by (apply check_solutions_iff; split; assumption).
    congruence.
Qed.

(* the verdict is accept or a typed error: never a panic, never out of fuel *)
Theorem check_set_total (sols : list solution) :
  check_set sols = Ok tt \/ exists e, check_set sols = Err e.
Proof.
  unfold check_set.
  destruct (check_solutions_total sols) as [Hs|[e Hs]]; rewrite Hs; cbn [bind].
  - apply check_set_state_mutations_total.
  - right. exists e. reflexivity.
Qed.

Theorem check_set_rejects (sols : list solution) :
  ~ set_valid sols -> exists e, check_set sols = Err e.
Proof.
  intros Hn. destruct (check_set_total sols) as [H|H]; [|exact H].
  exfalso. apply Hn. apply check_set_iff. exact H.
Qed.

(* ---------- predicate.rs ---------- *)
Theorem check_predicate_iff (p : predicate) :
  check_predicate_limits p = Ok tt <-> zlen (p_nodes p) <= 1000 /\ zlen (p_edges p) <= 1000.
Proof.
  unfold check_predicate_limits. rewrite max_nodes_eq, max_edges_eq.
  destruct (Z.ltb_spec 1000 (zlen (p_nodes p))) as [Hn|Hn]; [split; [discriminate | lia]|].
  destruct (Z.ltb_spec 1000 (zlen (p_edges p))) as [He|He]; [split; [discriminate | lia]|].
  split; [lia | reflexivity].
Qed.

Lemma check_predicate_total (p : predicate) :
  check_predicate_limits p = Ok tt \/ check_predicate_limits p = Err PTooManyNodes \/
  check_predicate_limits p = Err PTooManyEdges.
Proof.
  unfold check_predicate_limits.
  destruct (max_nodes <? zlen (p_nodes p)); [right; left; reflexivity|].
  destruct (max_edges <? zlen (p_edges p)); [right; right; reflexivity | left; reflexivity].
Qed.

Lemma check_predicate_ok_or_err (p : predicate) : ok_or_err (check_predicate_limits p).
Proof.
  destruct (check_predicate_total p) as [H|[H|H]]; rewrite H;
    [apply ok_or_err_ok | apply ok_or_err_err | apply ok_or_err_err].
Qed.

Lemma check_contract_go_iff (ix : nat) (ps : list predicate) :
  check_contract_go ix ps = Ok tt <->
  Forall (fun p => zlen (p_nodes p) <= 1000 /\ zlen (p_edges p) <= 1000) ps.
Proof.
  revert ix. induction ps as [|p r IH]; intros ix; cbn [check_contract_go].
  - split; auto.
  - destruct (check_predicate_ok_or_err p) as [Hp|[e Hp]]; rewrite Hp.
    + rewrite IH. apply check_predicate_iff in Hp. split.
      * intros H. constructor; assumption.
      * intros H. inversion H; subst; assumption.
    + split; [discriminate|]. intros H. inversion H as [|x y Hx Hy]; subst.
      apply check_predicate_iff in Hx. congruence.
Qed.

Lemma check_contract_go_total (ix : nat) (ps : list predicate) : ok_or_err (check_contract_go ix ps).
Proof.
  revert ix. induction ps as [|p r IH]; intros ix; cbn [check_contract_go].
  - apply ok_or_err_ok.
  - destruct (check_predicate_ok_or_err p) as [Hp|[e Hp]]; rewrite Hp; [apply IH | apply ok_or_err_err].
Qed.

(* the reported index is that of the first invalid predicate, with that predicate's own error *)
Lemma check_contract_go_first (i0 : nat) (ps : list predicate) (e : pverr) :
  check_contract_go i0 ps = Err e ->
  exists k p e', e = PInvalidPredicate (i0 + k) e' /\ nth_error ps k = Some p /\
                 check_predicate_limits p = Err e' /\
                 forall j q, (j < k)%nat -> nth_error ps j = Some q -> check_predicate_limits q = Ok tt.
Proof.
  revert i0. induction ps as [|p r IH]; intros i0; cbn [check_contract_go].
  - discriminate.
  - destruct (check_predicate_ok_or_err p) as [Hp|[e1 Hp]]; rewrite Hp.
    + intros H. destruct (IH (S i0) H) as [k [q [e' [He [Hn [Hq Hall]]]]]].
      exists (S k), q, e'. split; [|split; [|split]].
      * rewrite He. f_equal. lia.
      * exact Hn.
      * exact Hq.
      * intros j q' Hj Hnj. destruct j as [|j].
        -- cbn [nth_error] in Hnj. inversion Hnj; subst. exact Hp.
        -- cbn [nth_error] in Hnj. apply (Hall j q'); [lia | exact Hnj].
    + intros H. inversion H; subst. exists 0%nat, p, e1. split; [|split; [|split]].
      * f_equal. lia.
      * reflexivity.
      * exact Hp.
      * intros j q Hj. lia.
Qed.

Theorem check_contract_iff (ps : list predicate) :
  check_contract ps = Ok tt <->
  zlen ps <= 100 /\ Forall (fun p => zlen (p_nodes p) <= 1000 /\ zlen (p_edges p) <= 1000) ps.
Proof.
  unfold check_contract. rewrite max_predicates_eq.
  destruct (Z.ltb_spec 100 (zlen ps)) as [Hd|Hd]; [split; [discriminate | lia]|].
  rewrite check_contract_go_iff. split; [intros H; split; [lia | exact H] | intros [_ H]; exact H].
Qed.

Theorem check_contract_total (ps : list predicate) :
  check_contract ps = Ok tt \/ exists e, check_contract ps = Err e.
Proof.
  unfold check_contract. destruct (max_predicates <? zlen ps).
  - right. eexists. reflexivity.
  - apply check_contract_go_total.
Qed.

(* every error of check_contract: too many predicates, or the FIRST invalid predicate and its error *)
Theorem check_contract_error (ps : list predicate) (e : pverr) :
  check_contract ps = Err e ->
  (e = PTooManyPredicates /\ 100 < zlen ps) \/
  (zlen ps <= 100 /\
   exists ix p e', e = PInvalidPredicate ix e' /\ nth_error ps ix = Some p /\
                   check_predicate_limits p = Err e' /\
                   forall j q, (j < ix)%nat -> nth_error ps j = Some q -> check_predicate_limits q = Ok tt).
Proof.
  unfold check_contract. rewrite max_predicates_eq.
  destruct (Z.ltb_spec 100 (zlen ps)) as [Hd|Hd].
  - intros H. inversion H; subst. left. split; [reflexivity | exact Hd].
  - intros H. right. split; [exact Hd|]. apply check_contract_go_first in H.
    destruct H as [k [p [e' H]]]. exists k, p, e'. exact H.
Qed.

Theorem check_contract_first_invalid (ps : list predicate) (ix : nat) (e : pverr) :
  check_contract ps = Err (PInvalidPredicate ix e) ->
  exists p, nth_error ps ix = Some p /\ check_predicate_limits p = Err e /\
            forall j q, (j < ix)%nat -> nth_error ps j = Some q -> check_predicate_limits q = Ok tt.
Proof.
  intros H. apply check_contract_error in H. destruct H as [[H _]|[_ [k [p [e' [He H]]]]]].
  - discriminate.
  - inversion He; subst. exists p. exact H.
Qed.

Theorem check_signed_contract_iff (rec : bool) (ps : list predicate) :
  check_signed_contract rec ps = Ok tt <->
  rec = true /\ (zlen ps <= 100 /\ Forall (fun p => zlen (p_nodes p) <= 1000 /\ zlen (p_edges p) <= 1000) ps).
Proof.
  unfold check_signed_contract. destruct rec; cbn [negb].
  - rewrite check_contract_iff. tauto.
  - split; [discriminate | intros [H _]; discriminate].
Qed.

Theorem check_signed_contract_total (rec : bool) (ps : list predicate) :
  check_signed_contract rec ps = Ok tt \/ exists e, check_signed_contract rec ps = Err e.
Proof.
  unfold check_signed_contract. destruct rec; cbn [negb].
  - apply check_contract_total.
  - right. eexists. reflexivity.
Qed.

(* ---------- computed mutations ---------- *)
Definition nodup_keys (s : solution) : Prop := NoDup (map m_key (sol_muts s)).

(* s' is s with further mutations appended *)
Definition extends (s s' : solution) : Prop :=
  sol_contract s' = sol_contract s /\ sol_predicate s' = sol_predicate s /\ sol_data s' = sol_data s /\
  exists extra, sol_muts s' = sol_muts s ++ extra.

Lemma extends_refl (s : solution) : extends s s.
Proof. repeat split. exists []. rewrite app_nil_r. reflexivity. Qed.

Lemma extends_trans (a b c : solution) : extends a b -> extends b c -> extends a c.
Proof.
  intros [H1 [H2 [H3 [x Hx]]]] [G1 [G2 [G3 [y Hy]]]].
  split; [congruence|]. split; [congruence|]. split; [congruence|].
  exists (x ++ y). rewrite Hy, Hx, app_assoc. reflexivity.
Qed.

Lemma Forall2_refl {A : Type} (R : A -> A -> Prop) (l : list A) : (forall x, R x x) -> Forall2 R l l.
Proof. intros H. induction l; constructor; auto. Qed.

Lemma Forall2_trans {A : Type} (R : A -> A -> Prop) (a b c : list A) :
  (forall x y z, R x y -> R y z -> R x z) -> Forall2 R a b -> Forall2 R b c -> Forall2 R a c.
Proof.
  intros HR H. revert c. induction H as [|x y l l' Hxy Hl IH]; intros c Hc.
  - inversion Hc; subst. constructor.
  - inversion Hc as [|y' z l1 l2 Hyz Hl2]; subst. constructor; [eapply HR; eassumption | apply IH; exact Hl2].
Qed.

Lemma Forall2_len {A B : Type} (R : A -> B -> Prop) (a : list A) (b : list B) :
  Forall2 R a b -> length b = length a.
Proof. intros H. induction H; cbn [length]; congruence. Qed.

Lemma nodup_snoc (k : list Z) (l : list (list Z)) : NoDup l -> ~ In k l -> NoDup (l ++ [k]).
Proof.
  intros Hn Hk. apply Permutation_NoDup with (l := k :: l).
  - apply Permutation_cons_append.
  - constructor; assumption.
Qed.

(* apply_muts succeeds exactly when no key is in `seen` and no key occurs twice; on success the
   mutations are appended and their keys recorded *)
Lemma apply_muts_some (seen : list (list Z)) (ms acc : list mutation) seen' acc' :
  apply_muts seen ms acc = Some (seen', acc') ->
  acc' = acc ++ ms /\ (forall k, In k seen' <-> In k seen \/ In k (map m_key ms)) /\
  Forall (fun m => ~ In (m_key m) seen) ms /\ NoDup (map m_key ms).
Proof.
  revert seen acc. induction ms as [|m r IH]; intros seen acc; cbn [apply_muts map].
  - intros H. inversion H; subst. rewrite app_nil_r. split; [reflexivity|]. split; [|split; constructor].
    intros k. cbn [In]. tauto.
  - destruct (key_in (m_key m) seen) eqn:Hk; [discriminate|]. apply key_in_false in Hk.
    intros H. apply IH in H. destruct H as [Ha [Hs [Hf Hn]]].
    split; [rewrite Ha, <- app_assoc; reflexivity|]. split; [|split].
    + intros k. rewrite Hs. cbn [In]. tauto.
    + constructor; [exact Hk|]. apply Forall_forall. intros x Hx Hin.
      rewrite Forall_forall in Hf. apply (Hf x Hx). right. exact Hin.
    + constructor; [|exact Hn]. intros Hin. apply in_map_iff in Hin. destruct Hin as [x [Hxe Hx]].
      rewrite Forall_forall in Hf. apply (Hf x Hx). left. symmetry. exact Hxe.
Qed.

Theorem apply_muts_none_iff (seen : list (list Z)) (ms acc : list mutation) :
  apply_muts seen ms acc = None <->
  (exists m, In m ms /\ In (m_key m) seen) \/ ~ NoDup (map m_key ms).
Proof.
  revert seen acc. induction ms as [|m r IH]; intros seen acc; cbn [apply_muts map].
  - split; [discriminate|]. intros [[m [Hm _]]|Hn]; [destruct Hm | exfalso; apply Hn; constructor].
  - destruct (key_in (m_key m) seen) eqn:Hk.
    + apply key_in_true in Hk. split; [|reflexivity]. intros _. left. exists m. split; [left; reflexivity | exact Hk].
    + apply key_in_false in Hk. rewrite IH. split.
      * intros [[x [Hx [Hin|Hin]]]|Hn].
        -- right. intros Hnd. inversion Hnd as [|a b Ha Hb]; subst. apply Ha.
           rewrite Hin. apply in_map. exact Hx.
        -- left. exists x. split; [right; exact Hx | exact Hin].
        -- right. intros Hnd. inversion Hnd as [|a b Ha Hb]; subst. contradiction.
      * intros [[x [[Hx|Hx] Hin]]|Hn].
        -- subst x. contradiction.
        -- left. exists x. split; [exact Hx | right; exact Hin].
        -- destruct (in_dec key_dec (m_key m) (map m_key r)) as [Hi|Hi].
           ++ apply in_map_iff in Hi. destruct Hi as [x [Hxe Hx]]. left. exists x.
              split; [exact Hx | left; symmetry; exact Hxe].
           ++ right. intros Hnd. apply Hn. constructor; assumption.
Qed.

(* invariant of apply_outputs: `seen` holds exactly the keys of `acc`, which are pairwise distinct *)
Lemma apply_outputs_ok (ix : nat) (seen : list (list Z)) (mems : list (list Z)) (acc acc' : list mutation) :
  (forall k, In k seen <-> In k (map m_key acc)) -> NoDup (map m_key acc) ->
  apply_outputs ix seen mems acc = Ok acc' ->
  NoDup (map m_key acc') /\ exists extra, acc' = acc ++ extra.
Proof.
  revert seen acc. induction mems as [|mem r IH]; intros seen acc Hseen Hnd; cbn [apply_outputs].
  - intros H. inversion H; subst. split; [exact Hnd|]. exists []. rewrite app_nil_r. reflexivity.
  - destruct (decode_mutations mem) as [ms|e|s|]; try discriminate.
    destruct (apply_muts seen ms acc) as [[seen1 acc1]|] eqn:Ha; [|discriminate].
    apply apply_muts_some in Ha. destruct Ha as [Hacc [Hs [Hf Hn]]].
    intros H. apply IH in H.
    + destruct H as [H1 [extra H2]]. split; [exact H1|]. exists (ms ++ extra).
      rewrite H2, Hacc, <- app_assoc. reflexivity.
    + intros k. rewrite Hs, Hacc, map_app, in_app_iff, Hseen. tauto.
    + rewrite Hacc, map_app. clear IH H Hs Hacc.
      revert Hf Hn. generalize (map m_key acc) Hnd Hseen. clear Hnd Hseen.
      induction ms as [|m ms IHm]; intros l Hl Hseen Hf Hn.
      * cbn [map]. rewrite app_nil_r. exact Hl.
      * cbn [map]. inversion Hf as [|x1 y1 Hf1 Hf2]; subst. cbn [map] in Hn.
        inversion Hn as [|x2 y2 Hn1 Hn2]; subst.
        apply Permutation_NoDup with (l := m_key m :: l ++ map m_key ms).
        -- apply Permutation_middle.
        -- constructor.
           ++ rewrite in_app_iff. intros [Hi|Hi]; [apply Hf1; apply Hseen; exact Hi | contradiction].
           ++ apply IHm; assumption.
Qed.

Lemma update_nth_length {A : Type} (n : nat) (f : A -> A) (l : list A) : length (update_nth n f l) = length l.
Proof.
  revert n. induction l as [|x r IH]; intros n; destruct n; cbn [update_nth length]; try reflexivity.
  rewrite IH. reflexivity.
Qed.

Lemma update_nth_Forall2 {A : Type} (R : A -> A -> Prop) (n : nat) (f : A -> A) (l : list A) :
  (forall x, R x x) -> (forall x, nth_error l n = Some x -> R x (f x)) -> Forall2 R l (update_nth n f l).
Proof.
  intros Hr. revert n. induction l as [|x r IH]; intros n Hf; destruct n; cbn [update_nth]; try constructor.
  - apply Hf. reflexivity.
  - apply Forall2_refl. exact Hr.
  - apply Hr.
  - apply IH. intros y Hy. apply Hf. exact Hy.
Qed.

Lemma update_nth_Forall {A : Type} (P : A -> Prop) (n : nat) (f : A -> A) (l : list A) :
  Forall P l -> (forall x, nth_error l n = Some x -> P x -> P (f x)) -> Forall P (update_nth n f l).
Proof.
  intros H. revert n. induction H as [|x r Hx Hr IH]; intros n Hf; destruct n; cbn [update_nth]; try constructor.
  - apply Hf; [reflexivity | exact Hx].
  - exact Hr.
  - exact Hx.
  - apply IH. intros y Hy. apply Hf. exact Hy.
Qed.

Theorem computed_set_still_valid (data : list (nat * list (list Z))) (sols sols' : list solution) :
  Forall (fun s => NoDup (map m_key (sol_muts s))) sols ->
  decode_mutations_set data sols = Ok sols' ->
  Forall (fun s => NoDup (map m_key (sol_muts s))) sols' /\
  length sols' = length sols /\
  Forall2 (fun s s' => sol_contract s' = sol_contract s /\ sol_predicate s' = sol_predicate s /\
                       sol_data s' = sol_data s /\ exists extra, sol_muts s' = sol_muts s ++ extra) sols sols'.
Proof.
  change (Forall nodup_keys sols -> decode_mutations_set data sols = Ok sols' ->
          Forall nodup_keys sols' /\ length sols' = length sols /\ Forall2 extends sols sols').
  revert sols. induction data as [|[ix mems] rest IH]; intros sols Hnd; cbn [decode_mutations_set].
  - intros H. inversion H; subst. split; [exact Hnd|]. split; [reflexivity|].
    apply Forall2_refl. exact extends_refl.
  - destruct (apply_outputs ix (map m_key (sol_muts (nth ix sols empty_solution))) mems
                (sol_muts (nth ix sols empty_solution))) as [ms|e|s|] eqn:Ha; cbn [bind]; try discriminate.
    intros H. apply IH in H.
    + destruct H as [H1 [H2 H3]]. split; [exact H1|]. split.
      * rewrite H2. apply update_nth_length.
      * apply Forall2_trans with (b := update_nth ix (fun s => set_muts s ms) sols);
          [exact extends_trans | | exact H3].
        apply update_nth_Forall2; [exact extends_refl|]. intros x Hx.
        rewrite (nth_error_nth sols ix empty_solution Hx) in Ha.
        assert (Hxn : nodup_keys x).
        { rewrite Forall_forall in Hnd. apply Hnd. apply nth_error_In with (n := ix). exact Hx. }
        apply apply_outputs_ok in Ha; [|tauto|exact Hxn].
        destruct Ha as [_ Hex]. unfold extends, set_muts. cbn. repeat split; try reflexivity. exact Hex.
    + apply update_nth_Forall; [exact Hnd|]. intros x Hx Hxn.
      rewrite (nth_error_nth sols ix empty_solution Hx) in Ha.
      apply apply_outputs_ok in Ha; [|tauto|exact Hxn].
      destruct Ha as [Hn _]. unfold nodup_keys, set_muts. cbn. exact Hn.
Qed.

Lemma check_and_compute_decodes fuel lk ca mode sols pre post caches r g sols' :
  check_and_compute fuel lk ca mode sols pre post caches = Ok r -> cr_res r = Ok (g, sols') ->
  exists data, decode_mutations_set data sols = Ok sols'.
Proof.
  unfold check_and_compute.
  destruct (check_set_predicates fuel lk ca mode sols pre post caches) as [sr|e|s|]; cbn [bind]; try discriminate.
  destruct (sr_res sr) as [[gas data]|e|s|]; try discriminate.
  - destruct (decode_mutations_set data sols) as [sols1|e|s|] eqn:Hd; try discriminate.
    + intros H Hr. inversion H; subst r. cbn [cr_res] in Hr. inversion Hr; subst. exists data. exact Hd.
    + intros H Hr. inversion H; subst r. cbn [cr_res] in Hr. discriminate.
  - intros H Hr. inversion H; subst r. cbn [cr_res] in Hr. discriminate.
Qed.

Theorem computed_set_still_valid_check fuel lk ca mode sols pre post caches r g sols' :
  Forall (fun s => NoDup (map m_key (sol_muts s))) sols ->
  check_and_compute fuel lk ca mode sols pre post caches = Ok r -> cr_res r = Ok (g, sols') ->
  Forall (fun s => NoDup (map m_key (sol_muts s))) sols' /\
  length sols' = length sols /\
  Forall2 (fun s s' => sol_contract s' = sol_contract s /\ sol_predicate s' = sol_predicate s /\
                       sol_data s' = sol_data s /\ exists extra, sol_muts s' = sol_muts s ++ extra) sols sols'.
Proof.
  intros Hnd Hc Hr. destruct (check_and_compute_decodes _ _ _ _ _ _ _ _ _ _ _ Hc Hr) as [data Hd].
  exact (computed_set_still_valid data sols sols' Hnd Hd).
Qed.

Theorem computed_set_still_valid_two_pass fuel lk ca sols pre_state r g sols' :
  Forall (fun s => NoDup (map m_key (sol_muts s))) sols ->
  two_pass fuel lk ca sols pre_state = Ok r -> tp_res r = Ok (g, sols') ->
  Forall (fun s => NoDup (map m_key (sol_muts s))) sols' /\
  length sols' = length sols /\
  Forall2 (fun s s' => sol_contract s' = sol_contract s /\ sol_predicate s' = sol_predicate s /\
                       sol_data s' = sol_data s /\ exists extra, sol_muts s' = sol_muts s ++ extra) sols sols'.
Proof.
  intros Hnd. unfold two_pass.
  destruct (check_and_compute fuel lk ca Outputs sols (state_view pre_state)
              (read_or_fallback [] (state_view pre_state)) (map (fun _ => []) sols)) as [r1|e|s|] eqn:H1;
    cbn [bind]; try discriminate.
  destruct (cr_res r1) as [[g1 sols1]|e|s|] eqn:Hr1; try discriminate.
  - destruct (check_and_compute fuel lk ca Checks sols1 (state_view pre_state)
                (read_or_fallback (build_post_state sols1) (state_view pre_state)) (cr_caches r1))
      as [r2|e|s|] eqn:H2; cbn [bind]; try discriminate.
    destruct (cr_res r2) as [[g2 sols2]|e|s|] eqn:Hr2; try discriminate.
    + intros H Hr. inversion H; subst r. cbn [tp_res] in Hr. inversion Hr; subst.
      destruct (computed_set_still_valid_check _ _ _ _ _ _ _ _ _ _ _ Hnd H1 Hr1) as [A1 [A2 A3]].
      destruct (computed_set_still_valid_check _ _ _ _ _ _ _ _ _ _ _ A1 H2 Hr2) as [B1 [B2 B3]].
      split; [exact B1|]. split; [congruence|].
      apply (Forall2_trans extends sols sols1 sols'); [exact extends_trans | exact A3 | exact B3].
    + intros H Hr. inversion H; subst r. cbn [tp_res] in Hr. discriminate.
  - intros H Hr. inversion H; subst r. cbn [tp_res] in Hr. discriminate.
Qed.

(* ---------- C04: order independence of set validation ---------- *)
Theorem check_set_perm (sols sols' : list solution) :
  Permutation sols sols' -> (check_set sols = Ok tt <-> check_set sols' = Ok tt).
Proof.
  assert (Hone : forall a b, Permutation a b -> check_set a = Ok tt -> check_set b = Ok tt).
  { intros a b Hp Ha. apply check_set_iff in Ha. apply check_set_iff.
    destruct Ha as [H1 [H2 [H3 H4]]].
    rewrite <- (zlen_perm a b Hp), <- (total_mutations_perm a b Hp).
    split; [exact H1|]. split; [exact (Forall_perm _ a b Hp H2)|]. split; [exact H3|].
    exact (Forall_perm _ a b Hp H4). }
  intros Hp. split; [apply Hone; exact Hp | apply Hone; apply Permutation_sym; exact Hp].
Qed.

Theorem accepted_set_unique_slots_per_solution (sols : list solution) :
  check_set sols = Ok tt -> Forall (fun s => NoDup (map m_key (sol_muts s))) sols.
Proof.
  intros H. apply check_set_iff in H. destruct H as [_ [_ [_ H]]].
  apply Forall_forall. intros s Hs. rewrite Forall_forall in H. exact (proj1 (H s Hs)).
Qed.

(* the class outside of which C04 does not hold: one proposed value per (contract, key) over the whole set *)
Definition unique_slots (sols : list solution) : Prop :=
  NoDup (flat_map (fun s => map (fun m => (sol_contract s, m_key m)) (sol_muts s)) sols).

(* witness of finding F10: two solutions of one contract writing the same key *)
Definition f10_contract : list Z := repeat 7 32.
Definition f10_s1 : solution :=
  {| sol_contract := f10_contract; sol_predicate := repeat 1 32; sol_data := [];
     sol_muts := [ {| m_key := [9]; m_value := [1] |} ] |}.
Definition f10_s2 : solution :=
  {| sol_contract := f10_contract; sol_predicate := repeat 2 32; sol_data := [];
     sol_muts := [ {| m_key := [9]; m_value := [2] |} ] |}.

Theorem C04_refuted :
  exists sols, check_set sols = Ok tt /\
    ~ NoDup (flat_map (fun s => map (fun m => (sol_contract s, m_key m)) (sol_muts s)) sols).
Proof.
  exists [f10_s1; f10_s2]. split; [vm_compute; reflexivity|].
  vm_compute. intros H. inversion H as [|x l Hx Hl]; subst. apply Hx. left. reflexivity.
Qed.

Theorem overlay_order_dependent_on_witness :
  check_set [f10_s1; f10_s2] = Ok tt /\ check_set [f10_s2; f10_s1] = Ok tt /\
  post_get (build_post_state [f10_s1; f10_s2]) f10_contract [9] = Some [2] /\
  post_get (build_post_state [f10_s2; f10_s1]) f10_contract [9] = Some [1] /\
  post_get (build_post_state [f10_s1; f10_s2]) f10_contract [9] <>
  post_get (build_post_state [f10_s2; f10_s1]) f10_contract [9].
Proof.
  split; [vm_compute; reflexivity|]. split; [vm_compute; reflexivity|].
  split; [vm_compute; reflexivity|]. split; [vm_compute; reflexivity|].
  vm_compute. discriminate.
Qed.

Lemma nodup_app_l {A : Type} (a b : list A) : NoDup (a ++ b) -> NoDup a.
Proof.
  induction a as [|x a IH]; cbn [app]; intros H; [constructor|].
  inversion H as [|y l Hy Hl]; subst. constructor; [|apply IH; exact Hl].
  intros Hin. apply Hy. apply in_or_app. left. exact Hin.
Qed.

Lemma nodup_app_r {A : Type} (a b : list A) : NoDup (a ++ b) -> NoDup b.
Proof.
  induction a as [|x a IH]; cbn [app]; intros H; [exact H|].
  inversion H as [|y l Hy Hl]; subst. apply IH. exact Hl.
Qed.

(* within the class, the keys of the whole set are pairwise distinct per contract *)
Lemma unique_slots_per_solution (sols : list solution) :
  unique_slots sols -> Forall (fun s => NoDup (map m_key (sol_muts s))) sols.
Proof.
  unfold unique_slots. induction sols as [|s r IH]; intros H; [constructor|].
  cbn [flat_map] in H. constructor.
  - apply nodup_app_l in H.
    apply NoDup_map_inv with (f := fun k => (sol_contract s, k)). rewrite map_map. exact H.
  - apply IH. apply nodup_app_r in H. exact H.
Qed.

(* a computed mutation whose key is already declared (or already computed) makes the whole check fail *)
Theorem apply_outputs_duplicate (ix : nat) (seen : list (list Z)) (mem : list Z) (r : list (list Z))
        (ms acc : list mutation) :
  decode_mutations mem = Ok ms ->
  ((exists m, In m ms /\ In (m_key m) seen) \/ ~ NoDup (map m_key ms)) ->
  apply_outputs ix seen (mem :: r) acc = Err (SMutationsDuplicate ix).
Proof.
  intros Hd Hdup. cbn [apply_outputs]. rewrite Hd.
  apply (apply_muts_none_iff seen ms acc) in Hdup. rewrite Hdup. reflexivity.
Qed.

(* ---------- builders for the concrete examples of Properties/C16.v ---------- *)
Definition ex_sol (data : list (list Z)) (muts : list mutation) : solution :=
  {| sol_contract := repeat 3 32; sol_predicate := repeat 4 32; sol_data := data; sol_muts := muts |}.
Definition ex_mut (k v : list Z) : mutation := {| m_key := k; m_value := v |}.
(* n mutations with pairwise distinct one-word keys *)
Definition ex_muts (n : nat) : list mutation := map (fun i => ex_mut [Z.of_nat i] [Z.of_nat i + 1]) (seq 0 n).
Definition ex_words (n : Z) : list Z := repeat 5 (Z.to_nat n).
Definition ex_pred (nodes edges : Z) : predicate :=
  {| p_nodes := repeat {| n_edge_start := 0; n_program := repeat 6 32 |} (Z.to_nat nodes);
     p_edges := repeat 0 (Z.to_nat edges) |}.

(* --- validity is monotone: every part of a valid contract is a valid contract --- *)
Lemma check_contract_app_valid (a b : list predicate) :
  check_contract (a ++ b) = Ok tt -> check_contract a = Ok tt /\ check_contract b = Ok tt.
Proof.
  rewrite !check_contract_iff. intros [Hl Hf]. apply Forall_app in Hf. destruct Hf as [Ha Hb].
  unfold zlen in *. rewrite app_length in Hl. repeat split; try assumption; lia.
Qed.

Lemma check_contract_perm (a b : list predicate) :
  Permutation a b -> (check_contract a = Ok tt <-> check_contract b = Ok tt).
Proof.
  intros P. rewrite !check_contract_iff. unfold zlen. rewrite (Permutation_length P).
  split; intros [Hl Hf]; split; try assumption.
  - eapply Permutation_Forall; eassumption.
  - eapply Permutation_Forall; [apply Permutation_sym|]; eassumption.
Qed.
