(* C17 / C04: the predicate pre-image facts with the codec lemmas of Proofs/PredicateProofs.v plugged in
   (no hypothesis about encode_predicate left). *)
From Coq Require Import ZArith List Lia Bool Permutation.
From EB Require Import Hash.Addr Spec.PredicateSpec Proofs.PredicateProofs Proofs.AddrProofs.
Import ListNotations.
Open Scope list_scope.
Open Scope Z_scope.

Lemma predicate_preimage_injective_closed : forall p q bs,
  wf_pred p -> wf_pred q -> predicate_preimage p = Some bs -> predicate_preimage q = Some bs -> p = q.
Proof. exact (predicate_preimage_injective encode_predicate_injective). Qed.

(* the reported size is the length of what is hashed *)
Lemma predicate_preimage_size : forall p bs,
  wf_pred p -> predicate_preimage p = Some bs ->
  predicate_encoded_size p = zlen bs /\ zlen bs = 34 * zlen (p_nodes p) + 2 * zlen (p_edges p) + 4.
Proof.
  intros p bs Wp E. apply predicate_preimage_is_encoding in E. exact (encoded_size_eq_length p bs Wp E).
Qed.

Lemma contract_preimage_injective_preds_closed : forall (H : list Z -> list Z),
  (forall a b, H a = H b -> a = b) ->
  forall ps ps' salt salt',
  (forall bs, length (H bs) = 32%nat) -> length salt = 32%nat -> length salt' = 32%nat ->
  Forall valid_pred ps -> Forall valid_pred ps' ->
  contract_preimage H ps salt = contract_preimage H ps' salt' ->
  Permutation ps ps' /\ salt = salt'.
Proof. intros H. exact (contract_preimage_injective_preds H encode_predicate_injective). Qed.
