(* Lemmas for C19: contract signatures (crates/sign) bind the signer to the contract's content address,
   and the word encodings of public keys / signatures (sign::encode) are injective and are exactly what the
   VM's RecoverSecp256k1 op consumes and produces.
   secp256k1 is an abstract recoverable signature scheme; its correctness (`scheme_correct`) is a HYPOTHESIS
   of the theorems that need it.  Unforgeability is never assumed and nothing that would need it is claimed. *)
From Coq Require Import ZArith List Lia Bool Permutation.
From EB Require Import Sign.Sig Proofs.VmInvStep.
From EB Require Import Proofs.StateReadProofs Proofs.AccessCrypto.
Import ListNotations.
Open Scope list_scope.
Open Scope Z_scope.

(* ================= bytes <-> words bijection (8*k bytes, k words) ================= *)
Lemma bytes_of_words_cons w ws : bytes_of_words (w :: ws) = bytes_of_word w ++ bytes_of_words ws.
Proof. reflexivity. Qed.

Lemma bytes_of_words_of_bytes k : forall b, length b = (8 * k)%nat -> Forall byte b ->
  bytes_of_words (words_of_bytes k b) = b.
Proof.
  induction k as [|k IH]; intros b L F.
  - destruct b as [|x b]; [reflexivity|cbn [length] in L; lia].
  - destruct b as [|x b]; [cbn [length] in L; lia|].
    cbn [words_of_bytes]. rewrite bytes_of_words_cons.
    remember (x :: b) as l eqn:El.
    rewrite <- (firstn_skipn 8 l) in F. apply Forall_app in F. destruct F as [F1 F2].
    rewrite (bytes_of_word_of_bytes (firstn 8 l)); [|rewrite firstn_length; lia|exact F1].
    rewrite IH; [apply firstn_skipn|rewrite skipn_length; lia|exact F2].
Qed.

Lemma words_of_bytes_inj k a b : length a = (8 * k)%nat -> length b = (8 * k)%nat ->
  Forall byte a -> Forall byte b -> words_of_bytes k a = words_of_bytes k b -> a = b.
Proof.
  intros La Lb Fa Fb E.
  rewrite <- (bytes_of_words_of_bytes k a La Fa), <- (bytes_of_words_of_bytes k b Lb Fb), E. reflexivity.
Qed.

Lemma words_of_bytes_i64 k : forall b, Forall i64 (words_of_bytes k b).
Proof.
  induction k as [|k IH]; intros b; [constructor|].
  destruct b as [|x b]; [constructor|]. cbn [words_of_bytes].
  constructor; [apply word_of_bytes_i64|apply IH].
Qed.

Lemma bytes_of_words4 h : length h = 32%nat -> Forall byte h -> bytes_of_words (words4 h) = h.
Proof. intros L F. unfold words4. apply bytes_of_words_of_bytes; [rewrite L; reflexivity|exact F]. Qed.
Lemma bytes_of_words8 sg : length sg = 64%nat -> Forall byte sg -> bytes_of_words (words_of_bytes 8 sg) = sg.
Proof. intros L F. apply bytes_of_words_of_bytes; [rewrite L; reflexivity|exact F]. Qed.

Lemma byte_is_i64 b : byte b -> i64 b.
Proof. unfold byte, i64, i64_min, i64_max, two63. lia. Qed.

(* a list of n+1 elements is its first n elements followed by its element n *)
Lemma split_last_nth {A} (d : A) n : forall l, length l = S n -> l = firstn n l ++ [nth n l d].
Proof.
  induction n as [|n IH]; intros l L.
  - destruct l as [|x [|y l]]; cbn [length] in L; try lia. reflexivity.
  - destruct l as [|x l]; [cbn [length] in L; lia|].
    cbn [firstn nth app]. f_equal. apply IH. cbn [length] in L. lia.
Qed.

(* ================= encode::public_key / encode::signature ================= *)
Lemma public_key_words_shape k : length k = 33%nat -> Forall byte k ->
  length (public_key_words k) = 5%nat /\ Forall i64 (public_key_words k) /\ 0 <= nth 4 (public_key_words k) 0 < 256.
Proof.
  intros L F. unfold public_key_words.
  assert (L4 : length (words4 (firstn 32 k)) = 4%nat) by (apply words4_length; rewrite firstn_length; lia).
  assert (B : byte (nth 32 k 0)).
  { rewrite Forall_forall in F. apply F. apply nth_In. lia. }
  split; [rewrite app_length, L4; reflexivity|]. split.
  - apply Forall_app. split; [apply words_of_bytes_i64|].
    constructor; [apply byte_is_i64; exact B|constructor].
  - rewrite app_nth2 by (rewrite L4; lia). rewrite L4. exact B.
Qed.

Lemma public_key_words_injective a b : length a = 33%nat -> length b = 33%nat -> Forall byte a -> Forall byte b ->
  public_key_words a = public_key_words b -> a = b.
Proof.
  intros La Lb Fa Fb E. unfold public_key_words in E.
  apply app_inj_tail in E. destruct E as [E1 E2].
  rewrite (split_last_nth 0 32 a La), (split_last_nth 0 32 b Lb). rewrite E2. f_equal.
  rewrite (split_last_nth 0 32 a La) in Fa. rewrite (split_last_nth 0 32 b Lb) in Fb.
  apply Forall_app in Fa. apply Forall_app in Fb.
  unfold words4 in E1.
  apply (words_of_bytes_inj 4); [rewrite firstn_length; lia|rewrite firstn_length; lia|apply Fa|apply Fb|exact E1].
Qed.

Lemma signature_words_shape sg id : length sg = 64%nat -> i64 id ->
  length (signature_words sg id) = 9%nat /\ Forall i64 (signature_words sg id) /\ nth 8 (signature_words sg id) 0 = id.
Proof.
  intros L Hid. unfold signature_words.
  assert (L8 : length (words_of_bytes 8 sg) = 8%nat) by (apply words_of_bytes_length_exact; rewrite L; reflexivity).
  split; [rewrite app_length, L8; reflexivity|]. split.
  - apply Forall_app. split; [apply words_of_bytes_i64|]. constructor; [exact Hid|constructor].
  - rewrite app_nth2 by (rewrite L8; lia). rewrite L8. reflexivity.
Qed.

Lemma signature_words_injective a i b j : length a = 64%nat -> length b = 64%nat -> Forall byte a -> Forall byte b ->
  signature_words a i = signature_words b j -> a = b /\ i = j.
Proof.
  intros La Lb Fa Fb E. unfold signature_words in E.
  apply app_inj_tail in E. destruct E as [E1 E2]. split; [|exact E2].
  apply (words_of_bytes_inj 8); [rewrite La; reflexivity|rewrite Lb; reflexivity|exact Fa|exact Fb|exact E1].
Qed.

(* ================= the VM op consumes encode::signature and produces encode::public_key ================= *)
Lemma rev_signature_words sg id : rev (signature_words sg id) = id :: rev (words_of_bytes 8 sg).
Proof. unfold signature_words. rewrite rev_app_distr. reflexivity. Qed.

Lemma vm_consumes_sign_encoding E recover_raw h sg id s :
  e_secp E = recover_raw ->
  length h = 32%nat -> Forall byte h -> length sg = 64%nat -> Forall byte sg -> 0 <= id <= 3 ->
  zlen s + 13 <= 4096 ->
  op_recover_secp256k1 E (rev (signature_words sg id) ++ rev (words4 h) ++ s) =
  match recover_raw h sg id with
  | SecpKey k => Ok (rev (public_key_words k) ++ s)
  | SecpNoKey => Ok (0 :: 0 :: 0 :: 0 :: 0 :: s)
  | SecpParseErr => Err ECrypto
  end.
Proof.
  intros EE Lh Fh Ls Fs Hid Hroom.
  assert (L8 : length (words_of_bytes 8 sg) = 8%nat) by (apply words_of_bytes_length_exact; rewrite Ls; reflexivity).
  assert (L4 : length (words4 h) = 4%nat) by (apply words4_length; exact Lh).
  pose proof (recover_secp256k1_marshalling E id (words_of_bytes 8 sg) (words4 h) s L8 L4 Hid) as M.
  cbn [step_crypto] in M.
  rewrite rev_signature_words. rewrite <- app_comm_cons. rewrite M by lia.
  rewrite (bytes_of_words4 h Lh Fh), (bytes_of_words8 sg Ls Fs), EE.
  destruct (recover_raw h sg id) as [| |k]; try reflexivity.
  unfold public_key_words. rewrite rev_app_distr. reflexivity.
Qed.

Lemma op_recover_secp256k1_never_panics E s : forall site, op_recover_secp256k1 E s <> Panic site.
Proof. exact (step_crypto_np E ORecoverSecp256k1 s). Qed.

(* ================= sign / recover / verify ================= *)
Section Sign.
  Variable H : list Z -> list Z.
  Variable secret : Type.
  Variable pk : secret -> list Z.
  Variable sign_raw : secret -> list Z -> list Z * Z.
  Variable recover_raw : list Z -> list Z -> Z -> secp_res.

  (* an out-of-range recovery id is rejected before secp256k1 is consulted *)
  Lemma bad_recovery_id_is_error d sg id : id < 0 \/ 3 < id -> recover_hash recover_raw d sg id = None.
  Proof.
    intros B. unfold recover_hash.
    destruct (Z.ltb_spec id 0); [reflexivity|]. destruct (Z.ltb_spec 3 id); [reflexivity|lia].
  Qed.

  Lemma malformed_signature_is_error d sg id :
    recover_raw d sg id = SecpParseErr \/ recover_raw d sg id = SecpNoKey -> recover_hash recover_raw d sg id = None.
  Proof.
    intros B. unfold recover_hash. destruct ((id <? 0) || (3 <? id)); [reflexivity|].
    destruct B as [B|B]; rewrite B; reflexivity.
  Qed.

  (* recover_hash is a total function into `option`: the only outcomes are a key or an error *)
  Lemma recover_hash_some d sg id k : recover_hash recover_raw d sg id = Some k <->
    0 <= id <= 3 /\ recover_raw d sg id = SecpKey k.
  Proof.
    unfold recover_hash. destruct (Z.ltb_spec id 0); [split; [discriminate|lia]|].
    destruct (Z.ltb_spec 3 id); [split; [discriminate|lia]|]. cbn [orb].
    destruct (recover_raw d sg id) as [| |k']; split; try discriminate.
    - intros [_ B]; discriminate.
    - intros [_ B]; discriminate.
    - intros [= ->]. split; [lia|reflexivity].
    - intros [_ [= ->]]. reflexivity.
  Qed.

  Hypothesis H_len : forall bs, length (H bs) = 32%nat.
  Hypothesis scheme_correct : forall sk h, length h = 32%nat ->
    let (sg, id) := sign_raw sk h in 0 <= id <= 3 /\ recover_raw h sg id = SecpKey (pk sk).

  Lemma recover_hash_sign sk h : length h = 32%nat ->
    recover_hash recover_raw h (fst (sign_raw sk h)) (snd (sign_raw sk h)) = Some (pk sk).
  Proof.
    intros L. pose proof (scheme_correct sk h L) as C. destruct (sign_raw sk h) as [sg id].
    cbn [fst snd]. apply recover_hash_some. exact C.
  Qed.

  Lemma sign_recover_contract sk preds salt :
    recover_contract H recover_raw preds salt (sign_contract H secret sign_raw sk preds salt) = Some (pk sk) /\
    verify_contract H recover_raw preds salt (sign_contract H secret sign_raw sk preds salt) = true.
  Proof.
    assert (R : recover_contract H recover_raw preds salt (sign_contract H secret sign_raw sk preds salt) = Some (pk sk)).
    { unfold recover_contract, sign_contract. apply recover_hash_sign. unfold contract_addr. apply H_len. }
    split; [exact R|]. unfold verify_contract. rewrite R. reflexivity.
  Qed.

  Hypothesis contract_addr_perm : forall ps ps' salt, Permutation ps ps' ->
    contract_addr H ps salt = contract_addr H ps' salt.

  Lemma sign_recover_any_order sk preds preds' salt : Permutation preds preds' ->
    recover_contract H recover_raw preds' salt (sign_contract H secret sign_raw sk preds salt) = Some (pk sk) /\
    verify_contract H recover_raw preds' salt (sign_contract H secret sign_raw sk preds salt) = true.
  Proof.
    intros P. unfold verify_contract, recover_contract.
    rewrite <- (contract_addr_perm preds preds' salt P). apply sign_recover_contract.
  Qed.
End Sign.

(* ================= tampering changes the signed bytes ================= *)
Section Tamper.
  Variable H : list Z -> list Z.

  (* what is signed is H (contract_preimage ...) *)
  Lemma signed_digest_is_hash_of_preimage secret (sign_raw : secret -> list Z -> list Z * Z) sk preds salt :
    sign_contract H secret sign_raw sk preds salt = sign_raw sk (H (contract_preimage H preds salt)).
  Proof. reflexivity. Qed.

  Lemma equal_digest_preimage_or_collision preds salt preds' salt' :
    contract_addr H preds salt = contract_addr H preds' salt' ->
    contract_preimage H preds salt = contract_preimage H preds' salt' \/ (exists a b, a <> b /\ H a = H b).
  Proof.
    intros E. destruct (list_eq_dec Z.eq_dec (contract_preimage H preds salt) (contract_preimage H preds' salt')) as [Q|Q].
    - left; exact Q.
    - right. exists (contract_preimage H preds salt), (contract_preimage H preds' salt'). split; [exact Q|exact E].
  Qed.

  Hypothesis H_len : forall bs, length (H bs) = 32%nat.
  Hypothesis contract_preimage_injective_multiset : forall ps salt ps' salt',
    length salt = 32%nat -> length salt' = 32%nat ->
    contract_preimage H ps salt = contract_preimage H ps' salt' ->
    salt = salt' /\ Permutation (map (predicate_addr H) ps) (map (predicate_addr H) ps').

  Lemma tamper_changes_signed_bytes preds salt preds' salt' :
    length salt = 32%nat -> length salt' = 32%nat ->
    salt <> salt' \/ ~ Permutation (map (predicate_addr H) preds) (map (predicate_addr H) preds') ->
    contract_preimage H preds salt <> contract_preimage H preds' salt' /\
    (contract_addr H preds salt <> contract_addr H preds' salt' \/ (exists a b, a <> b /\ H a = H b)).
  Proof.
    intros Ls Ls' T.
    assert (N : contract_preimage H preds salt <> contract_preimage H preds' salt').
    { intros Q. destruct (contract_preimage_injective_multiset preds salt preds' salt' Ls Ls' Q) as [Q1 Q2].
      destruct T as [T|T]; [exact (T Q1)|exact (T Q2)]. }
    split; [exact N|].
    destruct (list_eq_dec Z.eq_dec (contract_addr H preds salt) (contract_addr H preds' salt')) as [Q|Q].
    - right. destruct (equal_digest_preimage_or_collision preds salt preds' salt' Q) as [P|P]; [destruct (N P)|exact P].
    - left; exact Q.
  Qed.

  Lemma equal_digest_same_content_or_collision preds salt preds' salt' :
    length salt = 32%nat -> length salt' = 32%nat ->
    contract_addr H preds salt = contract_addr H preds' salt' ->
    (salt = salt' /\ Permutation (map (predicate_addr H) preds) (map (predicate_addr H) preds')) \/
    (exists a b, a <> b /\ H a = H b).
  Proof.
    intros Ls Ls' E. destruct (equal_digest_preimage_or_collision preds salt preds' salt' E) as [P|P].
    - left. apply contract_preimage_injective_multiset; assumption.
    - right; exact P.
  Qed.
End Tamper.

(* ---- the premise `contract_preimage_injective_multiset` holds for every H with 32-byte output ---- *)
Lemma insert_sorted_perm x l : Permutation (insert_sorted x l) (x :: l).
Proof.
  induction l as [|y r IH]; [apply Permutation_refl|].
  cbn [insert_sorted]. destruct (bytes_leb x y); [apply Permutation_refl|].
  apply Permutation_trans with (y :: x :: r); [apply perm_skip; exact IH|apply perm_swap].
Qed.
Lemma sort_addrs_perm l : Permutation (sort_addrs l) l.
Proof.
  induction l as [|x l IH]; [apply Permutation_refl|].
  unfold sort_addrs in *. cbn [fold_right].
  apply Permutation_trans with (x :: fold_right insert_sorted [] l); [apply insert_sorted_perm|apply perm_skip; exact IH].
Qed.

Lemma concat_chunks_length n (a : list (list Z)) : Forall (fun x => length x = n) a ->
  length (concat a) = (n * length a)%nat.
Proof.
  induction a as [|x a IH]; intros F; [cbn; lia|].
  inversion F as [|? ? Fx Fa]; subst. cbn [concat length]. rewrite app_length, IH by exact Fa. lia.
Qed.

Lemma app_inj_len {A} : forall (x y u v : list A), length x = length y -> x ++ u = y ++ v -> x = y /\ u = v.
Proof.
  induction x as [|a x IH]; intros y u v L E.
  - destruct y as [|b y]; [|cbn [length] in L; lia]. split; [reflexivity|exact E].
  - destruct y as [|b y]; [cbn [length] in L; lia|].
    cbn [app] in E. injection E as E0 E1. cbn [length] in L.
    destruct (IH y u v ltac:(lia) E1) as [Q1 Q2]. subst. split; reflexivity.
Qed.

Lemma concat_chunks_inj n : forall (a b : list (list Z)) s s',
  Forall (fun x => length x = n) a -> Forall (fun x => length x = n) b -> length a = length b ->
  concat a ++ s = concat b ++ s' -> a = b /\ s = s'.
Proof.
  induction a as [|x a IH]; intros b s s' Fa Fb L E.
  - destruct b as [|y b]; [|cbn [length] in L; lia]. cbn [concat app] in E. split; [reflexivity|exact E].
  - destruct b as [|y b]; [cbn [length] in L; lia|].
    inversion Fa as [|? ? Fx Fa']; subst. inversion Fb as [|? ? Fy Fb']; subst.
    cbn [concat] in E. rewrite <- !app_assoc in E.
    apply app_inj_len in E; [|lia].
    destruct E as [E1 E2]. cbn [length] in L.
    destruct (IH b s s' Fa' Fb' ltac:(lia) E2) as [Q1 Q2]. subst. split; reflexivity.
Qed.

Section PreimageInj.
  Variable H : list Z -> list Z.
  Hypothesis H_len : forall bs, length (H bs) = 32%nat.

  Lemma predicate_addr_length p : length (predicate_addr H p) = 32%nat.
  Proof. unfold predicate_addr. destruct (predicate_preimage p); [apply H_len|reflexivity]. Qed.

  Lemma contract_preimage_injective_multiset_holds ps salt ps' salt' :
    length salt = 32%nat -> length salt' = 32%nat ->
    contract_preimage H ps salt = contract_preimage H ps' salt' ->
    salt = salt' /\ Permutation (map (predicate_addr H) ps) (map (predicate_addr H) ps').
  Proof.
    intros Ls Ls' E. unfold contract_preimage, contract_preimage_of_addrs in E.
    set (A := map (predicate_addr H) ps) in *. set (B := map (predicate_addr H) ps') in *.
    assert (FA : Forall (fun x => length x = 32%nat) A).
    { apply Forall_forall. intros x Hx. apply in_map_iff in Hx. destruct Hx as [p [<- _]]. apply predicate_addr_length. }
    assert (FB : Forall (fun x => length x = 32%nat) B).
    { apply Forall_forall. intros x Hx. apply in_map_iff in Hx. destruct Hx as [p [<- _]]. apply predicate_addr_length. }
    assert (FSA : Forall (fun x => length x = 32%nat) (sort_addrs A)).
    { apply Forall_forall. intros x Hx. rewrite Forall_forall in FA. apply FA.
      apply (Permutation_in x (sort_addrs_perm A)). exact Hx. }
    assert (FSB : Forall (fun x => length x = 32%nat) (sort_addrs B)).
    { apply Forall_forall. intros x Hx. rewrite Forall_forall in FB. apply FB.
      apply (Permutation_in x (sort_addrs_perm B)). exact Hx. }
    assert (LL : length (sort_addrs A) = length (sort_addrs B)).
    { pose proof (f_equal (@length Z) E) as EL. rewrite !app_length in EL.
      rewrite (concat_chunks_length 32 _ FSA), (concat_chunks_length 32 _ FSB) in EL. lia. }
    destruct (concat_chunks_inj 32 _ _ _ _ FSA FSB LL E) as [Q1 Q2].
    split; [exact Q2|].
    apply Permutation_trans with (sort_addrs A); [apply Permutation_sym; apply sort_addrs_perm|].
    rewrite Q1. apply sort_addrs_perm.
  Qed.

  (* premise-free form of the tamper statement *)
  Lemma tamper_changes_signed_bytes_closed preds salt preds' salt' :
    length salt = 32%nat -> length salt' = 32%nat ->
    salt <> salt' \/ ~ Permutation (map (predicate_addr H) preds) (map (predicate_addr H) preds') ->
    contract_preimage H preds salt <> contract_preimage H preds' salt' /\
    (contract_addr H preds salt <> contract_addr H preds' salt' \/ (exists a b, a <> b /\ H a = H b)).
  Proof. apply tamper_changes_signed_bytes. exact contract_preimage_injective_multiset_holds. Qed.
End PreimageInj.
