(* When the reference accepts a solution set, the two-pass entry point returns (no program run of the model can
   panic or run out of fuel: the model performs exactly the reference's runs). *)
From Coq Require Import ZArith List Lia Bool Permutation Arith.
From EB Require Import Check.Set Spec.GraphRef Spec.InnerSpec Spec.TwoPassSpec Proofs.InnerEval Proofs.Deferred
  Proofs.KahnBase Proofs.Kahn Proofs.KahnRef Proofs.TwoMode Proofs.SetRefVm Proofs.SetRefNode Proofs.SetRefMuts
  Proofs.SetRefTotal Proofs.SetRef.
Import ListNotations.
Open Scope list_scope.
Local Open Scope nat_scope.

Lemma goodb_ran x : goodb x = true -> ran_ok (Ok x).
Proof. destruct x as [o g|[[|]|m] g| |]; simpl; auto; discriminate. Qed.

Lemma good_nodes (valR val : nat -> outcome unit nval) p all keep N vals :
  Permutation (filter keep (seq 0 (length (p_nodes p)))) N -> (forall v, In v N -> valR v = val v) ->
  eval_go valR (seq 0 (length (p_nodes p))) = Ok vals ->
  ps_ok (summarize p all (filter (fun e => keep (fst e)) vals)) = true ->
  forall v, In v N -> ran_ok (val v).
Proof.
  intros HK Hval He Hok v Hv. apply eval_go_ok in He as [-> Hall]. rewrite summ_ok in Hok. rewrite forallb_forall in Hok.
  assert (HvK : In v (filter keep (seq 0 (length (p_nodes p))))) by (eapply Permutation_in; [apply Permutation_sym; exact HK|exact Hv]).
  pose proof (Hok v HvK) as Hg. apply filter_In in HvK as [Hvs _].
  rewrite <- (Hval v Hv), (Hall v Hvs). apply goodb_ran. exact Hg.
Qed.

Section ExistNode.
  Variables run1 run2 runR : nat -> bool -> list sm -> outcome unit prog_res.
  Variable p : predicate.
  Variable is_def : nat -> bool.
  Variable dref : nat -> bool.
  Variable pm : list (nat * list nat).
  Variable sorted : list (list nat).
  Hypothesis Hcpm : create_parent_map p = Ok pm.
  Hypothesis Htopo : parallel_topo_sort p pm = Ok sorted.
  Notation n := (length (p_nodes p)).
  Notation D := (find_deferred p is_def).
  Hypothesis Hdref : forall v, v < n -> dref v = memb v D.
  Hypothesis Hleaf1 : run_respects_leaf run1.
  Variable all : list (nat * nval).

  Lemma first_call_exists ca vals :
    eval_pass p run1 dref = Ok vals ->
    ps_ok (summarize p all (filter (fun e => Bool.eqb (dref (fst e)) false) vals)) = true ->
    exists r1, check_predicate_inner run1 p ca is_def Outputs [] = Ok r1.
  Proof.
    intros He Hok. rewrite eval_pass_go in He.
    apply (first_call_total run1 run1 p is_def pm sorted Hcpm Htopo ca Hleaf1).
    eapply good_nodes with (keep := fun v => Bool.eqb (dref v) false) (valR := value p run1 dref (S n)); eauto.
    - exact (perm_K1 run1 p is_def dref pm sorted Hcpm Htopo Hdref).
    - exact (valR1_first run1 p is_def dref pm sorted Hcpm Htopo Hdref).
  Qed.

  Lemma second_call_exists ca1 ca2 r1 g1 d1 vals :
    check_predicate_inner run1 p ca1 is_def Outputs [] = Ok r1 -> ir_res r1 = Ok (g1, d1) ->
    run_respects_leaf run2 ->
    (forall v leaf ins, runR v leaf ins = run12 D run1 run2 v leaf ins) ->
    eval_pass p runR (fun _ => false) = Ok vals ->
    ps_ok (summarize p all (filter (fun e => Bool.eqb (dref (fst e)) true) vals)) = true ->
    exists r2, check_predicate_inner run2 p ca2 is_def Checks (ir_cache r1) = Ok r2.
  Proof.
    intros Hres1 Hr1 Hleaf2 HrunR He Hok. rewrite eval_pass_go in He.
    assert (Hnf1 : no_program_failed (ir_res r1)) by (rewrite Hr1; exact I).
    destruct (first_G run1 run2 p is_def pm sorted Hcpm Htopo ca1 r1 Hleaf1 Hres1 Hnf1) as (st1 & Er1 & HA1).
    replace (ir_cache r1) with (is_cache st1) by (rewrite Er1; reflexivity).
    apply (second_call_total run1 run2 p is_def pm sorted Hcpm Htopo ca2 st1 HA1 Hleaf2).
    eapply good_nodes with (keep := fun v => Bool.eqb (dref v) true) (valR := value p runR (fun _ => false) (S n)); eauto.
    - exact (perm_K2 run1 p is_def dref pm sorted Hcpm Htopo Hdref).
    - intros v _. exact (valR2_all run1 run2 runR p is_def HrunR v).
  Qed.
End ExistNode.

(* ------------------------------------------------------------------------------------------ *)
(* the set *)

Lemma pass_gen_inv E Sm : forall ixs sums, pass_gen E Sm ixs = Ok sums -> forallb (fun s => ps_ok (snd s)) sums = true ->
  forall i, In i ixs -> exists vals, E i = Ok vals /\ ps_ok (Sm i vals) = true.
Proof.
  induction ixs as [|j ixs IH]; intros sums H Hok i Hi; [destruct Hi|]. cbn [pass_gen] in H.
  apply bind_ok in H as (vals & He & H). apply bind_ok in H as (rest & Hr & H). injection H as <-.
  cbn [forallb snd] in Hok. apply andb_true_iff in Hok as [Hok1 Hok2].
  destruct Hi as [<-|Hi]; [eauto|]. eapply IH; eauto.
Qed.

Lemma csg_exists fuel lk ca mode sols pre post caches : forall ixs,
  (forall i, In i ixs -> exists r, check_predicate fuel lk ca mode
     {| sc_solutions := sols; sc_index := i; sc_pre := pre; sc_post := post |} (nth i caches []) = Ok r) ->
  exists rs, check_solutions_go fuel lk ca mode sols pre post ixs caches = Ok rs.
Proof.
  induction ixs as [|i ixs IH]; intros H; cbn [check_solutions_go]; [eauto|].
  destruct (H i (or_introl eq_refl)) as (r & Hr). rewrite Hr. cbn [bind].
  destruct IH as (rs & Hrs); [intros; apply H; now right|]. rewrite Hrs. cbn [bind]. eauto.
Qed.

Lemma csp_total fuel lk ca mode sols pre post caches rs :
  check_solutions_go fuel lk ca mode sols pre post (seq 0 (length sols)) caches = Ok rs ->
  exists sr, check_set_predicates fuel lk ca mode sols pre post caches = Ok sr.
Proof.
  intros H. unfold check_set_predicates. rewrite H. cbn [bind]. cbv zeta.
  destruct (flat_map _ (combine (seq 0 (length sols)) rs)); eauto.
Qed.

Lemma cac_total fuel lk ca mode sols pre post caches sr :
  check_set_predicates fuel lk ca mode sols pre post caches = Ok sr ->
  exists cr, check_and_compute fuel lk ca mode sols pre post caches = Ok cr /\
             ((exists x, cr_res cr = Ok x) \/ (exists e, cr_res cr = Err e)).
Proof.
  intros H. unfold check_and_compute. rewrite H. cbn [bind].
  apply csp_unfold in H as (rs & _ & _ & [(_ & Hres & _)|(_ & Hres)]); rewrite Hres.
  - destruct (DMS_total (csp_data (combine (seq 0 (length sols)) rs)) sols) as [(r & ->)|(e & ->)];
      eexists; (split; [reflexivity|]); cbn [cr_res]; eauto.
  - eexists; split; [reflexivity|]. cbn [cr_res]. eauto.
Qed.

Lemma reference_ok_inv fuel lk st sols g solsB2 runs :
  reference fuel lk st sols = RefOk g solsB2 runs ->
  find (fun i => negb (graph_ok (sol_predicate_of lk (nth i sols empty_solution)))) (seq 0 (length sols)) = None /\
  exists s1 solsB1 s2,
    pass_all fuel lk st sols (pre_v st) false (seq 0 (length sols)) = Ok s1 /\
    forallb (fun s => ps_ok (snd s)) s1 = true /\ apply_all s1 sols = Ok solsB1 /\
    pass_all fuel lk st solsB1 (overlay_view st solsB1) true (seq 0 (length sols)) = Ok s2 /\
    forallb (fun s => ps_ok (snd s)) s2 = true /\ apply_all s2 solsB1 = Ok solsB2.
Proof.
  unfold reference. intros H.
  destruct (find _ (seq 0 (length sols))) eqn:Ef; [discriminate|]. split; [reflexivity|].
  destruct (pass_all fuel lk st sols (pre_v st) false (seq 0 (length sols))) as [s1| | |] eqn:E1; try discriminate.
  destruct (forallb (fun s => ps_ok (snd s)) s1) eqn:O1; cbn [negb] in H; [|discriminate].
  destruct (apply_all s1 sols) as [solsB1| | |] eqn:A1; try discriminate.
  destruct (pass_all fuel lk st solsB1 (overlay_view st solsB1) true (seq 0 (length sols))) as [s2| | |] eqn:E2; try discriminate.
  destruct (forallb (fun s => ps_ok (snd s)) s2) eqn:O2; cbn [negb] in H; [|discriminate].
  destruct (apply_all s2 solsB1) as [sols2| | |] eqn:A2; try discriminate.
  injection H as _ <- _. exists s1, solsB1, s2. auto 10.
Qed.

Section Exist.
  Variable fuel : nat.
  Variable lk : lookup.
  Variable st : state.
  Hypothesis Hclosed : forall c a, KahnBase.closed (lk_predicate lk c a).
  Hypothesis Hbytes : forall a, Forall byte (lk_program lk a).
  Notation pre := (state_view st).
  Notation P sols i := (sol_predicate_of lk (nth i sols empty_solution)).

  Theorem two_pass_returns ca sols g solsB2 runs :
    reference fuel lk st sols = RefOk g solsB2 runs -> exists r, two_pass fuel lk ca sols st = Ok r.
  Proof.
    intros Href. destruct (reference_ok_inv _ _ _ _ _ _ _ Href) as (Hfind & s1 & solsB1 & s2 & Hp1 & O1 & A1 & Hp2 & O2 & A2).
    assert (Hgraphs : forall i, i < length sols -> graph_ok (P sols i) = true).
    { intros i Hi. apply negb_false_iff. apply (find_none _ _ Hfind i). apply in_seq. lia. }
    rewrite pass_all_E1 in Hp1. rewrite pass_all_E2 in Hp2.
    (* first pass *)
    destruct (csg_exists fuel lk ca Outputs sols pre pre (map (fun _ => []) sols) (seq 0 (length sols))) as (rs1 & Hrs1).
    { intros i Hi. rewrite nth_map_nil. apply in_seq in Hi.
      destruct (pass_gen_inv _ _ _ _ Hp1 O1 i ltac:(apply in_seq; lia)) as (vals & He & Hok).
      destruct (graph_ok_sorts _ (Hclosed _ _) (Hgraphs i ltac:(lia))) as (pm & sorted & Hcpm & Htopo).
      rewrite check_predicate_as_inner. cbv zeta.
      exact (first_call_exists _ _ _ (is_deferred_ref lk (P sols i)) pm sorted Hcpm Htopo (dref_memb lk _)
               (run_for_respects_leaf _ _ _ _ _ _ _) vals ca vals He Hok). }
    destruct (csp_total _ _ _ _ _ _ _ _ _ Hrs1) as (sr1 & Hsr1).
    destruct (cac_total _ _ _ _ _ _ _ _ _ Hsr1) as (cr1 & Hcr1 & Hdich1).
    unfold two_pass. rewrite rof_nil, Hcr1. cbn [bind].
    destruct Hdich1 as [([gas1 solsA] & Ecr1)|(e & Ecr1)]; rewrite Ecr1; [|eauto].
    (* what the first pass of the model computed *)
    apply cac_unfold in Hcr1 as (sr1' & Hsr1' & _ & Hcaches1 & Hm1). rewrite Hsr1 in Hsr1'. injection Hsr1' as <-.
    apply csp_unfold in Hsr1 as (rs1' & Hrs1' & _ & Hres1). rewrite Hrs1 in Hrs1'. injection Hrs1' as <-. cbv zeta in Hres1.
    pose proof (csg_Forall2 _ _ _ _ _ _ _ _ _ _ Hrs1) as F1. pose proof (to_M1 fuel lk st ca sols rs1 Hgraphs F1) as HF1.
    destruct Hres1 as [(Hnil & Hres1 & Hc1)|(_ & Hres1)]; rewrite Hres1 in Hm1; [|congruence].
    destruct Hm1 as [(solsA' & HdA & Ecr1')|(e & _ & Ecr1')]; [|congruence].
    rewrite Ecr1 in Ecr1'. injection Ecr1' as _ <-.
    destruct (pass_gen_cases (E1 fuel lk st sols) (SmR lk false sols) (M1 fuel lk st ca sols)
                (M1_dich fuel lk st ca sols) (M1_OK fuel lk st Hclosed ca sols) (M1_ERR fuel lk st Hclosed ca sols) _ _ HF1)
      as [(_ & s1' & Hpg1 & Hrel1)|(Hne & _)]; [|contradiction].
    rewrite Hp1 in Hpg1. injection Hpg1 as <-.
    destruct (DMS_rel _ _ (node_rel_data _ _ Hrel1) _ _ (srel_refl sols) _ HdA) as (solsB1' & HdB & HAB).
    unfold apply_all in A1. rewrite A1 in HdB. injection HdB as <-.
    pose proof (DMS_ext _ _ _ HdA) as HextA. pose proof (DMS_ext _ _ _ A1) as HextB.
    assert (HlenA : length solsA = length sols) by (symmetry; eapply Forall2_len; exact HextA).
    (* second pass *)
    destruct (csg_exists fuel lk ca Checks solsA pre (read_or_fallback (build_post_state solsA) pre) (cr_caches cr1)
                (seq 0 (length solsA))) as (rs2 & Hrs2).
    { intros i Hi. apply in_seq in Hi. rewrite HlenA in Hi. rewrite Hcaches1, Hc1.
      destruct (first_of fuel lk st ca sols rs1 HF1 Hnil i ltac:(lia)) as (r1 & g1 & d1 & (_ & Hg & Hc) & Er1 & Ecache).
      fold (caches1 sols rs1). rewrite Ecache.
      destruct (pass_gen_inv _ _ _ _ Hp2 O2 i ltac:(apply in_seq; lia)) as (vals & He & Hok).
      destruct (graph_ok_sorts _ (Hclosed _ _) Hg) as (pm & sorted & Hcpm & Htopo).
      rewrite check_predicate_as_inner. cbv zeta.
      unfold E2, SmR in He, Hok. cbv zeta in He, Hok.
      rewrite <- (P_sim lk sols solsB1 i (sims_A _ _ HextB)) in He, Hok.
      rewrite <- (P_sim lk sols solsA i (sims_A _ _ HextA)).
      exact (second_call_exists _ _ _ _ _ (is_deferred_ref lk (P sols i)) pm sorted Hcpm Htopo (dref_memb lk _)
               (run_for_respects_leaf _ _ _ _ _ _ _) vals ca ca r1 g1 d1 vals Hc Er1
               (run_for_respects_leaf _ _ _ _ _ _ _) (runR_eq fuel lk st Hbytes sols solsA solsB1 HextA HextB HAB i (P sols i))
               He Hok). }
    destruct (csp_total _ _ _ _ _ _ _ _ _ Hrs2) as (sr2 & Hsr2).
    destruct (cac_total _ _ _ _ _ _ _ _ _ Hsr2) as (cr2 & Hcr2 & Hdich2).
    rewrite Hcr2. cbn [bind].
    destruct Hdich2 as [([gas2 sols2] & Ecr2)|(e & Ecr2)]; rewrite Ecr2; eauto.
  Qed.
End Exist.

(* (b) at full strength: the entry point returns, with the reference's gas and solutions up to the order of the
   appended mutations *)
Theorem two_pass_accepts fuel lk st :
  (forall c a, KahnBase.closed (lk_predicate lk c a)) -> (forall a, Forall byte (lk_program lk a)) ->
  forall ca sols g solsB runs,
    reference fuel lk st sols = RefOk g solsB runs ->
    exists r solsA, two_pass fuel lk ca sols st = Ok r /\ tp_res r = Ok (g, solsA) /\ srel solsA solsB.
Proof.
  intros Hclosed Hbytes ca sols g solsB runs Href.
  destruct (two_pass_returns fuel lk st Hclosed Hbytes ca sols g solsB runs Href) as (r & Hr).
  destruct (two_pass_equals_reference fuel lk st Hclosed Hbytes ca sols r Hr) as (_ & Hb & _).
  destruct (Hb g solsB runs Href) as (solsA & Htp & Hrel). eauto.
Qed.
