(* When the reference values of the nodes of a pass are all results of successful runs, check_predicate_inner
   returns (no Panic / OutOfFuel of a program run can occur: it runs exactly the reference's runs). *)
From Coq Require Import List Arith Lia Bool Permutation ZArith Sorted.
From EB Require Import Spec.InnerSpec Spec.TwoPassSpec Proofs.InnerEval Proofs.Deferred Proofs.C01Glue Proofs.TwoMode.
Import ListNotations.
Open Scope list_scope.
Local Open Scope nat_scope.

Lemma run_level_ok run p pm st : forall level,
  (forall v, In v level -> exists r, run v (is_leaf p v) (inputs_of pm st v) = Ok r) ->
  exists rs, run_level run p pm st level = Ok rs.
Proof.
  induction level as [|v level IH]; intros H; cbn [run_level]; [eauto|].
  destruct (H v (or_introl eq_refl)) as (r & Hr). rewrite Hr. cbn [bind].
  destruct IH as (rs & Hrs); [intros; apply H; now right|]. rewrite Hrs. cbn [bind]. eauto.
Qed.

Section GenTotal.
  Variable run : nat -> bool -> list sm -> outcome unit prog_res.
  Variable p : predicate.
  Variable D : list nat.
  Variable c0 : list (nat * sm).
  Variable val : nat -> outcome unit nval.
  Variable levels : list (list nat).
  Variable pm : list (nat * list nat).
  Notation n := (length (p_nodes p)).
  Hypothesis Hfix : forall v, In v (concat levels) -> val v = vstep run p val v.
  Hypothesis Hlt : forall v, In v (concat levels) -> v < n.
  Hypothesis Hpb : forall done level rest u v, levels = done ++ level :: rest -> In v level ->
      In u (parents_ref p v) -> In u (concat done) \/ exists o, aget u c0 = Some o.
  Hypothesis Hcons : forall u o, aget u c0 = Some o -> outG val u = Some o.
  Hypothesis Hvalid : forall ix, ix < n -> children p ix <> None.
  Hypothesis Hpar : forall v, v < n -> parents_of pm v = parents_ref p v.
  Hypothesis Hleaf : run_respects_leaf run.
  Hypothesis Hgood : forall v, In v (concat levels) -> ran_ok (val v).

  Lemma node_run nodes evn st v : invG run p D c0 val nodes evn st -> In v (concat levels) ->
    (forall u, In u (parents_ref p v) -> known c0 nodes u) ->
    exists r, run v (is_leaf p v) (insG p val v) = Ok r /\ val v = Ok (nval_of r).
  Proof.
    intros HA Hv Hp. pose proof (Hfix v Hv) as E. pose proof (Hgood v Hv) as G. unfold vstep in E.
    rewrite gather_parentsG in E by (intros u Hu; eapply known_parent; eauto).
    cbn [bind] in E. fold (insG p val v) in E. rewrite <- (is_leaf_ref p v (Hvalid v (Hlt v Hv))) in E.
    destruct (run v (is_leaf p v) (insG p val v)) as [r| | |]; cbn [bind] in E.
    - exists r. auto.
    - rewrite E in G. destruct G.
    - rewrite E in G. destruct G.
    - rewrite E in G. destruct G.
  Qed.

  Lemma run_levels_good ca : forall rest done st,
    levels = done ++ rest -> invG run p D c0 val (concat done) (concat done) st ->
    exists st', run_levels run p ca pm D st rest = Ok (st', false).
  Proof.
    induction rest as [|level rest IH]; intros done st E HA; cbn [run_levels]; [eauto|].
    assert (Hin : forall v, In v level -> In v (concat levels) /\ forall u, In u (parents_ref p v) -> known c0 (concat done) u).
    { intros v Hv. split.
      - rewrite E, concat_app. apply in_or_app; right. simpl. apply in_or_app; now left.
      - intros u Hu. eapply Hpb; eauto. }
    assert (Hinp : forall v, In v level -> inputs_of pm st v = insG p val v).
    { intros v Hv. destruct (Hin v Hv) as [Hv1 Hv2]. eapply inputs_G; eauto. }
    destruct (run_level_ok run p pm st level) as (rs & Hrs).
    { intros v Hv. destruct (Hin v Hv) as [Hv1 Hv2]. rewrite (Hinp v Hv).
      destruct (node_run _ _ _ v HA Hv1 Hv2) as (r & Hr & _). eauto. }
    rewrite Hrs. cbn [bind].
    destruct (run_level_G run p val pm st level rs Hinp Hrs) as (Ers & Hruns). subst rs.
    assert (Hall : forall v, In v level -> v < n /\ run v (is_leaf p v) (insG p val v) = Ok (rrG run p val v) /\
                                             val v = Ok (nval_of (rrG run p val v))).
    { intros v Hv. destruct (Hin v Hv) as [Hv1 Hv2]. split; [auto|]. split; [auto|].
      destruct (node_run _ _ _ v HA Hv1 Hv2) as (r & Hr & Hvr). rewrite (Hruns v Hv) in Hr. injection Hr as <-. exact Hvr. }
    match goal with |- context [add_events st ?rs] =>
      assert (HA' : invG run p D c0 val (concat done) (concat done ++ level) (add_events st rs)) end.
    { destruct HA as [h1 h2 h3 h4 h5 h6 h7 h8].
      constructor; cbn [add_events is_cache is_failed is_local is_unsat is_data is_gas is_events]; auto.
      rewrite h8, map_app, rev_app_distr, map_map. reflexivity. }
    match goal with |- context [absorb p ca D ?s ?rs] => destruct (absorb p ca D s rs) as [st1 stop1] eqn:EA end.
    destruct (absorb_G run p D c0 val Hvalid Hleaf ca level _ _ _ _ _ HA' Hall EA)
      as [(Hs & HA2 & Hnf) | (a & f & b & tl & El & Ha & Hf & _)].
    - subst stop1. apply (IH (done ++ [level])).
      + rewrite <- app_assoc. exact E.
      + rewrite concat_app. simpl. rewrite app_nil_r. exact HA2.
    - exfalso. assert (Hfin : In f level) by (rewrite El; apply in_or_app; right; now left).
      destruct (Hall f Hfin) as (_ & _ & Hvf). rewrite Hf in Hvf.
      pose proof (Hgood f (proj1 (Hin f Hfin))) as G. rewrite Hvf in G. exact G.
  Qed.
End GenTotal.

Section TwoTotal.
  Variables run1 run2 : nat -> bool -> list sm -> outcome unit prog_res.
  Variable p : predicate.
  Variable is_def : nat -> bool.
  Variable pm : list (nat * list nat).
  Variable sorted : list (list nat).
  Hypothesis Hcpm : create_parent_map p = Ok pm.
  Hypothesis Htopo : parallel_topo_sort p pm = Ok sorted.
  Notation n := (length (p_nodes p)).
  Notation D := (find_deferred p is_def).
  Notation val := (vals p (run12 D run1 run2)).
  Notation L1 := (remove_deferred sorted D).
  Notation L2 := (remove_not_deferred sorted D).
  Notation N1 := (nodes_first D sorted).
  Notation N2 := (nodes_second D sorted).

  Let Hok : level_sort_ok p pm sorted := kahn_level_sort_ok p pm sorted Hcpm Htopo.

  Lemma first_call_total ca1 : run_respects_leaf run1 -> (forall v, In v N1 -> ran_ok (val v)) ->
    exists r1, check_predicate_inner run1 p ca1 is_def Outputs [] = Ok r1.
  Proof.
    intros Hleaf1 Hgood. rewrite (cpi_unfold run1 p ca1 is_def Outputs [] pm sorted Hcpm Htopo). cbn [pass_levels].
    destruct (run_levels_good run1 p D [] val L1 pm) with (ca := ca1) (rest := L1) (done := @nil (list nat)) (st := stG [])
      as (st' & Hrl); auto.
    - intros v Hv. rewrite (concat_L1 p is_def sorted) in Hv.
      apply (in_N1 run1 run2 p is_def pm sorted Hcpm Htopo) in Hv as [Hv Hd].
      rewrite (val_fix run1 run2 p is_def pm sorted Hcpm Htopo v Hv).
      apply vstep_run12_first. apply memb_false. exact Hd.
    - intros v Hv. rewrite (concat_L1 p is_def sorted) in Hv.
      apply (in_N1 run1 run2 p is_def pm sorted Hcpm Htopo) in Hv. tauto.
    - intros done level rest u v E Hv Hu. left. eapply (pb1 run1 run2 p is_def pm sorted Hcpm Htopo); eauto.
    - intros u o Ho. discriminate.
    - exact (create_parent_map_valid p pm Hcpm).
    - exact (lso_parents _ _ _ Hok).
    - intros v Hv. rewrite (concat_L1 p is_def sorted) in Hv. auto.
    - apply invG_init.
    - rewrite Hrl. cbn [bind]. eauto.
  Qed.

  Lemma second_call_total ca2 st1 : invG run1 p D [] val N1 N1 st1 ->
    run_respects_leaf run2 -> (forall v, In v N2 -> ran_ok (val v)) ->
    exists r2, check_predicate_inner run2 p ca2 is_def Checks (is_cache st1) = Ok r2.
  Proof.
    intros HA1 Hleaf2 Hgood. rewrite (cpi_unfold run2 p ca2 is_def Checks _ pm sorted Hcpm Htopo). cbn [pass_levels].
    destruct (run_levels_good run2 p D (is_cache st1) val L2 pm) with (ca := ca2) (rest := L2) (done := @nil (list nat))
                                                                   (st := stG (is_cache st1))
      as (st' & Hrl); auto.
    - intros v Hv. rewrite (concat_L2 p is_def sorted) in Hv.
      apply (in_N2 run1 run2 p is_def pm sorted Hcpm Htopo) in Hv as [Hv Hd].
      rewrite (val_fix run1 run2 p is_def pm sorted Hcpm Htopo v Hv).
      apply vstep_run12_second. apply memb_In. exact Hd.
    - intros v Hv. rewrite (concat_L2 p is_def sorted) in Hv.
      apply (in_N2 run1 run2 p is_def pm sorted Hcpm Htopo) in Hv. tauto.
    - intros done level rest u v E Hv Hu.
      assert (Hv2 : In v N2).
      { rewrite <- (concat_L2 p is_def sorted), E, concat_app. apply in_or_app; right. simpl. apply in_or_app; now left. }
      apply (in_N2 run1 run2 p is_def pm sorted Hcpm Htopo) in Hv2 as [Hvn Hvd].
      destruct (in_dec Nat.eq_dec u D) as [Hud|Hud].
      + left. eapply (pb2 p is_def pm sorted Hcpm Htopo); eauto.
      + right. destruct (ext_parent_cached run1 run2 p is_def pm sorted Hcpm Htopo st1 HA1 u v Hvd Hu Hud) as (_ & o & _ & Ho). eauto.
    - intros u o Ho. rewrite (cache1 run1 run2 p is_def pm sorted Hcpm Htopo st1 HA1) in Ho.
      destruct (should_cache p D u); [exact Ho|discriminate].
    - exact (create_parent_map_valid p pm Hcpm).
    - exact (lso_parents _ _ _ Hok).
    - intros v Hv. rewrite (concat_L2 p is_def sorted) in Hv. auto.
    - apply invG_init.
    - rewrite Hrl. cbn [bind]. eauto.
  Qed.
End TwoTotal.
