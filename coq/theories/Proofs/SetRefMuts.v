(* decode_mutations_set (Check/Set.v) when the data outputs of every solution are given in another order:
   same success / failure, the resulting mutation lists are permutations of each other, and the post-state
   views built from the two results answer every read alike. *)
From Coq Require Import ZArith List Lia Bool Permutation Arith.
From EB Require Import Check.Set Spec.TwoPassSpec Proofs.MutationProofs Proofs.PostState Proofs.SetRefVm.
Import ListNotations.
Open Scope list_scope.

(* ------------------------------------------------------------------------------------------ *)
(* generic *)

Lemma Forall2_refl_ {A} (R : A -> A -> Prop) : (forall x, R x x) -> forall l, Forall2 R l l.
Proof. intros H. induction l; constructor; auto. Qed.

Lemma Forall2_sym_ {A B} (R : A -> B -> Prop) (R' : B -> A -> Prop) : (forall x y, R x y -> R' y x) ->
  forall l l', Forall2 R l l' -> Forall2 R' l' l.
Proof. intros H l l' F. induction F; constructor; auto. Qed.

Lemma Forall2_trans_ {A} (R : A -> A -> Prop) : (forall x y z, R x y -> R y z -> R x z) ->
  forall l1 l2 l3, Forall2 R l1 l2 -> Forall2 R l2 l3 -> Forall2 R l1 l3.
Proof.
  intros H l1 l2 l3 F. revert l3. induction F as [|x y l1 l2 Hxy F IH]; intros l3 G; inversion G; subst; constructor; eauto.
Qed.

Lemma Forall2_nth_ {A} (R : A -> A -> Prop) d : R d d -> forall l l' i, Forall2 R l l' -> R (nth i l d) (nth i l' d).
Proof.
  intros Hd l l' i F. revert i. induction F as [|x y l l' Hxy F IH]; intros i; destruct i; simpl; auto.
Qed.

Lemma Forall2_update_nth {A} (R : A -> A -> Prop) (f g : A -> A) :
  (forall x y, R x y -> R (f x) (g y)) ->
  forall l l' n, Forall2 R l l' -> Forall2 R (update_nth n f l) (update_nth n g l').
Proof.
  intros H l l' n F. revert n. induction F as [|x y l l' Hxy F IH]; intros n; destruct n; simpl; constructor; auto.
Qed.

Lemma update_nth_rel {A} (R : A -> A -> Prop) (f : A -> A) : (forall x, R x x) ->
  forall l n, (forall x, nth_error l n = Some x -> R x (f x)) -> Forall2 R l (update_nth n f l).
Proof.
  intros Hr. induction l as [|x l IH]; intros n H; destruct n; simpl; try constructor; auto.
  - apply Forall2_refl_. exact Hr.
Qed.

Lemma NoDup_app_ {A} (l1 l2 : list A) : NoDup l1 -> NoDup l2 -> (forall x, In x l1 -> In x l2 -> False) -> NoDup (l1 ++ l2).
Proof.
  induction l1 as [|x l1 IH]; intros H1 H2 Hd; [exact H2|]. inversion H1 as [|? ? Hx H1']; subst. simpl. constructor.
  - intros Hin. apply in_app_or in Hin as [Hin|Hin]; [contradiction|]. apply (Hd x); [now left|exact Hin].
  - apply IH; auto. intros y Hy1 Hy2. apply (Hd y); [now right|exact Hy2].
Qed.

Lemma NoDup_app_inv_ {A} (l1 l2 : list A) : NoDup (l1 ++ l2) -> NoDup l1 /\ NoDup l2 /\ forall x, In x l1 -> In x l2 -> False.
Proof.
  induction l1 as [|x l1 IH]; intros H; simpl in H.
  - split; [constructor|]. split; [exact H|]. intros x [].
  - inversion H as [|? ? Hx H']; subst. destruct (IH H') as (A1 & A2 & A3). split; [|split; [exact A2|]].
    + constructor; [|exact A1]. intros Hin. apply Hx. apply in_or_app. now left.
    + intros y [<-|Hy] Hy2; [apply Hx; apply in_or_app; now right|eapply A3; eauto].
Qed.

(* ------------------------------------------------------------------------------------------ *)
(* apply_muts / apply_outputs *)

Lemma key_in_spec k ks : key_in k ks = true <-> In k ks.
Proof.
  unfold key_in. rewrite existsb_exists. split.
  - intros (x & Hx & E). apply zlist_eqb_spec in E. now subst.
  - intros H. exists k. split; [exact H|apply zlist_eqb_refl].
Qed.

Lemma apply_muts_some : forall ms seen acc s' a', apply_muts seen ms acc = Some (s', a') ->
  a' = acc ++ ms /\ NoDup (map m_key ms) /\ (forall k, In k (map m_key ms) -> ~ In k seen) /\
  (forall k, In k s' <-> In k (map m_key ms) \/ In k seen).
Proof.
  induction ms as [|m ms IH]; intros seen acc s' a' H; cbn [apply_muts] in H.
  - injection H as <- <-. rewrite app_nil_r. split; [reflexivity|]. split; [constructor|]. split; [intros k []|].
    intros k. simpl. tauto.
  - destruct (key_in (m_key m) seen) eqn:Ek; [discriminate|].
    assert (Hnk : ~ In (m_key m) seen) by (intros Hin; apply key_in_spec in Hin; congruence).
    destruct (IH _ _ _ _ H) as (Ea & Hnd & Hdis & Hs').
    split; [rewrite Ea, <- app_assoc; reflexivity|]. split; [|split].
    + simpl. constructor; [|exact Hnd]. intros Hin. apply (Hdis _ Hin). now left.
    + intros k [<-|Hk]; [exact Hnk|]. intros Hin. apply (Hdis k Hk). now right.
    + intros k. rewrite Hs'. simpl. tauto.
Qed.

Lemma apply_muts_complete : forall ms seen acc, NoDup (map m_key ms) -> (forall k, In k (map m_key ms) -> ~ In k seen) ->
  exists s', apply_muts seen ms acc = Some (s', acc ++ ms) /\ (forall k, In k s' <-> In k (map m_key ms) \/ In k seen).
Proof.
  induction ms as [|m ms IH]; intros seen acc Hnd Hdis; cbn [apply_muts].
  - exists seen. rewrite app_nil_r. split; [reflexivity|]. intros k. simpl. tauto.
  - simpl in Hnd. inversion Hnd as [|? ? Hnm Hnd']; subst.
    destruct (key_in (m_key m) seen) eqn:Ek.
    { apply key_in_spec in Ek. exfalso. apply (Hdis (m_key m)); [now left|exact Ek]. }
    destruct (IH (m_key m :: seen) (acc ++ [m]) Hnd') as (s' & E & Hs').
    { intros k Hk [<-|Hin]; [contradiction|]. apply (Hdis k); [now right|exact Hin]. }
    exists s'. rewrite <- app_assoc in E. split; [exact E|]. intros k. rewrite Hs'. simpl. tauto.
Qed.

Definition good_outs (seen : list (list Z)) (mss : list (list mutation)) : Prop :=
  NoDup (map m_key (concat mss)) /\ forall k, In k (map m_key (concat mss)) -> ~ In k seen.

Definition decodes (mems : list (list Z)) (mss : list (list mutation)) : Prop :=
  Forall2 (fun mem ms => decode_mutations mem = Ok ms) mems mss.

Lemma AO_ok ix : forall mems seen acc acc', apply_outputs ix seen mems acc = Ok acc' ->
  exists mss, decodes mems mss /\ good_outs seen mss /\ acc' = acc ++ concat mss.
Proof.
  induction mems as [|mem r IH]; intros seen acc acc' H; cbn [apply_outputs] in H.
  - injection H as <-. exists []. split; [constructor|]. split; [split; [constructor|intros k []]|]. now rewrite app_nil_r.
  - destruct (decode_mutations mem) as [ms|e|s|] eqn:Ed; try discriminate H.
    destruct (apply_muts seen ms acc) as [[seen' acc'']|] eqn:Ea; [|discriminate H].
    destruct (apply_muts_some _ _ _ _ _ Ea) as (-> & Hnd & Hdis & Hs').
    destruct (IH _ _ _ H) as (mss & Hdec & [Hnd2 Hdis2] & ->).
    exists (ms :: mss). split; [constructor; auto|]. split; [|simpl; now rewrite app_assoc].
    split; simpl; rewrite map_app.
    + apply NoDup_app_; auto. intros k Hk1 Hk2. apply (Hdis2 k Hk2). apply Hs'. now left.
    + intros k Hk. apply in_app_or in Hk as [Hk|Hk]; [now apply Hdis|].
      intros Hin. apply (Hdis2 k Hk). apply Hs'. now right.
Qed.

Lemma AO_complete ix : forall mems mss, decodes mems mss -> forall seen acc, good_outs seen mss ->
  apply_outputs ix seen mems acc = Ok (acc ++ concat mss).
Proof.
  induction 1 as [|mem ms mems mss Hd F IH]; intros seen acc [Hnd Hdis]; cbn [apply_outputs].
  - simpl. now rewrite app_nil_r.
  - rewrite Hd. simpl in Hnd, Hdis. rewrite map_app in Hnd, Hdis.
    destruct (NoDup_app_inv_ _ _ Hnd) as (Hnd1 & Hnd2 & Hx).
    destruct (apply_muts_complete ms seen acc Hnd1) as (s' & -> & Hs').
    { intros k Hk. apply Hdis. apply in_or_app. now left. }
    rewrite IH.
    + simpl. now rewrite app_assoc.
    + split; [exact Hnd2|]. intros k Hk Hin. apply Hs' in Hin as [Hin|Hin].
      * exact (Hx k Hin Hk).
      * apply (Hdis k); [apply in_or_app; now right|exact Hin].
Qed.

Lemma AO_total ix : forall mems seen acc,
  (exists a, apply_outputs ix seen mems acc = Ok a) \/ (exists e, apply_outputs ix seen mems acc = Err e).
Proof.
  induction mems as [|mem r IH]; intros seen acc; cbn [apply_outputs]; [left; eauto|].
  destruct (decode_mutations_total mem) as [NP NF].
  destruct (decode_mutations mem) as [ms|e|s|]; [|right; eauto|exfalso; exact (NP s eq_refl)|exfalso; exact (NF eq_refl)].
  destruct (apply_muts seen ms acc) as [[seen' acc']|]; [apply IH|right; eauto].
Qed.

Lemma perm_concat {A} (l l' : list (list A)) : Permutation l l' -> Permutation (concat l) (concat l').
Proof.
  intros H. rewrite <- (map_id l), <- (map_id l'), <- !flat_map_concat_map. apply Permutation_flat_map. exact H.
Qed.

Lemma AO_perm ix mems seen acc a : apply_outputs ix seen mems acc = Ok a ->
  exists e, a = acc ++ e /\ NoDup (map m_key e) /\ (forall k, In k (map m_key e) -> ~ In k seen) /\
    forall mems' seen' acc', Permutation mems mems' -> (forall k, In k seen <-> In k seen') ->
      exists e', apply_outputs ix seen' mems' acc' = Ok (acc' ++ e') /\ Permutation e e'.
Proof.
  intros H. destruct (AO_ok ix _ _ _ _ H) as (mss & Hdec & [Hnd Hdis] & ->).
  exists (concat mss). split; [reflexivity|]. split; [exact Hnd|]. split; [exact Hdis|].
  intros mems' seen' acc' HP Hseen.
  destruct (Permutation_Forall2 HP Hdec) as (mss' & HP' & Hdec').
  pose proof (perm_concat _ _ HP') as HPc.
  exists (concat mss'). split; [|exact HPc].
  apply AO_complete; [exact Hdec'|]. split.
  - eapply Permutation_NoDup; [apply Permutation_map; exact HPc|exact Hnd].
  - intros k Hk Hin. apply (Hdis k).
    + eapply Permutation_in; [apply Permutation_sym, Permutation_map; exact HPc|exact Hk].
    + apply Hseen. exact Hin.
Qed.

(* ------------------------------------------------------------------------------------------ *)
(* decode_mutations_set *)

Definition srel_one (a b : solution) : Prop := sol_sim a b /\ Permutation (sol_muts a) (sol_muts b).
Definition srel : list solution -> list solution -> Prop := Forall2 srel_one.
Definition drel_one (x y : nat * list (list Z)) : Prop := fst x = fst y /\ Permutation (snd x) (snd y).
Definition drel : list (nat * list (list Z)) -> list (nat * list (list Z)) -> Prop := Forall2 drel_one.

Lemma srel_one_refl a : srel_one a a.
Proof. split; [apply sol_sim_refl|apply Permutation_refl]. Qed.
Lemma srel_refl l : srel l l.
Proof. apply Forall2_refl_. exact srel_one_refl. Qed.
Lemma srel_sym l l' : srel l l' -> srel l' l.
Proof. apply Forall2_sym_. intros x y [A B]. split; [now apply sol_sim_sym|now apply Permutation_sym]. Qed.
Lemma drel_sym l l' : drel l l' -> drel l' l.
Proof. apply Forall2_sym_. intros x y [A B]. split; [now symmetry|now apply Permutation_sym]. Qed.
Lemma srel_sims l l' : srel l l' -> Forall2 sol_sim l l'.
Proof. intros F. induction F as [|x y l l' [H _] F IH]; constructor; auto. Qed.

Lemma DMS_rel : forall dA dB, drel dA dB -> forall sA sB, srel sA sB ->
  forall rA, decode_mutations_set dA sA = Ok rA -> exists rB, decode_mutations_set dB sB = Ok rB /\ srel rA rB.
Proof.
  induction 1 as [|[ix memsA] [ix' memsB] dA dB [Eix HP] F IH]; intros sA sB Hs rA H; cbn [decode_mutations_set] in *.
  - injection H as <-. eauto.
  - cbn [fst snd] in Eix, HP. subst ix'.
    apply bind_ok in H as (ms & Hms & H).
    pose proof (Forall2_nth_ srel_one empty_solution (srel_one_refl _) _ _ ix Hs) as [Hsim Hperm].
    destruct (AO_perm ix _ _ _ _ Hms) as (e & -> & _ & _ & Hall).
    destruct (Hall memsB (map m_key (sol_muts (nth ix sB empty_solution))) (sol_muts (nth ix sB empty_solution)) HP)
      as (e' & Hms' & HPe).
    { intros k. split; apply Permutation_in; [|apply Permutation_sym]; apply Permutation_map; exact Hperm. }
    rewrite Hms'. cbn [bind]. eapply IH; [|exact H].
    apply Forall2_update_nth; [|exact Hs].
    intros x y [Hxy _]. split; [exact Hxy|]. cbn [set_muts sol_muts]. apply Permutation_app; assumption.
Qed.

Lemma DMS_total : forall d s, (exists r, decode_mutations_set d s = Ok r) \/ (exists e, decode_mutations_set d s = Err e).
Proof.
  induction d as [|[ix mems] d IH]; intros s; cbn [decode_mutations_set]; [left; eauto|].
  destruct (AO_total ix mems (map m_key (sol_muts (nth ix s empty_solution))) (sol_muts (nth ix s empty_solution)))
    as [(a & ->)|(e & ->)]; cbn [bind]; [apply IH|right; eauto].
Qed.

Lemma DMS_rel_err dA dB sA sB e : drel dA dB -> srel sA sB -> decode_mutations_set dA sA = Err e ->
  exists e', decode_mutations_set dB sB = Err e'.
Proof.
  intros Hd Hs H. destruct (DMS_total dB sB) as [(r & Hr)|He]; [|exact He].
  destruct (DMS_rel dB dA (drel_sym _ _ Hd) sB sA (srel_sym _ _ Hs) r Hr) as (r' & Hr' & _). congruence.
Qed.

(* the result extends every mutation list by fresh, pairwise different keys *)
Definition mext (a b : list mutation) : Prop :=
  exists e, b = a ++ e /\ NoDup (map m_key e) /\ forall k, In k (map m_key e) -> ~ In k (map m_key a).
Definition sext_one (a b : solution) : Prop := sol_sim a b /\ mext (sol_muts a) (sol_muts b).
Definition sext : list solution -> list solution -> Prop := Forall2 sext_one.

Lemma mext_refl a : mext a a.
Proof. exists []. rewrite app_nil_r. split; [reflexivity|]. split; [constructor|intros k []]. Qed.

Lemma mext_trans a b c : mext a b -> mext b c -> mext a c.
Proof.
  intros (e1 & -> & N1 & D1) (e2 & -> & N2 & D2). exists (e1 ++ e2). rewrite app_assoc. split; [reflexivity|].
  rewrite map_app. split.
  - apply NoDup_app_; auto. intros k H1 H2. apply (D2 k H2). rewrite map_app. apply in_or_app. now right.
  - intros k Hk. apply in_app_or in Hk as [Hk|Hk]; [now apply D1|].
    intros Hin. apply (D2 k Hk). rewrite map_app. apply in_or_app. now left.
Qed.

Lemma sext_one_refl a : sext_one a a.
Proof. split; [apply sol_sim_refl|apply mext_refl]. Qed.
Lemma sext_refl l : sext l l.
Proof. apply Forall2_refl_. exact sext_one_refl. Qed.
Lemma sext_trans l1 l2 l3 : sext l1 l2 -> sext l2 l3 -> sext l1 l3.
Proof.
  apply Forall2_trans_. intros x y z [A B] [A' B']. split; [eapply sol_sim_trans; eauto|eapply mext_trans; eauto].
Qed.
Lemma sext_sims l l' : sext l l' -> Forall2 sol_sim l l'.
Proof. intros F. induction F as [|x y l l' [H _] F IH]; constructor; auto. Qed.

Lemma DMS_ext : forall d s r, decode_mutations_set d s = Ok r -> sext s r.
Proof.
  induction d as [|[ix mems] d IH]; intros s r H; cbn [decode_mutations_set] in H.
  - injection H as <-. apply sext_refl.
  - apply bind_ok in H as (ms & Hms & H). eapply sext_trans; [|exact (IH _ _ H)].
    apply update_nth_rel; [exact sext_one_refl|].
    intros x Hx. assert (Ex : nth ix s empty_solution = x) by (apply nth_error_nth; exact Hx). rewrite Ex in Hms.
    destruct (AO_perm ix _ _ _ _ Hms) as (e & -> & Hnd & Hdis & _).
    split; [repeat split|]. cbn [set_muts sol_muts]. exists e. auto.
Qed.

(* ------------------------------------------------------------------------------------------ *)
(* the post views built from two such results *)

Lemma last_mut_nodup k : forall a v, NoDup (map m_key a) ->
  (last_mut k a = Some v <-> exists m, In m a /\ m_key m = k /\ m_value m = v).
Proof.
  induction a as [|m a IH]; intros v Hnd; cbn [last_mut].
  - split; [discriminate|intros (m & [] & _)].
  - simpl in Hnd. inversion Hnd as [|? ? Hnm Hnd']; subst.
    destruct (last_mut k a) as [v'|] eqn:El.
    + destruct (proj1 (IH v' Hnd') eq_refl) as (m' & Hm' & Ek' & Ev').
      split.
      * intros E. injection E as <-. exists m'. split; [now right|auto].
      * intros (m0 & [<-|Hm0] & Ek & Ev).
        -- exfalso. apply Hnm. rewrite Ek, <- Ek'. apply in_map. exact Hm'.
        -- apply (IH v Hnd'). eauto.
    + destruct (list_eq_dec Z.eq_dec (m_key m) k) as [Ek|Ek].
      * split.
        -- intros E. injection E as <-. exists m. split; [now left|auto].
        -- intros (m0 & [<-|Hm0] & Ek0 & Ev); [now rewrite Ev|].
           assert (E0 : None = Some v) by (apply (IH v Hnd'); eauto). discriminate.
      * split; [discriminate|]. intros (m0 & [<-|Hm0] & Ek0 & Ev); [contradiction|].
        assert (E0 : None = Some v) by (apply (IH v Hnd'); eauto). discriminate.
Qed.

Lemma last_mut_perm k a b : Permutation a b -> NoDup (map m_key a) -> last_mut k a = last_mut k b.
Proof.
  intros HP Hnd.
  assert (Hnd' : NoDup (map m_key b)) by (eapply Permutation_NoDup; [apply Permutation_map; exact HP|exact Hnd]).
  destruct (last_mut k a) as [v|] eqn:Ea.
  - symmetry. apply (last_mut_nodup k b v Hnd'). apply (last_mut_nodup k a v Hnd) in Ea as (m & Hm & E).
    exists m. split; [eapply Permutation_in; eauto|exact E].
  - destruct (last_mut k b) as [v|] eqn:Eb; [|reflexivity].
    apply (last_mut_nodup k b v Hnd') in Eb as (m & Hm & E).
    assert (E0 : last_mut k a = Some v).
    { apply (last_mut_nodup k a v Hnd). exists m. split; [eapply Permutation_in; [apply Permutation_sym; exact HP|exact Hm]|exact E]. }
    congruence.
Qed.

Definition vrel_one (a b : solution) : Prop :=
  sol_contract a = sol_contract b /\ (forall k, last_mut k (sol_muts a) = last_mut k (sol_muts b)) /\
  Permutation (sol_muts a) (sol_muts b).

Lemma vrel_of_ext : forall S A, sext S A -> forall B, sext S B -> srel A B -> Forall2 vrel_one A B.
Proof.
  induction 1 as [|s a S A [Hsa (ea & Ea & Na & Da)] F IH]; intros B HB HAB; inversion HB as [|? b ? B' [Hsb (eb & Eb & Nb & Db)] FB]; subst;
    inversion HAB as [|? ? ? ? [Hab HPab] FAB]; subst; constructor.
  - split; [apply Hab|]. split; [|exact HPab].
    intros k. rewrite Ea, Eb, !last_mut_app.
    rewrite Ea, Eb in HPab. apply Permutation_app_inv_l in HPab.
    rewrite (last_mut_perm k ea eb HPab Na). reflexivity.
  - apply IH; assumption.
Qed.

Lemma vrel_last_mut c k : forall A B, Forall2 vrel_one A B -> last_mut k (muts_of c A) = last_mut k (muts_of c B).
Proof.
  induction 1 as [|a b A B (Hc & Hl & _) F IH]; [reflexivity|].
  unfold muts_of. cbn [flat_map]. fold (muts_of c A) (muts_of c B). rewrite !last_mut_app, IH, Hc.
  destruct (last_mut k (muts_of c B)); [reflexivity|].
  destruct (list_eq_dec Z.eq_dec (sol_contract b) c); [apply Hl|reflexivity].
Qed.

Lemma vrel_build_perm : forall A B, Forall2 vrel_one A B -> Permutation (build_post_state A) (build_post_state B).
Proof.
  induction 1 as [|a b A B (Hc & _ & HP) F IH]; [constructor|].
  rewrite !build_cons, Hc. apply Permutation_app; [|exact IH]. apply Permutation_map. exact HP.
Qed.

Theorem post_views_equal S A B pre : sext S A -> sext S B -> srel A B ->
  forall c k n, read_or_fallback (build_post_state A) pre c k n = read_or_fallback (build_post_state B) pre c k n.
Proof.
  intros HA HB HAB c k n. pose proof (vrel_of_ext S A HA B HB HAB) as HV.
  unfold read_or_fallback. rewrite (post_has_contract_perm _ _ c (vrel_build_perm _ _ HV)).
  destruct (post_has_contract (build_post_state B) c); [|reflexivity].
  rewrite !rof_loop_spec. f_equal. apply map_ext. intros k'. unfold overlay.
  rewrite <- !post_get_last_entry, !post_get_build, (vrel_last_mut c k' A B HV). reflexivity.
Qed.

(* packaged forms *)
Theorem decode_mutations_order dA dB sA sB : drel dA dB -> srel sA sB ->
  (forall rA, decode_mutations_set dA sA = Ok rA -> exists rB, decode_mutations_set dB sB = Ok rB /\ srel rA rB) /\
  (forall e, decode_mutations_set dA sA = Err e -> exists e', decode_mutations_set dB sB = Err e').
Proof.
  intros Hd Hs. split; [exact (DMS_rel dA dB Hd sA sB Hs)|intros e; exact (DMS_rel_err dA dB sA sB e Hd Hs)].
Qed.

Theorem post_views_equal_dms dA dB sols A B pre :
  decode_mutations_set dA sols = Ok A -> decode_mutations_set dB sols = Ok B -> srel A B ->
  forall c k n, read_or_fallback (build_post_state A) pre c k n = read_or_fallback (build_post_state B) pre c k n.
Proof.
  intros HA HB. exact (post_views_equal sols A B pre (DMS_ext dA sols A HA) (DMS_ext dB sols B HB)).
Qed.
