(* Gas accounting of `exec` (C07): the reported gas is the sum of the costs of the executed operations
   (children of Compute included), it never exceeds the limit, out-of-gas is detected before the op runs,
   and with positive costs the loop terminates. *)
From Coq Require Import ZArith List Lia Bool.
From EB Require Import Vm.Exec Proofs.NoFuel.
Open Scope list_scope.
Open Scope Z_scope.

Definition sum_costs (E : env) (l : list op) : Z := fold_right (fun o a => e_cost E o + a) 0 l.

Lemma sum_costs_nil E : sum_costs E [] = 0. Proof. reflexivity. Qed.
Lemma sum_costs_cons E o l : sum_costs E (o :: l) = e_cost E o + sum_costs E l. Proof. reflexivity. Qed.
Lemma sum_costs_app E a b : sum_costs E (a ++ b) = sum_costs E a + sum_costs E b.
Proof.
  induction a as [|x a IH]; cbn [app].
  - rewrite sum_costs_nil. lia.
  - rewrite !sum_costs_cons, IH. lia.
Qed.
Lemma sum_costs_nonneg E l : (forall o, 0 <= e_cost E o) -> 0 <= sum_costs E l.
Proof.
  intros Hc. induction l as [|x l IH]; [rewrite sum_costs_nil; lia|].
  rewrite sum_costs_cons. specialize (Hc x). lia.
Qed.
Lemma sum_costs_length E l : (forall o, e_cost E o = 1) -> sum_costs E l = zlen l.
Proof.
  intros Hc. unfold zlen. induction l as [|x l IH]; [reflexivity|].
  rewrite sum_costs_cons, Hc, IH. cbn [length]. lia.
Qed.

(* ---------- one iteration of the loop ---------- *)
Definition exec_op (f : nat) (E : env) (oa : Z -> option op) (limit next : Z) (v : vm) (o : op)
  : R (vm * ctl * list op) :=
  match o with
  | OCompute => compute_with (fun cv => exec f E oa (limit - next) cv 0 []) f (limit - next) v
  | _ => let* (v', c) := step_basic E o v in Ok (v', c, [])
  end.

Definition exec_k (f : nat) (E : env) (oa : Z -> option op) (limit : Z) (v : vm) (o : op) (next : Z)
  (tr : list op) (r : R (vm * ctl * list op)) : X :=
  match r with
  | Err e => Err (pc v, e, v)
  | Panic s => Panic s
  | OutOfFuel => OutOfFuel
  | Ok (v', c, ctr) =>
    let tr' := ctr ++ o :: tr in
    match c with
    | CNext =>
        if usize_max <? pc v' + 1 then Panic "exec: self.pc += 1"
        else exec f E oa limit (set_pc v' (pc v' + 1)) next tr'
    | CPc p => exec f E oa limit (set_pc v' p) next tr'
    | CHalt => Ok (v', next, tr')
    | CComputeEnd =>
        if usize_max <? pc v' + 1 then Panic "exec: self.pc += 1"
        else Ok (set_pc v' (pc v' + 1), next, tr')
    | CComputeResult p g h =>
        let total := next + g in
        if (u64_max <? total) || (limit <? total) then Err (pc v, EOutOfGas, v)
        else let v'' := set_halt (set_pc v' p) (halt v' || h) in
             if halt v'' then Ok (v'', total, tr') else exec f E oa limit v'' total tr'
    end
  end.

Lemma exec_O E oa limit v spent tr : exec O E oa limit v spent tr = OutOfFuel.
Proof. reflexivity. Qed.

Lemma exec_S f E oa limit v spent tr :
  exec (S f) E oa limit v spent tr =
  match oa (pc v) with
  | None => Ok (v, spent, tr)
  | Some o =>
      let next := spent + e_cost E o in
      if (u64_max <? next) || (limit <? next) then Err (pc v, EOutOfGas, v)
      else exec_k f E oa limit v o next tr (exec_op f E oa limit next v o)
  end.
Proof. reflexivity. Qed.

Lemma is_compute_dec (o : op) : {o = OCompute} + {o <> OCompute}.
Proof. destruct o; first [left; reflexivity | right; discriminate]. Qed.

Lemma exec_op_basic f E oa limit next v o :
  o <> OCompute -> exec_op f E oa limit next v o = (let* (v', c) := step_basic E o v in Ok (v', c, [])).
Proof. intros Ho. destruct o; try reflexivity. congruence. Qed.

Lemma gas_check_false next limit :
  (u64_max <? next) || (limit <? next) = false <-> next <= u64_max /\ next <= limit.
Proof. rewrite orb_false_iff, !Z.ltb_ge. tauto. Qed.

(* ---------- children of a Compute ---------- *)
Definition cres := (vm * Z * list op)%type.
Definition cgas (c : cres) : Z := snd (fst c).
Definition ctrace (c : cres) : list op := snd c.
Definition tr_sum (E : env) (cs : list cres) : Z := fold_right (fun c a => sum_costs E (ctrace c) + a) 0 cs.
Definition join_trace (cs : list cres) (a0 : list op) : list op := fold_left (fun a c => snd c ++ a) cs a0.

Lemma tr_sum_cons E c cs : tr_sum E (c :: cs) = sum_costs E (ctrace c) + tr_sum E cs. Proof. reflexivity. Qed.

Lemma join_children_in rs : forall acc cs, join_children rs acc = Ok cs ->
  forall r, In r cs -> In r acc \/ In (Ok r) rs.
Proof.
  induction rs as [|x rs IH]; intros acc cs H r Hin; cbn [join_children] in H.
  - inversion H; subst. left. apply in_rev. exact Hin.
  - destruct x as [a| | |]; try discriminate.
    destruct (IH _ _ H r Hin) as [Ha|Hb].
    + destruct Ha as [Ha|Ha]; [right; left; congruence | left; exact Ha].
    + right. right. exact Hb.
Qed.

Lemma sum_gas_total E limit cs : forall acc total,
  sum_gas limit acc cs = Some total ->
  Forall (fun c => cgas c = sum_costs E (ctrace c)) cs -> total = acc + tr_sum E cs.
Proof.
  induction cs as [|c cs IH]; intros acc total H HF; cbn [sum_gas] in H.
  - inversion H. cbn. lia.
  - destruct c as [[cv g] t]. inversion HF as [|c0 l0 Hc HF']; subst. unfold cgas, ctrace in Hc; cbn [fst snd] in Hc.
    cbv zeta in H. destruct ((u64_max <? acc + g) || (limit <? acc + g)); [discriminate|].
    rewrite (IH _ _ H HF'), tr_sum_cons. unfold ctrace; cbn [snd]. lia.
Qed.

Lemma sum_gas_bound limit cs : forall acc total,
  sum_gas limit acc cs = Some total -> Forall (fun c => 0 <= cgas c) cs ->
  acc <= total /\ (acc <= limit -> total <= limit) /\ (acc <= u64_max -> total <= u64_max).
Proof.
  induction cs as [|c cs IH]; intros acc total H HF; cbn [sum_gas] in H.
  - inversion H. lia.
  - destruct c as [[cv g] t]. inversion HF as [|c0 l0 Hc HF']; subst. unfold cgas in Hc; cbn [fst snd] in Hc.
    cbv zeta in H. destruct ((u64_max <? acc + g) || (limit <? acc + g)) eqn:Hchk; [discriminate|].
    apply gas_check_false in Hchk. destruct (IH _ _ H HF') as (H1 & H2 & H3). lia.
Qed.

Lemma join_trace_sum E cs : forall a0, sum_costs E (join_trace cs a0) = sum_costs E a0 + tr_sum E cs.
Proof.
  unfold join_trace. induction cs as [|c cs IH]; intros a0; cbn [fold_left].
  - cbn. lia.
  - rewrite IH, sum_costs_app, tr_sum_cons. unfold ctrace. lia.
Qed.

(* inversion of a successful Compute *)
Lemma compute_with_ok run f climit v v' c ctr :
  compute_with run f climit v = Ok (v', c, ctr) ->
  exists cs total p h,
    Forall (fun r => exists cv, run cv = Ok r) cs /\
    sum_gas climit 0 cs = Some total /\ c = CComputeResult p total h /\ ctr = join_trace cs [].
Proof.
  unfold compute_with.
  destruct (pop (stack v)) as [[b s0]| | |]; try discriminate.
  destruct (b <? 1); try discriminate.
  destruct (max_compute_depth <=? zlen (parent_memory v)); try discriminate.
  destruct (Z.of_nat f <? b); try discriminate.
  cbv zeta.
  match goal with |- context [children_status ?rs] => set (RS := rs) end.
  assert (HRS : forall r, In (Ok r) RS -> exists cv, run cv = Ok r).
  { intros r Hin. unfold RS in Hin. apply in_map_iff in Hin. destruct Hin as (i & Hi & _).
    destruct (child_vm v s0 i) as [cv| | |]; try discriminate. exists cv. exact Hi. }
  destruct (children_status RS); try discriminate;
    (destruct (join_children RS []) as [cs| | |] eqn:J; try discriminate;
     destruct (sum_gas climit 0 cs) as [total|] eqn:SG; try discriminate;
     match goal with |- context [i64_max <? ?t] => destruct (i64_max <? t) end; try discriminate;
     match goal with |- context [mem_alloc ?a ?b] => destruct (mem_alloc a b) as [m1| | |] end;
     cbn [bind]; try discriminate;
     match goal with |- context [store_children ?a ?b ?c] => destruct (store_children a b c) as [m2| | |] end;
     cbn [bind]; try discriminate;
     intros H; inversion H; subst; exists cs, total; do 2 eexists;
     (split; [|split; [exact SG|split; reflexivity]]);
     apply Forall_forall; intros r Hr;
     destruct (join_children_in _ _ _ J r Hr) as [Hn|Hn]; [destruct Hn | exact (HRS r Hn)]).
Qed.

Lemma compute_with_gas E run f climit v v' c ctr :
  (forall cv cv' cg t, run cv = Ok (cv', cg, t) -> cg = sum_costs E t) ->
  compute_with run f climit v = Ok (v', c, ctr) ->
  exists p g h, c = CComputeResult p g h /\ g = sum_costs E ctr /\
                ((forall o, 0 <= e_cost E o) -> 0 <= climit -> 0 <= g <= climit).
Proof.
  intros Hrun H. apply compute_with_ok in H. destruct H as (cs & total & p & h & HF & SG & Hc & Ht).
  assert (HF' : Forall (fun c => cgas c = sum_costs E (ctrace c)) cs).
  { apply Forall_forall. intros r Hr. rewrite Forall_forall in HF. destruct (HF r Hr) as (cv & Hcv).
    destruct r as [[cv' cg] t]. unfold cgas, ctrace; cbn [fst snd]. eapply Hrun; eauto. }
  exists p, total, h. split; [exact Hc|]. split.
  - rewrite (sum_gas_total E _ _ _ _ SG HF'), Ht, join_trace_sum, sum_costs_nil. reflexivity.
  - intros Hpos Hcl.
    assert (HF'' : Forall (fun c => 0 <= cgas c) cs).
    { rewrite Forall_forall in *. intros r Hr. rewrite (HF' r Hr). apply sum_costs_nonneg. exact Hpos. }
    destruct (sum_gas_bound _ _ _ _ SG HF'') as (H1 & H2 & _). lia.
Qed.

(* ---------- the main invariant ---------- *)
Definition ctl_gas (c : ctl) : Z := match c with CComputeResult _ g _ => g | _ => 0 end.

Section WithEnv.
Variable E : env.
Variable oa : Z -> option op.

Lemma exec_op_gas f limit next v o v1 c ctr :
  (forall cv cv' cg t, exec f E oa (limit - next) cv 0 [] = Ok (cv', cg, t) -> cg = sum_costs E t) ->
  exec_op f E oa limit next v o = Ok (v1, c, ctr) -> sum_costs E ctr = ctl_gas c.
Proof.
  intros Hch H. destruct (is_compute_dec o) as [Ho|Ho].
  - subst o. cbn [exec_op] in H. eapply compute_with_gas in H; [|exact Hch].
    destruct H as (p & g & h & Hc & Hg & _). subst c. cbn [ctl_gas]. symmetry. exact Hg.
  - rewrite exec_op_basic in H by exact Ho.
    destruct (step_basic E o v) as [[v2 c2]| | |] eqn:Hs; cbn [bind] in H; try discriminate.
    inversion H; subst. apply step_basic_ctl in Hs. destruct c; cbn [ctl_gas basic_ctl] in *; try reflexivity.
    contradiction.
Qed.

Lemma exec_inv : forall fuel limit v spent tr v' g tr',
  exec fuel E oa limit v spent tr = Ok (v', g, tr') ->
  exists new, tr' = new ++ tr /\ g = spent + sum_costs E new /\
              (spent <= limit -> g <= limit) /\ (spent <= u64_max -> g <= u64_max).
Proof.
  induction fuel as [|f IH]; intros limit v spent tr v' g tr' H.
  - discriminate.
  - rewrite exec_S in H. destruct (oa (pc v)) as [o|] eqn:Hoa.
    2:{ injection H as Hv' Hg' Ht'; subst v' g tr'. exists []. rewrite sum_costs_nil. cbn [app]. repeat split; lia. }
    cbv zeta in H. set (next := spent + e_cost E o) in *.
    destruct ((u64_max <? next) || (limit <? next)) eqn:Hchk; [discriminate|].
    apply gas_check_false in Hchk. destruct Hchk as [Hu Hl].
    assert (Hch : forall cv cv' cg t, exec f E oa (limit - next) cv 0 [] = Ok (cv', cg, t) -> cg = sum_costs E t).
    { intros cv cv' cg t Hc. apply IH in Hc. destruct Hc as (new & Ht & Hg & _).
      rewrite app_nil_r in Ht. subst t. lia. }
    destruct (exec_op f E oa limit next v o) as [[[v1 c] ctr]| | |] eqn:Hr; cbn [exec_k] in H; try discriminate.
    pose proof (exec_op_gas _ _ _ _ _ _ _ _ Hch Hr) as Hctr.
    assert (Hfin : forall gg, gg = next + ctl_gas c ->
              exists new, ctr ++ o :: tr = new ++ tr /\ gg = spent + sum_costs E new).
    { intros gg ->. exists (ctr ++ [o]). rewrite <- app_assoc. cbn [app]. split; [reflexivity|].
      rewrite sum_costs_app, sum_costs_cons, sum_costs_nil, Hctr. unfold next. lia. }
    assert (Hrec : forall v2 gg, gg = next + ctl_gas c -> gg <= u64_max -> gg <= limit ->
              exec f E oa limit v2 gg (ctr ++ o :: tr) = Ok (v', g, tr') ->
              exists new, tr' = new ++ tr /\ g = spent + sum_costs E new /\
                          (spent <= limit -> g <= limit) /\ (spent <= u64_max -> g <= u64_max)).
    { intros v2 gg Hgg Hgu Hgl Hx. apply IH in Hx. destruct Hx as (new' & Ht & Hg & Hbl & Hbu).
      destruct (Hfin gg Hgg) as (new0 & Hn0 & Hg0).
      exists (new' ++ new0). rewrite Ht, Hn0, app_assoc. split; [reflexivity|].
      rewrite sum_costs_app. repeat split; lia. }
    cbv zeta in H. destruct c as [| p | | | p gc h]; cbn [ctl_gas] in *.
    + destruct (usize_max <? pc v1 + 1); [discriminate|]. eapply Hrec; [| | |exact H]; lia.
    + eapply Hrec; [| | |exact H]; lia.
    + injection H as Hv' Hg' Ht'; subst v' g tr'. destruct (Hfin next) as (new & Hn & Hg); [lia|].
      exists new. repeat split; try assumption; lia.
    + destruct (usize_max <? pc v1 + 1); [discriminate|]. injection H as Hv' Hg' Ht'; subst v' g tr'.
      destruct (Hfin next) as (new & Hn & Hg); [lia|]. exists new. repeat split; try assumption; lia.
    + destruct ((u64_max <? next + gc) || (limit <? next + gc)) eqn:Hchk2; [discriminate|].
      apply gas_check_false in Hchk2. destruct Hchk2 as [Hu2 Hl2].
      destruct (halt (set_halt (set_pc v1 p) (halt v1 || h))).
      * injection H as Hv' Hg' Ht'; subst v' g tr'. destruct (Hfin (next + gc)) as (new & Hn & Hg); [lia|].
        exists new. repeat split; try assumption; lia.
      * eapply Hrec; [| | |exact H]; lia.
Qed.

Theorem exec_trace_extends fuel limit v spent tr v' g tr' :
  exec fuel E oa limit v spent tr = Ok (v', g, tr') -> exists new, tr' = new ++ tr.
Proof. intros H. apply exec_inv in H. destruct H as (new & Ht & _). eauto. Qed.

(* no assumption on the sign of the costs is needed for exactness *)
Theorem exec_gas_is_sum fuel limit v spent tr v' g tr' :
  exec fuel E oa limit v spent tr = Ok (v', g, tr') ->
  exists new, tr' = new ++ tr /\ g = spent + sum_costs E new.
Proof. intros H. apply exec_inv in H. destruct H as (new & Ht & Hg & _). eauto. Qed.

Theorem exec_gas_is_sum_new fuel limit v spent tr v' g new :
  exec fuel E oa limit v spent tr = Ok (v', g, new ++ tr) -> g = spent + sum_costs E new.
Proof.
  intros H. apply exec_gas_is_sum in H. destruct H as (new' & Ht & Hg).
  apply app_inv_tail in Ht. subst. reflexivity.
Qed.

Theorem exec_gas_le_limit fuel limit v spent tr v' g tr' :
  0 <= spent <= limit -> (forall o, 0 <= e_cost E o) ->
  exec fuel E oa limit v spent tr = Ok (v', g, tr') -> spent <= g <= limit.
Proof.
  intros Hs Hc H. apply exec_inv in H. destruct H as (new & _ & Hg & Hl & _).
  pose proof (sum_costs_nonneg E new Hc). lia.
Qed.

Theorem exec_gas_u64 fuel limit v spent tr v' g tr' :
  0 <= spent <= limit -> limit <= u64_max -> (forall o, 0 <= e_cost E o) ->
  exec fuel E oa limit v spent tr = Ok (v', g, tr') -> 0 <= g <= u64_max.
Proof. intros Hs Hl Hc H. pose proof (exec_gas_le_limit _ _ _ _ _ _ _ _ Hs Hc H). lia. Qed.

End WithEnv.

(* whole-program form *)
Theorem exec_ops_gas E fuel ops limit v v' g tr :
  exec_ops fuel E ops limit v = Ok (v', g, tr) -> g = sum_costs E tr.
Proof.
  unfold exec_ops. intros H. apply exec_gas_is_sum in H. destruct H as (new & Ht & Hg).
  rewrite app_nil_r in Ht. subst. lia.
Qed.


(* ---------- out of gas before the effect ---------- *)
Theorem out_of_gas_before_effect f E oa limit v spent tr o :
  oa (pc v) = Some o ->
  (u64_max < spent + e_cost E o \/ limit < spent + e_cost E o) ->
  exec (S f) E oa limit v spent tr = Err (pc v, EOutOfGas, v).
Proof.
  intros Hoa Hover. rewrite exec_S, Hoa. cbv zeta.
  destruct ((u64_max <? spent + e_cost E o) || (limit <? spent + e_cost E o)) eqn:Hchk; [reflexivity|].
  apply gas_check_false in Hchk. lia.
Qed.

(* converse: within the limit the op is charged and executed *)
Theorem in_gas_op_executed f E oa limit v spent tr o :
  oa (pc v) = Some o ->
  spent + e_cost E o <= u64_max -> spent + e_cost E o <= limit ->
  exec (S f) E oa limit v spent tr =
  exec_k f E oa limit v o (spent + e_cost E o) tr (exec_op f E oa limit (spent + e_cost E o) v o).
Proof.
  intros Hoa Hu Hl. rewrite exec_S, Hoa. cbv zeta.
  destruct ((u64_max <? spent + e_cost E o) || (limit <? spent + e_cost E o)) eqn:Hchk; [|reflexivity].
  apply orb_true_iff in Hchk. rewrite !Z.ltb_lt in Hchk. lia.
Qed.

(* concrete instance: an ordinary op that asks for the next instruction *)
Theorem in_gas_basic_next f E oa limit v spent tr o v' :
  oa (pc v) = Some o -> o <> OCompute ->
  spent + e_cost E o <= u64_max -> spent + e_cost E o <= limit ->
  step_basic E o v = Ok (v', CNext) -> pc v' + 1 <= usize_max ->
  exec (S f) E oa limit v spent tr =
  exec f E oa limit (set_pc v' (pc v' + 1)) (spent + e_cost E o) (o :: tr).
Proof.
  intros Hoa Ho Hu Hl Hs Hpc. rewrite (in_gas_op_executed f E oa limit v spent tr o Hoa Hu Hl).
  rewrite exec_op_basic by exact Ho. rewrite Hs. cbn [bind exec_k]. cbv zeta. cbn [app].
  destruct (Z.ltb_spec usize_max (pc v' + 1)); [lia|reflexivity].
Qed.

(* an error of the op itself is reported with the state before the op, and nothing is charged *)
Theorem op_error_reports_prestate f E oa limit v spent tr o e :
  oa (pc v) = Some o -> o <> OCompute -> step_basic E o v = Err e ->
  spent + e_cost E o <= u64_max -> spent + e_cost E o <= limit ->
  exec (S f) E oa limit v spent tr = Err (pc v, e, v).
Proof.
  intros Hoa Ho Hs Hu Hl. rewrite (in_gas_op_executed f E oa limit v spent tr o Hoa Hu Hl).
  rewrite exec_op_basic by exact Ho. rewrite Hs. reflexivity.
Qed.

(* ---------- termination ---------- *)
Section Termination.
Variable E : env.
Variable oa : Z -> option op.
Hypothesis cost_pos : forall o, 1 <= e_cost E o.

Theorem exec_terminates_no_compute :
  (forall p, oa p <> Some OCompute) ->
  forall fuel limit v spent tr,
    0 <= spent <= limit -> limit - spent < Z.of_nat fuel ->
    exec fuel E oa limit v spent tr <> OutOfFuel.
Proof.
  intros Hnc. induction fuel as [|f IH]; intros limit v spent tr Hs Hf.
  - cbn in Hf. lia.
  - rewrite exec_S. destruct (oa (pc v)) as [o|] eqn:Hoa; [|discriminate].
    cbv zeta. pose proof (cost_pos o) as Hco. set (next := spent + e_cost E o) in *.
    destruct ((u64_max <? next) || (limit <? next)) eqn:Hchk; [discriminate|].
    apply gas_check_false in Hchk. destruct Hchk as [Hu Hl].
    assert (Ho : o <> OCompute) by (intros ->; exact (Hnc _ Hoa)).
    rewrite exec_op_basic by exact Ho.
    pose proof (step_basic_nofuel E o v) as Hnf.
    destruct (step_basic E o v) as [[v1 c]| | |] eqn:Hstep; cbn [bind exec_k]; try discriminate; [|contradiction].
    apply step_basic_ctl in Hstep. cbv zeta.
    destruct c as [| p | | | p gc h]; cbn [basic_ctl] in Hstep; try contradiction; try discriminate.
    + destruct (usize_max <? pc v1 + 1); [discriminate|]. apply IH; lia.
    + apply IH; lia.
    + destruct (usize_max <? pc v1 + 1); discriminate.
Qed.

(* ---- with Compute: the only way to run out of fuel is a Compute whose breadth exceeds the fuel left ---- *)
Definition breadth_exceeds (fuel : nat) : Prop :=
  exists (f' : nat) (v1 : vm) (b : Z) (s0 : list Z),
    (f' < fuel)%nat /\ oa (pc v1) = Some OCompute /\ stack v1 = b :: s0 /\ Z.of_nat f' < b.

Lemma children_status_fuel rs : children_status rs = OutOfFuel -> In OutOfFuel rs.
Proof.
  induction rs as [|x rs IH]; cbn [children_status]; [discriminate|].
  destruct x; intros H; try discriminate; try (right; exact (IH H)). left. reflexivity.
Qed.
Lemma join_children_fuel rs : forall acc, join_children rs acc = OutOfFuel -> In OutOfFuel rs.
Proof.
  induction rs as [|x rs IH]; intros acc; cbn [join_children]; [discriminate|].
  destruct x; intros H; try discriminate; [right; exact (IH _ H) | left; reflexivity].
Qed.
Lemma store_children_nf cs : forall ptr m, nofuel (store_children ptr cs m).
Proof.
  induction cs as [|c cs IH]; intros ptr m; cbn [store_children]; [apply nf_ok|].
  destruct c as [[cv g] t]. destruct (mem_store_range ptr (memory cv) m); try apply nf_panic. apply IH.
Qed.

Lemma compute_with_fuel run f climit v :
  compute_with run f climit v = OutOfFuel ->
  (exists b s0, stack v = b :: s0 /\ Z.of_nat f < b) \/ (exists cv, run cv = OutOfFuel).
Proof.
  unfold compute_with. destruct (stack v) as [|b s0] eqn:Hst; cbn [pop]; try discriminate.
  destruct (b <? 1); try discriminate.
  destruct (max_compute_depth <=? zlen (parent_memory v)); try discriminate.
  destruct (Z.ltb_spec (Z.of_nat f) b) as [Hb|Hb].
  { intros _. left. exists b, s0. split; [reflexivity|exact Hb]. }
  cbv zeta.
  match goal with |- context [children_status ?rs] => set (RS := rs) end.
  assert (HRS : In OutOfFuel RS -> exists cv, run cv = OutOfFuel).
  { intros Hin. unfold RS in Hin. apply in_map_iff in Hin. destruct Hin as (i & Hi & _).
    destruct (child_vm v s0 i) as [cv| | |]; try discriminate. exists cv. exact Hi. }
  destruct (children_status RS) eqn:CS; try discriminate;
    try (intros _; right; apply HRS; apply children_status_fuel; exact CS);
    (destruct (join_children RS []) as [cs| | |] eqn:J; try discriminate;
     [| intros _; right; apply HRS; eapply join_children_fuel; exact J];
     destruct (sum_gas climit 0 cs) as [total|]; try discriminate;
     match goal with |- context [i64_max <? ?t] => destruct (i64_max <? t) end; try discriminate;
     match goal with |- context [mem_alloc ?a ?b] =>
       pose proof (mem_alloc_nf a b) as Hma; destruct (mem_alloc a b) as [m1| | |] end;
     cbn [bind]; try discriminate; [|contradiction];
     match goal with |- context [store_children ?a ?b ?c] =>
       pose proof (store_children_nf b a c) as Hsc; destruct (store_children a b c) as [m2| | |] end;
     cbn [bind]; try discriminate; contradiction).
Qed.

Lemma breadth_exceeds_mono a b : (a <= b)%nat -> breadth_exceeds a -> breadth_exceeds b.
Proof. intros Hab (f' & v1 & bb & s0 & Hf & H). exists f', v1, bb, s0. split; [lia|exact H]. Qed.

Theorem exec_out_of_fuel_cause :
  forall fuel limit v spent tr,
    0 <= spent <= limit -> limit - spent < Z.of_nat fuel ->
    exec fuel E oa limit v spent tr = OutOfFuel -> breadth_exceeds fuel.
Proof.
  assert (cost_nn : forall o, 0 <= e_cost E o) by (intros o; pose proof (cost_pos o); lia).
  induction fuel as [|f IH]; intros limit v spent tr Hs Hf H.
  - cbn in Hf. lia.
  - rewrite exec_S in H. destruct (oa (pc v)) as [o|] eqn:Hoa; [|discriminate].
    cbv zeta in H. pose proof (cost_pos o) as Hco. set (next := spent + e_cost E o) in *.
    destruct ((u64_max <? next) || (limit <? next)) eqn:Hchk; [discriminate|].
    apply gas_check_false in Hchk. destruct Hchk as [Hu Hl].
    assert (Hmono : breadth_exceeds f -> breadth_exceeds (S f)) by (apply breadth_exceeds_mono; lia).
    destruct (exec_op f E oa limit next v o) as [[[v1 c] ctr]| | |] eqn:Hr; cbn [exec_k] in H; try discriminate.
    + (* the op succeeded; the fuel ran out later *)
      assert (Hg : 0 <= ctl_gas c).
      { destruct (is_compute_dec o) as [Ho|Ho].
        - subst o. cbn [exec_op] in Hr. eapply (compute_with_gas E) in Hr.
          + destruct Hr as (p & g & h & Hc & _ & Hb). subst c. cbn [ctl_gas]. apply Hb; [exact cost_nn|lia].
          + intros cv cv' cg t Hc. apply exec_gas_is_sum in Hc. destruct Hc as (new & Ht & Hgg).
            rewrite app_nil_r in Ht. subst. lia.
        - rewrite exec_op_basic in Hr by exact Ho.
          destruct (step_basic E o v) as [[v2 c2]| | |] eqn:Hstep; cbn [bind] in Hr; try discriminate.
          inversion Hr; subst. apply step_basic_ctl in Hstep. destruct c; cbn [ctl_gas]; try lia. contradiction. }
      cbv zeta in H. apply Hmono.
      destruct c as [| p | | | p gc h]; cbn [ctl_gas] in Hg; try discriminate.
      * destruct (usize_max <? pc v1 + 1); [discriminate|]. eapply IH; [| |exact H]; lia.
      * eapply IH; [| |exact H]; lia.
      * destruct (usize_max <? pc v1 + 1); discriminate.
      * destruct ((u64_max <? next + gc) || (limit <? next + gc)) eqn:Hchk2; [discriminate|].
        apply gas_check_false in Hchk2. destruct Hchk2 as [Hu2 Hl2].
        destruct (halt (set_halt (set_pc v1 p) (halt v1 || h))); [discriminate|].
        eapply IH; [| |exact H]; lia.
    + (* the op itself ran out of fuel: it is a Compute *)
      destruct (is_compute_dec o) as [Ho|Ho].
      * subst o. cbn [exec_op] in Hr. apply compute_with_fuel in Hr. destruct Hr as [(b & s0 & Hst & Hb)|(cv & Hcv)].
        -- exists f, v, b, s0. repeat split; try assumption. lia.
        -- apply Hmono. eapply IH; [| |exact Hcv]; lia.
      * rewrite exec_op_basic in Hr by exact Ho. pose proof (step_basic_nofuel E o v) as Hnf.
        destruct (step_basic E o v) as [[v2 c2]| | |]; cbn [bind] in Hr; try discriminate. contradiction.
Qed.

End Termination.

(* ---------- objects used by the examples of Properties/C07.v ---------- *)
Definition unit_cost_env : env :=
  {| e_solutions := []; e_index := 0; e_pre := fun _ _ _ => None; e_post := fun _ _ _ => None;
     e_cost := fun _ => 1; e_sha256 := fun _ => repeat 0 32%nat; e_ed25519 := fun _ _ _ => None;
     e_secp := fun _ _ _ => SecpParseErr |}.
Definition compute_prog : list op := [OPush 3; OCompute; OPush 1; OPop; OComputeEnd].


(* --- with a flat price the gas counts the executed operations; pricing is monotone --- *)
Lemma sum_costs_const E c l : (forall o, e_cost E o = c) -> sum_costs E l = c * zlen l.
Proof.
  intros Hc. unfold zlen. induction l as [|x l IH]; [rewrite sum_costs_nil; cbn; lia|].
  rewrite sum_costs_cons, IH, Hc. cbn [length]. lia.
Qed.

Lemma exec_ops_gas_flat E c fuel ops limit v v' g tr :
  (forall o, e_cost E o = c) -> exec_ops fuel E ops limit v = Ok (v', g, tr) -> g = c * zlen tr.
Proof. intros Hc H. rewrite (exec_ops_gas _ _ _ _ _ _ _ _ H). apply sum_costs_const, Hc. Qed.

Lemma sum_costs_mono E E' l : (forall o, e_cost E o <= e_cost E' o) -> sum_costs E l <= sum_costs E' l.
Proof.
  intros Hc. induction l as [|x l IH]; [rewrite !sum_costs_nil; lia|].
  rewrite !sum_costs_cons. specialize (Hc x). lia.
Qed.
