(* C05 - every operation handled by `step_basic` preserves the invariant and never reaches a Panic site. *)
From Coq Require Import ZArith List Lia Bool.
From EB Require Import Vm.Machine Vm.Step Vm.Exec Proofs.VmInv.
Open Scope list_scope.
Open Scope Z_scope.

(* ---------- tactics ---------- *)
(* decompose a hypothesis `f ... = Ok _` whose left side is made of binds / matches *)
Ltac inv1 :=
  match goal with
  | H : Err _ = Ok _ |- _ => discriminate H
  | H : Panic _ = Ok _ |- _ => discriminate H
  | H : OutOfFuel = Ok _ |- _ => discriminate H
  | H : Ok _ = Ok _ |- _ => inversion H; subst; clear H
  | H : pop _ = Ok (_, _) |- _ => apply pop_ok in H; subst
  | H : acc_pop _ = Ok (_, _) |- _ => apply acc_pop_ok in H; subst
  | H : pop2 _ = Ok (_, _, _) |- _ => apply pop2_ok in H; subst
  | H : of_option _ _ = Ok _ |- _ => apply of_option_ok in H
  | H : bind _ _ = Ok _ |- _ =>
      let a := fresh "a" in let Hb := fresh "Hb" in apply bind_ok in H as (a & Hb & H)
  | H : (let (_, _) := ?p in _) = Ok _ |- _ => destruct p
  | H : (if ?c then _ else _) = Ok _ |- _ => destruct c eqn:?
  | H : match ?x with _ => _ end = Ok _ |- _ => destruct x eqn:?
  | H : stack_ok (_ :: _) |- _ =>
      let Hw := fresh "Hw" in let Hs := fresh "Hs" in let Hl := fresh "Hl" in
      apply stack_ok_cons_inv in H as (Hw & Hs & Hl)
  end.
Ltac inv := repeat inv1.

Ltac np1 :=
  first
    [ apply np_ok | apply np_err | apply np_fuel | apply np_of_option
    | apply push_np | apply pop_np | apply pop2_np | apply acc_pop_np | apply extend_np | apply popn_np
    | apply split_len_words_np
    | apply mem_alloc_np | apply mem_load_np | apply mem_store_np | apply mem_store_range_np
    | apply mem_load_range_np | apply mem_free_np
    | match goal with
      | |- no_panic (bind _ _) => apply bind_no_panic; [|intros ? _]
      | |- no_panic (let (_, _) := ?p in _) => destruct p
      | |- no_panic (if ?c then _ else _) => destruct c eqn:?
      | |- no_panic (match ?x with _ => _ end) => destruct x eqn:?
      end ].
Ltac np := repeat np1.

Lemma Forall2i (a b : Z) : i64 a -> i64 b -> Forall i64 [a; b].
Proof. intros Ha Hb. constructor; [exact Ha|constructor; [exact Hb|constructor]]. Qed.

(* ================= Stack ================= *)
Lemma op_dup_ok s s' : stack_ok s -> op_dup s = Ok s' -> stack_ok s'.
Proof.
  intros Hs H. unfold op_dup in H. inv. eapply extend_stack_ok; [|apply Forall2i|exact H]; assumption.
Qed.
Lemma op_dup_np s : no_panic (op_dup s).
Proof. unfold op_dup. np. Qed.

Lemma op_dup_from_ok s s' : stack_ok s -> op_dup_from s = Ok s' -> stack_ok s'.
Proof.
  intros Hs H. unfold op_dup_from in H. inv.
  match goal with Hp : push _ _ = Ok _, Hn : nth_error _ _ = Some _, Hk : stack_ok _ |- _ =>
    eapply push_stack_ok; [exact Hk| |exact Hp]; eapply Forall_nth_error; [apply Hk|exact Hn] end.
Qed.
Lemma op_dup_from_np s : no_panic (op_dup_from s).
Proof. unfold op_dup_from. np. Qed.

Lemma op_swap_ok s s' : stack_ok s -> op_swap s = Ok s' -> stack_ok s'.
Proof.
  intros Hs H. unfold op_swap in H. inv. eapply extend_stack_ok; [|apply Forall2i|exact H]; assumption.
Qed.
Lemma op_swap_np s : no_panic (op_swap s).
Proof. unfold op_swap. np. Qed.

Lemma op_swap_index_ok s s' : stack_ok s -> op_swap_index s = Ok s' -> stack_ok s'.
Proof.
  intros Hs H. unfold op_swap_index in H.
  apply bind_ok in H as ([i s1] & Hp & H). apply pop_ok in Hp. subst s.
  apply stack_ok_cons_inv in Hs as (Hi & Hs1 & _).
  destruct s1 as [|top r] eqn:Es1; [discriminate|]. rewrite <- Es1 in *.
  assert (Ht : i64 top). { rewrite Es1 in Hs1. apply stack_ok_cons_inv in Hs1. tauto. }
  destruct (usize_of i) as [i'|]; [|discriminate].
  destruct (_ <? _); [discriminate|].
  apply bind_ok in H as (w & Hn & H). apply of_option_ok in Hn.
  replace s' with (set_nth 0 w (set_nth (Z.to_nat i') top s1)) by congruence.
  apply set_nth_stack_ok; [apply set_nth_stack_ok; assumption|].
  eapply Forall_nth_error; [apply Hs1|exact Hn].
Qed.
Lemma op_swap_index_np s : no_panic (op_swap_index s).
Proof. unfold op_swap_index. np. Qed.

Lemma op_select_ok s s' : stack_ok s -> op_select s = Ok s' -> stack_ok s'.
Proof.
  intros Hs H. unfold op_select in H. inv;
  (eapply push_stack_ok; [| |eassumption]; [assumption|];
   match goal with |- i64 (if ?b then _ else _) => destruct b end; assumption).
Qed.
Lemma op_select_np s : no_panic (op_select s).
Proof. unfold op_select. np. Qed.

Lemma op_select_range_ok s s' : stack_ok s -> op_select_range s = Ok s' -> stack_ok s'.
Proof.
  intros Hs H. unfold op_select_range in H.
  apply bind_ok in H as ([c s1] & Hp & H). apply pop_ok in Hp. subst s.
  apply stack_ok_cons_inv in Hs as (_ & Hs1 & _).
  destruct (bool_of_word c) as [b|]; [|discriminate].
  apply bind_ok in H as ([l s2] & Hp & H). apply pop_ok in Hp. subst s1.
  apply stack_ok_cons_inv in Hs1 as (_ & Hs2 & _).
  destruct (usize_of l) as [len|]; [|discriminate].
  destruct (len =? 0); [injection H as <-; exact Hs2|].
  destruct (_ || _); [discriminate|]. injection H as <-.
  destruct b; [|apply stack_ok_skipn; exact Hs2].
  apply (stack_ok_sub s2 _ Hs2).
  - unfold zlen. rewrite app_length, firstn_length, skipn_length. lia.
  - apply Forall_app; split; [apply Forall_firstn|apply Forall_skipn]; apply Hs2.
Qed.
Lemma op_select_range_np s : no_panic (op_select_range s).
Proof. unfold op_select_range. np. Qed.

Lemma op_reserve_ok s s' : stack_ok s -> op_reserve s = Ok s' -> stack_ok s'.
Proof.
  intros Hs H. unfold op_reserve in H.
  apply bind_ok in H as ([l s1] & Hp & H). apply pop_ok in Hp. subst s.
  apply stack_ok_cons_inv in Hs as (_ & Hs1 & L1).
  unfold usize_of in H. destruct (Z.ltb_spec l 0) as [N|N]; [discriminate|].
  rewrite ssl_eq in H. destruct (Z.ltb_spec 4096 (zlen s1 + l)) as [B|B]; [discriminate|].
  eapply push_stack_ok; [| |exact H].
  - split; [rewrite zlen_app, zlen_repeat; lia|].
    apply Forall_app; split; [apply Forall_repeat, zero_i64|apply Hs1].
  - apply i64_iff. pose proof (zlen_nonneg s1). lia.
Qed.
Lemma op_reserve_np s : no_panic (op_reserve s).
Proof. unfold op_reserve. np. Qed.

Lemma op_load_s_ok s s' : stack_ok s -> op_load_s s = Ok s' -> stack_ok s'.
Proof.
  intros Hs H. unfold op_load_s in H. inv.
  match goal with Hp : push _ _ = Ok _, Hn : from_bottom _ _ = Some _, Hk : stack_ok _ |- _ =>
    eapply push_stack_ok; [exact Hk| |exact Hp]; eapply from_bottom_i64; [apply Hk|exact Hn] end.
Qed.
Lemma op_load_s_np s : no_panic (op_load_s s).
Proof. unfold op_load_s. np. Qed.

Lemma op_store_s_ok s s' : stack_ok s -> op_store_s s = Ok s' -> stack_ok s'.
Proof.
  intros Hs H. unfold op_store_s in H. inv. apply set_nth_stack_ok; assumption.
Qed.
Lemma op_store_s_np s : no_panic (op_store_s s).
Proof. unfold op_store_s. np. Qed.

Lemma op_drop_ok s s' : stack_ok s -> op_drop s = Ok s' -> stack_ok s'.
Proof.
  intros Hs H. unfold op_drop in H.
  apply bind_ok in H as ([ws rest] & Hb & H). injection H as <-.
  apply (split_len_words_ok _ _ _ Hs Hb).
Qed.
Lemma op_drop_np s : no_panic (op_drop s).
Proof. unfold op_drop. np. Qed.

Definition rstack_ok (r : list slot) : Prop := zlen r <= 4096 /\ Forall slot_ok r.

Lemma op_repeat_ok p s r s' r' :
  0 <= p -> stack_ok s -> rstack_ok r -> op_repeat p s r = Ok (s', r') -> stack_ok s' /\ rstack_ok r'.
Proof.
  intros Hp Hs [Lr Fr] H. unfold op_repeat in H.
  apply bind_ok in H as ([[num up] s0] & Hb & H). apply pop2_ok in Hb. subst s.
  apply stack_ok_cons_inv in Hs as (_ & Hs & _). apply stack_ok_cons_inv in Hs as (Hnum & Hs & _).
  destruct (bool_of_word up) as [b|]; [|discriminate].
  destruct (Z.ltb_spec usize_max (p + 1)); [discriminate|].
  rewrite ssl_eq in H. destruct (Z.leb_spec 4096 (zlen r)); [discriminate|].
  injection H as <- <-. split; [exact Hs|]. split; [rewrite zlen_cons; lia|].
  constructor; [|exact Fr].
  destruct b; unfold slot_ok; cbn [s_counter s_up s_index];
    (split; [first [apply zero_i64|exact Hnum]|split; [first [exact Hnum|exact I]|lia]]).
Qed.
Lemma op_repeat_np p s r : no_panic (op_repeat p s r).
Proof. unfold op_repeat. np. Qed.

Lemma op_repeat_end_ok r r' j :
  rstack_ok r -> op_repeat_end r = Ok (r', j) ->
  rstack_ok r' /\ (forall p, j = Some p -> 0 <= p <= usize_max).
Proof.
  intros [Lr Fr] H. unfold op_repeat_end in H. destruct r as [|sl rest]; [discriminate|].
  inversion Fr as [|? ? Hsl Frest]; subst. rewrite zlen_cons in Lr.
  destruct Hsl as (Hc & Hu & Hi).
  assert (Rr : rstack_ok rest) by (split; [lia|exact Frest]).
  destruct (s_up sl) as [limit|] eqn:Eu.
  - destruct (_ <=? _) eqn:E1 in H; [injection H as <- <-; split; [exact Rr|discriminate]|].
    destruct (Z.ltb_spec i64_max (s_counter sl + 1)) as [B|B]; [discriminate|].
    injection H as <- <-. split.
    + split; [rewrite zlen_cons; lia|]. constructor; [|exact Frest].
      unfold slot_ok; cbn [s_counter s_up s_index].
      split; [|split; [exact Hu|exact Hi]]. unfold i64 in *. lia.
    + intros p [= <-]. exact Hi.
  - destruct (Z.leb_spec (s_counter sl) 1) as [B1|B1]; [injection H as <- <-; split; [exact Rr|discriminate]|].
    destruct (Z.ltb_spec (s_counter sl - 1) i64_min) as [B|B]; [discriminate|].
    injection H as <- <-. split.
    + split; [rewrite zlen_cons; lia|]. constructor; [|exact Frest].
      unfold slot_ok; cbn [s_counter s_up s_index].
      split; [|split; [exact I|exact Hi]]. unfold i64 in *. lia.
    + intros p [= <-]. exact Hi.
Qed.

Lemma op_repeat_end_np r : rstack_ok r -> no_panic (op_repeat_end r).
Proof.
  intros [Lr Fr]. unfold op_repeat_end. destruct r as [|sl rest]; [apply np_err|].
  inversion Fr as [|? ? Hsl Frest]; subst. destruct Hsl as (Hc & Hu & Hi).
  destruct (s_up sl) as [limit|] eqn:Eu.
  - unfold sat_sub1. rewrite i64_iff in *. consts.
    destruct (Z.eqb_spec limit (-9223372036854775808));
    match goal with |- no_panic (if ?a <=? ?b then _ else _) => destruct (Z.leb_spec a b) end; try apply np_ok;
    match goal with |- no_panic (if ?a <? ?b then _ else _) => destruct (Z.ltb_spec a b) end; try apply np_ok; lia.
  - rewrite i64_iff in *. consts.
    match goal with |- no_panic (if ?a <=? ?b then _ else _) => destruct (Z.leb_spec a b) end; try apply np_ok;
    match goal with |- no_panic (if ?a <? ?b then _ else _) => destruct (Z.ltb_spec a b) end; try apply np_ok; lia.
Qed.

(* ================= Pred ================= *)
Lemma pop2_push1_ok f s s' :
  (forall a b x, i64 a -> i64 b -> f a b = Ok x -> i64 x) ->
  stack_ok s -> pop2_push1 f s = Ok s' -> stack_ok s'.
Proof.
  intros Hf Hs H. unfold pop2_push1 in H.
  apply bind_ok in H as ([[a b] s0] & Hb & H). apply pop2_ok in Hb. subst s.
  apply stack_ok_cons_inv in Hs as (Hb' & Hs & _). apply stack_ok_cons_inv in Hs as (Ha & Hs & _).
  apply bind_ok in H as (x & Hx & H). eapply push_stack_ok; [exact Hs| |exact H].
  exact (Hf a b x Ha Hb' Hx).
Qed.
Lemma pop2_push1_np f s : (forall a b, no_panic (f a b)) -> no_panic (pop2_push1 f s).
Proof. intros Hf. unfold pop2_push1. np. apply Hf. Qed.
Lemma pop1_push1_ok f s s' :
  (forall a x, i64 a -> f a = Ok x -> i64 x) ->
  stack_ok s -> pop1_push1 f s = Ok s' -> stack_ok s'.
Proof.
  intros Hf Hs H. unfold pop1_push1 in H.
  apply bind_ok in H as ([a s0] & Hb & H). apply pop_ok in Hb. subst s.
  apply stack_ok_cons_inv in Hs as (Ha & Hs & _).
  apply bind_ok in H as (x & Hx & H). eapply push_stack_ok; [exact Hs| |exact H].
  exact (Hf a x Ha Hx).
Qed.
Lemma pop1_push1_np f s : (forall a, no_panic (f a)) -> no_panic (pop1_push1 f s).
Proof. intros Hf. unfold pop1_push1. np. apply Hf. Qed.

Lemma okb_i64 b x : okb b = Ok x -> i64 x.
Proof. unfold okb. intros [= <-]. apply word_of_bool_i64. Qed.

Lemma op_eq_range_ok s s' : stack_ok s -> op_eq_range s = Ok s' -> stack_ok s'.
Proof.
  intros Hs H. unfold op_eq_range in H.
  apply bind_ok in H as ([len s1] & Hb & H). apply pop_ok in Hb. subst s.
  apply stack_ok_cons_inv in Hs as (_ & Hs & _).
  destruct (len =? 0); [eapply push_stack_ok; [exact Hs|apply one_i64|exact H]|].
  destruct (negb _); [discriminate|]. destruct (len <? 0); [discriminate|].
  destruct (split_len (2 * len) s1) as [[ws rest]|] eqn:E; [|discriminate].
  eapply push_stack_ok; [|apply word_of_bool_i64|exact H]. apply (split_len_ok _ _ _ _ Hs E).
Qed.
Lemma op_eq_range_np s : no_panic (op_eq_range s).
Proof. unfold op_eq_range. np. Qed.

Lemma decode_set_go_np fuel : forall rws acc, no_panic (decode_set_go fuel rws acc).
Proof.
  induction fuel as [|f IH]; intros rws acc; destruct rws as [|l rest]; cbn [decode_set_go]; np. apply IH.
Qed.

Lemma op_eq_set_ok s s' : stack_ok s -> op_eq_set s = Ok s' -> stack_ok s'.
Proof.
  intros Hs H. unfold op_eq_set in H.
  apply bind_ok in H as ([rhs s1] & H1 & H). apply bind_ok in H as ([lhs s0] & H2 & H).
  apply bind_ok in H as (l & _ & H). apply bind_ok in H as (r & _ & H).
  eapply push_stack_ok; [|apply word_of_bool_i64|exact H].
  apply (split_len_words_ok _ _ _ (proj1 (proj2 (split_len_words_ok _ _ _ Hs H1))) H2).
Qed.
Lemma op_eq_set_np s : no_panic (op_eq_set s).
Proof. unfold op_eq_set, decode_set. np; apply decode_set_go_np. Qed.

Lemma step_pred_ok o s s' : stack_ok s -> step_pred o s = Ok s' -> stack_ok s'.
Proof.
  intros Hs H. destruct o; cbn [step_pred] in H; try discriminate H;
  try (revert H; apply pop2_push1_ok; [intros a b x Ha Hb Hx|exact Hs]);
  try (revert H; apply pop1_push1_ok; [intros a x Ha Hx|exact Hs]);
  try (apply okb_i64 in Hx; exact Hx).
  - eapply op_eq_range_ok; eauto.
  - eapply op_eq_set_ok; eauto.
  - injection Hx as <-. apply land_i64; assumption.
  - injection Hx as <-. apply lor_i64; assumption.
Qed.
Lemma step_pred_np o s : no_panic (step_pred o s).
Proof.
  destruct o; cbn [step_pred]; try apply np_err;
  try (apply pop2_push1_np; intros a b; apply np_ok);
  try (apply pop1_push1_np; intros a; apply np_ok).
  - apply op_eq_range_np.
  - apply op_eq_set_np.
Qed.

(* ================= ALU ================= *)
Lemma alu_i64 z x : alu (chk z) = Ok x -> i64 x.
Proof. unfold alu. intros H. apply of_option_ok in H. eapply chk_i64; eauto. Qed.

Lemma shift_ok_spec b : shift_ok b = true -> 0 <= b < 64.
Proof. unfold shift_ok. rewrite biw_eq, andb_true_iff, Z.leb_le, Z.ltb_lt. tauto. Qed.

Lemma step_alu_ok o s s' : stack_ok s -> step_alu o s = Ok s' -> stack_ok s'.
Proof.
  intros Hs H. destruct o; cbn [step_alu] in H; try discriminate H;
  (revert H; apply pop2_push1_ok; [intros a b x Ha Hb Hx|exact Hs]).
  - eapply alu_i64; exact Hx.
  - eapply alu_i64; exact Hx.
  - eapply alu_i64; exact Hx.
  - unfold checked_div in Hx. destruct (b =? 0); [discriminate|]. eapply alu_i64; exact Hx.
  - unfold checked_rem, alu in Hx. destruct (Z.eqb_spec b 0) as [Z0|Z0]; [discriminate|].
    destruct (_ && _); [discriminate|]. injection Hx as <-. apply rem_i64; assumption.
  - destruct (shift_ok b); [|discriminate]. injection Hx as <-. apply wrap64_i64.
  - destruct (shift_ok b); [|discriminate]. injection Hx as <-. apply wrap64_i64.
  - destruct (shift_ok b) eqn:Sb; [|discriminate]. injection Hx as <-.
    apply shift_ok_spec in Sb. apply shr_i64; [assumption|lia].
Qed.
Lemma step_alu_np o s : no_panic (step_alu o s).
Proof.
  destruct o; cbn [step_alu]; try apply np_err;
  (apply pop2_push1_np; intros a b; unfold alu; np).
Qed.

(* ================= Memory ================= *)
Lemma step_memory_ok o s m s' m' :
  stack_ok s -> mem_ok m -> step_memory o s m = Ok (s', m') -> stack_ok s' /\ mem_ok m'.
Proof.
  intros Hs Hm H. destruct o; cbn [step_memory] in H; try discriminate H.
  - (* Alloc *)
    apply bind_ok in H as ([w s1] & Hb & H). apply pop_ok in Hb. subst s.
    apply stack_ok_cons_inv in Hs as (_ & Hs & _).
    apply bind_ok in H as (m1 & Ha & H). apply bind_ok in H as (s2 & Hp & H). injection H as <- <-.
    split; [|apply (mem_alloc_ok _ _ _ Hm Ha)].
    eapply push_stack_ok; [exact Hs| |exact Hp]. apply small_i64. destruct Hm as [Lm _].
    pose proof (zlen_nonneg m). lia.
  - (* Free *)
    apply bind_ok in H as ([w s1] & Hb & H). apply pop_ok in Hb. subst s.
    apply stack_ok_cons_inv in Hs as (_ & Hs & _).
    apply bind_ok in H as (m1 & Ha & H). injection H as <- <-.
    split; [exact Hs|eapply mem_free_ok; eauto].
  - (* Load *)
    apply bind_ok in H as ([w s1] & Hb & H). apply pop_ok in Hb. subst s.
    apply stack_ok_cons_inv in Hs as (_ & Hs & _).
    apply bind_ok in H as (x & Ha & H). apply bind_ok in H as (s2 & Hp & H). injection H as <- <-.
    split; [|exact Hm]. eapply push_stack_ok; [exact Hs| |exact Hp]. eapply mem_load_i64; [apply Hm|exact Ha].
  - (* Store *)
    apply bind_ok in H as ([[w addr] s0] & Hb & H). apply pop2_ok in Hb. subst s.
    apply stack_ok_cons_inv in Hs as (_ & Hs & _). apply stack_ok_cons_inv in Hs as (Hw & Hs & _).
    apply bind_ok in H as (m1 & Ha & H). injection H as <- <-.
    split; [exact Hs|eapply mem_store_ok; eauto].
  - (* LoadRange *)
    apply bind_ok in H as ([[addr size] s0] & Hb & H). apply pop2_ok in Hb. subst s.
    apply stack_ok_cons_inv in Hs as (_ & Hs & _). apply stack_ok_cons_inv in Hs as (_ & Hs & _).
    apply bind_ok in H as (ws & Ha & H). apply bind_ok in H as (s2 & Hp & H). injection H as <- <-.
    split; [|exact Hm]. eapply extend_stack_ok; [exact Hs| |exact Hp].
    eapply mem_load_range_i64; [apply Hm|exact Ha].
  - (* StoreRange *)
    apply bind_ok in H as ([addr s1] & Hb & H). apply pop_ok in Hb. subst s.
    apply stack_ok_cons_inv in Hs as (_ & Hs & _).
    apply bind_ok in H as ([ws rest] & Ha & H). apply bind_ok in H as (m1 & Hp & H). injection H as <- <-.
    destruct (split_len_words_ok _ _ _ Hs Ha) as (Fw & Hr & _). split; [exact Hr|].
    destruct Hm as [Lm Fm]. split.
    + apply mem_store_range_ok in Hp. lia.
    + eapply mem_store_range_i64; [exact Fw|exact Fm|exact Hp].
Qed.
Lemma step_memory_np o s m : no_panic (step_memory o s m).
Proof. destruct o; cbn [step_memory]; np. Qed.

(* ================= ParentMemory ================= *)
Lemma step_parent_memory_ok o s pm s' :
  stack_ok s -> Forall (fun m => zlen m <= 10240 /\ Forall i64 m) pm ->
  step_parent_memory o s pm = Ok s' -> stack_ok s'.
Proof.
  intros Hs Hpm H. unfold step_parent_memory in H. destruct pm as [|m pm']; [discriminate|].
  inversion Hpm as [|? ? [_ Fm] _]; subst.
  destruct o; try discriminate H.
  - apply bind_ok in H as ([addr s1] & Hb & H). apply pop_ok in Hb. subst s.
    apply stack_ok_cons_inv in Hs as (_ & Hs & _).
    apply bind_ok in H as (x & Ha & H).
    eapply push_stack_ok; [exact Hs| |exact H]. eapply mem_load_i64; [exact Fm|exact Ha].
  - apply bind_ok in H as ([[addr size] s0] & Hb & H). apply pop2_ok in Hb. subst s.
    apply stack_ok_cons_inv in Hs as (_ & Hs & _). apply stack_ok_cons_inv in Hs as (_ & Hs & _).
    apply bind_ok in H as (ws & Ha & H).
    eapply extend_stack_ok; [exact Hs| |exact H]. eapply mem_load_range_i64; [exact Fm|exact Ha].
Qed.
Lemma step_parent_memory_np o s pm : no_panic (step_parent_memory o s pm).
Proof. unfold step_parent_memory. destruct pm; [apply np_err|]. destruct o; np. Qed.

(* ================= TotalControlFlow ================= *)
Definition ctl_ok (c : ctl) : Prop := match c with CPc p => 0 <= p <= usize_max | _ => True end.

Lemma op_jump_if_ok p s s' c :
  0 <= p <= usize_max -> stack_ok s -> op_jump_if p s = Ok (s', c) -> stack_ok s' /\ ctl_ok c.
Proof.
  intros Hp Hs H. unfold op_jump_if in H.
  apply bind_ok in H as ([[dist cw] s0] & Hb & H). apply pop2_ok in Hb. subst s.
  apply stack_ok_cons_inv in Hs as (_ & Hs & _). apply stack_ok_cons_inv in Hs as (_ & Hs & _).
  destruct (bool_of_word cw) as [[|]|]; [|injection H as <- <-; split; [exact Hs|exact I]|discriminate].
  destruct (Z.abs dist =? 0); [discriminate|].
  destruct (dist <? 0).
  - destruct (Z.ltb_spec (p - Z.abs dist) 0); [discriminate|]. injection H as <- <-.
    split; [exact Hs|]. cbn [ctl_ok]. lia.
  - destruct (Z.ltb_spec usize_max (p + Z.abs dist)); [discriminate|]. injection H as <- <-.
    split; [exact Hs|]. cbn [ctl_ok]. lia.
Qed.
Lemma op_jump_if_np p s : no_panic (op_jump_if p s).
Proof. unfold op_jump_if. np. Qed.

Lemma op_halt_if_ok s s' c : stack_ok s -> op_halt_if s = Ok (s', c) -> stack_ok s' /\ ctl_ok c.
Proof.
  intros Hs H. unfold op_halt_if in H.
  apply bind_ok in H as ([cw s0] & Hb & H). apply pop_ok in Hb. subst s.
  apply stack_ok_cons_inv in Hs as (_ & Hs & _).
  destruct (bool_of_word cw) as [[|]|]; try discriminate; injection H as <- <-; split; auto; exact I.
Qed.
Lemma op_halt_if_np s : no_panic (op_halt_if s).
Proof. unfold op_halt_if. np. Qed.

Lemma op_panic_if_ok s s' c : stack_ok s -> op_panic_if s = Ok (s', c) -> stack_ok s' /\ ctl_ok c.
Proof.
  intros Hs H. unfold op_panic_if in H.
  apply bind_ok in H as ([cw s0] & Hb & H). apply pop_ok in Hb. subst s.
  apply stack_ok_cons_inv in Hs as (_ & Hs & _).
  destruct (bool_of_word cw) as [[|]|]; try discriminate; injection H as <- <-; split; auto; exact I.
Qed.
Lemma op_panic_if_np s : no_panic (op_panic_if s).
Proof. unfold op_panic_if. np. Qed.

(* ================= Access ================= *)
Definition data_ok (data : list (list Z)) : Prop :=
  Forall (Forall i64) data /\ zlen data <= i64_max /\ Forall (fun d => zlen d <= i64_max) data.

Lemma op_predicate_data_ok data s s' :
  Forall (Forall i64) data -> stack_ok s -> op_predicate_data data s = Ok s' -> stack_ok s'.
Proof.
  intros Hd Hs H. unfold op_predicate_data in H.
  apply bind_ok in H as ([len s1] & Hb & H). apply acc_pop_ok in Hb. subst s.
  apply stack_ok_cons_inv in Hs as (_ & Hs & _).
  apply bind_ok in H as ([vix s2] & Hb & H). apply acc_pop_ok in Hb. subst s1.
  apply stack_ok_cons_inv in Hs as (_ & Hs & _).
  apply bind_ok in H as ([six s3] & Hb & H). apply acc_pop_ok in Hb. subst s2.
  apply stack_ok_cons_inv in Hs as (_ & Hs & _).
  destruct (six <? 0); [discriminate|]. destruct (_ || _); [discriminate|].
  destruct (_ <=? _); [discriminate|]. destruct (_ <? _); [discriminate|].
  eapply extend_stack_ok; [exact Hs| |exact H].
  apply Forall_firstn, Forall_skipn. apply Forall_nth; [exact Hd|constructor].
Qed.
Lemma op_predicate_data_np data s : no_panic (op_predicate_data data s).
Proof. unfold op_predicate_data. np. Qed.

Lemma data_len_i64 data n : data_ok data -> i64 (zlen (nth n data [])).
Proof.
  intros (_ & _ & Hl). apply i64_iff. pose proof (zlen_nonneg (nth n data [])).
  assert (zlen (nth n data []) <= i64_max).
  { apply (Forall_nth (fun d => zlen d <= i64_max)); [exact Hl|cbv beta; rewrite zlen_nil, i64_max_eq; lia]. }
  rewrite i64_max_eq in *. lia.
Qed.

Lemma op_predicate_data_len_ok data s s' :
  data_ok data -> stack_ok s -> op_predicate_data_len data s = Ok s' -> stack_ok s'.
Proof.
  intros Hd Hs H. unfold op_predicate_data_len in H.
  apply bind_ok in H as ([six s1] & Hb & H). apply acc_pop_ok in Hb. subst s.
  apply stack_ok_cons_inv in Hs as (_ & Hs & _).
  destruct (six <? 0); [discriminate|]. destruct (_ <=? _); [discriminate|].
  destruct (push _ s1) as [s2| | |] eqn:Ep; try discriminate. injection H as <-.
  eapply push_stack_ok; [exact Hs| |exact Ep]. apply data_len_i64; exact Hd.
Qed.
Lemma op_predicate_data_len_np data s : stack_ok s -> no_panic (op_predicate_data_len data s).
Proof.
  intros Hs. unfold op_predicate_data_len.
  apply bind_no_panic; [apply acc_pop_np|]. intros [six s1] Hb. apply acc_pop_ok in Hb. subst s.
  apply stack_ok_cons_inv in Hs as (_ & Hs & L).
  destruct (six <? 0); [apply np_err|]. destruct (_ <=? _); [apply np_err|].
  rewrite push_succeeds by lia. apply np_ok.
Qed.

Lemma op_predicate_exists_ok E s s' : stack_ok s -> op_predicate_exists E s = Ok s' -> stack_ok s'.
Proof.
  intros Hs H. unfold op_predicate_exists in H.
  apply bind_ok in H as ([ws s0] & Hb & H).
  eapply push_stack_ok; [|apply word_of_bool_i64|exact H]. apply (popn_ok _ _ _ _ Hs Hb).
Qed.
Lemma op_predicate_exists_np E s : no_panic (op_predicate_exists E s).
Proof. unfold op_predicate_exists. np. Qed.

Lemma this_solution_data_ok E : env_ok E -> data_ok (sol_data (this_solution E)).
Proof.
  intros HE. unfold this_solution.
  pose proof (eo_data E HE) as Hd. pose proof (eo_index E HE) as Hi.
  rewrite Forall_forall in Hd.
  destruct (Hd (nth (e_index E) (e_solutions E) empty_solution) (nth_In _ _ Hi)) as (A & B & C & _).
  split; [exact A|split; [exact B|exact C]].
Qed.

Lemma step_access_ok E o s r s' :
  env_ok E -> stack_ok s -> Forall slot_ok r -> step_access E o s r = Ok s' -> stack_ok s'.
Proof.
  intros HE Hs Hr H. pose proof (this_solution_data_ok E HE) as Hd.
  destruct o; cbn [step_access] in H; try discriminate H.
  - eapply extend_stack_ok; [exact Hs|apply words4_i64|exact H].
  - eapply extend_stack_ok; [exact Hs|apply words4_i64|exact H].
  - destruct r as [|sl r']; [discriminate|]. inversion Hr as [|? ? Hsl _]; subst.
    eapply push_stack_ok; [exact Hs|apply Hsl|exact H].
  - eapply op_predicate_data_ok; [apply Hd|exact Hs|exact H].
  - eapply op_predicate_data_len_ok; [exact Hd|exact Hs|exact H].
  - eapply push_stack_ok; [exact Hs| |exact H]. destruct Hd as (_ & B & _).
    apply i64_iff. pose proof (zlen_nonneg (sol_data (this_solution E))). rewrite i64_max_eq in B. lia.
  - eapply op_predicate_exists_ok; eauto.
Qed.
Lemma step_access_np E o s r : stack_ok s -> no_panic (step_access E o s r).
Proof.
  intros Hs. destruct o; cbn [step_access]; try apply np_err; try apply extend_np; try apply push_np.
  - destruct r; [apply np_err|apply push_np].
  - apply op_predicate_data_np.
  - apply op_predicate_data_len_np; exact Hs.
  - apply op_predicate_exists_np.
Qed.

(* ================= Crypto ================= *)
Lemma pop_bytes_ok s bs rest : stack_ok s -> pop_bytes s = Ok (bs, rest) -> stack_ok rest.
Proof.
  intros Hs H. unfold pop_bytes in H.
  apply bind_ok in H as ([n s1] & Hb & H). apply pop_ok in Hb. subst s.
  apply stack_ok_cons_inv in Hs as (_ & Hs & _).
  destruct (n <? 0); [discriminate|].
  destruct (split_len (ceil8 n) s1) as [[ws r]|] eqn:E; [|discriminate]. injection H as <- <-.
  apply (split_len_ok _ _ _ _ Hs E).
Qed.
Lemma pop_bytes_np s : no_panic (pop_bytes s).
Proof. unfold pop_bytes. np. Qed.

Lemma step_crypto_ok E o s s' : env_ok E -> stack_ok s -> step_crypto E o s = Ok s' -> stack_ok s'.
Proof.
  intros HE Hs H. destruct o; cbn [step_crypto] in H; try discriminate H.
  - unfold op_sha256 in H. apply bind_ok in H as ([data s0] & Hb & H).
    eapply extend_stack_ok; [eapply pop_bytes_ok; eauto|apply words4_i64|exact H].
  - unfold op_verify_ed25519 in H.
    apply bind_ok in H as ([key s1] & H1 & H). apply bind_ok in H as ([sig s2] & H2 & H).
    apply bind_ok in H as ([data s0] & H3 & H).
    destruct (e_ed25519 _ _ _ _) as [b|]; [|discriminate].
    eapply push_stack_ok; [|apply word_of_bool_i64|exact H].
    eapply pop_bytes_ok; [|exact H3]. eapply popn_ok; [|exact H2]. eapply popn_ok; [exact Hs|exact H1].
  - unfold op_recover_secp256k1 in H.
    apply bind_ok in H as ([rid s1] & Hb & H). apply pop_ok in Hb. subst s.
    apply stack_ok_cons_inv in Hs as (_ & Hs & _).
    apply bind_ok in H as ([sig s2] & H2 & H). apply bind_ok in H as ([h s0] & H3 & H).
    assert (Hs0 : stack_ok s0).
    { eapply popn_ok; [|exact H3]. eapply popn_ok; [exact Hs|exact H2]. }
    destruct (_ || _); [discriminate|].
    destruct (e_secp _ _ _ _) as [| |k] eqn:Es; [discriminate| |].
    + eapply extend_stack_ok; [exact Hs0| |exact H]. repeat (apply Forall_cons; [apply zero_i64|]); constructor.
    + eapply extend_stack_ok; [exact Hs0| |exact H].
      apply Forall_app; split; [apply words4_i64|]. constructor; [|constructor].
      destruct (eo_secp E HE _ _ _ _ Es) as [_ Fk].
      apply Forall_nth; [|apply zero_i64].
      eapply Forall_impl; [|exact Fk]. intros a Ha; apply byte_i64; exact Ha.
Qed.
Lemma step_crypto_np E o s : no_panic (step_crypto E o s).
Proof.
  destruct o; cbn [step_crypto]; try apply np_err.
  - unfold op_sha256. apply bind_no_panic; [apply pop_bytes_np|]. intros [? ?] _. apply extend_np.
  - unfold op_verify_ed25519. np. apply pop_bytes_np.
  - unfold op_recover_secp256k1. np.
Qed.

(* ================= StateRead ================= *)
Lemma write_values_ok vs : forall maddr vaddr m m',
  mem_ok m -> Forall (Forall i64) vs -> write_values maddr vaddr vs m = Ok m' -> mem_ok m' /\ zlen m' = zlen m.
Proof.
  induction vs as [|v r IH]; intros maddr vaddr m m' Hm Hvs H; cbn [write_values] in H.
  - injection H as <-. split; [exact Hm|reflexivity].
  - inversion Hvs as [|? ? Hv Hr]; subst.
    apply bind_ok in H as (m1 & H1 & H). apply bind_ok in H as (m2 & H2 & H).
    destruct (_ || _); [discriminate|].
    pose proof (mem_store_range_ok _ _ _ _ H1) as (A1 & B1 & C1 & _).
    pose proof (mem_store_range_ok _ _ _ _ H2) as (A2 & B2 & C2 & _).
    destruct Hm as [Lm Fm].
    assert (Hm2 : mem_ok m2).
    { split; [lia|]. eapply mem_store_range_i64; [exact Hv| |exact H2].
      eapply mem_store_range_i64; [|exact Fm|exact H1].
      pose proof (zlen_nonneg v).
      constructor; [apply i64_iff; lia|constructor; [apply i64_iff; lia|constructor]]. }
    destruct (IH _ _ _ _ Hm2 Hr H) as [R1 R2]. split; [exact R1|lia].
Qed.

Lemma write_values_np vs : forall maddr vaddr m, zlen m <= 10240 -> no_panic (write_values maddr vaddr vs m).
Proof.
  induction vs as [|v r IH]; intros maddr vaddr m Lm; cbn [write_values]; [apply np_ok|].
  apply bind_no_panic; [apply mem_store_range_np|]. intros m1 H1.
  apply bind_no_panic; [apply mem_store_range_np|]. intros m2 H2.
  pose proof (mem_store_range_ok _ _ _ _ H1) as (A1 & B1 & C1 & _).
  pose proof (mem_store_range_ok _ _ _ _ H2) as (A2 & B2 & C2 & _).
  change (zlen [vaddr; zlen v]) with 2 in B1.
  destruct (Z.ltb_spec i64_max (vaddr + zlen v)) as [P|P]; [rewrite i64_max_eq in P; lia|].
  destruct (Z.ltb_spec i64_max (maddr + 2)) as [Q|Q]; [rewrite i64_max_eq in Q; lia|].
  cbn [orb]. apply IH. lia.
Qed.

Lemma write_values_to_memory_ok maddr vs m m' :
  mem_ok m -> Forall (Forall i64) vs -> write_values_to_memory maddr vs m = Ok m' -> mem_ok m'.
Proof.
  intros Hm Hvs H. unfold write_values_to_memory in H. destruct (negb _); [discriminate|].
  apply (write_values_ok _ _ _ _ _ Hm Hvs H).
Qed.
Lemma write_values_to_memory_np maddr vs m : zlen m <= 10240 -> no_panic (write_values_to_memory maddr vs m).
Proof.
  intros Lm. unfold write_values_to_memory. destruct (negb _); [apply np_err|]. apply write_values_np; exact Lm.
Qed.

Lemma key_range_args_ok s maddr n key s3 :
  stack_ok s -> key_range_args s = Ok (maddr, n, key, s3) -> stack_ok s3.
Proof.
  intros Hs H. unfold key_range_args in H.
  apply bind_ok in H as ([ma s1] & Hb & H). apply pop_ok in Hb. subst s.
  apply stack_ok_cons_inv in Hs as (_ & Hs & _).
  destruct (ma <? 0); [discriminate|].
  apply bind_ok in H as ([n' s2] & Hb & H). apply pop_ok in Hb. subst s1.
  apply stack_ok_cons_inv in Hs as (_ & Hs & _).
  destruct (n' <? 0); [discriminate|].
  apply bind_ok in H as ([k s3'] & Hb & H). injection H as <- <- <- <-.
  apply (split_len_words_ok _ _ _ Hs Hb).
Qed.
Lemma key_range_args_np s : no_panic (key_range_args s).
Proof. unfold key_range_args. np. Qed.

Lemma op_key_range_ok (vw : view) c s m s' m' :
  (forall c k n vs, vw c k n = Some vs -> Forall (Forall i64) vs) ->
  stack_ok s -> mem_ok m -> op_key_range vw c s m = Ok (s', m') -> stack_ok s' /\ mem_ok m'.
Proof.
  intros Hv Hs Hm H. unfold op_key_range in H.
  apply bind_ok in H as ([[[maddr n] key] s3] & Hb & H).
  destruct (vw c key n) as [vs|] eqn:Ev; [|discriminate].
  apply bind_ok in H as (m1 & Hw & H). injection H as <- <-.
  split; [eapply key_range_args_ok; eauto|].
  eapply write_values_to_memory_ok; [exact Hm|eapply Hv; exact Ev|exact Hw].
Qed.
Lemma op_key_range_np (vw : view) c s m : zlen m <= 10240 -> no_panic (op_key_range vw c s m).
Proof.
  intros Lm. unfold op_key_range. apply bind_no_panic; [apply key_range_args_np|].
  intros [[[maddr n] key] s3] _. destruct (vw c key n); [|apply np_err].
  apply bind_no_panic; [apply write_values_to_memory_np; exact Lm|]. intros ? _. apply np_ok.
Qed.

Lemma op_key_range_ext_ok (vw : view) s m s' m' :
  (forall c k n vs, vw c k n = Some vs -> Forall (Forall i64) vs) ->
  stack_ok s -> mem_ok m -> op_key_range_ext vw s m = Ok (s', m') -> stack_ok s' /\ mem_ok m'.
Proof.
  intros Hv Hs Hm H. unfold op_key_range_ext in H.
  apply bind_ok in H as ([[[maddr n] key] s3] & Hb & H).
  apply bind_ok in H as ([cw s4] & Hc & H).
  destruct (vw _ key n) as [vs|] eqn:Ev; [|discriminate].
  apply bind_ok in H as (m1 & Hw & H). injection H as <- <-.
  split; [eapply popn_ok; [|exact Hc]; eapply key_range_args_ok; eauto|].
  eapply write_values_to_memory_ok; [exact Hm|eapply Hv; exact Ev|exact Hw].
Qed.
Lemma op_key_range_ext_np (vw : view) s m : zlen m <= 10240 -> no_panic (op_key_range_ext vw s m).
Proof.
  intros Lm. unfold op_key_range_ext. apply bind_no_panic; [apply key_range_args_np|].
  intros [[[maddr n] key] s3] _. apply bind_no_panic; [apply popn_np|]. intros [cw s4] _.
  destruct (vw _ key n); [|apply np_err].
  apply bind_no_panic; [apply write_values_to_memory_np; exact Lm|]. intros ? _. apply np_ok.
Qed.

Lemma step_state_read_ok E o s m s' m' :
  env_ok E -> stack_ok s -> mem_ok m -> step_state_read E o s m = Ok (s', m') -> stack_ok s' /\ mem_ok m'.
Proof.
  intros HE Hs Hm H. destruct o; cbn [step_state_read] in H; try discriminate H.
  - eapply op_key_range_ok; [apply (eo_pre E HE)|exact Hs|exact Hm|exact H].
  - eapply op_key_range_ext_ok; [apply (eo_pre E HE)|exact Hs|exact Hm|exact H].
  - eapply op_key_range_ok; [apply (eo_post E HE)|exact Hs|exact Hm|exact H].
  - eapply op_key_range_ext_ok; [apply (eo_post E HE)|exact Hs|exact Hm|exact H].
Qed.
Lemma step_state_read_np E o s m : zlen m <= 10240 -> no_panic (step_state_read E o s m).
Proof.
  intros Lm. destruct o; cbn [step_state_read]; try apply np_err;
  first [apply op_key_range_np; exact Lm|apply op_key_range_ext_np; exact Lm].
Qed.

(* ================= the dispatcher ================= *)
Lemma Inv_stack_ok v : Inv v -> stack_ok (stack v).
Proof. intros H. split; [apply (inv_stack v H)|apply (inv_stack_w v H)]. Qed.
Lemma Inv_mem_ok v : Inv v -> mem_ok (memory v).
Proof. intros H. split; [apply (inv_memory v H)|apply (inv_memory_w v H)]. Qed.
Lemma Inv_rstack_ok v : Inv v -> rstack_ok (rstack v).
Proof. intros H. split; [apply (inv_repeat v H)|apply (inv_slots v H)]. Qed.

Lemma Inv_set_stack v s : Inv v -> stack_ok s -> Inv (set_stack v s).
Proof. intros H [L F]. destruct H. constructor; cbn [set_stack stack memory rstack parent_memory pc]; assumption. Qed.
Lemma Inv_set_stack_mem v s m : Inv v -> stack_ok s -> mem_ok m -> Inv (set_stack_mem v s m).
Proof.
  intros H [L F] [Lm Fm]. destruct H.
  constructor; cbn [set_stack_mem stack memory rstack parent_memory pc]; assumption.
Qed.
Lemma Inv_set_stack_rep v s r : Inv v -> stack_ok s -> rstack_ok r -> Inv (set_stack_rep v s r).
Proof.
  intros H [L F] [Lr Fr]. destruct H.
  constructor; cbn [set_stack_rep stack memory rstack parent_memory pc]; assumption.
Qed.
Lemma Inv_set_pc v p : Inv v -> 0 <= p <= usize_max -> Inv (set_pc v p).
Proof. intros H Hp. destruct H. constructor; cbn [set_pc stack memory rstack parent_memory pc]; assumption. Qed.
Lemma Inv_set_halt v h : Inv v -> Inv (set_halt v h).
Proof. intros H. destruct H. constructor; cbn [set_halt stack memory rstack parent_memory pc]; assumption. Qed.

Lemma with_stack_ok v r v' c :
  Inv v -> (forall s', r = Ok s' -> stack_ok s') -> with_stack v r = Ok (v', c) -> Inv v' /\ ctl_ok c /\ pc v' = pc v.
Proof.
  intros Hv Hr H. unfold with_stack in H. apply bind_ok in H as (s' & Hs & H). injection H as <- <-.
  split; [apply Inv_set_stack; auto|split; [exact I|reflexivity]].
Qed.
Lemma with_stack_np v r : no_panic r -> no_panic (with_stack v r).
Proof. intros H. unfold with_stack. apply bind_no_panic; [exact H|]. intros ? _. apply np_ok. Qed.

Lemma with_stack_mem_ok v r v' c :
  Inv v -> (forall s' m', r = Ok (s', m') -> stack_ok s' /\ mem_ok m') ->
  with_stack_mem v r = Ok (v', c) -> Inv v' /\ ctl_ok c /\ pc v' = pc v.
Proof.
  intros Hv Hr H. unfold with_stack_mem in H. apply bind_ok in H as ([s' m'] & Hs & H). injection H as <- <-.
  destruct (Hr _ _ Hs). split; [apply Inv_set_stack_mem; auto|split; [exact I|reflexivity]].
Qed.
Lemma with_stack_mem_np v r : no_panic r -> no_panic (with_stack_mem v r).
Proof. intros H. unfold with_stack_mem. apply bind_no_panic; [exact H|]. intros [? ?] _. apply np_ok. Qed.

Lemma with_stack_ctl_ok v r v' c :
  Inv v -> (forall s' c', r = Ok (s', c') -> stack_ok s' /\ ctl_ok c') ->
  with_stack_ctl v r = Ok (v', c) -> Inv v' /\ ctl_ok c /\ pc v' = pc v.
Proof.
  intros Hv Hr H. unfold with_stack_ctl in H. apply bind_ok in H as ([s' c'] & Hs & H). injection H as <- <-.
  destruct (Hr _ _ Hs). split; [apply Inv_set_stack; auto|split; [assumption|reflexivity]].
Qed.
Lemma with_stack_ctl_np v r : no_panic r -> no_panic (with_stack_ctl v r).
Proof. intros H. unfold with_stack_ctl. apply bind_no_panic; [exact H|]. intros [? ?] _. apply np_ok. Qed.

Lemma step_basic_inv_full E o v v' c :
  env_ok E -> well_formed_op o -> Inv v -> step_basic E o v = Ok (v', c) ->
  Inv v' /\ ctl_ok c /\ pc v' = pc v.
Proof.
  intros HE Ho Hv H.
  pose proof (Inv_stack_ok v Hv) as Hs. pose proof (Inv_mem_ok v Hv) as Hm.
  pose proof (Inv_rstack_ok v Hv) as Hr.
  destruct o; cbn [step_basic] in H;
  try (revert H; apply with_stack_ok; [exact Hv|intros s' H];
       first [ eapply step_pred_ok; [exact Hs|exact H]
             | eapply step_alu_ok; [exact Hs|exact H]
             | eapply step_access_ok; [exact HE|exact Hs|apply Hr|exact H]
             | eapply step_crypto_ok; [exact HE|exact Hs|exact H]
             | eapply step_parent_memory_ok; [exact Hs|apply (inv_parent v Hv)|exact H] ]);
  try (revert H; apply with_stack_mem_ok; [exact Hv|intros s' m' H];
       first [ eapply step_memory_ok; [exact Hs|exact Hm|exact H]
             | eapply step_state_read_ok; [exact HE|exact Hs|exact Hm|exact H] ]).
  - (* Push *) revert H; apply with_stack_ok; [exact Hv|intros s' H]. eapply push_stack_ok; [exact Hs|exact Ho|exact H].
  - (* Pop *) revert H; apply with_stack_ok; [exact Hv|intros s' H].
    apply bind_ok in H as ([w s0] & Hb & H). apply pop_ok in Hb. injection H as <-. rewrite Hb in Hs.
    apply stack_ok_cons_inv in Hs. tauto.
  - revert H; apply with_stack_ok; [exact Hv|intros s' H]. eapply op_dup_ok; eauto.
  - revert H; apply with_stack_ok; [exact Hv|intros s' H]. eapply op_dup_from_ok; eauto.
  - revert H; apply with_stack_ok; [exact Hv|intros s' H]. eapply op_swap_ok; eauto.
  - revert H; apply with_stack_ok; [exact Hv|intros s' H]. eapply op_swap_index_ok; eauto.
  - revert H; apply with_stack_ok; [exact Hv|intros s' H]. eapply op_select_ok; eauto.
  - revert H; apply with_stack_ok; [exact Hv|intros s' H]. eapply op_select_range_ok; eauto.
  - (* Repeat *)
    apply bind_ok in H as ([s' r'] & Hb & H). injection H as <- <-.
    destruct (op_repeat_ok _ _ _ _ _ (proj1 (inv_pc v Hv)) Hs Hr Hb) as [A B].
    split; [apply Inv_set_stack_rep; auto|split; [exact I|reflexivity]].
  - (* RepeatEnd *)
    apply bind_ok in H as ([r' j] & Hb & H). injection H as <- <-.
    destruct (op_repeat_end_ok _ _ _ Hr Hb) as [A B].
    split; [apply Inv_set_stack_rep; auto|split; [|reflexivity]].
    destruct j as [p|]; [cbn [ctl_ok]; apply B; reflexivity|exact I].
  - revert H; apply with_stack_ok; [exact Hv|intros s' H]. eapply op_reserve_ok; eauto.
  - revert H; apply with_stack_ok; [exact Hv|intros s' H]. eapply op_load_s_ok; eauto.
  - revert H; apply with_stack_ok; [exact Hv|intros s' H]. eapply op_store_s_ok; eauto.
  - revert H; apply with_stack_ok; [exact Hv|intros s' H]. eapply op_drop_ok; eauto.
  - (* Halt *) injection H as <- <-. split; [exact Hv|split; [exact I|reflexivity]].
  - revert H; apply with_stack_ctl_ok; [exact Hv|intros s' c' H]. eapply op_halt_if_ok; eauto.
  - revert H; apply with_stack_ctl_ok; [exact Hv|intros s' c' H].
    eapply op_jump_if_ok; [apply (inv_pc v Hv)|exact Hs|exact H].
  - revert H; apply with_stack_ctl_ok; [exact Hv|intros s' c' H]. eapply op_panic_if_ok; eauto.
  - (* Compute *) discriminate H.
  - (* ComputeEnd *) injection H as <- <-. split; [exact Hv|split; [exact I|reflexivity]].
Qed.

Lemma step_basic_inv E o v v' c :
  env_ok E -> well_formed_op o -> Inv v -> step_basic E o v = Ok (v', c) ->
  Inv v' /\ (forall p, c = CPc p -> 0 <= p <= usize_max).
Proof.
  intros HE Ho Hv H. destruct (step_basic_inv_full E o v v' c HE Ho Hv H) as (A & B & _).
  split; [exact A|]. intros p ->. exact B.
Qed.

Lemma step_basic_no_panic E o v :
  env_ok E -> well_formed_op o -> Inv v -> no_panic (step_basic E o v).
Proof.
  intros HE Ho Hv.
  pose proof (Inv_stack_ok v Hv) as Hs. pose proof (Inv_rstack_ok v Hv) as Hr.
  destruct o; cbn [step_basic];
  try (apply with_stack_np;
       first [ apply step_pred_np | apply step_alu_np | apply step_access_np; exact Hs | apply step_crypto_np
             | apply step_parent_memory_np ]);
  try (apply with_stack_mem_np;
       first [ apply step_memory_np | apply step_state_read_np; apply (inv_memory v Hv) ]);
  try apply np_ok; try apply np_err.
  - apply with_stack_np, push_np.
  - apply with_stack_np. np.
  - apply with_stack_np, op_dup_np.
  - apply with_stack_np, op_dup_from_np.
  - apply with_stack_np, op_swap_np.
  - apply with_stack_np, op_swap_index_np.
  - apply with_stack_np, op_select_np.
  - apply with_stack_np, op_select_range_np.
  - apply bind_no_panic; [apply op_repeat_np|]. intros [? ?] _. apply np_ok.
  - apply bind_no_panic; [apply op_repeat_end_np; exact Hr|]. intros [? ?] _. apply np_ok.
  - apply with_stack_np, op_reserve_np.
  - apply with_stack_np, op_load_s_np.
  - apply with_stack_np, op_store_s_np.
  - apply with_stack_np, op_drop_np.
  - apply with_stack_ctl_np, op_halt_if_np.
  - apply with_stack_ctl_np, op_jump_if_np.
  - apply with_stack_ctl_np, op_panic_if_np.
Qed.
