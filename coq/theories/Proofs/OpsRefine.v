(* C08: the step model of the data operations refines the declarative specification Spec/Ops.v.
   Part 1: infrastructure, ALU, simple Pred, simple Stack, Memory, ParentMemory. *)
From Coq Require Import ZArith List Lia Bool.
From EB Require Import Vm.Step Spec.Ops.
Import ListNotations.
Open Scope list_scope.
Open Scope Z_scope.

(* `r` refines the specification result `sp`: a specified result is produced exactly, a specified failure
   is a typed error (never a result, never a panic, never fuel exhaustion). *)
Definition refines {A} (r : R A) (sp : option A) : Prop :=
  match sp with Some x => r = Ok x | None => exists e, r = Err e end.

Lemma refines_ok {A} (r : R A) sp x : refines r sp -> (r = Ok x <-> sp = Some x).
Proof.
  unfold refines. destruct sp as [y|].
  - intros ->. split; intros [= ->]; reflexivity.
  - intros [e ->]. split; discriminate.
Qed.
Lemma refines_none {A} (r : R A) : refines r None -> exists e, r = Err e.
Proof. exact (fun H => H). Qed.

(* the data part of step_basic: stack and memory only *)
Definition lift_s (m : list Z) (r : R (list Z)) : R (list Z * list Z) := let* s := r in Ok (s, m).

Definition data_step (o : op) (s m : list Z) (pm : list (list Z)) : R (list Z * list Z) :=
  match o with
  | OPush w => lift_s m (push w s)
  | OPop => lift_s m (let* (_, s0) := pop s in Ok s0)
  | ODup => lift_s m (op_dup s)
  | ODupFrom => lift_s m (op_dup_from s)
  | OSwap => lift_s m (op_swap s)
  | OSwapIndex => lift_s m (op_swap_index s)
  | OSelect => lift_s m (op_select s)
  | OSelectRange => lift_s m (op_select_range s)
  | OReserve => lift_s m (op_reserve s)
  | OLoadS => lift_s m (op_load_s s)
  | OStoreS => lift_s m (op_store_s s)
  | ODrop => lift_s m (op_drop s)
  | OEq | OEqRange | OGt | OLt | OGte | OLte | OAnd | OOr | ONot | OEqSet | OBitAnd | OBitOr =>
      lift_s m (step_pred o s)
  | OAdd | OSub | OMul | ODiv | OMod | OShl | OShr | OShrI => lift_s m (step_alu o s)
  | OAlloc | OFree | OLoad | OStore | OLoadRange | OStoreRange => step_memory o s m
  | OLoadP | OLoadRangeP => lift_s m (step_parent_memory o s pm)
  | _ => Err EStack
  end.

Lemma with_stack_lift v r :
  with_stack v r = let* (s', m') := lift_s (memory v) r in Ok (set_stack_mem v s' m', CNext).
Proof. destruct r; reflexivity. Qed.

Lemma step_basic_data E o v : is_data_op o = true ->
  step_basic E o v =
  let* (s', m') := data_step o (stack v) (memory v) (parent_memory v) in Ok (set_stack_mem v s' m', CNext).
Proof.
  intros H. destruct o; try discriminate H; cbn [step_basic data_step];
    try apply with_stack_lift; reflexivity.
Qed.

(* ---------- tactics ---------- *)
Lemma len_zlen {A} (l : list A) : len l = zlen l. Proof. reflexivity. Qed.

Ltac brk :=
  match goal with
  | |- context [Z.ltb ?a ?b] => destruct (Z.ltb_spec a b)
  | |- context [Z.leb ?a ?b] => destruct (Z.leb_spec a b)
  | |- context [Z.eqb ?a ?b] => destruct (Z.eqb_spec a b)
  end.
Ltac red1 := cbn [refines bind of_option andb orb negb lift_s length b2z word_of_bool].
Ltac fin := red1; try solve [reflexivity | eexists; reflexivity | lia | exfalso; lia].
Ltac consts := unfold stack_limit, memory_limit, stack_size_limit, memory_size_limit, bits_in_word, usize_max,
  u64_max, i64_min, i64_max, two64, two63, pow64 in *.

(* ---------- push / extend ---------- *)
Lemma push_ok w s : zlen s < 4096 -> push w s = Ok (w :: s).
Proof. unfold push, zlen. consts. intros H. brk; fin. Qed.
Lemma push_full w s : 4096 <= zlen s -> push w s = Err EStack.
Proof. unfold push, zlen. consts. intros H. brk; fin. Qed.

Lemma extend_spec ws : forall s, zlen s <= 4096 ->
  extend ws s = if zlen s + zlen ws <=? 4096 then Ok (rev ws ++ s) else Err EStack.
Proof.
  induction ws as [|w ws IH]; intros s Hs.
  - cbn [extend rev app]. unfold zlen in *. cbn [length]. brk; fin.
  - cbn [extend]. destruct (Z_lt_le_dec (zlen s) 4096) as [Hlt|Hge].
    + rewrite (push_ok w s Hlt). cbn [bind]. rewrite IH by (unfold zlen in *; cbn [length]; lia).
      unfold zlen in *. cbn [length rev]. rewrite <- app_assoc. cbn [app].
      repeat brk; fin.
    + rewrite (push_full w s Hge). cbn [bind]. unfold zlen in *. cbn [length]. brk; fin.
Qed.

(* ---------- binary operations ---------- *)
Lemma r_binop (f : Z -> Z -> R Z) (g : Z -> Z -> option Z) s m :
  zlen s <= 4096 -> (forall l r, refines (f l r) (g l r)) ->
  refines (lift_s m (pop2_push1 f s)) (binop g s m).
Proof.
  intros Hs H. unfold pop2_push1, pop2, pop, binop.
  destruct s as [|a [|b s]]; fin.
  red1. specialize (H b a). destruct (g b a) as [z|].
  - cbn [refines] in H. rewrite H. red1. rewrite push_ok by (unfold zlen in *; cbn [length] in Hs; lia). fin.
  - destruct H as [e ->]. fin.
Qed.

Ltac alu_unf := unfold alu, checked_add, checked_sub, checked_mul, checked_div, checked_rem, chk, i64b,
  checked, in_i64, test, total, okb, shift, shift_ok.

Lemma u64_div_small u n : 0 <= u < 18446744073709551616 -> 0 <= n ->
  (u / 2 ^ n) mod 18446744073709551616 = u / 2 ^ n.
Proof.
  intros Hu Hn. apply Z.mod_small.
  assert (Hp : 0 < 2 ^ n) by (apply Z.pow_pos_nonneg; lia).
  split.
  - apply Z.div_pos; lia.
  - apply Z.div_lt_upper_bound; [lia|]. nia.
Qed.

Section Alu.
  Variables (s m : list Z) (pm : list (list Z)).
  Hypothesis Hs : zlen s <= 4096.

  Lemma r_add : refines (data_step OAdd s m pm) (op_spec OAdd s m pm).
  Proof. apply r_binop; [exact Hs|]. intros l r. alu_unf. consts. repeat brk; fin. Qed.
  Lemma r_sub : refines (data_step OSub s m pm) (op_spec OSub s m pm).
  Proof. apply r_binop; [exact Hs|]. intros l r. alu_unf. consts. repeat brk; fin. Qed.
  Lemma r_mul : refines (data_step OMul s m pm) (op_spec OMul s m pm).
  Proof. apply r_binop; [exact Hs|]. intros l r. alu_unf. consts. repeat brk; fin. Qed.
  Lemma r_div : refines (data_step ODiv s m pm) (op_spec ODiv s m pm).
  Proof. apply r_binop; [exact Hs|]. intros l r. alu_unf. consts. repeat brk; fin. Qed.
  Lemma r_mod : refines (data_step OMod s m pm) (op_spec OMod s m pm).
  Proof. apply r_binop; [exact Hs|]. intros l r. alu_unf. consts. repeat brk; fin. Qed.
  Lemma r_shl : refines (data_step OShl s m pm) (op_spec OShl s m pm).
  Proof.
    apply r_binop; [exact Hs|]. intros l r. alu_unf. consts. repeat brk; fin.
  Qed.
  Lemma r_shr : refines (data_step OShr s m pm) (op_spec OShr s m pm).
  Proof.
    apply r_binop; [exact Hs|]. intros l r. alu_unf. consts. repeat brk; fin.
    red1. unfold wrap64, signed64, to_u64. consts.
    rewrite (u64_div_small (l mod 18446744073709551616) r) by (try apply Z.mod_pos_bound; lia).
    reflexivity.
  Qed.
  Lemma r_shri : refines (data_step OShrI s m pm) (op_spec OShrI s m pm).
  Proof. apply r_binop; [exact Hs|]. intros l r. alu_unf. consts. repeat brk; fin. Qed.
End Alu.

(* ---------- simple Pred ---------- *)
Section Pred.
  Variables (s m : list Z) (pm : list (list Z)).
  Hypothesis Hs : zlen s <= 4096.

  Lemma r_eq : refines (data_step OEq s m pm) (op_spec OEq s m pm).
  Proof. apply r_binop; [exact Hs|]. intros l r. alu_unf. fin. Qed.
  Lemma r_gt : refines (data_step OGt s m pm) (op_spec OGt s m pm).
  Proof. apply r_binop; [exact Hs|]. intros l r. alu_unf. rewrite Z.gtb_ltb. fin. Qed.
  Lemma r_lt : refines (data_step OLt s m pm) (op_spec OLt s m pm).
  Proof. apply r_binop; [exact Hs|]. intros l r. alu_unf. fin. Qed.
  Lemma r_gte : refines (data_step OGte s m pm) (op_spec OGte s m pm).
  Proof. apply r_binop; [exact Hs|]. intros l r. alu_unf. rewrite Z.geb_leb. fin. Qed.
  Lemma r_lte : refines (data_step OLte s m pm) (op_spec OLte s m pm).
  Proof. apply r_binop; [exact Hs|]. intros l r. alu_unf. fin. Qed.
  Lemma r_and : refines (data_step OAnd s m pm) (op_spec OAnd s m pm).
  Proof. apply r_binop; [exact Hs|]. intros l r. alu_unf. fin. Qed.
  Lemma r_or : refines (data_step OOr s m pm) (op_spec OOr s m pm).
  Proof. apply r_binop; [exact Hs|]. intros l r. alu_unf. fin. Qed.
  Lemma r_bitand : refines (data_step OBitAnd s m pm) (op_spec OBitAnd s m pm).
  Proof. apply r_binop; [exact Hs|]. intros l r. alu_unf. fin. Qed.
  Lemma r_bitor : refines (data_step OBitOr s m pm) (op_spec OBitOr s m pm).
  Proof. apply r_binop; [exact Hs|]. intros l r. alu_unf. fin. Qed.
  Lemma r_not : refines (data_step ONot s m pm) (op_spec ONot s m pm).
  Proof.
    cbn [data_step op_spec step_pred]. unfold pop1_push1, pop, okb.
    destruct s as [|a s0]; fin. red1.
    rewrite push_ok by (unfold zlen in *; cbn [length] in Hs; lia). fin.
  Qed.
End Pred.

(* ---------- simple Stack ---------- *)
Section Stack1.
  Variables (s m : list Z) (pm : list (list Z)).
  Hypothesis Hs : zlen s <= 4096.

  Lemma r_push w : refines (data_step (OPush w) s m pm) (op_spec (OPush w) s m pm).
  Proof.
    cbn [data_step op_spec]. unfold ret, push, len, zlen in *. consts. cbn [length].
    repeat brk; fin.
  Qed.
  Lemma r_pop : refines (data_step OPop s m pm) (op_spec OPop s m pm).
  Proof. cbn [data_step op_spec]. unfold pop. destruct s; fin. Qed.
  Lemma r_dup : refines (data_step ODup s m pm) (op_spec ODup s m pm).
  Proof.
    cbn [data_step op_spec]. unfold op_dup, pop. destruct s as [|a s0]; fin. red1.
    rewrite extend_spec by (unfold zlen in *; cbn [length] in Hs; lia).
    unfold ret, len, zlen. consts. cbn [length rev app]. repeat brk; fin.
  Qed.
  Lemma r_swap : refines (data_step OSwap s m pm) (op_spec OSwap s m pm).
  Proof.
    cbn [data_step op_spec]. unfold op_swap, pop2, pop. destruct s as [|a [|b s0]]; fin. red1.
    rewrite extend_spec by (unfold zlen in *; cbn [length] in Hs; lia).
    unfold zlen in *. cbn [length rev app] in *. repeat brk; fin.
  Qed.
  Lemma r_select : refines (data_step OSelect s m pm) (op_spec OSelect s m pm).
  Proof.
    cbn [data_step op_spec]. unfold op_select, pop2, pop, bool_of_word.
    destruct s as [|c [|b [|a s0]]]; fin.
    red1. assert (Hp : forall w, push w s0 = Ok (w :: s0))
      by (intros w; apply push_ok; unfold zlen in *; cbn [length] in Hs; lia).
    repeat brk; fin; rewrite Hp; fin.
  Qed.
  Lemma r_drop : refines (data_step ODrop s m pm) (op_spec ODrop s m pm).
  Proof.
    cbn [data_step op_spec]. unfold op_drop, split_len_words, split_len, usize_of, len, zlen.
    destruct s as [|n s0]; fin.
    repeat brk; fin.
  Qed.
End Stack1.

(* ---------- list facts ---------- *)
Lemma set_nth_split {A} (x : A) : forall n l, (n < length l)%nat ->
  set_nth n x l = firstn n l ++ x :: skipn (S n) l.
Proof.
  induction n as [|n IH]; intros [|y l] H; cbn [length] in H; try lia.
  - reflexivity.
  - cbn [set_nth firstn skipn app]. rewrite IH by lia. reflexivity.
Qed.

Lemma nth_error_some_lt {A} (l : list A) n : (n < length l)%nat -> exists w, nth_error l n = Some w.
Proof.
  intros H. destruct (nth_error l n) as [w|] eqn:E; [eauto|].
  apply nth_error_None in E. lia.
Qed.

(* ---------- Memory / ParentMemory ---------- *)
Lemma r_load_gen src s m : zlen s <= 4096 ->
  refines (let* (addr, s1) := pop s in let* w := mem_load addr src in let* s' := push w s1 in Ok (s', m))
          (spec_load src s m).
Proof.
  intros Hs. unfold pop, spec_load, mem_load, len, zlen in *. destruct s as [|a s0]; fin. red1.
  cbn [length] in Hs.
  repeat brk; fin. red1.
  destruct (nth_error_some_lt src (Z.to_nat a)) as [w Hw]; [lia|]. rewrite Hw. red1.
  rewrite push_ok by (unfold zlen; lia). fin.
Qed.

Lemma r_load_range_gen src s m : zlen s <= 4096 ->
  refines (let* (addr, size, s0) := pop2 s in let* ws := mem_load_range addr size src in
           let* s' := extend ws s0 in Ok (s', m))
          (spec_load_range src s m).
Proof.
  intros Hs. unfold pop2, pop, spec_load_range, mem_load_range, len, zlen in *.
  destruct s as [|size [|addr s0]]; fin. red1. cbn [length] in Hs.
  repeat brk; fin. red1.
  rewrite extend_spec by (unfold zlen; lia).
  unfold ret, len, zlen. consts. rewrite app_length, rev_length.
  repeat brk; fin.
Qed.

Section Mem.
  Variables (s m : list Z) (pm : list (list Z)).
  Hypothesis Hs : zlen s <= 4096.
  Hypothesis Hm : zlen m <= 10240.

  Lemma r_alloc : refines (data_step OAlloc s m pm) (op_spec OAlloc s m pm).
  Proof.
    cbn [data_step op_spec step_memory]. unfold pop, mem_alloc, len, zlen in *. consts.
    destruct s as [|a s0]; fin. red1. cbn [length] in Hs.
    repeat brk; fin. red1. rewrite push_ok by (unfold zlen; lia). fin.
  Qed.
  Lemma r_free : refines (data_step OFree s m pm) (op_spec OFree s m pm).
  Proof.
    cbn [data_step op_spec step_memory]. unfold pop, mem_free, len, zlen in *.
    destruct s as [|a s0]; fin. red1. repeat brk; fin.
  Qed.
  Lemma r_load : refines (data_step OLoad s m pm) (op_spec OLoad s m pm).
  Proof. cbn [data_step op_spec step_memory]. apply r_load_gen. exact Hs. Qed.
  Lemma r_store : refines (data_step OStore s m pm) (op_spec OStore s m pm).
  Proof.
    cbn [data_step op_spec step_memory]. unfold pop2, pop, mem_store, len, zlen in *.
    destruct s as [|addr [|w s0]]; fin. red1.
    repeat brk; fin. red1.
    rewrite set_nth_split by lia. replace (Z.to_nat (addr + 1)) with (S (Z.to_nat addr)) by lia. reflexivity.
  Qed.
  Lemma r_load_range : refines (data_step OLoadRange s m pm) (op_spec OLoadRange s m pm).
  Proof. cbn [data_step op_spec step_memory]. apply r_load_range_gen. exact Hs. Qed.
  Lemma r_store_range : refines (data_step OStoreRange s m pm) (op_spec OStoreRange s m pm).
  Proof.
    cbn [data_step op_spec step_memory].
    unfold pop, split_len_words, split_len, usize_of, mem_store_range, splice, len, zlen in *.
    destruct s as [|addr [|n s0]]; fin. red1.
    repeat brk; fin; red1; try rewrite rev_length, firstn_length; repeat brk; fin.
    red1. replace (Z.to_nat addr + Nat.min (Z.to_nat n) (length s0))%nat with (Z.to_nat (addr + n)) by lia.
    reflexivity.
  Qed.

  Lemma r_loadp : refines (data_step OLoadP s m pm) (op_spec OLoadP s m pm).
  Proof.
    cbn [data_step op_spec step_parent_memory]. destruct pm as [|p pm']; fin.
    cbn [step_parent_memory]. generalize (r_load_gen p s m Hs). unfold lift_s.
    destruct (pop s) as [[a s1]| | |]; cbn [bind]; try exact (fun H => H).
    destruct (mem_load a p); cbn [bind]; exact (fun H => H).
  Qed.
  Lemma r_load_rangep : refines (data_step OLoadRangeP s m pm) (op_spec OLoadRangeP s m pm).
  Proof.
    cbn [data_step op_spec step_parent_memory]. destruct pm as [|p pm']; fin.
    cbn [step_parent_memory]. generalize (r_load_range_gen p s m Hs). unfold lift_s.
    destruct (pop2 s) as [[[a sz] s1]| | |]; cbn [bind]; try exact (fun H => H).
    destruct (mem_load_range a sz p); cbn [bind]; exact (fun H => H).
  Qed.
End Mem.
