(* C08, part 2: indexed and range operations on the stack (DupFrom, SwapIndex, SelectRange, Reserve,
   Load/Store on the stack) and EqRange. *)
From Coq Require Import ZArith List Lia Bool.
From EB Require Import Vm.Step Spec.Ops Proofs.OpsRefine.
Import ListNotations.
Open Scope list_scope.
Open Scope Z_scope.

Ltac brk :=
  match goal with
  | |- context [Z.ltb ?a ?b] => destruct (Z.ltb_spec a b)
  | |- context [Z.leb ?a ?b] => destruct (Z.leb_spec a b)
  | |- context [Z.eqb ?a ?b] => destruct (Z.eqb_spec a b)
  end.
Ltac red1 := cbn [refines bind of_option andb orb negb lift_s length b2z word_of_bool].
Ltac fin := red1; try solve [reflexivity | eexists; reflexivity | lia | exfalso; lia].
Ltac consts := unfold stack_limit, memory_limit, stack_size_limit, memory_size_limit, bits_in_word, usize_max,
  u64_max, i64_min, i64_max, two64, two63, pow64 in *.

Lemma nth_error_rev {A} (l : list A) n : (n < length l)%nat ->
  nth_error (rev l) n = nth_error l (length l - 1 - n).
Proof.
  intros H. destruct l as [|d l']; [cbn [length] in H; lia|]. remember (d :: l') as l.
  rewrite (nth_error_nth' (rev l) d) by (rewrite rev_length; exact H).
  rewrite (nth_error_nth' l d) by lia.
  rewrite rev_nth by exact H. f_equal. f_equal. lia.
Qed.

Lemma firstn_plus {A} : forall n k (l : list A), firstn (n + k) l = firstn n l ++ firstn k (skipn n l).
Proof.
  induction n as [|n IH]; intros k l.
  - reflexivity.
  - destruct l as [|x l]; cbn [Nat.add firstn skipn app].
    + rewrite firstn_nil. reflexivity.
    + rewrite IH. reflexivity.
Qed.

Section Stack2.
  Variables (s m : list Z) (pm : list (list Z)).
  Hypothesis Hs : zlen s <= 4096.

  Lemma r_dup_from : refines (data_step ODupFrom s m pm) (op_spec ODupFrom s m pm).
  Proof.
    cbn [data_step op_spec]. unfold op_dup_from, pop, usize_of, len, zlen in *.
    destruct s as [|i s0]; fin. red1. cbn [length] in Hs.
    repeat brk; fin. red1.
    destruct (nth_error_some_lt s0 (Z.to_nat i)) as [w Hw]; [lia|]. rewrite Hw. red1.
    rewrite push_ok by (unfold zlen; lia). fin.
  Qed.

  Lemma r_swap_index : refines (data_step OSwapIndex s m pm) (op_spec OSwapIndex s m pm).
  Proof.
    cbn [data_step op_spec]. unfold op_swap_index, pop, usize_of, len, zlen in *.
    destruct s as [|i [|t below]]; fin. red1.
    destruct (Z.eqb_spec i 0) as [Hi0|Hi0].
    - subst i. change (Z.to_nat 0) with 0%nat. cbn [nth_error set_nth]. repeat brk; fin.
    - repeat brk; fin. red1.
      replace (Z.to_nat i) with (S (Z.to_nat (i - 1))) by lia.
      cbn [nth_error set_nth].
      destruct (nth_error_some_lt below (Z.to_nat (i - 1))) as [w Hw]; [lia|]. rewrite Hw. red1.
      rewrite set_nth_split by lia. reflexivity.
  Qed.

  Lemma r_select_range : refines (data_step OSelectRange s m pm) (op_spec OSelectRange s m pm).
  Proof.
    cbn [data_step op_spec]. unfold op_select_range, pop, usize_of, bool_of_word, len, zlen in *. consts.
    destruct s as [|c [|n s0]]; fin.
    - red1. repeat brk; fin.
    - red1. cbn [length] in Hs.
      destruct (Z.eqb_spec n 0) as [Hn0|Hn0].
      + subst n. repeat brk; fin.
      + repeat brk; fin; red1;
          replace (2 * Z.to_nat n)%nat with (Z.to_nat (2 * n)) by lia; reflexivity.
  Qed.

  Lemma r_reserve : refines (data_step OReserve s m pm) (op_spec OReserve s m pm).
  Proof.
    cbn [data_step op_spec]. unfold op_reserve, pop, push, usize_of, len, zlen in *. consts.
    destruct s as [|n s0]; fin. red1. cbn [length] in Hs.
    destruct (Z.ltb_spec n 0) as [Hn|Hn]; [repeat brk; fin|]. cbv zeta.
    rewrite app_length, repeat_length.
    repeat brk; fin.
  Qed.

  Lemma r_load_s : refines (data_step OLoadS s m pm) (op_spec OLoadS s m pm).
  Proof.
    cbn [data_step op_spec]. unfold op_load_s, pop, from_bottom, len, zlen in *.
    destruct s as [|i s0]; fin. red1. cbn [length] in Hs.
    repeat brk; fin. red1.
    rewrite nth_error_rev by lia.
    destruct (nth_error_some_lt s0 (length s0 - 1 - Z.to_nat i)) as [w Hw]; [lia|]. rewrite Hw. red1.
    rewrite push_ok by (unfold zlen; lia). fin.
  Qed.

  Lemma r_store_s : refines (data_step OStoreS s m pm) (op_spec OStoreS s m pm).
  Proof.
    cbn [data_step op_spec]. unfold op_store_s, pop2, pop, len, zlen in *.
    destruct s as [|i [|w s0]]; fin. red1.
    repeat brk; fin. red1.
    rewrite set_nth_split by lia.
    replace (Z.to_nat (Z.of_nat (length s0) - 1 - i)) with (length s0 - 1 - Z.to_nat i)%nat by lia.
    replace (Z.to_nat (Z.of_nat (length s0) - 1 - i + 1)) with (S (length s0 - 1 - Z.to_nat i)) by lia.
    reflexivity.
  Qed.

  Lemma rev_inj {A} (a b : list A) : rev a = rev b -> a = b.
  Proof. intros H. rewrite <- (rev_involutive a), <- (rev_involutive b), H. reflexivity. Qed.

  Lemma r_eq_range : refines (data_step OEqRange s m pm) (op_spec OEqRange s m pm).
  Proof.
    cbn [data_step op_spec step_pred]. unfold op_eq_range, pop, split_len, i64b, len, zlen in *. consts.
    destruct s as [|n s0]; fin. red1. cbn [length] in Hs.
    destruct (Z.eqb_spec n 0) as [Hn0|Hn0].
    - subst n. rewrite push_ok by (unfold zlen; lia). repeat brk; fin.
    - repeat brk; fin. red1.
      rewrite push_ok by (unfold zlen; rewrite skipn_length; lia). red1.
      replace (Z.to_nat (2 * n)) with (Z.to_nat n + Z.to_nat n)%nat by lia.
      rewrite firstn_plus, rev_app_distr.
      set (A := firstn (Z.to_nat n) s0). set (B := firstn (Z.to_nat n) (skipn (Z.to_nat n) s0)).
      assert (HB : length (rev B) = Z.to_nat n).
      { unfold B. rewrite rev_length, firstn_length, skipn_length. lia. }
      rewrite (firstn_app_exact _ _ _ HB), (skipn_app_exact _ _ _ HB).
      unfold same_words.
      destruct (list_eq_dec Z.eq_dec (rev B) (rev A)) as [E|E];
        destruct (list_eq_dec Z.eq_dec A B) as [E'|E']; try reflexivity.
      + apply rev_inj in E. congruence.
      + rewrite E' in E. congruence.
  Qed.
End Stack2.
