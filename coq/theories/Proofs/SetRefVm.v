(* Facts about run_program needed to compare the two-pass entry point with the reference semantics:
   - it reports a leaf result exactly when asked to run a leaf;
   - the gas it reports is non-negative;
   - it does not observe the mutations of the solutions, it observes the pre/post views only through their
     answers, and a program without post-state reads does not observe the post view at all. *)
From Coq Require Import ZArith List Lia Bool.
From EB Require Import Check.Set Proofs.AsmCodec Proofs.EffectsProofs Proofs.NoFuel Proofs.Gas.
Import ListNotations.
Open Scope list_scope.
Open Scope Z_scope.

(* ------------------------------------------------------------------------------------------ *)
(* 1. leaf results *)

Lemma run_program_leaf_shape fuel c prog leaf ins o g :
  run_program fuel c prog leaf ins = Ok (PRun o g) ->
  if leaf then exists lo, o = OutLeaf lo else exists s m, o = OutParent s m.
Proof.
  unfold run_program. destruct (from_bytes prog) as [ops| | |]; try discriminate.
  destruct ((4096 <? zlen (concat (map fst ins))) || (10240 <? zlen (concat (map snd ins)))); [discriminate|].
  destruct (exec_ops _ _ _ _ _) as [[[v g'] t]| | |]; try discriminate.
  intros H. injection H as <- _. destruct leaf.
  - repeat match goal with |- context [match ?x with _ => _ end] => destruct x end; eauto.
  - eauto.
Qed.

Lemma run_program_not_leaf fuel c prog ins o g :
  run_program fuel c prog false ins = Ok (PRun (OutLeaf o) g) -> False.
Proof. intros H. apply run_program_leaf_shape in H as (s & m & E). discriminate. Qed.

Lemma run_program_leaf_not_parent fuel c prog ins s m g :
  run_program fuel c prog true ins = Ok (PRun (OutParent s m) g) -> False.
Proof. intros H. apply run_program_leaf_shape in H as (lo & E). discriminate. Qed.

(* ------------------------------------------------------------------------------------------ *)
(* 2. gas *)

Lemma run_program_gas fuel c prog leaf ins o g :
  run_program fuel c prog leaf ins = Ok (PRun o g) -> 0 <= g <= u64_max.
Proof.
  unfold run_program. destruct (from_bytes prog) as [ops| | |]; try discriminate.
  destruct ((4096 <? zlen (concat (map fst ins))) || (10240 <? zlen (concat (map snd ins)))); [discriminate|].
  destruct (exec_ops _ _ _ _ _) as [[[v g'] t]| | |] eqn:EX; try discriminate.
  intros H. injection H as _ <-. unfold exec_ops in EX.
  eapply (exec_gas_u64 (env_for c)); [| |intros o'; cbn; lia|exact EX].
  - split; [lia|]. vm_compute. discriminate.
  - lia.
Qed.

(* ------------------------------------------------------------------------------------------ *)
(* 3. what run_program observes of its context *)

Definition sol_sim (a b : solution) : Prop :=
  sol_contract a = sol_contract b /\ sol_predicate a = sol_predicate b /\ sol_data a = sol_data b.

Lemma sol_sim_refl a : sol_sim a a.
Proof. repeat split. Qed.

Lemma sol_sim_sym a b : sol_sim a b -> sol_sim b a.
Proof. intros (A & B & C). repeat split; auto. Qed.

Lemma sol_sim_trans a b c : sol_sim a b -> sol_sim b c -> sol_sim a c.
Proof. intros (A & B & C) (A' & B' & C'). repeat split; congruence. Qed.

Definition not_post_op (o : op) : Prop := o <> OPostKeyRange /\ o <> OPostKeyRangeExtern.

(* E1 and E2 are indistinguishable; with post_too = false only for programs that do not read the post-state *)
Definition env_sim (post_too : bool) (E1 E2 : env) : Prop :=
  Forall2 sol_sim (e_solutions E1) (e_solutions E2) /\ e_index E1 = e_index E2 /\
  (forall c k n, e_pre E1 c k n = e_pre E2 c k n) /\
  (post_too = true -> forall c k n, e_post E1 c k n = e_post E2 c k n) /\
  e_cost E1 = e_cost E2 /\ e_sha256 E1 = e_sha256 E2 /\ e_ed25519 E1 = e_ed25519 E2 /\ e_secp E1 = e_secp E2.

Lemma Forall2_nth_sim : forall (l1 l2 : list solution) i,
  Forall2 sol_sim l1 l2 -> sol_sim (nth i l1 empty_solution) (nth i l2 empty_solution).
Proof.
  intros l1 l2 i H. revert i. induction H as [|a b l1 l2 Hab H IH]; intros i.
  - destruct i; apply sol_sim_refl.
  - destruct i; [exact Hab|apply IH].
Qed.

Lemma this_solution_sim b E1 E2 : env_sim b E1 E2 -> sol_sim (this_solution E1) (this_solution E2).
Proof.
  intros (Hs & Hi & _). unfold this_solution. rewrite Hi. apply Forall2_nth_sim. exact Hs.
Qed.

Lemma preimage_sim a b : sol_sim a b -> pred_data_preimage a = pred_data_preimage b.
Proof. intros (A & B & C). unfold pred_data_preimage. now rewrite A, B, C. Qed.

Lemma existsb_sim (f : solution -> bool) : (forall a b, sol_sim a b -> f a = f b) ->
  forall l1 l2, Forall2 sol_sim l1 l2 -> existsb f l1 = existsb f l2.
Proof.
  intros Hf l1 l2 H. induction H as [|a b l1 l2 Hab H IH]; [reflexivity|].
  simpl. now rewrite (Hf a b Hab), IH.
Qed.

Lemma step_access_sim b E1 E2 o s r : env_sim b E1 E2 -> step_access E1 o s r = step_access E2 o s r.
Proof.
  intros H. pose proof (this_solution_sim b E1 E2 H) as (A & B & C).
  destruct H as (Hs & Hi & Hpre & Hpost & Hc & Hsha & _).
  unfold step_access. rewrite A, B, C.
  destruct o; try reflexivity.
  unfold op_predicate_exists. destruct (popn 4 s) as [[ws s0]| | |]; try reflexivity.
  cbn [bind]. f_equal. f_equal. rewrite Hsha. apply existsb_sim; [|exact Hs].
  intros x y Hxy. now rewrite (preimage_sim x y Hxy).
Qed.

Lemma step_crypto_sim b E1 E2 o s : env_sim b E1 E2 -> step_crypto E1 o s = step_crypto E2 o s.
Proof.
  intros (_ & _ & _ & _ & _ & Hsha & Hed & Hsecp).
  unfold step_crypto, op_sha256, op_verify_ed25519, op_recover_secp256k1. rewrite Hsha, Hed, Hsecp. reflexivity.
Qed.

Lemma okr_view_ext (v1 v2 : view) c s m : (forall c k n, v1 c k n = v2 c k n) ->
  op_key_range v1 c s m = op_key_range v2 c s m.
Proof.
  intros H. unfold op_key_range. destruct (key_range_args s) as [[[[a n] k] s3]| | |]; try reflexivity.
  cbn [bind]. now rewrite H.
Qed.

Lemma okre_view_ext (v1 v2 : view) s m : (forall c k n, v1 c k n = v2 c k n) ->
  op_key_range_ext v1 s m = op_key_range_ext v2 s m.
Proof.
  intros H. unfold op_key_range_ext. destruct (key_range_args s) as [[[[a n] k] s3]| | |]; try reflexivity.
  cbn [bind]. destruct (popn 4 s3) as [[cw s4]| | |]; try reflexivity. cbn [bind]. now rewrite H.
Qed.

Lemma step_state_read_sim b E1 E2 o s m : env_sim b E1 E2 -> (b = false -> not_post_op o) ->
  step_state_read E1 o s m = step_state_read E2 o s m.
Proof.
  intros H Ho. pose proof (this_solution_sim b E1 E2 H) as (A & _).
  destruct H as (_ & _ & Hpre & Hpost & _).
  unfold step_state_read. rewrite A.
  destruct o; try reflexivity.
  - apply okr_view_ext. exact Hpre.
  - apply okre_view_ext. exact Hpre.
  - destruct b; [apply okr_view_ext; auto|]. destruct (Ho eq_refl) as [N _]. congruence.
  - destruct b; [apply okre_view_ext; auto|]. destruct (Ho eq_refl) as [_ N]. congruence.
Qed.

Lemma step_basic_sim b E1 E2 o v : env_sim b E1 E2 -> (b = false -> not_post_op o) ->
  step_basic E1 o v = step_basic E2 o v.
Proof.
  intros H Ho.
  destruct o; try reflexivity; unfold step_basic;
    first [ rewrite (step_access_sim b E1 E2 _ _ _ H); reflexivity
          | rewrite (step_crypto_sim b E1 E2 _ _ H); reflexivity
          | rewrite (step_state_read_sim b E1 E2 _ _ _ H Ho); reflexivity ].
Qed.

Lemma compute_with_ext run1 run2 f l v : (forall cv, run1 cv = run2 cv) ->
  compute_with run1 f l v = compute_with run2 f l v.
Proof.
  intros H. unfold compute_with. destruct (pop (stack v)) as [[b s0]| | |]; try reflexivity.
  destruct (b <? 1); [reflexivity|]. destruct (max_compute_depth <=? zlen (parent_memory v)); [reflexivity|].
  destruct (Z.of_nat f <? b); [reflexivity|].
  match goal with |- ?L = ?R =>
    match L with context [map ?g1 (zrange_z b)] =>
      match R with context [map ?g2 (zrange_z b)] => rewrite (map_ext g1 g2) end end end; [reflexivity|].
  intros i. destruct (child_vm v s0 i); auto.
Qed.

Lemma exec_sim b E1 E2 oa : env_sim b E1 E2 -> (b = false -> forall p o, oa p = Some o -> not_post_op o) ->
  forall fuel limit v spent tr, exec fuel E1 oa limit v spent tr = exec fuel E2 oa limit v spent tr.
Proof.
  intros H Hoa. pose proof H as (_ & _ & _ & _ & Hc & _).
  induction fuel as [|f IH]; intros limit v spent tr; [reflexivity|].
  rewrite !exec_S. destruct (oa (pc v)) as [o|] eqn:Eo; [|reflexivity].
  rewrite Hc. cbv zeta.
  destruct ((u64_max <? spent + e_cost E2 o) || (limit <? spent + e_cost E2 o)); [reflexivity|].
  assert (Eop : exec_op f E1 oa limit (spent + e_cost E2 o) v o = exec_op f E2 oa limit (spent + e_cost E2 o) v o).
  { destruct (is_compute_dec o) as [->|Hnc].
    - unfold exec_op. apply compute_with_ext. intros cv. apply IH.
    - rewrite !exec_op_basic by exact Hnc. rewrite (step_basic_sim b E1 E2 o v H); [reflexivity|].
      intros Hb. eapply Hoa; eauto. }
  rewrite Eop. unfold exec_k. destruct (exec_op f E2 oa limit (spent + e_cost E2 o) v o) as [[[v' c] ctr]| | |]; try reflexivity.
  destruct c; rewrite ?IH; reflexivity.
Qed.

(* contexts *)
Definition ctx_sim (post_too : bool) (c1 c2 : sol_ctx) : Prop :=
  Forall2 sol_sim (sc_solutions c1) (sc_solutions c2) /\ sc_index c1 = sc_index c2 /\
  (forall c k n, sc_pre c1 c k n = sc_pre c2 c k n) /\
  (post_too = true -> forall c k n, sc_post c1 c k n = sc_post c2 c k n).

Lemma env_for_sim b c1 c2 : ctx_sim b c1 c2 -> env_sim b (env_for c1) (env_for c2).
Proof. intros (A & B & C & D). unfold env_sim, env_for; cbn. repeat split; auto. Qed.

Lemma post_effect_ops prog ops : Forall byte prog -> from_bytes prog = Ok ops ->
  bytes_contains_any prog post_effects = false -> forall o, In o ops -> not_post_op o.
Proof.
  intros Hb Hf Hc o Ho. destruct (parse_sound _ _ _ Hb Hf) as [E W].
  rewrite <- E in Hc. rewrite (bytes_contains_any_exact ops post_effects W) in Hc by (vm_compute; split; [discriminate|reflexivity]).
  assert (Hn : has_effect post_effects o = false).
  { destruct (has_effect post_effects o) eqn:Eh; [|reflexivity].
    assert (Hex : existsb (has_effect post_effects) ops = true) by (apply existsb_exists; eauto). congruence. }
  split; intros ->; vm_compute in Hn; discriminate.
Qed.

Lemma op_at_In ops p o : op_at ops p = Some o -> In o ops.
Proof.
  unfold op_at. destruct ((p <? 0) || (zlen ops <=? p)); [discriminate|]. apply nth_error_In.
Qed.

(* run_program does not observe the mutations of the solutions; a program without post-state reads
   does not observe the post view *)
Theorem run_program_sim b fuel c1 c2 prog leaf ins :
  ctx_sim b c1 c2 -> (b = false -> Forall byte prog /\ bytes_contains_any prog post_effects = false) ->
  run_program fuel c1 prog leaf ins = run_program fuel c2 prog leaf ins.
Proof.
  intros H Hp. unfold run_program. destruct (from_bytes prog) as [ops| | |] eqn:Ef; try reflexivity.
  destruct ((4096 <? zlen (concat (map fst ins))) || (10240 <? zlen (concat (map snd ins)))); [reflexivity|].
  unfold exec_ops. rewrite (exec_sim b (env_for c1) (env_for c2) (op_at ops) (env_for_sim b c1 c2 H)); [reflexivity|].
  intros Hb p o Ho. destruct (Hp Hb) as [Hbytes Hc]. eapply post_effect_ops; eauto. eapply op_at_In; eauto.
Qed.
