(* C09, part 1: the one-step control-flow operations (JumpIf, HaltIf, PanicIf, Halt, RepeatEnd,
   RepeatCounter) and the repeat stack as a state machine. *)
From Coq Require Import ZArith List Lia Bool.
From EB Require Import Vm.Exec.
Open Scope list_scope.
Open Scope Z_scope.

(* ---------- small facts ---------- *)
Lemma bool_of_word_0 : bool_of_word 0 = Some false. Proof. reflexivity. Qed.
Lemma bool_of_word_1 : bool_of_word 1 = Some true. Proof. reflexivity. Qed.
Lemma bool_of_word_other c : c <> 0 -> c <> 1 -> bool_of_word c = None.
Proof.
  intros H0 H1. unfold bool_of_word.
  destruct (Z.eqb_spec c 0); [contradiction|]. destruct (Z.eqb_spec c 1); [contradiction|]. reflexivity.
Qed.
Lemma bool_of_word_some c b : bool_of_word c = Some b <-> c = word_of_bool b.
Proof.
  unfold bool_of_word, word_of_bool.
  destruct (Z.eqb_spec c 0) as [->|H0].
  - destruct b; split; intros H; try discriminate; try reflexivity; inversion H.
  - destruct (Z.eqb_spec c 1) as [->|H1].
    + destruct b; split; intros H; try discriminate; try reflexivity; inversion H.
    + split; [discriminate|]. destruct b; intros ->; contradiction.
Qed.
Lemma bool_of_word_none c : bool_of_word c = None <-> (c <> 0 /\ c <> 1).
Proof.
  split.
  - unfold bool_of_word. destruct (Z.eqb_spec c 0); [discriminate|].
    destruct (Z.eqb_spec c 1); [discriminate|]. auto.
  - intros [H0 H1]. apply bool_of_word_other; assumption.
Qed.

Lemma pop2_cons2 c d s : pop2 (c :: d :: s) = Ok (d, c, s).
Proof. reflexivity. Qed.
Lemma pop2_short s : (length s < 2)%nat -> pop2 s = Err EStack.
Proof. destruct s as [|a [|b s]]; cbn [length]; intros H; try reflexivity; lia. Qed.

(* ---------- JumpIf ---------- *)
Lemma jump_if_false p d s : op_jump_if p (0 :: d :: s) = Ok (s, CNext).
Proof. reflexivity. Qed.

Lemma jump_if_zero_dist p s : op_jump_if p (1 :: 0 :: s) = Err EControl.
Proof. reflexivity. Qed.

Lemma jump_if_forward p d s : 0 < d ->
  op_jump_if p (1 :: d :: s) = if p + d <=? usize_max then Ok (s, CPc (p + d)) else Err EPcOverflow.
Proof.
  intros Hd. unfold op_jump_if. rewrite pop2_cons2. cbn [bind]. rewrite bool_of_word_1.
  cbv zeta. rewrite Z.abs_eq by lia.
  destruct (Z.eqb_spec d 0); [lia|]. destruct (Z.ltb_spec d 0); [lia|].
  destruct (Z.ltb_spec usize_max (p + d)); destruct (Z.leb_spec (p + d) usize_max); try lia; reflexivity.
Qed.

Lemma jump_if_backward p d s : d < 0 ->
  op_jump_if p (1 :: d :: s) = if 0 <=? p + d then Ok (s, CPc (p + d)) else Err EPcOverflow.
Proof.
  intros Hd. unfold op_jump_if. rewrite pop2_cons2. cbn [bind]. rewrite bool_of_word_1.
  cbv zeta. rewrite Z.abs_neq by lia.
  destruct (Z.eqb_spec (- d) 0); [lia|]. destruct (Z.ltb_spec d 0); [|lia].
  replace (p - - d) with (p + d) by lia.
  destruct (Z.ltb_spec (p + d) 0); destruct (Z.leb_spec 0 (p + d)); try lia; reflexivity.
Qed.

Lemma jump_if_bad_cond p c d s : c <> 0 -> c <> 1 -> op_jump_if p (c :: d :: s) = Err EControl.
Proof.
  intros H0 H1. unfold op_jump_if. rewrite pop2_cons2. cbn [bind].
  rewrite (bool_of_word_other c H0 H1). reflexivity.
Qed.

Lemma jump_if_short p s : (length s < 2)%nat -> op_jump_if p s = Err EStack.
Proof. intros H. unfold op_jump_if. rewrite (pop2_short s H). reflexivity. Qed.

(* the complete table of JumpIf on a stack with at least two words *)
Definition jump_if_result (p c d : Z) (s : list Z) : R (list Z * ctl) :=
  if c =? 0 then Ok (s, CNext)
  else if c =? 1 then
    if d =? 0 then Err EControl
    else if (0 <=? p + d) && (p + d <=? usize_max) then Ok (s, CPc (p + d)) else Err EPcOverflow
  else Err EControl.

Lemma jump_if_table p c d s : 0 <= p <= usize_max ->
  op_jump_if p (c :: d :: s) = jump_if_result p c d s.
Proof.
  intros Hp. unfold jump_if_result.
  destruct (Z.eqb_spec c 0) as [->|H0]; [reflexivity|].
  destruct (Z.eqb_spec c 1) as [->|H1]; [|apply jump_if_bad_cond; assumption].
  destruct (Z.eqb_spec d 0) as [->|Hd]; [reflexivity|].
  destruct (Z_lt_le_dec d 0) as [Hn|Hn].
  - rewrite jump_if_backward by assumption.
    destruct (Z.leb_spec 0 (p + d)); destruct (Z.leb_spec (p + d) usize_max); try reflexivity; lia.
  - rewrite jump_if_forward by lia.
    destruct (Z.leb_spec 0 (p + d)); destruct (Z.leb_spec (p + d) usize_max); try reflexivity; lia.
Qed.

Lemma jump_if_no_panic p s : no_panic (op_jump_if p s).
Proof.
  intros site. unfold op_jump_if.
  destruct s as [|c [|d s]]; try discriminate. rewrite pop2_cons2. cbn [bind].
  destruct (bool_of_word c) as [[|]|]; try discriminate. cbv zeta.
  destruct (Z.abs d =? 0); try discriminate.
  destruct (d <? 0).
  - destruct (p - Z.abs d <? 0); discriminate.
  - destruct (usize_max <? p + Z.abs d); discriminate.
Qed.

Lemma jump_if_not_fuel p s : op_jump_if p s <> OutOfFuel.
Proof.
  unfold op_jump_if.
  destruct s as [|c [|d s]]; try discriminate. rewrite pop2_cons2. cbn [bind].
  destruct (bool_of_word c) as [[|]|]; try discriminate. cbv zeta.
  destruct (Z.abs d =? 0); try discriminate.
  destruct (d <? 0).
  - destruct (p - Z.abs d <? 0); discriminate.
  - destruct (usize_max <? p + Z.abs d); discriminate.
Qed.

(* The specification of JumpIf in one statement. *)
Theorem jump_if_spec : forall p c d s,
  0 <= p <= usize_max -> i64 d ->
  (c = 0 -> op_jump_if p (c :: d :: s) = Ok (s, CNext)) /\
  (c = 1 -> d = 0 -> op_jump_if p (c :: d :: s) = Err EControl) /\
  (c = 1 -> d > 0 -> p + d <= usize_max -> op_jump_if p (c :: d :: s) = Ok (s, CPc (p + d))) /\
  (c = 1 -> d > 0 -> p + d > usize_max -> op_jump_if p (c :: d :: s) = Err EPcOverflow) /\
  (c = 1 -> d < 0 -> 0 <= p + d -> op_jump_if p (c :: d :: s) = Ok (s, CPc (p + d))) /\
  (c = 1 -> d < 0 -> p + d < 0 -> op_jump_if p (c :: d :: s) = Err EPcOverflow) /\
  (c <> 0 -> c <> 1 -> op_jump_if p (c :: d :: s) = Err EControl) /\
  no_panic (op_jump_if p (c :: d :: s)).
Proof.
  intros p c d s Hp Hd. repeat split.
  - intros ->. apply jump_if_false.
  - intros -> ->. apply jump_if_zero_dist.
  - intros -> H1 H2. rewrite jump_if_forward by lia. destruct (Z.leb_spec (p + d) usize_max); [reflexivity|lia].
  - intros -> H1 H2. rewrite jump_if_forward by lia. destruct (Z.leb_spec (p + d) usize_max); [lia|reflexivity].
  - intros -> H1 H2. rewrite jump_if_backward by lia. destruct (Z.leb_spec 0 (p + d)); [reflexivity|lia].
  - intros -> H1 H2. rewrite jump_if_backward by lia. destruct (Z.leb_spec 0 (p + d)); [lia|reflexivity].
  - intros H0 H1. apply jump_if_bad_cond; assumption.
  - apply jump_if_no_panic.
Qed.

(* a successful JumpIf, inverted: the condition was 0/1 and the target is pc + dist, inside usize *)
Lemma jump_if_ok_inv p st s' c' :
  0 <= p <= usize_max ->
  op_jump_if p st = Ok (s', c') ->
  exists c d, st = c :: d :: s' /\
    ((c = 0 /\ c' = CNext) \/ (c = 1 /\ d <> 0 /\ 0 <= p + d <= usize_max /\ c' = CPc (p + d))).
Proof.
  intros Hp H. destruct st as [|c [|d s]]; try discriminate.
  rewrite jump_if_table in H by assumption. unfold jump_if_result in H.
  destruct (Z.eqb_spec c 0) as [->|H0].
  - inversion H; subst. exists 0, d. split; [reflexivity|]. left; auto.
  - destruct (Z.eqb_spec c 1) as [->|H1]; [|discriminate].
    destruct (Z.eqb_spec d 0) as [->|Hd]; [discriminate|].
    destruct (Z.leb_spec 0 (p + d)); destruct (Z.leb_spec (p + d) usize_max); cbn [andb] in H; try discriminate.
    inversion H; subst. exists 1, d. split; [reflexivity|]. right. repeat split; auto.
Qed.

(* i64::MIN as a distance: unsigned_abs does not overflow, the result is a plain pc-overflow error
   (for every pc below 2^63) or a jump, never a panic *)
Lemma jump_if_i64_min p s : 0 <= p <= usize_max ->
  op_jump_if p (1 :: i64_min :: s) =
    if 0 <=? p + i64_min then Ok (s, CPc (p + i64_min)) else Err EPcOverflow.
Proof. intros _. apply jump_if_backward. reflexivity. Qed.

(* ---------- HaltIf / PanicIf / Halt ---------- *)
Theorem halt_if_spec : forall c s,
  (c = 0 -> op_halt_if (c :: s) = Ok (s, CNext)) /\
  (c = 1 -> op_halt_if (c :: s) = Ok (s, CHalt)) /\
  (c <> 0 -> c <> 1 -> op_halt_if (c :: s) = Err EControl) /\
  op_halt_if [] = Err EStack /\
  (forall st, no_panic (op_halt_if st)).
Proof.
  intros c s. repeat split.
  - intros ->. reflexivity.
  - intros ->. reflexivity.
  - intros H0 H1. unfold op_halt_if. cbn [pop bind]. rewrite (bool_of_word_other c H0 H1). reflexivity.
  - intros st site. unfold op_halt_if. destruct st as [|w st]; try discriminate. cbn [pop bind].
    destruct (bool_of_word w) as [[|]|]; discriminate.
Qed.

Theorem panic_if_spec : forall c s,
  (c = 0 -> op_panic_if (c :: s) = Ok (s, CNext)) /\
  (c = 1 -> op_panic_if (c :: s) = Err EControl) /\
  (c <> 0 -> c <> 1 -> op_panic_if (c :: s) = Err EControl) /\
  op_panic_if [] = Err EStack /\
  (forall st, no_panic (op_panic_if st)).
Proof.
  intros c s. repeat split.
  - intros ->. reflexivity.
  - intros ->. reflexivity.
  - intros H0 H1. unfold op_panic_if. cbn [pop bind]. rewrite (bool_of_word_other c H0 H1). reflexivity.
  - intros st site. unfold op_panic_if. destruct st as [|w st]; try discriminate. cbn [pop bind].
    destruct (bool_of_word w) as [[|]|]; discriminate.
Qed.

Lemma halt_if_ok_inv st s' c' : op_halt_if st = Ok (s', c') ->
  exists c, st = c :: s' /\ ((c = 0 /\ c' = CNext) \/ (c = 1 /\ c' = CHalt)).
Proof.
  unfold op_halt_if. destruct st as [|w st]; [discriminate|]. cbn [pop bind].
  destruct (bool_of_word w) as [[|]|] eqn:B; try discriminate; intros H; inversion H; subst; exists w;
    apply bool_of_word_some in B; cbn [word_of_bool] in B; auto.
Qed.

Lemma panic_if_ok_inv st s' c' : op_panic_if st = Ok (s', c') -> st = 0 :: s' /\ c' = CNext.
Proof.
  unfold op_panic_if. destruct st as [|w st]; [discriminate|]. cbn [pop bind].
  destruct (bool_of_word w) as [[|]|] eqn:B; try discriminate; intros H; inversion H; subst.
  apply bool_of_word_some in B; cbn [word_of_bool] in B. subst. auto.
Qed.

Lemma step_halt E v : step_basic E OHalt v = Ok (v, CHalt).
Proof. reflexivity. Qed.

Lemma step_halt_if E v : step_basic E OHaltIf v = with_stack_ctl v (op_halt_if (stack v)).
Proof. reflexivity. Qed.
Lemma step_jump_if E v : step_basic E OJumpIf v = with_stack_ctl v (op_jump_if (pc v) (stack v)).
Proof. reflexivity. Qed.
Lemma step_panic_if E v : step_basic E OPanicIf v = with_stack_ctl v (op_panic_if (stack v)).
Proof. reflexivity. Qed.

(* RepeatEnd / RepeatCounter outside of a loop *)
Lemma repeat_end_empty : op_repeat_end [] = Err ERepeat.
Proof. reflexivity. Qed.
Lemma step_repeat_end_empty E v : rstack v = [] -> step_basic E ORepeatEnd v = Err ERepeat.
Proof. intros H. cbn [step_basic]. rewrite H. reflexivity. Qed.
Lemma step_repeat_counter_empty E v : rstack v = [] -> step_basic E ORepeatCounter v = Err ERepeat.
Proof. intros H. cbn [step_basic step_access]. rewrite H. reflexivity. Qed.
Lemma step_repeat_counter E v sl r : rstack v = sl :: r ->
  step_basic E ORepeatCounter v = with_stack v (push (s_counter sl) (stack v)).
Proof. intros H. cbn [step_basic step_access]. rewrite H. reflexivity. Qed.

(* ---------- the repeat stack as a state machine ---------- *)
Definition mk_slot (c : Z) (u : option Z) (ix : Z) : slot := {| s_counter := c; s_up := u; s_index := ix |}.

(* k applications of RepeatEnd, threading the repeat stack *)
Fixpoint iter_end (k : nat) (r : list slot) : R (list slot) :=
  match k with
  | O => Ok r
  | S k' => let* r1 := iter_end k' r in let* (r2, _) := op_repeat_end r1 in Ok r2
  end.

Lemma sat_sub1_le z : sat_sub1 z <= z.
Proof. unfold sat_sub1. destruct (Z.eqb_spec z i64_min); lia. Qed.
Lemma sat_sub1_eq z : z <> i64_min -> sat_sub1 z = z - 1.
Proof. unfold sat_sub1. destruct (Z.eqb_spec z i64_min); [contradiction|reflexivity]. Qed.

(* what Repeat pushes *)
Lemma op_repeat_ok p upw n s r :
  0 <= p -> p + 1 <= usize_max -> zlen r < 4096 -> (upw = 0 \/ upw = 1) ->
  op_repeat p (upw :: n :: s) r =
    Ok (s, (if upw =? 1 then mk_slot 0 (Some n) (p + 1) else mk_slot n None (p + 1)) :: r).
Proof.
  intros Hp Hp1 Hr Hu. unfold op_repeat. rewrite pop2_cons2. cbn [bind].
  assert (L : stack_size_limit = 4096) by reflexivity.
  destruct Hu as [->| ->].
  - rewrite bool_of_word_0. destruct (Z.ltb_spec usize_max (p + 1)); [lia|].
    destruct (Z.leb_spec stack_size_limit (zlen r)); [lia|]. reflexivity.
  - rewrite bool_of_word_1. destruct (Z.ltb_spec usize_max (p + 1)); [lia|].
    destruct (Z.leb_spec stack_size_limit (zlen r)); [lia|]. reflexivity.
Qed.

Lemma op_repeat_errors p s r :
  ((length s < 2)%nat -> op_repeat p s r = Err EStack) /\
  (forall upw n s0, s = upw :: n :: s0 -> upw <> 0 -> upw <> 1 -> op_repeat p s r = Err ERepeat) /\
  (forall upw n s0, s = upw :: n :: s0 -> (upw = 0 \/ upw = 1) -> usize_max < p + 1 -> op_repeat p s r = Err EStack) /\
  (forall upw n s0, s = upw :: n :: s0 -> (upw = 0 \/ upw = 1) -> p + 1 <= usize_max -> 4096 <= zlen r ->
     op_repeat p s r = Err ERepeat) /\
  no_panic (op_repeat p s r).
Proof.
  repeat split.
  - intros H. unfold op_repeat. rewrite (pop2_short s H). reflexivity.
  - intros upw n s0 -> H0 H1. unfold op_repeat. rewrite pop2_cons2. cbn [bind].
    rewrite (bool_of_word_other upw H0 H1). reflexivity.
  - intros upw n s0 -> Hu Hp. unfold op_repeat. rewrite pop2_cons2. cbn [bind].
    destruct Hu as [->| ->]; [rewrite bool_of_word_0|rewrite bool_of_word_1];
      (destruct (Z.ltb_spec usize_max (p + 1)); [reflexivity|lia]).
  - intros upw n s0 -> Hu Hp Hr. unfold op_repeat. rewrite pop2_cons2. cbn [bind].
    assert (L : stack_size_limit = 4096) by reflexivity.
    destruct Hu as [->| ->]; [rewrite bool_of_word_0|rewrite bool_of_word_1];
      (destruct (Z.ltb_spec usize_max (p + 1)); [lia|]);
      (destruct (Z.leb_spec stack_size_limit (zlen r)); [reflexivity|lia]).
  - intros site. unfold op_repeat. destruct s as [|a [|b s]]; try discriminate.
    rewrite pop2_cons2. cbn [bind]. destruct (bool_of_word a) as [b0|]; [|discriminate].
    destruct (usize_max <? p + 1); [discriminate|]. destruct (stack_size_limit <=? zlen r); discriminate.
Qed.

(* one application of RepeatEnd, counting up *)
Lemma repeat_end_up_more c n ix r : c < n - 1 -> n <= i64_max ->
  op_repeat_end (mk_slot c (Some n) ix :: r) = Ok (mk_slot (c + 1) (Some n) ix :: r, Some ix).
Proof.
  intros Hc Hn. unfold op_repeat_end, mk_slot. cbn [s_up s_counter s_index].
  assert (Hs : c < sat_sub1 n).
  { unfold sat_sub1. destruct (Z.eqb_spec n i64_min); lia. }
  destruct (Z.leb_spec (sat_sub1 n) c); [lia|].
  destruct (Z.ltb_spec i64_max (c + 1)); [lia|]. reflexivity.
Qed.

Lemma repeat_end_up_last c n ix r : 0 <= c -> n - 1 <= c ->
  op_repeat_end (mk_slot c (Some n) ix :: r) = Ok (r, None).
Proof.
  intros Hn Hc. unfold op_repeat_end, mk_slot. cbn [s_up s_counter s_index].
  assert (Hs : sat_sub1 n <= c).
  { unfold sat_sub1. destruct (Z.eqb_spec n i64_min); unfold i64_min, two63 in *; lia. }
  destruct (Z.leb_spec (sat_sub1 n) c); [reflexivity|lia].
Qed.

(* one application of RepeatEnd, counting down *)
Lemma repeat_end_down_more c ix r : 1 < c ->
  op_repeat_end (mk_slot c None ix :: r) = Ok (mk_slot (c - 1) None ix :: r, Some ix).
Proof.
  intros Hc. unfold op_repeat_end, mk_slot. cbn [s_up s_counter s_index].
  destruct (Z.leb_spec c 1); [lia|].
  destruct (Z.ltb_spec (c - 1) i64_min); [unfold i64_min, two63 in *; lia|]. reflexivity.
Qed.

Lemma repeat_end_down_last c ix r : c <= 1 ->
  op_repeat_end (mk_slot c None ix :: r) = Ok (r, None).
Proof.
  intros Hc. unfold op_repeat_end, mk_slot. cbn [s_up s_counter s_index].
  destruct (Z.leb_spec c 1); [reflexivity|lia].
Qed.

(* the slots below the top one are never touched *)
Theorem repeat_outer_untouched : forall sl r res,
  op_repeat_end (sl :: r) = Ok res ->
  (exists sl', res = (sl' :: r, Some (s_index sl)) /\ s_up sl' = s_up sl /\ s_index sl' = s_index sl /\
               s_counter sl' = match s_up sl with Some _ => s_counter sl + 1 | None => s_counter sl - 1 end)
  \/ res = (r, None).
Proof.
  intros sl r res. unfold op_repeat_end. destruct (s_up sl) as [lim|] eqn:U.
  - destruct (sat_sub1 lim <=? s_counter sl); [intros H; inversion H; auto|].
    destruct (i64_max <? s_counter sl + 1); [discriminate|].
    intros H; inversion H. left. eexists. split; [reflexivity|]. cbn. auto.
  - destruct (s_counter sl <=? 1); [intros H; inversion H; auto|].
    destruct (s_counter sl - 1 <? i64_min); [discriminate|].
    intros H; inversion H. left. eexists. split; [reflexivity|]. cbn. auto.
Qed.

(* RepeatEnd never panics when the limit is a word (counting up) and never when counting down *)
Lemma repeat_end_no_panic r :
  (forall sl r', r = sl :: r' -> match s_up sl with Some lim => lim <= i64_max | None => True end) ->
  no_panic (op_repeat_end r).
Proof.
  intros H site. unfold op_repeat_end. destruct r as [|sl r']; [discriminate|].
  specialize (H sl r' eq_refl). destruct (s_up sl) as [lim|].
  - destruct (Z.leb_spec (sat_sub1 lim) (s_counter sl)); [discriminate|].
    destruct (Z.ltb_spec i64_max (s_counter sl + 1)); [|discriminate].
    exfalso. pose proof (sat_sub1_le lim). lia.
  - destruct (Z.leb_spec (s_counter sl) 1); [discriminate|].
    destruct (Z.ltb_spec (s_counter sl - 1) i64_min); [|discriminate].
    exfalso. unfold i64_min, two63 in *. lia.
Qed.

Lemma repeat_end_not_fuel r : op_repeat_end r <> OutOfFuel.
Proof.
  unfold op_repeat_end. destruct r as [|sl r']; [discriminate|]. destruct (s_up sl) as [lim|].
  - destruct (sat_sub1 lim <=? s_counter sl); [discriminate|].
    destruct (i64_max <? s_counter sl + 1); discriminate.
  - destruct (s_counter sl <=? 1); [discriminate|].
    destruct (s_counter sl - 1 <? i64_min); discriminate.
Qed.

(* counting up: the counters seen are 0, 1, ..., max n 1 - 1 *)
Lemma iter_end_up n ix r : i64 n ->
  forall k : nat, Z.of_nat k < Z.max n 1 ->
  iter_end k (mk_slot 0 (Some n) ix :: r) = Ok (mk_slot (Z.of_nat k) (Some n) ix :: r).
Proof.
  intros Hn. induction k as [|k IH]; intros Hk; [reflexivity|].
  cbn [iter_end]. rewrite IH by lia. cbn [bind].
  rewrite repeat_end_up_more by (unfold i64 in Hn; lia). cbn [bind].
  rewrite Nat2Z.inj_succ. reflexivity.
Qed.

Theorem repeat_machine_up : forall n ix r, i64 n ->
  let sl := fun c => mk_slot c (Some n) ix in
  (forall j, 0 <= j < Z.max n 1 -> iter_end (Z.to_nat j) (sl 0 :: r) = Ok (sl j :: r)) /\
  (forall j, 0 <= j < Z.max n 1 - 1 -> op_repeat_end (sl j :: r) = Ok (sl (j + 1) :: r, Some ix)) /\
  op_repeat_end (sl (Z.max n 1 - 1) :: r) = Ok (r, None) /\
  iter_end (Z.to_nat (Z.max n 1)) (sl 0 :: r) = Ok r.
Proof.
  intros n ix r Hn sl. assert (Hn' := Hn). unfold i64 in Hn'.
  assert (Hlast : op_repeat_end (sl (Z.max n 1 - 1) :: r) = Ok (r, None)).
  { apply repeat_end_up_last; lia. }
  repeat split.
  - intros j Hj. unfold sl. rewrite (iter_end_up n ix r Hn (Z.to_nat j)) by lia.
    rewrite Z2Nat.id by lia. reflexivity.
  - intros j Hj. apply repeat_end_up_more; lia.
  - exact Hlast.
  - replace (Z.to_nat (Z.max n 1)) with (S (Z.to_nat (Z.max n 1 - 1))) by lia.
    cbn [iter_end]. unfold sl. rewrite (iter_end_up n ix r Hn) by lia. cbn [bind].
    rewrite Z2Nat.id by lia. fold (sl (Z.max n 1 - 1)). rewrite Hlast. reflexivity.
Qed.

(* counting down: the counters seen are n, n-1, ..., 1 (only n itself when n <= 1) *)
Lemma iter_end_down n ix r :
  forall k : nat, Z.of_nat k < Z.max n 1 ->
  iter_end k (mk_slot n None ix :: r) = Ok (mk_slot (n - Z.of_nat k) None ix :: r).
Proof.
  induction k as [|k IH]; intros Hk.
  - cbn [iter_end]. rewrite Z.sub_0_r. reflexivity.
  - cbn [iter_end]. rewrite IH by lia. cbn [bind].
    rewrite repeat_end_down_more by lia. cbn [bind].
    rewrite Nat2Z.inj_succ. replace (n - Z.of_nat k - 1) with (n - Z.succ (Z.of_nat k)) by lia. reflexivity.
Qed.

Theorem repeat_machine_down : forall n ix r,
  let sl := fun c => mk_slot c None ix in
  (forall j, 0 <= j < Z.max n 1 -> iter_end (Z.to_nat j) (sl n :: r) = Ok (sl (n - j) :: r)) /\
  (forall j, 0 <= j < Z.max n 1 - 1 -> op_repeat_end (sl (n - j) :: r) = Ok (sl (n - j - 1) :: r, Some ix)) /\
  op_repeat_end (sl (n - (Z.max n 1 - 1)) :: r) = Ok (r, None) /\
  (1 <= n -> n - (Z.max n 1 - 1) = 1) /\ (n <= 0 -> n - (Z.max n 1 - 1) = n) /\
  iter_end (Z.to_nat (Z.max n 1)) (sl n :: r) = Ok r.
Proof.
  intros n ix r sl.
  assert (Hlast : op_repeat_end (sl (n - (Z.max n 1 - 1)) :: r) = Ok (r, None)).
  { apply repeat_end_down_last; lia. }
  repeat split; try lia.
  - intros j Hj. unfold sl. rewrite (iter_end_down n ix r (Z.to_nat j)) by lia.
    rewrite Z2Nat.id by lia. reflexivity.
  - intros j Hj. apply repeat_end_down_more; lia.
  - exact Hlast.
  - replace (Z.to_nat (Z.max n 1)) with (S (Z.to_nat (Z.max n 1 - 1))) by lia.
    cbn [iter_end]. unfold sl. rewrite (iter_end_down n ix r) by lia. cbn [bind].
    rewrite Z2Nat.id by lia. fold (sl (n - (Z.max n 1 - 1))). rewrite Hlast. reflexivity.
Qed.
