(* One solution, one pass: the result of check_predicate_inner (model) against the pass summary of the
   reference semantics (Spec/GraphRef.v: eval_pass / summarize).  Lifts Proofs/TwoMode.v. *)
From Coq Require Import ZArith List Lia Bool Permutation Arith.
From EB Require Import Spec.InnerSpec Spec.TwoPassSpec Proofs.InnerEval Proofs.Deferred Proofs.C01Glue Proofs.TwoMode.
Import ListNotations.
Open Scope list_scope.
Local Open Scope nat_scope.

Arguments sat_add_u64 : simpl never.

(* ------------------------------------------------------------------------------------------ *)
(* lists *)

Lemma fold_left_map_ {A B C} (f : A -> B -> A) (g : C -> B) l : forall a,
  fold_left f (map g l) a = fold_left (fun a x => f a (g x)) l a.
Proof. induction l as [|x l IH]; intros a; [reflexivity|]. simpl. apply IH. Qed.

Lemma flat_map_map_ {A B C} (f : B -> list C) (g : A -> B) l :
  flat_map f (map g l) = flat_map (fun x => f (g x)) l.
Proof. induction l as [|x l IH]; [reflexivity|]. simpl. now rewrite IH. Qed.

Lemma forallb_map_ {A B} (f : B -> bool) (g : A -> B) l : forallb f (map g l) = forallb (fun x => f (g x)) l.
Proof. induction l as [|x l IH]; [reflexivity|]. simpl. now rewrite IH. Qed.

Lemma filter_map_ {A B} (f : B -> bool) (g : A -> B) l : filter f (map g l) = map g (filter (fun x => f (g x)) l).
Proof. induction l as [|x l IH]; [reflexivity|]. simpl. destruct (f (g x)); simpl; now rewrite IH. Qed.

Lemma fold_left_ext_in {A B} (f g : A -> B -> A) l : (forall a x, In x l -> f a x = g a x) ->
  forall a, fold_left f l a = fold_left g l a.
Proof.
  induction l as [|x l IH]; intros H a; [reflexivity|]. simpl. rewrite (H a x) by now left.
  apply IH. intros; apply H; now right.
Qed.

Lemma forallb_false_in {A} (f : A -> bool) l x : In x l -> f x = false -> forallb f l = false.
Proof.
  intros Hin Hf. destruct (forallb f l) eqn:E; [|reflexivity].
  rewrite forallb_forall in E. rewrite (E x Hin) in Hf. discriminate.
Qed.

Lemma perm_flat_map {A B} (f : A -> list B) l1 l2 : Permutation l1 l2 -> Permutation (flat_map f l1) (flat_map f l2).
Proof.
  induction 1 as [|x l1 l2 H IH|x y l|l1 l2 l3 H1 IH1 H2 IH2]; simpl.
  - constructor.
  - now apply Permutation_app_head.
  - rewrite !app_assoc. apply Permutation_app_tail. apply Permutation_app_comm.
  - eapply Permutation_trans; eauto.
Qed.

(* ------------------------------------------------------------------------------------------ *)
(* saturating gas sums do not depend on the order when every summand is non-negative *)

Definition ogas (x : outcome unit nval) : option Z :=
  match x with Ok (NVParent _ g) | Ok (NVLeaf _ g) => Some g | _ => None end.

Lemma gas_add_swap a x y :
  (forall g, ogas x = Some g -> (0 <= g)%Z) -> (forall g, ogas y = Some g -> (0 <= g)%Z) ->
  gas_add (gas_add a x) y = gas_add (gas_add a y) x.
Proof.
  intros Hx Hy.
  destruct x as [[ox gx|ox gx| |]| | |]; destruct y as [[oy gy|oy gy| |]| | |]; cbn [gas_add]; try reflexivity;
    specialize (Hx _ eq_refl); specialize (Hy _ eq_refl); unfold sat_add_u64; lia.
Qed.

Lemma gas_fold_perm (val : nat -> outcome unit nval) l1 l2 : Permutation l1 l2 ->
  (forall v g, In v l1 -> ogas (val v) = Some g -> (0 <= g)%Z) ->
  forall a, fold_left (fun a v => gas_add a (val v)) l1 a = fold_left (fun a v => gas_add a (val v)) l2 a.
Proof.
  induction 1 as [|x l1 l2 H IH|x y l|l1 l2 l3 H1 IH1 H2 IH2]; intros Hg a.
  - reflexivity.
  - simpl. apply IH. intros v g Hv. apply Hg. now right.
  - simpl. f_equal. apply gas_add_swap; intros g; apply Hg; simpl; auto.
  - rewrite IH1 by exact Hg. apply IH2. intros v g Hv. apply Hg. eapply Permutation_in; [apply Permutation_sym; exact H1|exact Hv].
Qed.

(* ------------------------------------------------------------------------------------------ *)
(* eval_pass / summarize over an arbitrary value function *)

Definition goodb (x : nval) : bool :=
  match x with
  | NVParent _ _ => true
  | NVLeaf (Satisfied false) _ => false
  | NVLeaf _ _ => true
  | _ => false
  end.

Lemma goodb_good x : goodb x = true <-> good_val (Ok x).
Proof. destruct x as [o g|[[|]|m] g| |]; simpl; split; auto; try discriminate; contradiction. Qed.

Section EvalGo.
  Variable valR : nat -> outcome unit nval.

  Fixpoint eval_go (vs : list nat) : outcome unit (list (nat * nval)) :=
    match vs with
    | [] => Ok []
    | v :: r => let* x := valR v in
                let* rest := eval_go r in
                Ok ((v, x) :: rest)
    end.

  Definition xf (v : nat) : nval := match valR v with Ok x => x | _ => NVSkipped end.

  Lemma eval_go_ok vs : forall l, eval_go vs = Ok l ->
    l = map (fun v => (v, xf v)) vs /\ forall v, In v vs -> valR v = Ok (xf v).
  Proof.
    induction vs as [|v vs IH]; intros l H; simpl in H.
    - injection H as <-. split; [reflexivity|]. intros v [].
    - apply bind_ok in H as (x & Hx & H). apply bind_ok in H as (rest & Hr & H). injection H as <-.
      destruct (IH rest Hr) as [E Hall].
      assert (Ex : xf v = x) by (unfold xf; now rewrite Hx).
      split; [simpl; now rewrite Ex, E|].
      intros w [Hw|Hw]; [subst w; now rewrite Ex|auto].
  Qed.

  Lemma eval_go_total vs : (forall v, In v vs -> exists x, valR v = Ok x) ->
    eval_go vs = Ok (map (fun v => (v, xf v)) vs).
  Proof.
    induction vs as [|v vs IH]; intros H; [reflexivity|].
    destruct (H v (or_introl eq_refl)) as (x & Hx). simpl. rewrite Hx. cbn [bind].
    rewrite IH by (intros; apply H; now right). cbn [bind]. unfold xf. now rewrite Hx.
  Qed.

  Lemma valR_xf v x : valR v = Ok x -> xf v = x.
  Proof. intros H. unfold xf. now rewrite H. Qed.

  Variable p : predicate.
  Variable all : list (nat * nval).
  Variable keep : nat -> bool.
  Variable vs : list nat.
  Notation kept := (filter (fun e => keep (fst e)) (map (fun v => (v, xf v)) vs)).

  Lemma kept_eq : kept = map (fun v => (v, xf v)) (filter keep vs).
  Proof. rewrite filter_map_. reflexivity. Qed.

  Lemma summ_ok : ps_ok (summarize p all kept) = forallb (fun v => goodb (xf v)) (filter keep vs).
  Proof. rewrite kept_eq. unfold summarize; cbn [ps_ok]. rewrite forallb_map_. reflexivity. Qed.

  Lemma summ_gas : ps_gas (summarize p all kept) = fold_left (fun a v => gas_add a (Ok (xf v))) (filter keep vs) 0%Z.
  Proof. rewrite kept_eq. unfold summarize; cbn [ps_gas]. rewrite fold_left_map_. reflexivity. Qed.

  Lemma summ_data : ps_data (summarize p all kept) = flat_map (fun v => data_of (Ok (xf v))) (filter keep vs).
  Proof. rewrite kept_eq. unfold summarize; cbn [ps_data]. rewrite flat_map_map_. reflexivity. Qed.
End EvalGo.

Lemma eval_pass_go p run skip :
  eval_pass p run skip = eval_go (value p run skip (S (length (p_nodes p)))) (seq 0 (length (p_nodes p))).
Proof. reflexivity. Qed.

(* ------------------------------------------------------------------------------------------ *)
(* the reference value does not depend on skip / run outside the graph *)

Lemma value_skip_ext p run skip skip' :
  (forall v, v < length (p_nodes p) -> skip v = skip' v) ->
  forall f v, v < length (p_nodes p) -> value p run skip f v = value p run skip' f v.
Proof.
  intros Hs. induction f as [|f IH]; intros v Hv; [reflexivity|].
  rewrite !value_S_skip, (Hs v Hv). destruct (skip' v); [reflexivity|].
  apply vstep_ext. intros u Hu. apply IH. eapply parent_lt; eauto.
Qed.

Lemma value_run_ext p runA runB skip :
  (forall v leaf ins, runA v leaf ins = runB v leaf ins) ->
  forall f v, value p runA skip f v = value p runB skip f v.
Proof.
  intros Hr. induction f as [|f IH]; intros v; [reflexivity|].
  rewrite !value_S_skip. destruct (skip v); [reflexivity|].
  unfold vstep. rewrite (gather_ext _ (value p runB skip f) _ (fun u _ => IH u)).
  destruct (gather_with _ _) as [[ins|]| | |]; cbn [bind]; try reflexivity. now rewrite Hr.
Qed.

Definition gas_nonneg (run : nat -> bool -> list sm -> outcome unit prog_res) : Prop :=
  forall ix leaf ins o g, run ix leaf ins = Ok (PRun o g) -> (0 <= g)%Z.

(* ------------------------------------------------------------------------------------------ *)
(* a final state of the model against the summary of the reference *)

Section Summary.
  Variable run : nat -> bool -> list sm -> outcome unit prog_res.
  Variable p : predicate.
  Variable D : list nat.
  Variable c0 : list (nat * sm).
  Variable val : nat -> outcome unit nval.        (* the value function of the model's invariant *)
  Variable valR : nat -> outcome unit nval.       (* the value function of the reference's pass *)
  Variable N : list nat.                          (* the nodes of the pass in level order *)
  Variable keep : nat -> bool.
  Variable all : list (nat * nval).
  Notation n := (length (p_nodes p)).
  Notation K := (filter keep (seq 0 n)).
  Hypothesis HK : Permutation K N.
  Hypothesis Hval : forall v, In v N -> valR v = val v.
  Hypothesis Hgas : gas_nonneg run.

  Notation summ vals := (summarize p all (filter (fun e => keep (fst e)) vals)).

  Lemma inK_inN v : In v K <-> In v N.
  Proof. split; apply Permutation_in; [exact HK|apply Permutation_sym; exact HK]. Qed.

  Lemma fail_summary f vals : In f N -> val f = Ok NVFail ->
    eval_go valR (seq 0 n) = Ok vals -> ps_ok (summ vals) = false.
  Proof.
    intros Hf Hvf He. apply eval_go_ok in He as [-> _]. rewrite summ_ok.
    apply (forallb_false_in _ _ f); [apply inK_inN; exact Hf|].
    rewrite (valR_xf valR f NVFail); [reflexivity|]. rewrite (Hval f Hf). exact Hvf.
  Qed.

  Variable st : inner_state.
  Hypothesis HA : invG run p D c0 val N N st.

  Lemma N_val v : In v N -> val v = Ok (xf valR v).
  Proof.
    intros Hv. destruct (g_vals _ _ _ _ _ _ _ _ HA v Hv) as (_ & r & _ & Hv' & _).
    rewrite <- (Hval v Hv). rewrite (Hval v Hv), Hv'. f_equal. symmetry. apply valR_xf. rewrite (Hval v Hv). exact Hv'.
  Qed.

  Lemma N_gas_nonneg v g : In v N -> ogas (val v) = Some g -> (0 <= g)%Z.
  Proof.
    intros Hv Hg. destruct (g_vals _ _ _ _ _ _ _ _ HA v Hv) as (_ & r & Hr & Hv' & _).
    rewrite Hv' in Hg. destruct r as [[s m|o] g'|]; cbn in Hg; try discriminate; injection Hg as <-; eapply Hgas; eauto.
  Qed.

  Lemma ok_summary g d vals : res_of st = Ok (g, d) -> eval_go valR (seq 0 n) = Ok vals ->
    ps_ok (summ vals) = true /\ ps_gas (summ vals) = g /\ Permutation (ps_data (summ vals)) d.
  Proof.
    intros Hres He. apply eval_go_ok in He as [-> _].
    destruct (res_of_G_ok _ _ _ _ _ _ _ HA g d Hres) as (Hgood & -> & ->).
    split; [|split].
    - rewrite summ_ok. apply forallb_forall. intros v Hv. apply inK_inN in Hv.
      apply goodb_good. rewrite <- (N_val v Hv). auto.
    - rewrite summ_gas.
      rewrite (fold_left_ext_in _ (fun a v => gas_add a (val v))).
      + apply gas_fold_perm; [exact HK|]. intros v g Hv. apply inK_inN in Hv. now apply N_gas_nonneg.
      + intros a v Hv. apply inK_inN in Hv. now rewrite (N_val v Hv).
    - rewrite summ_data.
      rewrite (flat_map_ext_in' _ (fun v => data_of (val v))).
      + apply perm_flat_map. exact HK.
      + intros v Hv. apply inK_inN in Hv. now rewrite (N_val v Hv).
  Qed.

  Lemma err_summary e vals : res_of st = Err e -> eval_go valR (seq 0 n) = Ok vals -> ps_ok (summ vals) = false.
  Proof.
    intros Hres He. apply eval_go_ok in He as [-> _]. rewrite summ_ok.
    unfold res_of in Hres. rewrite (g_failed _ _ _ _ _ _ _ _ HA) in Hres.
    destruct (is_unsat st) as [|u us] eqn:Eu; [discriminate|].
    rewrite (g_unsat _ _ _ _ _ _ _ _ HA) in Eu.
    assert (Hin : In u (flat_map (fun v => unsat_of v (val v)) N)) by (rewrite Eu; now left).
    apply in_flat_map in Hin as (v & Hv & Hu).
    apply (forallb_false_in _ _ v); [apply inK_inN; exact Hv|].
    rewrite (N_val v Hv) in Hu. destruct (xf valR v) as [o g|[[|]|m] g| |]; simpl in Hu; try contradiction. reflexivity.
  Qed.
End Summary.

(* ------------------------------------------------------------------------------------------ *)
(* the two calls of one solution *)

Lemma inner_res_ok_or_err run p ca is_def mode cache r :
  check_predicate_inner run p ca is_def mode cache = Ok r ->
  (exists g d, ir_res r = Ok (g, d)) \/ (exists e, ir_res r = Err e).
Proof.
  unfold check_predicate_inner.
  destruct (create_parent_map p) as [pm|[ix]| |]; try discriminate.
  2:{ intros H. injection H as <-. right. eexists. reflexivity. }
  destruct (parallel_topo_sort p pm) as [sorted|[ix]| |]; try discriminate.
  2:{ intros H. injection H as <-. right. eexists. reflexivity. }
  cbv zeta. destruct (run_levels _ _ _ _ _ _ _) as [[st stop]| | |]; try discriminate.
  cbn [bind]. intros H. injection H as <-. cbn [ir_res].
  destruct (is_failed st); [destruct (is_unsat st)|]; [left; do 2 eexists; reflexivity|right; eexists; reflexivity..].
Qed.

Section PerSolution.
  Variables run1 run2 runR : nat -> bool -> list sm -> outcome unit prog_res.
  Variable p : predicate.
  Variable is_def : nat -> bool.
  Variable dref : nat -> bool.
  Variable pm : list (nat * list nat).
  Variable sorted : list (list nat).
  Hypothesis Hcpm : create_parent_map p = Ok pm.
  Hypothesis Htopo : parallel_topo_sort p pm = Ok sorted.
  Notation n := (length (p_nodes p)).
  Notation D := (find_deferred p is_def).
  Hypothesis Hdref : forall v, v < n -> dref v = memb v D.
  Hypothesis Hleaf1 : run_respects_leaf run1.
  Hypothesis Hgas1 : gas_nonneg run1.
  Variable all : list (nat * nval).

  Let Hok : level_sort_ok p pm sorted := kahn_level_sort_ok p pm sorted Hcpm Htopo.

  Lemma perm_K1 : Permutation (filter (fun v => Bool.eqb (dref v) false) (seq 0 n)) (nodes_first D sorted).
  Proof.
    apply NoDup_Permutation.
    - apply NoDup_filter, seq_NoDup.
    - apply (nodup_N1 p is_def pm sorted Hcpm Htopo).
    - intros v. rewrite filter_In, in_seq, (in_N1 run1 run1 p is_def pm sorted Hcpm Htopo v). split.
      + intros [Hv E]. split; [lia|]. rewrite (Hdref v) in E by lia. apply memb_false.
        destruct (memb v D); [discriminate|reflexivity].
      + intros [Hv Hd]. split; [lia|]. rewrite (Hdref v Hv). apply memb_false in Hd. now rewrite Hd.
  Qed.

  Lemma perm_K2 : Permutation (filter (fun v => Bool.eqb (dref v) true) (seq 0 n)) (nodes_second D sorted).
  Proof.
    apply NoDup_Permutation.
    - apply NoDup_filter, seq_NoDup.
    - apply (nodup_N2 p is_def pm sorted Hcpm Htopo).
    - intros v. rewrite filter_In, in_seq, (in_N2 run1 run1 p is_def pm sorted Hcpm Htopo v). split.
      + intros [Hv E]. split; [lia|]. rewrite (Hdref v) in E by lia. apply memb_In.
        destruct (memb v D); [reflexivity|discriminate].
      + intros [Hv Hd]. split; [lia|]. rewrite (Hdref v Hv). apply memb_In in Hd. now rewrite Hd.
  Qed.

  (* ---------- first pass ---------- *)
  Section First.
    Variable ca1 : bool.
    Variable r1 : inner_result.
    Hypothesis Hres1 : check_predicate_inner run1 p ca1 is_def Outputs [] = Ok r1.
    Notation val := (vals p (run12 D run1 run1)).
    Notation valR := (value p run1 dref (S n)).
    Notation N1 := (nodes_first D sorted).
    Notation summ1 vals := (summarize p all (filter (fun e => Bool.eqb (dref (fst e)) false) vals)).

    Lemma valR1_first v : In v N1 -> valR v = val v.
    Proof.
      intros Hv. apply (in_N1 run1 run1 p is_def pm sorted Hcpm Htopo) in Hv as [Hv Hd].
      rewrite (value_skip_ext p run1 dref (fun x => memb x D) Hdref (S n) v Hv).
      unfold vals. apply (value_first_eq run1 run1 p is_def); auto.
    Qed.

    Lemma valR1_deferred v : v < n -> In v D -> valR v = Ok NVSkipped.
    Proof.
      intros Hv Hd. rewrite value_S_skip, (Hdref v Hv). apply memb_In in Hd. now rewrite Hd.
    Qed.

    Lemma first_pass_ok g1 d1 : ir_res r1 = Ok (g1, d1) ->
      exists vals, eval_pass p run1 dref = Ok vals /\
        ps_ok (summ1 vals) = true /\ ps_gas (summ1 vals) = g1 /\ Permutation (ps_data (summ1 vals)) d1.
    Proof.
      intros Hr.
      destruct (first_cases run1 run1 p is_def pm sorted Hcpm Htopo ca1 r1 Hleaf1 Hres1) as (st & Er & [HA|HF]).
      2:{ exfalso. destruct (res_of_F _ _ _ _ _ _ HF) as ((fl & Efl) & _). rewrite Er in Hr. cbn in Hr. congruence. }
      rewrite Er in Hr. cbn [final_of ir_res] in Hr.
      assert (He : eval_go valR (seq 0 n) = Ok (map (fun v => (v, xf valR v)) (seq 0 n))).
      { apply eval_go_total. intros v Hv. apply in_seq in Hv.
        destruct (in_dec Nat.eq_dec v D) as [Hd|Hd].
        - exists NVSkipped. apply valR1_deferred; [lia|exact Hd].
        - assert (Hv1 : In v N1) by (apply (in_N1 run1 run1 p is_def pm sorted Hcpm Htopo); split; [lia|exact Hd]).
          rewrite (valR1_first v Hv1).
          destruct (g_vals _ _ _ _ _ _ _ _ HA v Hv1) as (_ & r & _ & Hv' & _). eauto. }
      eexists. split; [rewrite eval_pass_go; exact He|].
      eapply ok_summary with (keep := fun v => Bool.eqb (dref v) false) (valR := valR) (st := st);
        [exact perm_K1|exact valR1_first|exact Hgas1|exact HA|exact Hr|exact He].
    Qed.

    Lemma first_pass_err e vals : ir_res r1 = Err e -> eval_pass p run1 dref = Ok vals -> ps_ok (summ1 vals) = false.
    Proof.
      intros Hr He. rewrite eval_pass_go in He.
      destruct (first_cases run1 run1 p is_def pm sorted Hcpm Htopo ca1 r1 Hleaf1 Hres1) as (st & Er & [HA|HF]).
      - rewrite Er in Hr. cbn [final_of ir_res] in Hr.
        eapply err_summary with (keep := fun v => Bool.eqb (dref v) false) (valR := valR) (st := st);
          [exact perm_K1|exact valR1_first|exact HA|exact Hr|exact He].
      - destruct (res_of_F _ _ _ _ _ _ HF) as (_ & f & Hf & _ & Hvf).
        rewrite (concat_L1 p is_def sorted) in Hf.
        eapply fail_summary with (keep := fun v => Bool.eqb (dref v) false) (valR := valR) (f := f);
          [exact perm_K1|exact valR1_first|exact Hf|exact Hvf|exact He].
    Qed.
  End First.

  (* ---------- second pass ---------- *)
  Section Second.
    Variables ca1 ca2 : bool.
    Variables r1 r2 : inner_result.
    Variables g1 : Z.
    Variable d1 : list (list Z).
    Hypothesis Hres1 : check_predicate_inner run1 p ca1 is_def Outputs [] = Ok r1.
    Hypothesis Hr1 : ir_res r1 = Ok (g1, d1).
    Hypothesis Hleaf2 : run_respects_leaf run2.
    Hypothesis Hgas2 : gas_nonneg run2.
    Hypothesis Hres2 : check_predicate_inner run2 p ca2 is_def Checks (ir_cache r1) = Ok r2.
    Hypothesis HrunR : forall v leaf ins, runR v leaf ins = run12 D run1 run2 v leaf ins.
    Notation val := (vals p (run12 D run1 run2)).
    Notation valR := (value p runR (fun _ => false) (S n)).
    Notation N1 := (nodes_first D sorted).
    Notation N2 := (nodes_second D sorted).
    Notation summ2 vals := (summarize p all (filter (fun e => Bool.eqb (dref (fst e)) true) vals)).

    Lemma valR2_all v : valR v = val v.
    Proof. unfold vals. apply value_run_ext. exact HrunR. Qed.

    Lemma second_setup : exists st1 st2,
      invG run1 p D [] val N1 N1 st1 /\ (forall v, In v N1 -> good_val (val v)) /\
      r2 = final_of st2 /\ (invG run2 p D (is_cache st1) val N2 N2 st2 \/ invFG run2 p val (remove_not_deferred sorted D) ca2 st2).
    Proof.
      assert (Hnf1 : no_program_failed (ir_res r1)) by (rewrite Hr1; exact I).
      destruct (first_G run1 run2 p is_def pm sorted Hcpm Htopo ca1 r1 Hleaf1 Hres1 Hnf1) as (st1 & Er1 & HA1).
      pose proof Hres2 as H2. replace (ir_cache r1) with (is_cache st1) in H2 by (rewrite Er1; reflexivity).
      destruct (second_cases run1 run2 p is_def pm sorted Hcpm Htopo st1 HA1 ca2 r2 Hleaf2 H2) as (st2 & Er2 & Hc).
      exists st1, st2. split; [exact HA1|]. split; [|split; [exact Er2|exact Hc]].
      rewrite Er1 in Hr1. cbn [ir_res] in Hr1.
      exact (proj1 (res_of_G_ok _ _ _ _ _ _ _ HA1 g1 d1 Hr1)).
    Qed.

    Lemma second_pass_ok g2 d2 : ir_res r2 = Ok (g2, d2) ->
      exists vals, eval_pass p runR (fun _ => false) = Ok vals /\
        ps_ok (summ2 vals) = true /\ ps_gas (summ2 vals) = g2 /\ Permutation (ps_data (summ2 vals)) d2.
    Proof.
      intros Hr. destruct second_setup as (st1 & st2 & HA1 & Hgood1 & Er2 & [HA2|HF]).
      2:{ exfalso. destruct (res_of_F _ _ _ _ _ _ HF) as ((fl & Efl) & _). rewrite Er2 in Hr. cbn in Hr. congruence. }
      rewrite Er2 in Hr. cbn [final_of ir_res] in Hr.
      assert (He : eval_go valR (seq 0 n) = Ok (map (fun v => (v, xf valR v)) (seq 0 n))).
      { apply eval_go_total. intros v Hv. apply in_seq in Hv. rewrite valR2_all.
        destruct (in_dec Nat.eq_dec v D) as [Hd|Hd].
        - assert (Hv2 : In v N2) by (apply (in_N2 run1 run1 p is_def pm sorted Hcpm Htopo); split; [lia|exact Hd]).
          destruct (g_vals _ _ _ _ _ _ _ _ HA2 v Hv2) as (_ & r & _ & Hv' & _). eauto.
        - assert (Hv1 : In v N1) by (apply (in_N1 run1 run1 p is_def pm sorted Hcpm Htopo); split; [lia|exact Hd]).
          destruct (g_vals _ _ _ _ _ _ _ _ HA1 v Hv1) as (_ & r & _ & Hv' & _). eauto. }
      eexists. split; [rewrite eval_pass_go; exact He|].
      eapply ok_summary with (keep := fun v => Bool.eqb (dref v) true) (valR := valR) (st := st2);
        [exact perm_K2|exact (fun v _ => valR2_all v)|exact Hgas2|exact HA2|exact Hr|exact He].
    Qed.

    Lemma second_pass_err e vals : ir_res r2 = Err e -> eval_pass p runR (fun _ => false) = Ok vals ->
      ps_ok (summ2 vals) = false.
    Proof.
      intros Hr He. rewrite eval_pass_go in He.
      destruct second_setup as (st1 & st2 & HA1 & Hgood1 & Er2 & [HA2|HF]).
      - rewrite Er2 in Hr. cbn [final_of ir_res] in Hr.
        eapply err_summary with (keep := fun v => Bool.eqb (dref v) true) (valR := valR) (st := st2);
          [exact perm_K2|exact (fun v _ => valR2_all v)|exact HA2|exact Hr|exact He].
      - destruct (res_of_F _ _ _ _ _ _ HF) as (_ & f & Hf & _ & Hvf).
        rewrite (concat_L2 p is_def sorted) in Hf.
        eapply fail_summary with (keep := fun v => Bool.eqb (dref v) true) (valR := valR) (f := f);
          [exact perm_K2|exact (fun v _ => valR2_all v)|exact Hf|exact Hvf|exact He].
    Qed.
  End Second.
End PerSolution.
