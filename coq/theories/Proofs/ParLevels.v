(* C02, auxiliary: every level the checker runs in parallel is a strictly ascending list of node indices
   (find_nodes_with_no_parents walks a BTreeMap; `retain` keeps the order).  Hence collecting the results
   of a level into a BTreeMap keyed by node and iterating it visits the nodes in the order of the level:
   the hypothesis `StronglySorted lt level` of `run_level_keyed_schedule_independent` always holds. *)
From Coq Require Import List Arith Lia Bool Sorted.
From EB Require Import Check.Graph.
Import ListNotations.
Open Scope list_scope.
Open Scope nat_scope.

Definition keys_sorted {A} (m : list (nat * A)) : Prop := StronglySorted lt (map fst m).

Lemma seq_sorted : forall n s, StronglySorted lt (seq s n).
Proof.
  induction n as [|n IH]; intros s; cbn [seq]; constructor; [apply IH|].
  apply Forall_forall. intros x Hx. apply in_seq in Hx. lia.
Qed.

Lemma sorted_filter (f : nat -> bool) : forall l, StronglySorted lt l -> StronglySorted lt (filter f l).
Proof.
  induction 1 as [|a l _ IH Hall]; cbn [filter]; [constructor|].
  destruct (f a); [|exact IH]. constructor; [exact IH|].
  rewrite Forall_forall in *. intros x Hx. apply filter_In in Hx. apply Hall. apply Hx.
Qed.

Lemma keys_sorted_filter {A} (f : nat * A -> bool) : forall m, keys_sorted m -> keys_sorted (filter f m).
Proof.
  unfold keys_sorted. induction m as [|[k v] r IH]; intros Hs; cbn [filter map fst] in *; [constructor|].
  inversion Hs as [|? ? Hs' Hall]; subst.
  destruct (f (k, v)); [|apply IH; exact Hs']. cbn [map fst]. constructor; [apply IH; exact Hs'|].
  rewrite Forall_forall in *. intros x Hx. apply Hall.
  apply in_map_iff in Hx. destruct Hx as (e & He & Hin). apply filter_In in Hin.
  apply in_map_iff. exists e. split; [exact He|apply Hin].
Qed.

Lemma adec_keys k : forall m, map fst (adec k m) = map fst m.
Proof.
  induction m as [|[k' d] r IH]; cbn [adec map fst]; [reflexivity|].
  destruct (Nat.eqb k k'); cbn [map fst]; [reflexivity|]. rewrite IH. reflexivity.
Qed.

Lemma reduce_in_degrees_keys cs : forall m, map fst (reduce_in_degrees m cs) = map fst m.
Proof.
  unfold reduce_in_degrees. induction cs as [|c r IH]; intros m; cbn [fold_left]; [reflexivity|].
  rewrite IH. apply adec_keys.
Qed.

Lemma aremove_in {A} k : forall (m : list (nat * A)) x, In x (map fst (aremove k m)) -> In x (map fst m).
Proof.
  induction m as [|[k' v] r IH]; intros x Hx; cbn [aremove map fst] in *; [exact Hx|].
  destruct (Nat.eqb k k'); [right; exact Hx|].
  cbn [map fst] in Hx. destruct Hx as [Hx|Hx]; [left; exact Hx|right; apply IH; exact Hx].
Qed.

Lemma aremove_sorted {A} k : forall (m : list (nat * A)), keys_sorted m -> keys_sorted (aremove k m).
Proof.
  unfold keys_sorted. induction m as [|[k' v] r IH]; intros Hs; cbn [aremove map fst] in *; [constructor|].
  inversion Hs as [|? ? Hs' Hall]; subst.
  destruct (Nat.eqb k k'); [exact Hs'|]. cbn [map fst]. constructor; [apply IH; exact Hs'|].
  rewrite Forall_forall in *. intros x Hx. apply Hall. apply (aremove_in k). exact Hx.
Qed.

Lemma process_level_sorted p : forall level m m',
  process_level p level m = Ok m' -> keys_sorted m -> keys_sorted m'.
Proof.
  induction level as [|node rest IH]; intros m m' H Hs; cbn [process_level] in H.
  - inversion H; subst. exact Hs.
  - destruct (children p node) as [cs|]; [|discriminate].
    apply (IH _ _ H). apply aremove_sorted. unfold keys_sorted. rewrite reduce_in_degrees_keys. exact Hs.
Qed.

Lemma find_nodes_sorted m : keys_sorted m -> StronglySorted lt (find_nodes_with_no_parents m).
Proof. intros Hs. unfold find_nodes_with_no_parents. apply keys_sorted_filter. exact Hs. Qed.

Lemma topo_go_sorted p : forall fuel m acc levels,
  topo_go fuel p m acc = Ok levels -> keys_sorted m -> Forall (StronglySorted lt) acc ->
  Forall (StronglySorted lt) levels.
Proof.
  induction fuel as [|f IH]; intros m acc levels H Hs Hacc.
  - destruct m; cbn [topo_go] in H; [|discriminate].
    inversion H; subst. apply Forall_rev. exact Hacc.
  - destruct m as [|e m0]; cbn [topo_go] in H.
    + inversion H; subst. apply Forall_rev. exact Hacc.
    + set (m := e :: m0) in *.
      assert (Hl := find_nodes_sorted m Hs).
      destruct (find_nodes_with_no_parents m) as [|x l] eqn:Hf; [discriminate|].
      destruct (process_level p (x :: l) m) as [m'| | |] eqn:Hp; cbn [bind] in H; try discriminate.
      apply (IH _ _ _ H).
      * exact (process_level_sorted p _ _ _ Hp Hs).
      * constructor; assumption.
Qed.

Theorem topo_levels_sorted p pm levels :
  parallel_topo_sort p pm = Ok levels -> Forall (StronglySorted lt) levels.
Proof.
  unfold parallel_topo_sort. intros H. apply (topo_go_sorted p _ _ _ _ H); [|constructor].
  unfold keys_sorted, in_degrees. rewrite map_map. cbn [fst]. rewrite map_id. apply seq_sorted.
Qed.

Lemma filtered_levels_sorted (f : nat -> bool) levels :
  Forall (StronglySorted lt) levels ->
  Forall (StronglySorted lt)
         (filter (fun l => negb (match l with [] => true | _ => false end)) (map (filter f) levels)).
Proof.
  intros H. apply Forall_forall. intros l Hl. apply filter_In in Hl. destruct Hl as [Hl _].
  apply in_map_iff in Hl. destruct Hl as (l0 & He & Hin). subst l.
  apply sorted_filter. rewrite Forall_forall in H. apply H. exact Hin.
Qed.

(* the levels check_predicate_inner runs, in either run mode *)
Theorem run_levels_sorted p pm sorted deferred :
  parallel_topo_sort p pm = Ok sorted ->
  Forall (StronglySorted lt) (remove_deferred sorted deferred) /\
  Forall (StronglySorted lt) (remove_not_deferred sorted deferred).
Proof.
  intros H. apply topo_levels_sorted in H.
  split; [unfold remove_deferred|unfold remove_not_deferred]; apply filtered_levels_sorted; exact H.
Qed.
