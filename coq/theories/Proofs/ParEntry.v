(* C02 for the entry points: the checker with EVERY parallel section (solutions, levels, Compute children)
   executed under an arbitrary schedule oracle returns what the sequential model returns.
   The `_with` / `_par` definitions are the model definitions with the parallel section abstracted out
   (bodies copied verbatim; `*_unfold`/`*_eq` lemmas tie them to the model).
   Tasks are pure, so sections compose: a task of an outer section may itself contain inner sections. *)
From Coq Require Import ZArith List Arith Lia Bool Permutation Sorted.
From EB Require Import Check.Par Proofs.ParProofs Proofs.ParInst Check.Set.
Import ListNotations.
Open Scope list_scope.
Open Scope nat_scope.

(* ================= the VM: exec with Compute under a schedule oracle ================= *)
Section ExecPar.
  Open Scope Z_scope.
  (* the oracle may look at the parent machine and the breadth *)
  Variable csch : vm -> Z -> list nat.

  Definition compute_children_par (run : vm -> X) (v : vm) (s0 : list Z) (breadth : Z) : list X :=
    match collect (run_par (fun j => compute_child run v s0 (Z.of_nat j)) (Z.to_nat breadth) (csch v breadth)) with
    | Some rs => rs
    | None => [Panic "parallel section not finished"]
    end.

  Fixpoint exec_par (fuel : nat) (E : env) (oa : Z -> option op) (limit : Z) (v : vm) (spent : Z) (tr : list op) : X :=
    match fuel with
    | O => OutOfFuel
    | S f =>
      match oa (pc v) with
      | None => Ok (v, spent, tr)
      | Some o =>
        let next := spent + e_cost E o in
        if (u64_max <? next) || (limit <? next) then Err (pc v, EOutOfGas, v)
        else
          let r : R (vm * ctl * list op) :=
            match o with
            | OCompute => compute_with_gen (compute_children_par (fun cv => exec_par f E oa (limit - next) cv 0 []))
                                           f (limit - next) v
            | _ => let* (v', c) := step_basic E o v in Ok (v', c, [])
            end in
          match r with
          | Err e => Err (pc v, e, v)
          | Panic s => Panic s
          | OutOfFuel => OutOfFuel
          | Ok (v', c, ctr) =>
            let tr' := ctr ++ o :: tr in
            match c with
            | CNext =>
                if usize_max <? pc v' + 1 then Panic "exec: self.pc += 1"
                else exec_par f E oa limit (set_pc v' (pc v' + 1)) next tr'
            | CPc p => exec_par f E oa limit (set_pc v' p) next tr'
            | CHalt => Ok (v', next, tr')
            | CComputeEnd =>
                if usize_max <? pc v' + 1 then Panic "exec: self.pc += 1"
                else Ok (set_pc v' (pc v' + 1), next, tr')
            | CComputeResult p g h =>
                let total := next + g in
                if (u64_max <? total) || (limit <? total) then Err (pc v, EOutOfGas, v)
                else let v'' := set_halt (set_pc v' p) (halt v' || h) in
                     if halt v'' then Ok (v'', total, tr') else exec_par f E oa limit v'' total tr'
            end
          end
      end
    end.

  Hypothesis csch_complete : forall v b, complete (Z.to_nat b) (csch v b).

  Lemma compute_children_par_eq (run1 run2 : vm -> X) v s0 breadth :
    (forall cv, run1 cv = run2 cv) ->
    compute_children_par run1 v s0 breadth = map (compute_child run2 v s0) (zrange_z breadth).
  Proof.
    intros He. unfold compute_children_par.
    rewrite (compute_children_schedule_independent run1 v s0 breadth _ (csch_complete v breadth)).
    apply map_ext. intros i. unfold compute_child. destruct (child_vm v s0 i); try reflexivity. apply He.
  Qed.

  Lemma compute_with_gen_par_eq (run1 run2 : vm -> X) fuel climit v :
    (forall cv, run1 cv = run2 cv) ->
    compute_with_gen (compute_children_par run1) fuel climit v = compute_with run2 fuel climit v.
  Proof.
    intros He. rewrite compute_with_unfold. unfold compute_with_gen.
    destruct (pop (stack v)) as [[breadth s0]| | |]; try reflexivity.
    rewrite (compute_children_par_eq run1 run2 v s0 breadth He). reflexivity.
  Qed.

  Theorem exec_par_eq : forall fuel E oa limit v spent tr,
    exec_par fuel E oa limit v spent tr = exec fuel E oa limit v spent tr.
  Proof.
    induction fuel as [|f IH]; intros E oa limit v spent tr; [reflexivity|].
    cbn [exec exec_par].
    destruct (oa (pc v)) as [o|]; [|reflexivity].
    destruct ((u64_max <? spent + e_cost E o) || (limit <? spent + e_cost E o)); [reflexivity|].
    match goal with
    | |- match ?a with _ => _ end = match ?b with _ => _ end => assert (Hr : a = b)
    end.
    { destruct o; try reflexivity. apply compute_with_gen_par_eq. intros cv. apply IH. }
    rewrite Hr.
    match goal with |- match ?b with _ => _ end = _ => destruct b as [[[v' c] ctr]| | |] end; try reflexivity.
    destruct c as [|p1| | |p1 g h]; try reflexivity.
    - destruct (usize_max <? pc v' + 1); [reflexivity|apply IH].
    - apply IH.
    - destruct ((u64_max <? spent + e_cost E o + g) || (limit <? spent + e_cost E o + g)); [reflexivity|].
      match goal with |- (if ?c then _ else _) = _ => destruct c end; [reflexivity|apply IH].
  Qed.

  (* run_program with the VM's Compute sections under the oracle *)
  Definition run_program_par (fuel : nat) (c : sol_ctx) (prog : list Z) (leaf : bool) (parents : list sm)
    : outcome unit prog_res :=
    match from_bytes prog with
    | Ok ops =>
        let st := concat (map fst parents) in
        let mem := concat (map snd parents) in
        if (4096 <? zlen st) || (10240 <? zlen mem) then Ok PFail
        else
          match exec_par fuel (env_for c) (op_at ops) u64_max
                  {| pc := 0; stack := rev st; memory := mem; parent_memory := []; halt := false; rstack := [] |} 0 [] with
          | Ok (v, g, _) =>
              let out := if leaf then
                           match rev (stack v) with
                           | [2] => OutLeaf (DataOutput (memory v))
                           | [1] => OutLeaf (Satisfied true)
                           | _ => OutLeaf (Satisfied false)
                           end
                         else OutParent (rev (stack v)) (memory v) in
              Ok (PRun out g)
          | Err _ => Ok PFail
          | Panic s => Panic s
          | OutOfFuel => OutOfFuel
          end
    | Err _ => Ok PFail
    | Panic s => Panic s
    | OutOfFuel => OutOfFuel
    end.

  Lemma run_program_par_eq fuel c prog leaf parents :
    run_program_par fuel c prog leaf parents = run_program fuel c prog leaf parents.
  Proof.
    unfold run_program_par, run_program, exec_ops.
    destruct (from_bytes prog) as [ops| | |]; try reflexivity.
    rewrite exec_par_eq. reflexivity.
  Qed.
End ExecPar.

(* ================= check_predicate_inner with the level section abstracted ================= *)
Section InnerWith.
  (* how the nodes of one level are executed against the caches of the start of the level *)
  Variable rl : list (nat * list nat) -> inner_state -> list nat -> outcome unit (list (nat * prog_res * list sm)).
  Variable p : predicate.
  Variable collect_all : bool.
  Variable is_def : nat -> bool.

  Fixpoint run_levels_with (pm : list (nat * list nat)) (deferred : list nat) (st : inner_state) (levels : list (list nat))
    : outcome unit (inner_state * bool) :=
    match levels with
    | [] => Ok (st, false)
    | level :: rest =>
        let* rs := rl pm st level in
        let (st', stop) := absorb p collect_all deferred (add_events st rs) rs in
        if stop then Ok (st', true) else run_levels_with pm deferred st' rest
    end.

  Definition check_predicate_inner_with (mode : run_mode) (cache : list (nat * sm)) : outcome unit inner_result :=
    match create_parent_map p with
    | Err (InvalidNodeEdges ix) => Ok {| ir_res := Err (PInvalidNodeEdges ix); ir_cache := cache; ir_events := [] |}
    | Panic s => Panic s | OutOfFuel => OutOfFuel
    | Ok pm =>
      match parallel_topo_sort p pm with
      | Err (InvalidNodeEdges ix) => Ok {| ir_res := Err (PInvalidNodeEdges ix); ir_cache := cache; ir_events := [] |}
      | Panic s => Panic s | OutOfFuel => OutOfFuel
      | Ok sorted =>
        let deferred := find_deferred p is_def in
        let levels := match mode with
                      | Outputs => remove_deferred sorted deferred
                      | Checks => remove_not_deferred sorted deferred
                      end in
        let st0 := {| is_cache := cache; is_local := []; is_failed := []; is_unsat := []; is_data := []; is_gas := 0%Z; is_events := [] |} in
        let* (st, _) := run_levels_with pm deferred st0 levels in
        let res := match is_failed st with
                   | _ :: _ => Err (PProgramErrors (is_failed st))
                   | [] => match is_unsat st with
                           | _ :: _ => Err (PConstraintsUnsatisfied (is_unsat st))
                           | [] => Ok (is_gas st, is_data st)
                           end
                   end in
        Ok {| ir_res := res; ir_cache := is_cache st; ir_events := rev (is_events st) |}
      end
    end.

  Variable run : nat -> bool -> list sm -> outcome unit prog_res.
  Hypothesis rl_eq : forall pm st level, rl pm st level = run_level run p pm st level.

  Lemma run_levels_with_eq pm deferred : forall levels st,
    run_levels_with pm deferred st levels = run_levels run p collect_all pm deferred st levels.
  Proof.
    induction levels as [|level rest IH]; intros st; cbn [run_levels_with run_levels]; [reflexivity|].
    rewrite rl_eq. destruct (run_level run p pm st level) as [rs| | |]; cbn [bind]; try reflexivity.
    destruct (absorb p collect_all deferred (add_events st rs) rs) as [st' stop].
    destruct stop; [reflexivity|apply IH].
  Qed.

  Lemma check_predicate_inner_with_eq mode cache :
    check_predicate_inner_with mode cache = check_predicate_inner run p collect_all is_def mode cache.
  Proof.
    unfold check_predicate_inner_with, check_predicate_inner.
    destruct (create_parent_map p) as [pm| | |]; try reflexivity.
    destruct (parallel_topo_sort p pm) as [sorted| | |]; try reflexivity.
    rewrite run_levels_with_eq. reflexivity.
  Qed.
End InnerWith.

(* ================= the set level with the solution section abstracted ================= *)
Section SetWith.
  (* how check_set_predicates is executed *)
  Variable csp : run_mode -> list solution -> view -> view -> list (list (nat * sm)) -> outcome unit set_result.

  Definition check_and_compute_with (mode : run_mode) (sols : list solution) (pre post : view)
             (caches : list (list (nat * sm))) : outcome unit compute_result :=
    let* r := csp mode sols pre post caches in
    match sr_res r with
    | Ok (gas, data) =>
        match decode_mutations_set data sols with
        | Ok sols' => Ok {| cr_res := Ok (gas, sols'); cr_caches := sr_caches r; cr_events := sr_events r |}
        | Err e => Ok {| cr_res := Err e; cr_caches := sr_caches r; cr_events := sr_events r |}
        | Panic s => Panic s
        | OutOfFuel => OutOfFuel
        end
    | Err e => Ok {| cr_res := Err e; cr_caches := sr_caches r; cr_events := sr_events r |}
    | Panic s => Panic s
    | OutOfFuel => OutOfFuel
    end.

  Definition two_pass_with (sols : list solution) (pre_state : state) : outcome unit two_pass_result :=
    let pre := state_view pre_state in
    let caches0 := map (fun _ => []) sols in
    let* r1 := check_and_compute_with Outputs sols pre (read_or_fallback [] pre) caches0 in
    match cr_res r1 with
    | Ok (gas1, sols1) =>
        let ps := build_post_state sols1 in
        let* r2 := check_and_compute_with Checks sols1 pre (read_or_fallback ps pre) (cr_caches r1) in
        match cr_res r2 with
        | Ok (gas2, sols2) =>
            Ok {| tp_res := Ok (sat_add_u64 gas1 gas2, sols2); tp_events1 := cr_events r1; tp_events2 := cr_events r2 |}
        | Err e => Ok {| tp_res := Err e; tp_events1 := cr_events r1; tp_events2 := cr_events r2 |}
        | Panic s => Panic s
        | OutOfFuel => OutOfFuel
        end
    | Err e => Ok {| tp_res := Err e; tp_events1 := cr_events r1; tp_events2 := [] |}
    | Panic s => Panic s
    | OutOfFuel => OutOfFuel
    end.

  Variables (fuel : nat) (lk : lookup) (collect_all : bool).
  Hypothesis csp_eq : forall mode sols pre post caches,
    csp mode sols pre post caches = check_set_predicates fuel lk collect_all mode sols pre post caches.

  Lemma check_and_compute_with_eq mode sols pre post caches :
    check_and_compute_with mode sols pre post caches = check_and_compute fuel lk collect_all mode sols pre post caches.
  Proof. unfold check_and_compute_with, check_and_compute. rewrite csp_eq. reflexivity. Qed.

  Lemma two_pass_with_eq sols pre_state :
    two_pass_with sols pre_state = two_pass fuel lk collect_all sols pre_state.
  Proof.
    unfold two_pass_with, two_pass. rewrite check_and_compute_with_eq.
    destruct (check_and_compute fuel lk collect_all Outputs sols (state_view pre_state)
                (read_or_fallback [] (state_view pre_state)) (map (fun _ => []) sols)) as [r1| | |]; cbn [bind]; try reflexivity.
    destruct (cr_res r1) as [[gas1 sols1]| | |]; try reflexivity.
    rewrite check_and_compute_with_eq. reflexivity.
  Qed.
End SetWith.

Lemma run_level_ext (run1 run2 : nat -> bool -> list sm -> outcome unit prog_res) p pm st :
  (forall ix leaf ins, run1 ix leaf ins = run2 ix leaf ins) ->
  forall level, run_level run1 p pm st level = run_level run2 p pm st level.
Proof.
  intros He. induction level as [|ix r IH]; cbn [run_level]; [reflexivity|].
  rewrite IH, He. reflexivity.
Qed.

(* ================= everything under schedule oracles ================= *)
Section Oracles.
  (* one oracle per kind of section; each may inspect everything its section can depend on *)
  Variable ssch : run_mode -> list solution -> list nat.                                  (* solutions *)
  Variable nsch : sol_ctx -> list (nat * list nat) -> inner_state -> list nat -> list nat. (* nodes of a level *)
  Variable csch : vm -> Z -> list nat.                                                    (* Compute children *)

  Definition oracles_complete : Prop :=
    (forall mode sols, complete (length sols) (ssch mode sols)) /\
    (forall c pm st level, complete (length level) (nsch c pm st level)) /\
    (forall v b, complete (Z.to_nat b) (csch v b)).

  Variables (fuel : nat) (lk : lookup) (collect_all : bool).

  Definition check_predicate_par (mode : run_mode) (c : sol_ctx) (cache : list (nat * sm)) : outcome unit inner_result :=
    let sol := nth (sc_index c) (sc_solutions c) empty_solution in
    let p := lk_predicate lk (sol_contract sol) (sol_predicate sol) in
    let run := fun ix leaf ins => run_program_par csch fuel c (node_program lk p ix) leaf ins in
    check_predicate_inner_with (fun pm st level => run_level_par run p pm st level (nsch c pm st level))
                               p collect_all (node_is_deferred lk p) mode cache.

  Definition check_set_predicates_par_all (mode : run_mode) (sols : list solution) (pre post : view)
             (caches : list (list (nat * sm))) : outcome unit set_result :=
    match collect (run_par (fun i => check_predicate_par mode
                                       {| sc_solutions := sols; sc_index := i; sc_pre := pre; sc_post := post |}
                                       (nth i caches []))
                           (length sols) (ssch mode sols)) with
    | Some outs => let* rs := seq_outcomes outs in set_post sols caches rs
    | None => Panic "parallel section not finished"
    end.

  Definition check_and_compute_par := check_and_compute_with check_set_predicates_par_all.
  Definition two_pass_par := two_pass_with check_set_predicates_par_all.

  Hypothesis Hor : oracles_complete.

  Lemma check_predicate_par_eq mode c cache :
    check_predicate_par mode c cache = check_predicate fuel lk collect_all mode c cache.
  Proof.
    destruct Hor as (_ & Hn & Hc).
    unfold check_predicate_par, check_predicate.
    set (p := lk_predicate lk _ _).
    apply check_predicate_inner_with_eq.
    intros pm st level. rewrite run_level_par_eq by apply Hn.
    apply run_level_ext. intros ix leaf ins. apply run_program_par_eq. exact Hc.
  Qed.

  Theorem check_set_predicates_par_all_eq mode sols pre post caches :
    check_set_predicates_par_all mode sols pre post caches =
    check_set_predicates fuel lk collect_all mode sols pre post caches.
  Proof.
    destruct Hor as (Hs & _ & _).
    unfold check_set_predicates_par_all.
    rewrite (run_par_ext _ (sol_task fuel lk collect_all mode sols pre post caches))
      by (intros i; apply check_predicate_par_eq).
    exact (check_set_predicates_schedule_independent fuel lk collect_all mode sols pre post caches _ (Hs mode sols)).
  Qed.

  Theorem check_and_compute_par_eq mode sols pre post caches :
    check_and_compute_par mode sols pre post caches = check_and_compute fuel lk collect_all mode sols pre post caches.
  Proof. apply check_and_compute_with_eq. apply check_set_predicates_par_all_eq. Qed.

  Theorem two_pass_par_eq sols pre_state :
    two_pass_par sols pre_state = two_pass fuel lk collect_all sols pre_state.
  Proof. apply two_pass_with_eq. apply check_set_predicates_par_all_eq. Qed.
End Oracles.
