(* The commutativity law of the specification carried over to the code-shaped model through the
   refinement theorem: exchanging the two operands of a commutative operation gives the very same
   machine state (or no result at all in both cases). *)
From Coq Require Import ZArith List Bool.
From EB Require Import Vm.Exec Spec.Ops Proofs.OpsRefine Proofs.OpsRefine3 Proofs.OpsRefineAll Proofs.OpsAlgebra.
Import ListNotations.
Open Scope list_scope.
Open Scope Z_scope.

Lemma commutative_is_data o : commutative_op o = true -> is_data_op o = true /\ well_formed_op o.
Proof. destruct o; cbn; try discriminate; intros _; split; (reflexivity || exact I). Qed.

Lemma zlen_swap2 (a b : Z) s : zlen (b :: a :: s) = zlen (a :: b :: s).
Proof. reflexivity. Qed.

Lemma step_commutative E o a b s v v' c :
  commutative_op o = true -> zlen (a :: b :: s) <= 4096 -> zlen (memory v) <= 10240 ->
  step_basic E o (set_stack v (a :: b :: s)) = Ok (v', c) ->
  step_basic E o (set_stack v (b :: a :: s)) = Ok (v', c).
Proof.
  intros Hc Hs Hm H. destruct (commutative_is_data o Hc) as [Hd Hw].
  apply (data_op_refines_spec E o (set_stack v (a :: b :: s)) v' c Hd Hw Hs Hm) in H.
  apply (data_op_refines_spec E o (set_stack v (b :: a :: s)) v' c Hd Hw); [exact Hs | exact Hm |].
  cbn [set_stack stack memory parent_memory pc halt rstack] in *.
  rewrite <- (commutative_op_spec o a b s _ _ Hc). exact H.
Qed.
