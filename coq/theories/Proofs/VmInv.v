(* C05 - invariant of the VM model (resource bounds, word ranges) and its preservation by the
   stack / memory primitives.  Step-level results are in VmInvStep.v, exec-level in VmInvExec.v. *)
From Coq Require Import ZArith List Lia Bool.
From EB Require Import Vm.Machine Vm.Step Vm.Exec.
From EB Require Export Spec.VmInvariant.
Open Scope list_scope.
Open Scope Z_scope.

(* ---------- constants ---------- *)
Lemma ssl_eq : stack_size_limit = 4096. Proof. reflexivity. Qed.
Lemma msl_eq : memory_size_limit = 10240. Proof. reflexivity. Qed.
Lemma mcd_eq : max_compute_depth = 1. Proof. reflexivity. Qed.
Lemma biw_eq : bits_in_word = 64. Proof. reflexivity. Qed.
Lemma i64_max_eq : i64_max = 9223372036854775807. Proof. reflexivity. Qed.
Lemma i64_min_eq : i64_min = -9223372036854775808. Proof. reflexivity. Qed.
Lemma usize_max_eq : usize_max = 18446744073709551615. Proof. reflexivity. Qed.
Lemma u64_max_eq : u64_max = 18446744073709551615. Proof. reflexivity. Qed.

Lemma i64_iff z : i64 z <-> -9223372036854775808 <= z <= 9223372036854775807.
Proof. unfold i64. rewrite i64_min_eq, i64_max_eq. tauto. Qed.

Ltac consts :=
  rewrite ?ssl_eq, ?msl_eq, ?mcd_eq, ?biw_eq, ?i64_max_eq, ?i64_min_eq, ?usize_max_eq, ?u64_max_eq in *.

(* ---------- generic list facts ---------- *)
Lemma zlen_nil {A} : zlen (@nil A) = 0. Proof. reflexivity. Qed.
Lemma zlen_cons {A} (x : A) l : zlen (x :: l) = zlen l + 1.
Proof. unfold zlen. cbn [length]. lia. Qed.
Lemma zlen_app {A} (a b : list A) : zlen (a ++ b) = zlen a + zlen b.
Proof. unfold zlen. rewrite app_length. lia. Qed.
Lemma zlen_nonneg {A} (l : list A) : 0 <= zlen l.
Proof. unfold zlen. lia. Qed.
Lemma zlen_repeat {A} (x : A) n : zlen (repeat x n) = Z.of_nat n.
Proof. unfold zlen. rewrite repeat_length. reflexivity. Qed.
Lemma zlen_rev {A} (l : list A) : zlen (rev l) = zlen l.
Proof. unfold zlen. rewrite rev_length. reflexivity. Qed.
Lemma zlen_firstn_le {A} n (l : list A) : zlen (firstn n l) <= zlen l.
Proof. unfold zlen. rewrite firstn_length. lia. Qed.
Lemma zlen_skipn_le {A} n (l : list A) : zlen (skipn n l) <= zlen l.
Proof. unfold zlen. rewrite skipn_length. lia. Qed.
Lemma zlen_skipn {A} n (l : list A) : (n <= length l)%nat -> zlen (skipn n l) = zlen l - Z.of_nat n.
Proof. unfold zlen. rewrite skipn_length. lia. Qed.

Lemma Forall_firstn {A} (P : A -> Prop) n l : Forall P l -> Forall P (firstn n l).
Proof.
  revert l; induction n as [|n IH]; intros l H; [constructor|].
  destruct l as [|x l]; [constructor|]. inversion H; subst. cbn [firstn]. constructor; auto.
Qed.
Lemma Forall_skipn {A} (P : A -> Prop) n l : Forall P l -> Forall P (skipn n l).
Proof.
  revert l; induction n as [|n IH]; intros l H; [exact H|].
  destruct l as [|x l]; [constructor|]. inversion H; subst. cbn [skipn]. auto.
Qed.
Lemma Forall_repeat {A} (P : A -> Prop) x n : P x -> Forall P (repeat x n).
Proof. intros H. induction n; cbn [repeat]; constructor; auto. Qed.
Lemma Forall_nth_error {A} (P : A -> Prop) l n x : Forall P l -> nth_error l n = Some x -> P x.
Proof. intros H E. rewrite Forall_forall in H. apply H. eapply nth_error_In; eauto. Qed.
Lemma Forall_nth {A} (P : A -> Prop) l n d : Forall P l -> P d -> P (nth n l d).
Proof.
  intros H Hd. destruct (Nat.lt_ge_cases n (length l)) as [L|L].
  - rewrite Forall_forall in H. apply H. apply nth_In. exact L.
  - rewrite nth_overflow by exact L. exact Hd.
Qed.

Lemma set_nth_length {A} n (x : A) l : length (set_nth n x l) = length l.
Proof.
  revert n; induction l as [|y l IH]; intros n; [destruct n; reflexivity|].
  destruct n; cbn [set_nth length]; auto.
Qed.
Lemma Forall_set_nth {A} (P : A -> Prop) n x l : P x -> Forall P l -> Forall P (set_nth n x l).
Proof.
  intros Hx. revert n; induction l as [|y l IH]; intros n H; [destruct n; constructor|].
  inversion H; subst. destruct n; cbn [set_nth]; constructor; auto.
Qed.

Lemma zero_i64 : i64 0. Proof. apply i64_iff. lia. Qed.
Lemma one_i64 : i64 1. Proof. apply i64_iff. lia. Qed.
Lemma word_of_bool_i64 b : i64 (word_of_bool b).
Proof. destruct b; [apply one_i64|apply zero_i64]. Qed.
Lemma small_i64 z : 0 <= z <= 10240 -> i64 z.
Proof. intros H. apply i64_iff. lia. Qed.
Lemma byte_i64 z : byte z -> i64 z.
Proof. unfold byte. intros H. apply i64_iff. lia. Qed.

Lemma words_of_bytes_i64 n bs : Forall i64 (words_of_bytes n bs).
Proof.
  revert bs; induction n as [|n IH]; intros bs; cbn [words_of_bytes]; [constructor|].
  destruct bs; [constructor|]. constructor; [apply word_of_bytes_i64|apply IH].
Qed.
Lemma words4_i64 bs : Forall i64 (words4 bs).
Proof. apply words_of_bytes_i64. Qed.

(* ---------- stack_ok / mem_ok closure ---------- *)
Lemma stack_ok_nil : stack_ok []. Proof. split; [cbn; lia|constructor]. Qed.
Lemma stack_ok_cons_inv w s : stack_ok (w :: s) -> i64 w /\ stack_ok s /\ zlen s <= 4095.
Proof.
  intros [L F]. rewrite zlen_cons in L. inversion F; subst.
  split; [assumption|split; [split; [lia|assumption]|lia]].
Qed.
Lemma stack_ok_sub s s' : stack_ok s -> zlen s' <= zlen s -> Forall i64 s' -> stack_ok s'.
Proof. intros [L F] L' F'. split; [lia|exact F']. Qed.
Lemma stack_ok_skipn n s : stack_ok s -> stack_ok (skipn n s).
Proof. intros H. apply (stack_ok_sub s _ H); [apply zlen_skipn_le|apply Forall_skipn, H]. Qed.
Lemma stack_ok_firstn n s : stack_ok s -> stack_ok (firstn n s).
Proof. intros H. apply (stack_ok_sub s _ H); [apply zlen_firstn_le|apply Forall_firstn, H]. Qed.

(* ---------- outcome helpers ---------- *)
Lemma np_ok {E A} (a : A) : no_panic (@Ok E A a). Proof. intros s; discriminate. Qed.
Lemma np_err {E A} (e : E) : no_panic (@Err E A e). Proof. intros s; discriminate. Qed.
Lemma np_fuel {E A} : no_panic (@OutOfFuel E A). Proof. intros s; discriminate. Qed.
Lemma np_of_option {E A} (e : E) (x : option A) : no_panic (of_option e x).
Proof. destruct x; intros s; discriminate. Qed.
Lemma np_map_err {E F A} (f : E -> F) (x : outcome E A) : no_panic x -> no_panic (map_err f x).
Proof. intros H s. destruct x; cbn; try discriminate. intros [= ->]. exact (H s eq_refl). Qed.
Lemma map_err_ok {E F A} (f : E -> F) (x : outcome E A) a : map_err f x = Ok a -> x = Ok a.
Proof. destruct x; cbn; congruence. Qed.
Lemma of_option_ok {E A} (e : E) (x : option A) a : of_option e x = Ok a -> x = Some a.
Proof. destruct x; cbn; congruence. Qed.

(* ---------- stack primitives ---------- *)
Lemma push_ok w s s' : push w s = Ok s' -> s' = w :: s /\ zlen s < 4096.
Proof.
  unfold push. rewrite ssl_eq. destruct (Z.leb_spec 4096 (zlen s)); [discriminate|].
  intros [= <-]. split; [reflexivity|lia].
Qed.
Lemma push_stack_ok w s s' : stack_ok s -> i64 w -> push w s = Ok s' -> stack_ok s'.
Proof.
  intros [L F] Hw H. apply push_ok in H as [-> L']. split; [rewrite zlen_cons; lia|constructor; auto].
Qed.
Lemma push_np w s : no_panic (push w s).
Proof. unfold push. destruct (_ <=? _); [apply np_err|apply np_ok]. Qed.
Lemma push_succeeds w s : zlen s < 4096 -> push w s = Ok (w :: s).
Proof. intros H. unfold push. rewrite ssl_eq. destruct (Z.leb_spec 4096 (zlen s)); [lia|reflexivity]. Qed.

Lemma pop_ok s w s' : pop s = Ok (w, s') -> s = w :: s'.
Proof. destruct s; cbn; [discriminate|]. intros [= -> ->]. reflexivity. Qed.
Lemma pop_np s : no_panic (pop s).
Proof. destruct s; [apply np_err|apply np_ok]. Qed.
Lemma pop2_ok s w0 w1 s0 : pop2 s = Ok (w0, w1, s0) -> s = w1 :: w0 :: s0.
Proof.
  destruct s as [|a [|b s]]; cbn; try discriminate. intros [= -> -> ->]. reflexivity.
Qed.
Lemma pop2_np s : no_panic (pop2 s).
Proof. destruct s as [|a [|b s]]; cbn; first [apply np_err|apply np_ok]. Qed.
Lemma acc_pop_ok s w s' : acc_pop s = Ok (w, s') -> s = w :: s'.
Proof. unfold acc_pop. intros H. apply map_err_ok in H. apply pop_ok; exact H. Qed.
Lemma acc_pop_np s : no_panic (acc_pop s).
Proof. apply np_map_err, pop_np. Qed.

Lemma extend_stack_ok ws : forall s s', stack_ok s -> Forall i64 ws -> extend ws s = Ok s' -> stack_ok s'.
Proof.
  induction ws as [|w ws IH]; intros s s' Hs Hw H; cbn [extend] in H.
  - injection H as <-. exact Hs.
  - apply bind_ok in H as (s1 & H1 & H2). inversion Hw; subst.
    apply (IH s1 s'); auto. eapply push_stack_ok; eauto.
Qed.
Lemma extend_np ws : forall s, no_panic (extend ws s).
Proof.
  induction ws as [|w ws IH]; intros s; cbn [extend]; [apply np_ok|].
  apply bind_no_panic; [apply push_np|intros a _; apply IH].
Qed.

Lemma popn_ok n s ws rest : stack_ok s -> popn n s = Ok (ws, rest) -> Forall i64 ws /\ stack_ok rest.
Proof.
  intros Hs. unfold popn. destruct (_ <? _)%nat; [discriminate|]. intros [= <- <-].
  split; [apply Forall_rev, Forall_firstn, Hs|apply stack_ok_skipn, Hs].
Qed.
Lemma popn_np n s : no_panic (popn n s).
Proof. unfold popn. destruct (_ <? _)%nat; [apply np_err|apply np_ok]. Qed.

Lemma split_len_ok len s ws rest :
  stack_ok s -> split_len len s = Some (ws, rest) -> Forall i64 ws /\ stack_ok rest /\ zlen ws <= zlen s.
Proof.
  intros Hs. unfold split_len. destruct (_ <? _); [discriminate|]. intros [= <- <-].
  split; [apply Forall_rev, Forall_firstn, Hs|split; [apply stack_ok_skipn, Hs|]].
  rewrite zlen_rev. apply zlen_firstn_le.
Qed.
Lemma split_len_words_ok s ws rest :
  stack_ok s -> split_len_words s = Ok (ws, rest) -> Forall i64 ws /\ stack_ok rest /\ zlen ws <= 4096.
Proof.
  intros Hs. unfold split_len_words. destruct s as [|l r]; [discriminate|].
  destruct (usize_of l); [|discriminate]. intros H. apply of_option_ok in H.
  apply stack_ok_cons_inv in Hs as (_ & Hr & L). destruct (split_len_ok _ _ _ _ Hr H) as (A & B & C).
  repeat split; try apply B; auto. lia.
Qed.
Lemma split_len_words_np s : no_panic (split_len_words s).
Proof.
  unfold split_len_words. destruct s; [apply np_err|]. destruct (usize_of z); [apply np_of_option|apply np_err].
Qed.

Lemma from_bottom_i64 s i w : Forall i64 s -> from_bottom s i = Some w -> i64 w.
Proof.
  intros F. unfold from_bottom. destruct (_ || _); [discriminate|]. apply Forall_nth_error; exact F.
Qed.

Lemma set_nth_stack_ok n w s : stack_ok s -> i64 w -> stack_ok (set_nth n w s).
Proof.
  intros [L F] Hw. split; [unfold zlen in *; rewrite set_nth_length; exact L|apply Forall_set_nth; auto].
Qed.

(* ---------- memory primitives ---------- *)
Lemma mem_alloc_ok n m m' : mem_ok m -> mem_alloc n m = Ok m' -> mem_ok m' /\ 0 <= n /\ zlen m' = zlen m + n /\ m' = m ++ repeat 0 (Z.to_nat n).
Proof.
  intros [L F]. unfold mem_alloc. rewrite msl_eq.
  destruct (Z.ltb_spec n 0); [discriminate|]. destruct (Z.ltb_spec 10240 (zlen m + n)); [discriminate|].
  intros [= <-]. assert (Hl : zlen (m ++ repeat 0 (Z.to_nat n)) = zlen m + n).
  { rewrite zlen_app, zlen_repeat. lia. }
  repeat split; auto; try lia.
  apply Forall_app. split; [exact F|apply Forall_repeat, zero_i64].
Qed.
Lemma mem_alloc_np n m : no_panic (mem_alloc n m).
Proof. unfold mem_alloc. destruct (_ <? _); [apply np_err|]. destruct (_ <? _); [apply np_err|apply np_ok]. Qed.

Lemma mem_load_i64 a m w : Forall i64 m -> mem_load a m = Ok w -> i64 w.
Proof.
  intros F. unfold mem_load. destruct (_ || _); [discriminate|]. intros H. apply of_option_ok in H.
  eapply Forall_nth_error; eauto.
Qed.
Lemma mem_load_np a m : no_panic (mem_load a m).
Proof. unfold mem_load. destruct (_ || _); [apply np_err|apply np_of_option]. Qed.

Lemma mem_store_ok a w m m' : mem_ok m -> i64 w -> mem_store a w m = Ok m' -> mem_ok m'.
Proof.
  intros [L F] Hw. unfold mem_store. destruct (_ || _); [discriminate|]. intros [= <-].
  split; [unfold zlen in *; rewrite set_nth_length; exact L|apply Forall_set_nth; auto].
Qed.
Lemma mem_store_np a w m : no_panic (mem_store a w m).
Proof. unfold mem_store. destruct (_ || _); [apply np_err|apply np_ok]. Qed.

Lemma splice_length a ws m : (a + length ws <= length m)%nat -> length (splice a ws m) = length m.
Proof. intros H. unfold splice. rewrite !app_length, firstn_length, skipn_length. lia. Qed.
Lemma splice_Forall (P : Z -> Prop) a ws m : Forall P ws -> Forall P m -> Forall P (splice a ws m).
Proof.
  intros Hw Hm. unfold splice. apply Forall_app; split; [apply Forall_firstn, Hm|].
  apply Forall_app; split; [exact Hw|apply Forall_skipn, Hm].
Qed.

Lemma mem_store_range_ok a ws m m' :
  mem_store_range a ws m = Ok m' ->
  0 <= a /\ a + zlen ws <= zlen m /\ zlen m' = zlen m /\ m' = splice (Z.to_nat a) ws m.
Proof.
  unfold mem_store_range. destruct (Z.ltb_spec a 0); [discriminate|].
  destruct (Z.ltb_spec (zlen m) (a + zlen ws)); [discriminate|]. intros [= <-].
  repeat split; auto. unfold zlen in *. rewrite splice_length; lia.
Qed.
Lemma mem_store_range_i64 a ws m m' :
  Forall i64 ws -> Forall i64 m -> mem_store_range a ws m = Ok m' -> Forall i64 m'.
Proof.
  intros Hw Hm H. apply mem_store_range_ok in H as (_ & _ & _ & ->). apply splice_Forall; auto.
Qed.
Lemma mem_store_range_succeeds a ws m :
  0 <= a -> a + zlen ws <= zlen m -> mem_store_range a ws m = Ok (splice (Z.to_nat a) ws m).
Proof.
  intros H1 H2. unfold mem_store_range. destruct (Z.ltb_spec a 0); [lia|].
  destruct (Z.ltb_spec (zlen m) (a + zlen ws)); [lia|reflexivity].
Qed.
Lemma mem_store_range_np a ws m : no_panic (mem_store_range a ws m).
Proof. unfold mem_store_range. destruct (_ <? _); [apply np_err|]. destruct (_ <? _); [apply np_err|apply np_ok]. Qed.

Lemma mem_load_range_i64 a n m ws : Forall i64 m -> mem_load_range a n m = Ok ws -> Forall i64 ws.
Proof.
  intros F. unfold mem_load_range. destruct (_ <? _); [discriminate|]. destruct (_ <? _); [discriminate|].
  destruct (_ <? _); [discriminate|]. intros [= <-]. apply Forall_firstn, Forall_skipn, F.
Qed.
Lemma mem_load_range_np a n m : no_panic (mem_load_range a n m).
Proof.
  unfold mem_load_range. destruct (_ <? _); [apply np_err|]. destruct (_ <? _); [apply np_err|].
  destruct (_ <? _); [apply np_err|apply np_ok].
Qed.

Lemma mem_free_ok n m m' : mem_ok m -> mem_free n m = Ok m' -> mem_ok m'.
Proof.
  intros [L F]. unfold mem_free. destruct (_ || _); [discriminate|]. intros [= <-].
  split; [pose proof (zlen_firstn_le (Z.to_nat n) m); lia|apply Forall_firstn, F].
Qed.
Lemma mem_free_np n m : no_panic (mem_free n m).
Proof. unfold mem_free. destruct (_ || _); [apply np_err|apply np_ok]. Qed.

(* ---------- word arithmetic ---------- *)
Lemma i64_div63 z : i64 z <-> (z / two63 = 0 \/ z / two63 = -1).
Proof.
  rewrite i64_iff. unfold two63.
  pose proof (Z.div_mod z 9223372036854775808 ltac:(lia)) as D.
  pose proof (Z.mod_pos_bound z 9223372036854775808 ltac:(lia)) as B.
  split; intros H; lia.
Qed.

Lemma shiftr63 z : Z.shiftr z 63 = z / two63.
Proof. rewrite Z.shiftr_div_pow2 by lia. reflexivity. Qed.

Lemma land_i64 a b : i64 a -> i64 b -> i64 (Z.land a b).
Proof.
  rewrite !i64_div63, <- !shiftr63, Z.shiftr_land.
  intros [-> | ->] [-> | ->]; cbn; auto.
Qed.
Lemma lor_i64 a b : i64 a -> i64 b -> i64 (Z.lor a b).
Proof.
  rewrite !i64_div63, <- !shiftr63, Z.shiftr_lor.
  intros [-> | ->] [-> | ->]; cbn; auto.
Qed.

Lemma shr_i64 a b : i64 a -> 0 <= b -> i64 (a / 2 ^ b).
Proof.
  rewrite !i64_iff. intros Ha Hb.
  assert (P : 0 < 2 ^ b) by (apply Z.pow_pos_nonneg; lia).
  split.
  - apply Z.div_le_lower_bound; [exact P|]. nia.
  - destruct (Z_lt_le_dec a 0) as [N|N].
    + assert (a / 2 ^ b < 0) by (apply Z.div_lt_upper_bound; lia). lia.
    + assert (a / 2 ^ b <= a) by (apply Z.div_le_upper_bound; [exact P|nia]). lia.
Qed.

Lemma rem_i64 a b : i64 b -> b <> 0 -> i64 (Z.rem a b).
Proof.
  rewrite !i64_iff. intros Hb Nz. pose proof (Z.rem_bound_abs a b Nz). lia.
Qed.

Lemma chk_i64 z r : chk z = Some r -> i64 r.
Proof. intros H. apply chk_some in H as [H ->]. exact H. Qed.
