(* C08, part 3: EqSet, and a declarative reading of the block parser of the specification. *)
From Coq Require Import ZArith List Lia Bool.
From EB Require Import Vm.Step Spec.Ops Proofs.OpsRefine.
Import ListNotations.
Open Scope list_scope.
Open Scope Z_scope.

Ltac brk :=
  match goal with
  | |- context [Z.ltb ?a ?b] => destruct (Z.ltb_spec a b)
  | |- context [Z.leb ?a ?b] => destruct (Z.leb_spec a b)
  | |- context [Z.eqb ?a ?b] => destruct (Z.eqb_spec a b)
  end.
Ltac red1 := cbn [refines bind of_option andb orb negb lift_s length b2z word_of_bool].
Ltac fin := red1; try solve [reflexivity | eexists; reflexivity | lia | exfalso; lia].

(* ---------- the model's decoder against the specification's parser ---------- *)
Lemma decode_go_spec : forall fuel blk acc, (length blk <= fuel)%nat ->
  match elems_of_block fuel blk with
  | Some es => decode_set_go fuel blk acc = Ok (rev (map (@rev Z) es) ++ acc)
  | None => exists e, decode_set_go fuel blk acc = Err e
  end.
Proof.
  induction fuel as [|f IH]; intros [|l rest] acc Hlen; cbn [length] in Hlen; try lia;
    cbn [elems_of_block decode_set_go]; try reflexivity.
  unfold usize_of, len, zlen.
  repeat brk; fin.
  cbn [andb].
  assert (Hl : (length (skipn (Z.to_nat l) rest) <= f)%nat) by (rewrite skipn_length; lia).
  specialize (IH (skipn (Z.to_nat l) rest) (rev (firstn (Z.to_nat l) rest) :: acc) Hl).
  destruct (elems_of_block f (skipn (Z.to_nat l) rest)) as [es|].
  - rewrite IH. cbn [map rev]. rewrite <- app_assoc. reflexivity.
  - exact IH.
Qed.

Lemma decode_set_spec blk :
  match block_elems blk with
  | Some es => decode_set (rev blk) = Ok (rev (map (@rev Z) es))
  | None => exists e, decode_set (rev blk) = Err e
  end.
Proof.
  unfold block_elems, decode_set. rewrite rev_involutive, rev_length.
  generalize (decode_go_spec (length blk) blk [] (le_n _)).
  destruct (elems_of_block (length blk) blk); [rewrite app_nil_r|]; exact (fun H => H).
Qed.

(* ---------- set equality ---------- *)
Lemma mem_list_in x l : mem_list x l = true <-> In x l.
Proof. unfold mem_list. destruct (in_dec zlist_eq_dec x l); split; intros; try discriminate; auto; contradiction. Qed.
Lemma subsetb_incl a b : subsetb a b = true <-> incl a b.
Proof. unfold subsetb, incl. rewrite forallb_forall. split; intros H x Hx; apply mem_list_in, H, Hx. Qed.
Lemma set_eqb_incl a b : set_eqb a b = true <-> incl a b /\ incl b a.
Proof. unfold set_eqb. rewrite andb_true_iff, !subsetb_incl. tauto. Qed.

Lemma same_words_eq a b : same_words a b = true <-> a = b.
Proof. unfold same_words. destruct (list_eq_dec Z.eq_dec a b); split; intros; try discriminate; auto; contradiction. Qed.
Lemma subset_of_incl a b : subset_of a b = true <-> incl a b.
Proof.
  unfold subset_of, incl. rewrite forallb_forall. split; intros H x Hx.
  - apply H in Hx. apply existsb_exists in Hx. destruct Hx as [y [Hy E]]. apply same_words_eq in E. subst y. exact Hy.
  - apply existsb_exists. exists x. split; [apply H, Hx | apply same_words_eq; reflexivity].
Qed.
Lemma same_set_incl a b : same_set a b = true <-> incl a b /\ incl b a.
Proof. unfold same_set. rewrite andb_true_iff, !subset_of_incl. tauto. Qed.

Lemma in_rev_map_rev (x : list Z) l : In x (rev (map (@rev Z) l)) <-> In (rev x) l.
Proof.
  rewrite <- in_rev, in_map_iff. split.
  - intros [y [E Hy]]. subst x. rewrite rev_involutive. exact Hy.
  - intros H. exists (rev x). split; [apply rev_involutive | exact H].
Qed.
Lemma incl_rev_map_rev a b : incl (rev (map (@rev Z) a)) (rev (map (@rev Z) b)) <-> incl a b.
Proof.
  unfold incl. split; intros H x Hx.
  - specialize (H (rev x)). rewrite !in_rev_map_rev, rev_involutive in H. exact (H Hx).
  - apply in_rev_map_rev, H, in_rev_map_rev, Hx.
Qed.

Lemma set_eqb_same_set l r : set_eqb (rev (map (@rev Z) l)) (rev (map (@rev Z) r)) = same_set l r.
Proof.
  apply eq_true_iff_eq. rewrite set_eqb_incl, same_set_incl, !incl_rev_map_rev. tauto.
Qed.

(* the specification's set comparison is set equality of the element lists *)
Lemma same_set_spec a b : same_set a b = true <-> (forall x, In x a <-> In x b).
Proof.
  rewrite same_set_incl. unfold incl. split.
  - intros [H1 H2] x. split; auto.
  - intros H. split; intros x; apply H.
Qed.

(* ---------- EqSet ---------- *)
Lemma r_eq_set s m pm : zlen s <= 4096 -> refines (data_step OEqSet s m pm) (op_spec OEqSet s m pm).
Proof.
  intros Hs. cbn [data_step op_spec step_pred]. unfold op_eq_set.
  destruct s as [|rn s1]; fin.
  unfold split_len_words at 1. unfold usize_of, split_len, len, zlen in *. cbn [length] in Hs.
  repeat brk; fin. red1.
  destruct (skipn (Z.to_nat rn) s1) as [|ln s2] eqn:Hsk; fin.
  assert (Hlen : (S (length s2) <= length s1)%nat).
  { apply (f_equal (@length Z)) in Hsk. rewrite skipn_length in Hsk. cbn [length] in Hsk. lia. }
  unfold split_len_words, usize_of, split_len, zlen.
  repeat brk; fin. red1.
  pose proof (decode_set_spec (firstn (Z.to_nat ln) s2)) as HL.
  pose proof (decode_set_spec (firstn (Z.to_nat rn) s1)) as HR.
  destruct (block_elems (firstn (Z.to_nat ln) s2)) as [l|].
  - rewrite HL. red1.
    destruct (block_elems (firstn (Z.to_nat rn) s1)) as [r|].
    + rewrite HR. red1. rewrite push_ok by (unfold zlen; rewrite skipn_length; lia).
      rewrite set_eqb_same_set. fin.
    + destruct HR as [e ->]. fin.
  - destruct HL as [e ->]. fin.
Qed.

(* ---------- declarative reading of the parser: a block is the concatenation of [len; words...] ---------- *)
Definition block_of (es : list (list Z)) : list Z := flat_map (fun e => len e :: e) es.

Lemma elems_of_block_sound : forall fuel blk es, elems_of_block fuel blk = Some es -> blk = block_of es.
Proof.
  induction fuel as [|f IH]; intros [|l rest] es; cbn [elems_of_block]; try discriminate.
  - intros [= <-]. reflexivity.
  - intros [= <-]. reflexivity.
  - unfold len. destruct (Z.leb_spec 0 l); [|discriminate]. destruct (Z.leb_spec l (Z.of_nat (length rest))); [|discriminate].
    cbn [andb]. destruct (elems_of_block f (skipn (Z.to_nat l) rest)) as [es'|] eqn:E; [|discriminate].
    intros [= <-]. apply IH in E. cbn [block_of flat_map]. fold (block_of es'). rewrite <- E.
    unfold len. rewrite firstn_length. replace (Z.of_nat (Nat.min (Z.to_nat l) (length rest))) with l by lia.
    cbn [app]. rewrite firstn_skipn. reflexivity.
Qed.

Lemma elems_of_block_complete : forall es fuel, (length (block_of es) <= fuel)%nat ->
  elems_of_block fuel (block_of es) = Some es.
Proof.
  induction es as [|e es IH]; intros fuel Hf.
  - destruct fuel; reflexivity.
  - cbn [block_of flat_map] in *. fold (block_of es) in *. cbn [app length] in Hf. rewrite app_length in Hf.
    destruct fuel as [|f]; [lia|]. cbn [app elems_of_block]. unfold len. rewrite app_length.
    destruct (Z.leb_spec 0 (Z.of_nat (length e))); [|lia].
    destruct (Z.leb_spec (Z.of_nat (length e)) (Z.of_nat (length e + length (block_of es)))); [|lia].
    cbn [andb]. rewrite Nat2Z.id.
    rewrite (skipn_app_exact e (block_of es) (length e) eq_refl), (firstn_app_exact e (block_of es) (length e) eq_refl).
    rewrite IH by lia. reflexivity.
Qed.

Lemma block_elems_iff blk es : block_elems blk = Some es <-> blk = block_of es.
Proof.
  unfold block_elems. split.
  - apply elems_of_block_sound.
  - intros ->. apply elems_of_block_complete. apply le_n.
Qed.
