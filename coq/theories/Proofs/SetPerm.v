(* C04, two-pass part: the two-pass check does not depend on the order of the solutions of the set.
   The reordering is explicit: `rename perm sols` puts solution `nth i perm` of `sols` at position `i`.
   1. exec depends on the environment only through this_solution, the oracles, the views (pointwise) and the
      solution list as a set;
   2. the per-solution check does not depend on the position of the solution, nor on the order of the others;
   3.-5. check_set_predicates / decode_mutations_set / check_and_compute / two_pass commute with the renaming. *)
From Coq Require Import ZArith List Arith Lia Bool Permutation.
From EB Require Import Check.Set Proofs.ControlExec Proofs.MappedProofs Proofs.PostState Proofs.Gas
                       Proofs.ParInst Proofs.ParEntry Proofs.Renumber Proofs.MutationProofs
                       Spec.TwoPassSpec Spec.SetPermSpec.
Import ListNotations.
Open Scope list_scope.
Open Scope Z_scope.

(* ================================================================== *)
(* 1. exec and the environment                                         *)
(* ================================================================== *)

Lemma existsb_perm {A} (f : A -> bool) l l' : Permutation l l' -> existsb f l = existsb f l'.
Proof.
  intros H. apply eq_true_iff_eq. rewrite !existsb_exists.
  split; intros [x [Hin Hf]]; exists x; split; try exact Hf.
  - eapply Permutation_in; eauto.
  - eapply Permutation_in. { apply Permutation_sym. exact H. } exact Hin.
Qed.

Lemma existsb_ext_all {A} (f g : A -> bool) l : (forall x, f x = g x) -> existsb f l = existsb g l.
Proof. intros H. induction l as [|x r IH]; cbn [existsb]; [reflexivity|]. rewrite H, IH. reflexivity. Qed.

(* what `exec` can observe of an environment *)
Record env_equiv (E E' : env) : Prop := {
  ee_this : this_solution E = this_solution E';
  ee_cost : forall o, e_cost E o = e_cost E' o;
  ee_sha : forall b, e_sha256 E b = e_sha256 E' b;
  ee_ed : forall k s m, e_ed25519 E k s m = e_ed25519 E' k s m;
  ee_secp : forall h s r, e_secp E h s r = e_secp E' h s r;
  ee_pre : forall c k n, e_pre E c k n = e_pre E' c k n;
  ee_post : forall c k n, e_post E c k n = e_post E' c k n;
  ee_sols : Permutation (e_solutions E) (e_solutions E');
}.

Lemma op_predicate_exists_env E E' s : env_equiv E E' -> op_predicate_exists E s = op_predicate_exists E' s.
Proof.
  intros H. unfold op_predicate_exists.
  destruct (popn 4 s) as [[ws s0]| | |]; cbn [bind]; try reflexivity.
  rewrite (existsb_perm _ _ _ (ee_sols _ _ H)).
  rewrite (existsb_ext_all
             (fun sol => bytes_eqb (e_sha256 E (pred_data_preimage sol)) (bytes_of_words ws))
             (fun sol => bytes_eqb (e_sha256 E' (pred_data_preimage sol)) (bytes_of_words ws))).
  - reflexivity.
  - intros sol. rewrite (ee_sha _ _ H). reflexivity.
Qed.

Lemma step_access_env E E' o s r : env_equiv E E' -> step_access E o s r = step_access E' o s r.
Proof.
  intros H. unfold step_access. rewrite (ee_this _ _ H).
  destruct o; try reflexivity. apply op_predicate_exists_env. exact H.
Qed.

Lemma op_sha256_env E E' s : env_equiv E E' -> op_sha256 E s = op_sha256 E' s.
Proof.
  intros H. unfold op_sha256. destruct (pop_bytes s) as [[data s0]| | |]; cbn [bind]; try reflexivity.
  rewrite (ee_sha _ _ H). reflexivity.
Qed.

Lemma op_verify_ed25519_env E E' s : env_equiv E E' -> op_verify_ed25519 E s = op_verify_ed25519 E' s.
Proof.
  intros H. unfold op_verify_ed25519.
  destruct (popn 4 s) as [[key s1]| | |]; cbn [bind]; try reflexivity.
  destruct (popn 8 s1) as [[sig s2]| | |]; cbn [bind]; try reflexivity.
  destruct (pop_bytes s2) as [[data s0]| | |]; cbn [bind]; try reflexivity.
  rewrite (ee_ed _ _ H). reflexivity.
Qed.

Lemma op_recover_secp256k1_env E E' s : env_equiv E E' -> op_recover_secp256k1 E s = op_recover_secp256k1 E' s.
Proof.
  intros H. unfold op_recover_secp256k1.
  destruct (pop s) as [[rid s1]| | |]; cbn [bind]; try reflexivity.
  destruct (popn 8 s1) as [[sig s2]| | |]; cbn [bind]; try reflexivity.
  destruct (popn 4 s2) as [[h s0]| | |]; cbn [bind]; try reflexivity.
  rewrite (ee_secp _ _ H). reflexivity.
Qed.

Lemma step_crypto_env E E' o s : env_equiv E E' -> step_crypto E o s = step_crypto E' o s.
Proof.
  intros H. unfold step_crypto. destruct o; try reflexivity.
  - apply op_sha256_env. exact H.
  - apply op_verify_ed25519_env. exact H.
  - apply op_recover_secp256k1_env. exact H.
Qed.

Lemma step_state_read_env E E' o s m : env_equiv E E' -> step_state_read E o s m = step_state_read E' o s m.
Proof.
  intros H. unfold step_state_read. rewrite (ee_this _ _ H).
  destruct o; try reflexivity.
  - apply op_key_range_view. apply (ee_pre _ _ H).
  - apply op_key_range_ext_view. apply (ee_pre _ _ H).
  - apply op_key_range_view. apply (ee_post _ _ H).
  - apply op_key_range_ext_view. apply (ee_post _ _ H).
Qed.

Lemma step_basic_env E E' o v : env_equiv E E' -> step_basic E o v = step_basic E' o v.
Proof.
  intros H. unfold step_basic.
  destruct o; try reflexivity;
    first [ rewrite (step_access_env E E' _ _ _ H); reflexivity
          | rewrite (step_crypto_env E E' _ _ H); reflexivity
          | rewrite (step_state_read_env E E' _ _ _ H); reflexivity ].
Qed.

(* MUST 1 *)
Theorem exec_env_ext fuel : forall E E' oa limit v spent tr,
  env_equiv E E' ->
  exec fuel E oa limit v spent tr = exec fuel E' oa limit v spent tr.
Proof.
  induction fuel as [|f IH]; intros E E' oa limit v spent tr H; [reflexivity|].
  rewrite !exec_unfold.
  destruct (oa (pc v)) as [o|]; [|reflexivity]. cbv zeta.
  rewrite <- (ee_cost _ _ H o).
  destruct ((u64_max <? spent + e_cost E o) || (limit <? spent + e_cost E o)); [reflexivity|].
  match goal with
  | |- exec_result _ _ _ _ _ _ _ _ ?a = exec_result _ _ _ _ _ _ _ _ ?b => assert (a = b) as R
  end.
  { destruct o; try (rewrite (step_basic_env E E' _ v H); reflexivity).
    apply compute_with_ext. intros cv. apply IH. exact H. }
  rewrite R. clear R.
  match goal with |- exec_result _ _ _ _ _ _ _ _ ?a = _ => destruct a as [[[v' c] ctr]| | |] end; try reflexivity.
  unfold exec_result, exec_continue. destruct c as [|p| | |p g h]; try reflexivity.
  - destruct (usize_max <? pc v' + 1); [reflexivity|]. apply IH. exact H.
  - apply IH. exact H.
  - cbv zeta. destruct ((u64_max <? spent + e_cost E o + g) || (limit <? spent + e_cost E o + g)); [reflexivity|].
    destruct (halt (set_halt (set_pc v' p) (halt v' || h))); [reflexivity|]. apply IH. exact H.
Qed.

(* the same with every hypothesis spelled out *)
Theorem exec_env_ext_explicit fuel E E' oa limit v spent tr :
  this_solution E = this_solution E' ->
  (forall o, e_cost E o = e_cost E' o) ->
  (forall b, e_sha256 E b = e_sha256 E' b) ->
  (forall k s m, e_ed25519 E k s m = e_ed25519 E' k s m) ->
  (forall h s r, e_secp E h s r = e_secp E' h s r) ->
  (forall c k n, e_pre E c k n = e_pre E' c k n) ->
  (forall c k n, e_post E c k n = e_post E' c k n) ->
  Permutation (e_solutions E) (e_solutions E') ->
  exec fuel E oa limit v spent tr = exec fuel E' oa limit v spent tr.
Proof. intros. apply exec_env_ext. constructor; assumption. Qed.

(* ================================================================== *)
(* renamings                                                           *)
(* ================================================================== *)
Section Renaming.
  Local Open Scope nat_scope.

  Lemma rename_length {A} (d : A) perm l : length (rename d perm l) = length perm.
  Proof. apply map_length. Qed.

  Lemma is_perm_length perm n : is_perm perm n -> length perm = n.
  Proof. intros H. rewrite (Permutation_length H). apply seq_length. Qed.

  Lemma is_perm_in perm n j : is_perm perm n -> (In j perm <-> j < n).
  Proof.
    intros H. split; intros Hj.
    - apply (Permutation_in _ H) in Hj. apply in_seq in Hj. lia.
    - apply (Permutation_in _ (Permutation_sym H)). apply in_seq. lia.
  Qed.

  Lemma is_perm_nth_lt perm n i : is_perm perm n -> i < n -> nth i perm 0 < n.
  Proof.
    intros H Hi. apply (is_perm_in perm n _ H). apply nth_In. rewrite (is_perm_length _ _ H). exact Hi.
  Qed.

  Lemma is_perm_surj perm n j : is_perm perm n -> j < n -> exists i, i < n /\ nth i perm 0 = j.
  Proof.
    intros H Hj. apply (is_perm_in perm n j H) in Hj. destruct (In_nth perm j 0 Hj) as [i [Hi He]].
    exists i. rewrite <- (is_perm_length _ _ H). split; assumption.
  Qed.

  Lemma rename_nth {A} (d : A) perm l i : i < length perm -> nth i (rename d perm l) d = nth (nth i perm 0) l d.
  Proof.
    intros Hi. unfold rename.
    rewrite (nth_indep (map (fun j => nth j l d) perm) d ((fun j => nth j l d) 0)) by (rewrite map_length; exact Hi).
    apply (map_nth (fun j => nth j l d)).
  Qed.

  Lemma map_nth_self {A} (d : A) l : map (fun j => nth j l d) (seq 0 (length l)) = l.
  Proof.
    induction l as [|x r IH]; cbn [length seq map nth]; [reflexivity|].
    rewrite <- seq_shift, map_map. cbn [nth]. rewrite IH. reflexivity.
  Qed.

  Lemma perm_as_map perm : map (fun i => nth i perm 0) (seq 0 (length perm)) = perm.
  Proof. apply map_nth_self. Qed.

  Lemma rename_perm {A} (d : A) perm l : is_perm perm (length l) -> Permutation (rename d perm l) l.
  Proof.
    intros H. unfold rename.
    apply Permutation_trans with (map (fun j => nth j l d) (seq 0 (length l))).
    - apply Permutation_map. exact H.
    - rewrite map_nth_self. apply Permutation_refl.
  Qed.

  Lemma rename_map {A B} (f : A -> B) (d : A) perm l : map f (rename d perm l) = rename (f d) perm (map f l).
  Proof.
    unfold rename. rewrite map_map. apply map_ext. intros j. symmetry. apply (map_nth f).
  Qed.

  Lemma rename_const_nil {A B} (d : A) perm (l : list A) :
    map (fun _ => @nil B) (rename d perm l) = rename [] perm (map (fun _ => @nil B) l).
  Proof. apply (rename_map (fun _ => @nil B) d perm l). Qed.

  (* rename as an indexed map over the positions *)
  Lemma rename_as_seq {A} (d : A) perm l :
    rename d perm l = map (fun i => nth (nth i perm 0) l d) (seq 0 (length perm)).
  Proof.
    unfold rename. rewrite <- (perm_as_map perm) at 1. rewrite map_map. reflexivity.
  Qed.

  Lemma combine_seq_nth {A} (d : A) : forall (rs : list A) s,
    combine (seq s (length rs)) rs = map (fun i => (i, nth (i - s) rs d)) (seq s (length rs)).
  Proof.
    induction rs as [|x r IH]; intros s; cbn [length seq combine map]; [reflexivity|].
    rewrite Nat.sub_diag. cbn [nth]. f_equal. rewrite IH. apply map_ext_in.
    intros i Hi. apply in_seq in Hi. replace (i - s) with (S (i - S s)) by lia. reflexivity.
  Qed.

  Lemma combine_seq0_nth {A} (d : A) (rs : list A) :
    combine (seq 0 (length rs)) rs = map (fun i => (i, nth i rs d)) (seq 0 (length rs)).
  Proof.
    rewrite (combine_seq_nth d rs 0). apply map_ext. intros i. rewrite Nat.sub_0_r. reflexivity.
  Qed.

  Lemma map_fst_combine {A B} : forall (a : list A) (b : list B), length a = length b -> map fst (combine a b) = a.
  Proof.
    induction a as [|x a IH]; intros [|y b] H; cbn [combine map fst]; try reflexivity; try discriminate.
    f_equal. apply IH. injection H as H. exact H.
  Qed.
  Lemma map_snd_combine {A B} : forall (a : list A) (b : list B), length a = length b -> map snd (combine a b) = b.
  Proof.
    induction a as [|x a IH]; intros [|y b] H; cbn [combine map snd]; try reflexivity; try discriminate.
    f_equal. apply IH. injection H as H. exact H.
  Qed.
  Lemma combine_fst_snd {A B} (l : list (A * B)) : combine (map fst l) (map snd l) = l.
  Proof. induction l as [|[a b] l IH]; cbn [map combine fst snd]; [reflexivity|]. rewrite IH. reflexivity. Qed.
End Renaming.

(* ================================================================== *)
(* 2. one solution                                                     *)
(* ================================================================== *)
(* what the check of one solution can observe of its context *)
Record ctx_equiv (c c' : sol_ctx) : Prop := {
  ce_this : nth (sc_index c) (sc_solutions c) empty_solution = nth (sc_index c') (sc_solutions c') empty_solution;
  ce_pre : view_eq (sc_pre c) (sc_pre c');
  ce_post : view_eq (sc_post c) (sc_post c');
  ce_sols : Permutation (sc_solutions c) (sc_solutions c');
}.

Lemma env_for_equiv c c' : ctx_equiv c c' -> env_equiv (env_for c) (env_for c').
Proof.
  intros H. constructor; try (intros; reflexivity).
  - exact (ce_this _ _ H).
  - exact (ce_pre _ _ H).
  - exact (ce_post _ _ H).
  - exact (ce_sols _ _ H).
Qed.

Lemma run_program_ctx_ext fuel c c' prog leaf parents :
  ctx_equiv c c' -> run_program fuel c prog leaf parents = run_program fuel c' prog leaf parents.
Proof.
  intros H. unfold run_program, exec_ops.
  destruct (from_bytes prog) as [ops| | |]; try reflexivity.
  rewrite (exec_env_ext fuel (env_for c) (env_for c') _ _ _ _ _ (env_for_equiv c c' H)). reflexivity.
Qed.

Lemma run_levels_ext (run1 run2 : nat -> bool -> list sm -> outcome unit prog_res) p ca pm deferred :
  (forall ix leaf ins, run1 ix leaf ins = run2 ix leaf ins) ->
  forall levels st, run_levels run1 p ca pm deferred st levels = run_levels run2 p ca pm deferred st levels.
Proof.
  intros He. induction levels as [|level rest IH]; intros st; cbn [run_levels]; [reflexivity|].
  rewrite (run_level_ext run1 run2 p pm st He level).
  destruct (run_level run2 p pm st level) as [rs| | |]; cbn [bind]; try reflexivity.
  destruct (absorb p ca deferred (add_events st rs) rs) as [st' stop].
  destruct stop; [reflexivity|apply IH].
Qed.

Lemma check_predicate_inner_ext (run1 run2 : nat -> bool -> list sm -> outcome unit prog_res) p ca isdef mode cache :
  (forall ix leaf ins, run1 ix leaf ins = run2 ix leaf ins) ->
  check_predicate_inner run1 p ca isdef mode cache = check_predicate_inner run2 p ca isdef mode cache.
Proof.
  intros He. unfold check_predicate_inner.
  destruct (create_parent_map p) as [pm| | |]; try reflexivity.
  destruct (parallel_topo_sort p pm) as [sorted| | |]; try reflexivity.
  rewrite (run_levels_ext run1 run2 p ca pm _ He). reflexivity.
Qed.

Theorem check_predicate_ctx_ext fuel lk ca mode c c' cache :
  ctx_equiv c c' -> check_predicate fuel lk ca mode c cache = check_predicate fuel lk ca mode c' cache.
Proof.
  intros H. unfold check_predicate. rewrite (ce_this _ _ H).
  apply check_predicate_inner_ext. intros ix leaf ins. apply run_program_ctx_ext. exact H.
Qed.

Lemma ctx_equiv_rename sols perm i pre post pre' post' :
  is_perm perm (length sols) -> (i < length sols)%nat -> view_eq pre pre' -> view_eq post post' ->
  ctx_equiv {| sc_solutions := rename empty_solution perm sols; sc_index := i; sc_pre := pre'; sc_post := post' |}
            {| sc_solutions := sols; sc_index := nth i perm 0%nat; sc_pre := pre; sc_post := post |}.
Proof.
  intros Hp Hi Hpre Hpost. constructor; cbn [sc_solutions sc_index sc_pre sc_post].
  - apply rename_nth. rewrite (is_perm_length _ _ Hp). exact Hi.
  - intros c k n. symmetry. apply Hpre.
  - intros c k n. symmetry. apply Hpost.
  - apply rename_perm. exact Hp.
Qed.

(* MUST 2 *)
Theorem run_program_perm fuel sols perm i pre post prog leaf parents :
  is_perm perm (length sols) -> (i < length sols)%nat ->
  run_program fuel {| sc_solutions := map (fun j => nth j sols empty_solution) perm; sc_index := i;
                      sc_pre := pre; sc_post := post |} prog leaf parents =
  run_program fuel {| sc_solutions := sols; sc_index := nth i perm 0%nat; sc_pre := pre; sc_post := post |}
              prog leaf parents.
Proof.
  intros Hp Hi. apply run_program_ctx_ext.
  apply (ctx_equiv_rename sols perm i pre post pre post Hp Hi); intros c k n; reflexivity.
Qed.

Theorem check_predicate_perm fuel lk ca mode sols perm i pre post cache :
  is_perm perm (length sols) -> (i < length sols)%nat ->
  check_predicate fuel lk ca mode
    {| sc_solutions := map (fun j => nth j sols empty_solution) perm; sc_index := i; sc_pre := pre; sc_post := post |} cache =
  check_predicate fuel lk ca mode
    {| sc_solutions := sols; sc_index := nth i perm 0%nat; sc_pre := pre; sc_post := post |} cache.
Proof.
  intros Hp Hi. apply check_predicate_ctx_ext.
  apply (ctx_equiv_rename sols perm i pre post pre post Hp Hi); intros c k n; reflexivity.
Qed.

(* ================================================================== *)
(* sequencing outcomes over a renamed index range                      *)
(* ================================================================== *)
Section SeqOutcomes.
  Local Open Scope nat_scope.

  Lemma seq_outcomes_map_ok {E A} (l : list A) : seq_outcomes (map (@Ok E A) l) = Ok l.
  Proof. induction l as [|x l IH]; cbn [map seq_outcomes bind]; [reflexivity|]. rewrite IH. reflexivity. Qed.

  Lemma is_ok_iff {E A} (x : outcome E A) : is_ok x = true <-> exists a, x = Ok a.
  Proof.
    destruct x; cbn [is_ok]; split; intros H; try discriminate; try reflexivity.
    - eexists; reflexivity.
    - destruct H as [a H]; discriminate.
    - destruct H as [a H]; discriminate.
    - destruct H as [a H]; discriminate.
  Qed.

  Lemma seq_outcomes_nth {E A} (f : nat -> outcome E A) n rs (d : A) :
    seq_outcomes (map f (seq 0 n)) = Ok rs -> length rs = n /\ forall j, j < n -> f j = Ok (nth j rs d).
  Proof.
    intros H. apply seq_outcomes_ok in H.
    assert (L : length rs = n).
    { apply (f_equal (@length _)) in H. rewrite !map_length, seq_length in H. symmetry. exact H. }
    split; [exact L|]. intros j Hj.
    apply (f_equal (fun l => nth j l (Ok d))) in H. cbv beta in H.
    rewrite (map_nth (@Ok E A)) in H. rewrite <- H.
    rewrite (nth_indep (map f (seq 0 n)) (Ok d) (f 0)) by (rewrite map_length, seq_length; exact Hj).
    rewrite (map_nth f). rewrite seq_nth by exact Hj. reflexivity.
  Qed.

  Lemma seq_outcomes_rename {E A} (f f' : nat -> outcome E A) perm n (d : A) :
    is_perm perm n ->
    (forall i a, i < n -> (f' i = Ok a <-> f (nth i perm 0) = Ok a)) ->
    orel (fun rs rs' => rs' = rename d perm rs /\ length rs = n)
         (seq_outcomes (map f (seq 0 n))) (seq_outcomes (map f' (seq 0 n))).
  Proof.
    intros Hp Hf.
    assert (P1 : forall rs, seq_outcomes (map f (seq 0 n)) = Ok rs ->
                 seq_outcomes (map f' (seq 0 n)) = Ok (rename d perm rs) /\ length rs = n).
    { intros rs H. destruct (seq_outcomes_nth f n rs d H) as [L Hn]. split; [|exact L].
      rewrite rename_as_seq, (is_perm_length _ _ Hp).
      rewrite <- (seq_outcomes_map_ok (E:=E) (map (fun i => nth (nth i perm 0) rs d) (seq 0 n))).
      f_equal. rewrite map_map. apply map_ext_in. intros i Hi. apply in_seq in Hi.
      apply Hf; [lia|]. apply Hn. apply is_perm_nth_lt; [exact Hp|lia]. }
    assert (P2 : is_ok (seq_outcomes (map f' (seq 0 n))) = is_ok (seq_outcomes (map f (seq 0 n)))).
    { rewrite !seq_outcomes_is_ok. apply eq_true_iff_eq. rewrite !forallb_forall. split; intros H x Hx.
      - apply in_map_iff in Hx. destruct Hx as [j [Hjx Hj]]. subst x. apply in_seq in Hj.
        destruct (is_perm_surj perm n j Hp) as [i [Hi Hij]]; [lia|].
        assert (Hi' : is_ok (f' i) = true). { apply H. apply in_map. apply in_seq. lia. }
        apply is_ok_iff in Hi'. destruct Hi' as [a Ha]. apply (Hf i a Hi) in Ha. rewrite Hij in Ha.
        rewrite Ha. reflexivity.
      - apply in_map_iff in Hx. destruct Hx as [i [Hix Hi]]. subst x. apply in_seq in Hi.
        assert (Hj : is_ok (f (nth i perm 0)) = true).
        { apply H. apply in_map. apply in_seq. pose proof (is_perm_nth_lt perm n i Hp). lia. }
        apply is_ok_iff in Hj. destruct Hj as [a Ha]. apply (Hf i a) in Ha; [|lia]. rewrite Ha. reflexivity. }
    destruct (seq_outcomes (map f (seq 0 n))) as [rs| | |] eqn:E1.
    - destruct (P1 rs eq_refl) as [R1 L]. rewrite R1. cbn [orel]. split; [reflexivity|exact L].
    - destruct (seq_outcomes (map f' (seq 0 n))); cbn [orel is_ok] in *; trivial; discriminate.
    - destruct (seq_outcomes (map f' (seq 0 n))); cbn [orel is_ok] in *; trivial; discriminate.
    - destruct (seq_outcomes (map f' (seq 0 n))); cbn [orel is_ok] in *; trivial; discriminate.
  Qed.
End SeqOutcomes.

(* ================================================================== *)
(* the gas of one solution is not negative                             *)
(* ================================================================== *)
Lemma u64_max_nonneg : 0 <= u64_max.
Proof. unfold u64_max, two64. lia. Qed.

Lemma run_program_gas_nn fuel c prog leaf parents o g :
  run_program fuel c prog leaf parents = Ok (PRun o g) -> 0 <= g.
Proof.
  unfold run_program. intros H.
  destruct (from_bytes prog) as [ops| | |]; try discriminate.
  destruct ((4096 <? zlen (concat (map fst parents))) || (10240 <? zlen (concat (map snd parents)))); [discriminate|].
  match type of H with match ?x with _ => _ end = _ => destruct x as [[[v g'] t]| | |] eqn:He end; try discriminate.
  injection H as _ Hg. subst g'. unfold exec_ops in He.
  assert (H1 : 0 <= 0 <= u64_max) by (pose proof u64_max_nonneg; lia).
  assert (H2 : u64_max <= u64_max) by lia.
  assert (H3 : forall o', 0 <= e_cost (env_for c) o') by (intros o'; cbn; lia).
  pose proof (exec_gas_u64 _ _ _ _ _ _ _ _ _ _ H1 H2 H3 He). lia.
Qed.

Section GasNonneg.
  Variable run : nat -> bool -> list sm -> outcome unit prog_res.
  Variable p : predicate.
  Variable ca : bool.
  Hypothesis run_nn : forall ix leaf ins o g, run ix leaf ins = Ok (PRun o g) -> 0 <= g.

  Definition res_nn (x : nat * prog_res * list sm) : Prop :=
    match snd (fst x) with PRun _ g => 0 <= g | PFail => True end.

  Lemma run_level_nn pm st : forall level rs, run_level run p pm st level = Ok rs -> Forall res_nn rs.
  Proof.
    induction level as [|ix rest IH]; intros rs H; cbn [run_level] in H.
    - injection H as H. subst rs. constructor.
    - destruct (run ix (is_leaf p ix) (inputs_of pm st ix)) as [r| | |] eqn:Hr; cbn [bind] in H; try discriminate.
      destruct (run_level run p pm st rest) as [rs0| | |] eqn:Hl; cbn [bind] in H; try discriminate.
      injection H as H. subst rs. constructor; [|apply IH; reflexivity].
      unfold res_nn. cbn [fst snd]. destruct r as [o g|]; [|exact I]. eapply run_nn. exact Hr.
  Qed.

  Lemma absorb_nn deferred : forall rs st, Forall res_nn rs -> 0 <= is_gas st ->
    0 <= is_gas (fst (absorb p ca deferred st rs)).
  Proof.
    induction rs as [|[[node r] ins] rest IH]; intros st HF Hg; cbn [absorb]; [exact Hg|].
    inversion HF as [|x l Hx Hl]; subst. unfold res_nn in Hx; cbn [fst snd] in Hx.
    destruct r as [[s m|o] g|].
    - apply IH; [exact Hl|]. destruct (should_cache p deferred node); cbn [is_gas]; apply sat_add_nonneg; assumption.
    - apply IH; [exact Hl|]. cbn [is_gas]. apply sat_add_nonneg; assumption.
    - destruct ca; [apply IH; [exact Hl|exact Hg] | cbn [fst is_gas]; exact Hg].
  Qed.

  Lemma run_levels_nn pm deferred : forall levels st st' b, 0 <= is_gas st ->
    run_levels run p ca pm deferred st levels = Ok (st', b) -> 0 <= is_gas st'.
  Proof.
    induction levels as [|level rest IH]; intros st st' b Hg H; cbn [run_levels] in H.
    - injection H as H1 H2. subst st'. exact Hg.
    - destruct (run_level run p pm st level) as [rs| | |] eqn:Hl; cbn [bind] in H; try discriminate.
      assert (Ha : 0 <= is_gas (fst (absorb p ca deferred (add_events st rs) rs))).
      { apply absorb_nn; [exact (run_level_nn pm st level rs Hl)|exact Hg]. }
      destruct (absorb p ca deferred (add_events st rs) rs) as [st1 stop]. cbn [fst] in Ha.
      destruct stop.
      + injection H as H1 H2. subst st'. exact Ha.
      + exact (IH st1 st' b Ha H).
  Qed.

  Lemma check_predicate_inner_nn isdef mode cache r g d :
    check_predicate_inner run p ca isdef mode cache = Ok r -> ir_res r = Ok (g, d) -> 0 <= g.
  Proof.
    unfold check_predicate_inner. intros H Hr.
    destruct (create_parent_map p) as [pm|[ix]| |]; try discriminate.
    2:{ injection H as H. subst r. discriminate. }
    destruct (parallel_topo_sort p pm) as [sorted|[ix]| |]; try discriminate.
    2:{ injection H as H. subst r. discriminate. }
    match type of H with bind ?x _ = _ => destruct x as [[st b]| | |] eqn:Hl end; cbn [bind] in H; try discriminate.
    apply run_levels_nn in Hl; [|cbn [is_gas]; lia].
    injection H as H. subst r. cbn [ir_res] in Hr.
    destruct (is_failed st); [|discriminate]. destruct (is_unsat st); [|discriminate].
    injection Hr as Hg Hd. subst g. exact Hl.
  Qed.
End GasNonneg.

Lemma check_predicate_gas_nn fuel lk ca mode c cache r g d :
  check_predicate fuel lk ca mode c cache = Ok r -> ir_res r = Ok (g, d) -> 0 <= g.
Proof.
  unfold check_predicate. intros H Hr.
  eapply check_predicate_inner_nn; [|exact H|exact Hr].
  intros ix leaf ins o g0 Hrun. eapply run_program_gas_nn. exact Hrun.
Qed.

(* ================================================================== *)
(* 3. check_set_predicates                                             *)
(* ================================================================== *)
Definition dflt_ir : inner_result := {| ir_res := Ok (0, []); ir_cache := []; ir_events := [] |}.
Definition gstep (a : Z) (r : inner_result) : Z :=
  match ir_res r with Ok (g, _) => sat_add_u64 a g | _ => a end.
Definition gas_nn (r : inner_result) : Prop := forall g d, ir_res r = Ok (g, d) -> 0 <= g.
Definition dout (r : inner_result) : list (list Z) := match ir_res r with Ok (_, d) => d | _ => [] end.

Lemma gstep_nonneg a r : gas_nn r -> 0 <= a -> 0 <= gstep a r.
Proof.
  intros Hr Ha. unfold gstep. destruct (ir_res r) as [[g d]| | |] eqn:E; try exact Ha.
  apply sat_add_nonneg; [exact Ha|]. exact (Hr g d E).
Qed.

Lemma gstep_swap a x y : gas_nn x -> gas_nn y -> gstep (gstep a x) y = gstep (gstep a y) x.
Proof.
  intros Hx Hy. unfold gstep.
  destruct (ir_res x) as [[gx dx]| | |] eqn:Ex; destruct (ir_res y) as [[gy dy]| | |] eqn:Ey; try reflexivity.
  apply sat_add_swap; [exact (Hx gx dx Ex)|exact (Hy gy dy Ey)].
Qed.

(* the total gas of a set: the saturating sum of non-negative per-solution gas is order independent
   (the argument of Renumber.sat_sum_perm, over results instead of numbers) *)
Lemma gstep_perm l l' : Forall gas_nn l -> Permutation l l' ->
  forall a, 0 <= a -> fold_left gstep l a = fold_left gstep l' a.
Proof.
  intros HF HP. induction HP as [|x l l' HP IH|x y l|l l' l'' HP1 IH1 HP2 IH2]; intros a Ha.
  - reflexivity.
  - cbn [fold_left]. inversion HF as [|x0 l0 Hx Hl]; subst. apply IH; [exact Hl|].
    apply gstep_nonneg; assumption.
  - cbn [fold_left]. inversion HF as [|x0 l0 Hy Hl]; subst. inversion Hl as [|x1 l1 Hx Hl']; subst.
    rewrite (gstep_swap a y x Hy Hx). reflexivity.
  - rewrite (IH1 HF a Ha). apply IH2; [|exact Ha].
    rewrite Forall_forall in *. intros z Hz. apply HF. apply (Permutation_in z (Permutation_sym HP1)). exact Hz.
Qed.

Lemma fold_combine_snd {A} (h : Z -> inner_result -> Z) : forall (a : list A) (b : list inner_result) acc,
  length a = length b ->
  fold_left (fun acc ir => h acc (snd ir)) (combine a b) acc = fold_left h b acc.
Proof.
  induction a as [|x a IH]; intros [|y b] acc H; cbn [combine fold_left snd]; try reflexivity; try discriminate.
  apply IH. injection H as H. exact H.
Qed.

Lemma map_f_snd_combine {A B C} (f : B -> C) (a : list A) (b : list B) :
  length a = length b -> map (fun ir => f (snd ir)) (combine a b) = map f b.
Proof. intros H. rewrite <- (map_map snd f). rewrite (map_snd_combine a b H). reflexivity. Qed.

Definition failed_of (n : nat) (rs : list inner_result) : list (nat * perr2) :=
  flat_map (fun ir => match ir_res (snd ir) with Err e => [(fst ir, e)] | _ => [] end) (combine (seq 0 n) rs).

Lemma failed_of_in n rs i e : length rs = n ->
  (In (i, e) (failed_of n rs) <-> (i < n)%nat /\ ir_res (nth i rs dflt_ir) = Err e).
Proof.
  intros L. subst n. unfold failed_of. rewrite (combine_seq0_nth dflt_ir rs). rewrite in_flat_map. split.
  - intros [[j r] [Hin Hm]]. apply in_map_iff in Hin. destruct Hin as [j' [Heq Hj']].
    injection Heq as Hj Hr. subst j' r. apply in_seq in Hj'. cbn [fst snd] in Hm.
    destruct (ir_res (nth j rs dflt_ir)) as [a|e'| |] eqn:Er; cbn [In] in Hm; try contradiction.
    destruct Hm as [Hm|Hm]; [|contradiction]. injection Hm as Hji Hee. subst j e'. split; [lia|exact Er].
  - intros [Hi Hr]. exists (i, nth i rs dflt_ir). split.
    + apply in_map_iff. exists i. split; [reflexivity|]. apply in_seq. lia.
    + cbn [fst snd]. rewrite Hr. left. reflexivity.
Qed.

(* set_post with the number of solutions as a parameter *)
Definition set_post_n (n : nat) (caches : list (list (nat * sm))) (rs : list inner_result) : outcome unit set_result :=
  let indexed := combine (seq 0 n) rs in
  let events := flat_map (fun ir => map (fun ev => (fst ir, fst ev, snd ev)) (ir_events (snd ir))) indexed in
  match failed_of n rs with
  | _ :: _ => Ok {| sr_res := Err (SFailed (failed_of n rs)); sr_caches := map (fun _ => []) caches; sr_events := events |}
  | [] => Ok {| sr_res := Ok (fold_left (fun a ir => gstep a (snd ir)) indexed 0,
                              map (fun ir => (fst ir, dout (snd ir))) indexed);
                sr_caches := map (fun ir => ir_cache (snd ir)) indexed; sr_events := events |}
  end.

Lemma set_post_eq sols caches rs : set_post sols caches rs = set_post_n (length sols) caches rs.
Proof. reflexivity. Qed.

Lemma check_set_predicates_unfold_n fuel lk ca mode sols pre post caches :
  check_set_predicates fuel lk ca mode sols pre post caches =
  (let* rs := check_solutions_go fuel lk ca mode sols pre post (seq 0 (length sols)) caches in
   set_post_n (length sols) caches rs).
Proof. reflexivity. Qed.

(* the per-solution results of the renamed set are the renamed per-solution results *)
Theorem check_solutions_go_perm fuel lk ca mode sols pre post pre' post' caches perm :
  is_perm perm (length sols) -> view_eq pre pre' -> view_eq post post' ->
  orel (fun rs rs' => rs' = rename dflt_ir perm rs /\ length rs = length sols)
    (check_solutions_go fuel lk ca mode sols pre post (seq 0 (length sols)) caches)
    (check_solutions_go fuel lk ca mode (rename empty_solution perm sols) pre' post'
                        (seq 0 (length sols)) (rename [] perm caches)).
Proof.
  intros Hp Hpre Hpost. rewrite !check_solutions_go_map.
  apply seq_outcomes_rename; [exact Hp|].
  intros i a Hi. unfold sol_task.
  rewrite (check_predicate_ctx_ext _ _ _ _ _ _ _ (ctx_equiv_rename sols perm i pre post pre' post' Hp Hi Hpre Hpost)).
  rewrite rename_nth by (rewrite (is_perm_length _ _ Hp); exact Hi). reflexivity.
Qed.

Lemma check_solutions_go_gas_nn fuel lk ca mode sols pre post caches rs :
  check_solutions_go fuel lk ca mode sols pre post (seq 0 (length sols)) caches = Ok rs -> Forall gas_nn rs.
Proof.
  intros H. rewrite check_solutions_go_map in H.
  destruct (seq_outcomes_nth _ _ _ dflt_ir H) as [L Hn].
  apply Forall_forall. intros x Hx. destruct (In_nth rs x dflt_ir Hx) as [j [Hj Hjx]]. subst x.
  intros g d Hr. rewrite L in Hj. specialize (Hn j Hj). unfold sol_task in Hn.
  exact (check_predicate_gas_nn _ _ _ _ _ _ _ _ _ Hn Hr).
Qed.

Lemma set_post_n_perm n perm caches rs :
  is_perm perm n -> length rs = n -> Forall gas_nn rs ->
  orel (sr_rel perm n) (set_post_n n caches rs) (set_post_n n (rename [] perm caches) (rename dflt_ir perm rs)).
Proof.
  intros Hp L HF.
  pose proof (is_perm_length _ _ Hp) as Lp.
  assert (L' : length (rename dflt_ir perm rs) = n) by (rewrite rename_length; exact Lp).
  assert (Ls : length (seq 0 n) = length rs) by (rewrite seq_length; symmetry; exact L).
  assert (Ls' : length (seq 0 n) = length (rename dflt_ir perm rs)) by (rewrite seq_length; symmetry; exact L').
  assert (HFail : forall i e, In (i, e) (failed_of n (rename dflt_ir perm rs)) <->
                              ((i < n)%nat /\ In (nth i perm 0%nat, e) (failed_of n rs))).
  { intros i e. rewrite (failed_of_in n _ i e L'), (failed_of_in n rs _ e L). split.
    - intros [Hi Hr]. rewrite rename_nth in Hr by (rewrite Lp; exact Hi).
      split; [exact Hi|]. split; [apply is_perm_nth_lt; assumption|exact Hr].
    - intros [Hi [_ Hr]]. split; [exact Hi|]. rewrite rename_nth by (rewrite Lp; exact Hi). exact Hr. }
  unfold set_post_n.
  destruct (failed_of n rs) as [|[j e] F] eqn:EF; destruct (failed_of n (rename dflt_ir perm rs)) as [|[i' e'] F'] eqn:EF'.
  - cbn [orel]. unfold sr_rel. cbn [sr_caches sr_res]. split; [|split; [|split; [|split]]].
    + rewrite !map_f_snd_combine by assumption. apply (rename_map ir_cache dflt_ir perm rs).
    + rewrite !fold_combine_snd by assumption.
      symmetry. apply gstep_perm; [exact HF| |lia].
      apply Permutation_sym. apply rename_perm. rewrite L. exact Hp.
    + rewrite map_map. cbn [fst]. apply (map_fst_combine _ _ Ls).
    + rewrite map_map. cbn [fst]. apply (map_fst_combine _ _ Ls').
    + rewrite !map_map. cbn [snd]. rewrite !map_f_snd_combine by assumption.
      apply (rename_map dout dflt_ir perm rs).
  - exfalso. destruct (proj1 (HFail i' e') (or_introl eq_refl)) as [_ []].
  - exfalso. assert (Hj : (j < n)%nat).
    { assert (Hin : In (j, e) (failed_of n rs)) by (rewrite EF; left; reflexivity).
      apply (failed_of_in n rs j e L) in Hin. tauto. }
    destruct (is_perm_surj perm n j Hp Hj) as [i [Hi Hij]].
    apply (proj2 (HFail i e)). split; [exact Hi|]. rewrite Hij. left. reflexivity.
  - cbn [orel]. unfold sr_rel. cbn [sr_caches sr_res]. split; [|split; [|split]].
    + apply (rename_map (fun _ => @nil (nat * sm)) [] perm caches).
    + discriminate.
    + discriminate.
    + exact HFail.
Qed.

(* MUST 3 *)
Theorem check_set_predicates_perm fuel lk ca mode sols pre post pre' post' caches perm :
  is_perm perm (length sols) -> view_eq pre pre' -> view_eq post post' ->
  orel (sr_rel perm (length sols))
    (check_set_predicates fuel lk ca mode sols pre post caches)
    (check_set_predicates fuel lk ca mode (rename empty_solution perm sols) pre' post' (rename [] perm caches)).
Proof.
  intros Hp Hpre Hpost. rewrite !check_set_predicates_unfold_n.
  rewrite rename_length, (is_perm_length _ _ Hp).
  pose proof (check_solutions_go_perm fuel lk ca mode sols pre post pre' post' caches perm Hp Hpre Hpost) as HG.
  pose proof (check_solutions_go_gas_nn fuel lk ca mode sols pre post caches) as HN.
  destruct (check_solutions_go fuel lk ca mode sols pre post (seq 0 (length sols)) caches) as [rs| | |];
    destruct (check_solutions_go fuel lk ca mode (rename empty_solution perm sols) pre' post'
                (seq 0 (length sols)) (rename [] perm caches)) as [rs'| | |];
    cbn [orel] in HG; try contradiction; cbn [bind orel]; trivial.
  destruct HG as [HR L]. subst rs'.
  apply set_post_n_perm; [exact Hp|exact L|exact (HN rs eq_refl)].
Qed.

(* ================================================================== *)
(* 4. decode_mutations_set                                             *)
(* ================================================================== *)
Definition reindex_err (ix : nat) (e : set_err) : set_err :=
  match e with
  | SMutationsDecode _ => SMutationsDecode ix
  | SMutationsDuplicate _ => SMutationsDuplicate ix
  | SFailed l => SFailed l
  end.

(* the solution index is only used to label the error *)
Lemma apply_outputs_reindex ix ix' : forall mems seen acc,
  apply_outputs ix' seen mems acc = map_err (reindex_err ix') (apply_outputs ix seen mems acc).
Proof.
  induction mems as [|mem r IH]; intros seen acc; cbn [apply_outputs]; [reflexivity|].
  destruct (decode_mutations mem) as [ms| | |]; try reflexivity.
  destruct (apply_muts seen ms acc) as [[seen' acc']|]; [apply IH|reflexivity].
Qed.

Definition ok_or_err {E A} (x : outcome E A) : Prop := (exists a, x = Ok a) \/ (exists e, x = Err e).

Lemma apply_outputs_total ix : forall mems seen acc, ok_or_err (apply_outputs ix seen mems acc).
Proof.
  induction mems as [|mem r IH]; intros seen acc; cbn [apply_outputs].
  - left. eexists. reflexivity.
  - destruct (decode_mutations_total mem) as [NP NF].
    destruct (decode_mutations mem) as [ms|e|s|].
    + destruct (apply_muts seen ms acc) as [[seen' acc']|]; [apply IH|right; eexists; reflexivity].
    + right. eexists. reflexivity.
    + exfalso. exact (NP s eq_refl).
    + exfalso. exact (NF eq_refl).
Qed.

Lemma decode_mutations_set_total : forall data sols, ok_or_err (decode_mutations_set data sols).
Proof.
  induction data as [|[ix mems] rest IH]; intros sols; cbn [decode_mutations_set].
  - left. eexists. reflexivity.
  - destruct (apply_outputs_total ix mems (map m_key (sol_muts (nth ix sols empty_solution)))
                (sol_muts (nth ix sols empty_solution))) as [[ms H]|[e H]]; rewrite H; cbn [bind].
    + apply IH.
    + right. eexists. reflexivity.
Qed.

Lemma orel_erel {E E' A B} (R : A -> B -> Prop) (x : outcome E A) (y : outcome E' B) :
  orel R x y -> ok_or_err x -> ok_or_err y -> erel R x y.
Proof.
  intros H [[a Hx]|[e Hx]] [[b Hy]|[e' Hy]]; subst x y; cbn [orel erel] in *; trivial.
Qed.

(* the mutations of one solution: decoded from its own data outputs and its own declared mutations *)
Definition dec1 (ix : nat) (s : solution) (mems : list (list Z)) : outcome set_err solution :=
  let* ms := apply_outputs ix (map m_key (sol_muts s)) mems (sol_muts s) in Ok (set_muts s ms).

Lemma dec1_ok_ix i j s mems a : dec1 i s mems = Ok a <-> dec1 j s mems = Ok a.
Proof.
  unfold dec1. rewrite (apply_outputs_reindex j i).
  destruct (apply_outputs j (map m_key (sol_muts s)) mems (sol_muts s)); cbn [map_err bind];
    split; intros H; try discriminate; exact H.
Qed.

Fixpoint dec_list (k : nat) (sols : list solution) (ds : list (list (list Z))) : outcome set_err (list solution) :=
  match sols, ds with
  | s :: r, mems :: dr => let* s' := dec1 k s mems in let* r' := dec_list (S k) r dr in Ok (s' :: r')
  | _, _ => Ok []
  end.

Section DecodeSet.
  Local Open Scope nat_scope.

  Lemma update_nth_middle {A} (f : A -> A) s r : forall done, update_nth (length done) f (done ++ s :: r) = done ++ f s :: r.
  Proof. induction done as [|x done IH]; cbn [length app update_nth]; [reflexivity|]. rewrite IH. reflexivity. Qed.

  Lemma decode_set_dec_list : forall todo ds done, length ds = length todo ->
    decode_mutations_set (combine (seq (length done) (length todo)) ds) (done ++ todo) =
    (let* l := dec_list (length done) todo ds in Ok (done ++ l)).
  Proof.
    induction todo as [|s r IH]; intros ds done L.
    - destruct ds; [|discriminate]. cbn [length seq combine decode_mutations_set dec_list bind]. reflexivity.
    - destruct ds as [|mems dr]; [discriminate|].
      cbn [length seq combine decode_mutations_set dec_list].
      rewrite nth_middle. unfold dec1.
      destruct (apply_outputs (length done) (map m_key (sol_muts s)) mems (sol_muts s)) as [ms| | |]; cbn [bind]; try reflexivity.
      rewrite update_nth_middle.
      replace (done ++ set_muts s ms :: r) with ((done ++ [set_muts s ms]) ++ r) by (rewrite <- app_assoc; reflexivity).
      specialize (IH dr (done ++ [set_muts s ms])).
      rewrite app_length in IH. cbn [length] in IH. rewrite Nat.add_1_r in IH.
      rewrite IH by (injection L as L; exact L).
      destruct (dec_list (S (length done)) r dr) as [l| | |]; cbn [bind]; try reflexivity.
      rewrite <- app_assoc. reflexivity.
  Qed.

  Lemma dec_list_seq : forall sols ds k, length ds = length sols ->
    dec_list k sols ds =
    seq_outcomes (map (fun i => dec1 (k + i) (nth i sols empty_solution) (nth i ds [])) (seq 0 (length sols))).
  Proof.
    induction sols as [|s r IH]; intros [|mems dr] k L; try discriminate; cbn [dec_list length seq map seq_outcomes].
    - reflexivity.
    - rewrite Nat.add_0_r. cbn [nth]. rewrite <- seq_shift, map_map.
      rewrite (IH dr (S k)) by (injection L as L; exact L).
      rewrite (map_ext (fun i => dec1 (S k + i) (nth i r empty_solution) (nth i dr []))
                       (fun i => dec1 (k + S i) (nth (S i) (s :: r) empty_solution) (nth (S i) (mems :: dr) []))).
      + reflexivity.
      + intros i. rewrite Nat.add_succ_r. reflexivity.
  Qed.

  Lemma decode_set_seq0 n sols ds : length sols = n -> length ds = n ->
    decode_mutations_set (combine (seq 0 n) ds) sols =
    seq_outcomes (map (fun i => dec1 i (nth i sols empty_solution) (nth i ds [])) (seq 0 n)).
  Proof.
    intros Ls Ld. subst n.
    pose proof (decode_set_dec_list sols ds [] Ld) as H. cbn [length app] in H. rewrite H.
    rewrite (dec_list_seq sols ds 0 Ld).
    destruct (seq_outcomes _); reflexivity.
  Qed.

  (* MUST 4 *)
  Theorem decode_mutations_set_perm perm sols ds :
    is_perm perm (length sols) -> length ds = length sols ->
    erel (fun s s' => s' = rename empty_solution perm s /\ length s = length sols)
      (decode_mutations_set (combine (seq 0 (length sols)) ds) sols)
      (decode_mutations_set (combine (seq 0 (length sols)) (rename [] perm ds)) (rename empty_solution perm sols)).
  Proof.
    intros Hp Ld. apply orel_erel; try apply decode_mutations_set_total.
    pose proof (is_perm_length _ _ Hp) as Lp.
    rewrite (decode_set_seq0 (length sols) sols ds eq_refl Ld).
    rewrite (decode_set_seq0 (length sols) (rename empty_solution perm sols) (rename [] perm ds))
      by (rewrite rename_length; exact Lp).
    apply (seq_outcomes_rename
             (fun i => dec1 i (nth i sols empty_solution) (nth i ds []))
             (fun i => dec1 i (nth i (rename empty_solution perm sols) empty_solution) (nth i (rename [] perm ds) []))
             perm (length sols) empty_solution Hp).
    intros i a Hi. cbv beta.
    rewrite !rename_nth by (rewrite Lp; exact Hi).
    apply dec1_ok_ix.
  Qed.
End DecodeSet.

(* ================================================================== *)
(* 5. check_and_compute and two_pass                                   *)
(* ================================================================== *)
Theorem check_and_compute_perm fuel lk ca mode sols pre post pre' post' caches perm :
  is_perm perm (length sols) -> view_eq pre pre' -> view_eq post post' ->
  orel (cr_rel perm (length sols))
    (check_and_compute fuel lk ca mode sols pre post caches)
    (check_and_compute fuel lk ca mode (rename empty_solution perm sols) pre' post' (rename [] perm caches)).
Proof.
  intros Hp Hpre Hpost. unfold check_and_compute.
  pose proof (check_set_predicates_perm fuel lk ca mode sols pre post pre' post' caches perm Hp Hpre Hpost) as HS.
  destruct (check_set_predicates fuel lk ca mode sols pre post caches) as [r| | |];
    destruct (check_set_predicates fuel lk ca mode (rename empty_solution perm sols) pre' post' (rename [] perm caches))
      as [r'| | |];
    cbn [orel] in HS; try contradiction; cbn [bind orel]; trivial.
  destruct HS as [HC HS].
  destruct (sr_res r) as [[g data]|[errs|ix|ix]| |]; destruct (sr_res r') as [[g' data']|[errs'|ix'|ix']| |];
    try contradiction.
  - destruct HS as (Hg & Hf & Hf' & Hs). subst g'.
    assert (Ld : length (map snd data) = length sols).
    { rewrite map_length, <- (map_length fst), Hf. apply seq_length. }
    assert (Ed : data = combine (seq 0 (length sols)) (map snd data)).
    { rewrite <- Hf. symmetry. apply combine_fst_snd. }
    assert (Ed' : data' = combine (seq 0 (length sols)) (rename [] perm (map snd data))).
    { rewrite <- Hf', <- Hs. symmetry. apply combine_fst_snd. }
    pose proof (decode_mutations_set_perm perm sols (map snd data) Hp Ld) as HD.
    rewrite <- Ed, <- Ed' in HD.
    destruct (decode_mutations_set data sols) as [s1| | |];
      destruct (decode_mutations_set data' (rename empty_solution perm sols)) as [s1'| | |];
      cbn [erel] in HD; try contradiction; cbn [orel]; unfold cr_rel; cbn [cr_res cr_caches]; trivial.
    destruct HD as [HD1 HD2]. repeat split; assumption.
  - cbn [orel]. unfold cr_rel. cbn [cr_res]. exact I.
Qed.

Lemma build_view_perm perm s1 pre :
  is_perm perm (length s1) -> NoDup (set_pairs s1) ->
  view_eq (read_or_fallback (build_post_state s1) pre)
          (read_or_fallback (build_post_state (rename empty_solution perm s1)) pre).
Proof.
  intros Hp Hn c k n. apply post_view_order_independent; [|exact Hn].
  apply Permutation_sym. apply rename_perm. exact Hp.
Qed.

(* MUST 5 *)
Theorem two_pass_perm fuel lk ca sols st perm :
  is_perm perm (length sols) ->
  (forall r1 g1 sols1,
     check_and_compute fuel lk ca Outputs sols (state_view st) (read_or_fallback [] (state_view st))
                       (map (fun _ => []) sols) = Ok r1 ->
     cr_res r1 = Ok (g1, sols1) -> NoDup (set_pairs sols1)) ->
  orel (tp_rel perm) (two_pass fuel lk ca sols st) (two_pass fuel lk ca (rename empty_solution perm sols) st).
Proof.
  intros Hp Hnd. unfold two_pass.
  set (pre := state_view st) in *.
  rewrite (rename_map (fun _ => @nil (nat * sm)) empty_solution perm sols).
  change ((fun _ : solution => @nil (nat * sm)) empty_solution) with (@nil (nat * sm)).
  pose proof (check_and_compute_perm fuel lk ca Outputs sols pre (read_or_fallback [] pre) pre (read_or_fallback [] pre)
                (map (fun _ => []) sols) perm Hp (fun c k n => eq_refl) (fun c k n => eq_refl)) as H1.
  destruct (check_and_compute fuel lk ca Outputs sols pre (read_or_fallback [] pre) (map (fun _ => []) sols))
    as [r1| | |] eqn:E1;
    destruct (check_and_compute fuel lk ca Outputs (rename empty_solution perm sols) pre (read_or_fallback [] pre)
                (rename [] perm (map (fun _ => []) sols))) as [r1'| | |];
    cbn [orel] in H1; try contradiction; cbn [bind orel]; trivial.
  unfold cr_rel in H1.
  specialize (Hnd r1).
  destruct (cr_res r1) as [[g1 s1]|e1| |]; destruct (cr_res r1') as [[g1' s1']|e1'| |]; try contradiction.
  2:{ cbn [orel]. unfold tp_rel. cbn [tp_res]. exact I. }
  destruct H1 as (Hg & Hs & Hl & Hc). subst g1' s1'. rewrite Hc.
  specialize (Hnd g1 s1 eq_refl eq_refl).
  rewrite <- Hl in Hp.
  pose proof (check_and_compute_perm fuel lk ca Checks s1 pre (read_or_fallback (build_post_state s1) pre) pre
                (read_or_fallback (build_post_state (rename empty_solution perm s1)) pre)
                (cr_caches r1) perm Hp (fun c k n => eq_refl) (build_view_perm perm s1 pre Hp Hnd)) as H2.
  destruct (check_and_compute fuel lk ca Checks s1 pre (read_or_fallback (build_post_state s1) pre) (cr_caches r1))
    as [r2| | |];
    destruct (check_and_compute fuel lk ca Checks (rename empty_solution perm s1) pre
                (read_or_fallback (build_post_state (rename empty_solution perm s1)) pre)
                (rename [] perm (cr_caches r1))) as [r2'| | |];
    cbn [orel] in H2; try contradiction; cbn [bind orel]; trivial.
  unfold cr_rel in H2.
  destruct (cr_res r2) as [[g2 s2]|e2| |]; destruct (cr_res r2') as [[g2' s2']|e2'| |]; try contradiction.
  - destruct H2 as (Hg2 & Hs2 & _). subst g2' s2'. cbn [orel]. unfold tp_rel. cbn [tp_res]. split; reflexivity.
  - cbn [orel]. unfold tp_rel. cbn [tp_res]. exact I.
Qed.

(* the forward reading of two_pass_perm: an accepted set stays accepted in any order, with the same total gas
   and the same computed mutations per solution *)
Corollary two_pass_perm_ok fuel lk ca sols st perm r g s2 :
  is_perm perm (length sols) ->
  (forall r1 g1 sols1,
     check_and_compute fuel lk ca Outputs sols (state_view st) (read_or_fallback [] (state_view st))
                       (map (fun _ => []) sols) = Ok r1 ->
     cr_res r1 = Ok (g1, sols1) -> NoDup (set_pairs sols1)) ->
  two_pass fuel lk ca sols st = Ok r -> tp_res r = Ok (g, s2) ->
  exists r', two_pass fuel lk ca (map (fun j => nth j sols empty_solution) perm) st = Ok r' /\
             tp_res r' = Ok (g, map (fun j => nth j s2 empty_solution) perm).
Proof.
  intros Hp Hnd H Hr. pose proof (two_pass_perm fuel lk ca sols st perm Hp Hnd) as HT.
  rewrite H in HT. unfold rename in HT.
  destruct (two_pass fuel lk ca (map (fun j => nth j sols empty_solution) perm) st) as [r'| | |];
    cbn [orel] in HT; try contradiction.
  exists r'. split; [reflexivity|]. unfold tp_rel in HT. rewrite Hr in HT.
  destruct (tp_res r') as [[g' s2']| | |]; try contradiction.
  destruct HT as [Hg Hs]. subst g' s2'. reflexivity.
Qed.

(* ... and a rejected set stays rejected *)
Corollary two_pass_perm_err fuel lk ca sols st perm r e :
  is_perm perm (length sols) ->
  (forall r1 g1 sols1,
     check_and_compute fuel lk ca Outputs sols (state_view st) (read_or_fallback [] (state_view st))
                       (map (fun _ => []) sols) = Ok r1 ->
     cr_res r1 = Ok (g1, sols1) -> NoDup (set_pairs sols1)) ->
  two_pass fuel lk ca sols st = Ok r -> tp_res r = Err e ->
  exists r' e', two_pass fuel lk ca (map (fun j => nth j sols empty_solution) perm) st = Ok r' /\
                tp_res r' = Err e'.
Proof.
  intros Hp Hnd H Hr. pose proof (two_pass_perm fuel lk ca sols st perm Hp Hnd) as HT.
  rewrite H in HT. unfold rename in HT.
  destruct (two_pass fuel lk ca (map (fun j => nth j sols empty_solution) perm) st) as [r'| | |];
    cbn [orel] in HT; try contradiction.
  unfold tp_rel in HT. rewrite Hr in HT.
  destruct (tp_res r') as [[g' s2']|e'| |] eqn:E'; try contradiction.
  exists r', e'. split; [reflexivity|exact E'].
Qed.
