(* Postcard wire format (C17): varint / zig-zag round trips, decoders for the composite encodings,
   injectivity of the solution pre-image. *)
From Coq Require Import ZArith List Lia Bool.
From EB Require Import Types.Postcard.
Import ListNotations.
Open Scope list_scope.
Open Scope Z_scope.

(* ---------- varint ---------- *)

Lemma varint_go_roundtrip : forall fuel n rest,
  (0 < fuel)%nat -> 0 <= n < 128 ^ Z.of_nat fuel ->
  varint_dec fuel (varint_go fuel n ++ rest) = Some (n, rest).
Proof.
  induction fuel as [|f IH]; intros n rest Hf Hn; [lia|].
  rewrite Nat2Z.inj_succ, Z.pow_succ_r in Hn by lia.
  cbn [varint_go]. destruct (Z.ltb_spec n 128) as [Hlt|Hge].
  - cbn [app varint_dec]. destruct (Z.ltb_spec n 128); [reflexivity | lia].
  - cbn [app varint_dec].
    destruct (Z.ltb_spec (n mod 128 + 128) 128) as [Hc|_].
    { pose proof (Z.mod_pos_bound n 128 eq_refl). lia. }
    assert (Hf' : (0 < f)%nat).
    { destruct f; [|lia]. change (128 ^ Z.of_nat 0) with 1 in Hn. lia. }
    rewrite IH; [| exact Hf' | split; [apply Z.div_pos; lia | apply Z.div_lt_upper_bound; lia]].
    f_equal. f_equal. pose proof (Z.div_mod n 128). lia.
Qed.

Lemma varint_roundtrip : forall n rest,
  0 <= n < 2 ^ 64 -> varint_dec 10 (varint n ++ rest) = Some (n, rest).
Proof.
  intros n rest Hn. unfold varint. apply varint_go_roundtrip; [lia|].
  change (128 ^ Z.of_nat 10) with 1180591620717411303424.
  change (2 ^ 64) with 18446744073709551616 in Hn. lia.
Qed.

(* the encoding is self-delimiting, hence injective and prefix free *)
Lemma varint_prefix_free : forall n m r r',
  0 <= n < 2 ^ 64 -> 0 <= m < 2 ^ 64 -> varint n ++ r = varint m ++ r' -> n = m /\ r = r'.
Proof.
  intros n m r r' Hn Hm E.
  pose proof (varint_roundtrip n r Hn) as E1. rewrite E, (varint_roundtrip m r' Hm) in E1.
  injection E1 as E1 E2. auto.
Qed.

Lemma varint_go_length : forall fuel n, (length (varint_go fuel n) <= fuel)%nat.
Proof.
  induction fuel as [|f IH]; intros n; cbn [varint_go]; [cbn; lia|].
  destruct (n <? 128); cbn [length]; [lia|]. specialize (IH (n / 128)). lia.
Qed.

Lemma varint_length : forall n, (length (varint n) <= 10)%nat.
Proof. intros n. apply varint_go_length. Qed.

(* ---------- zig-zag ---------- *)

Lemma zigzag_roundtrip : forall z, i64 z -> unzigzag (zigzag z) = z /\ 0 <= zigzag z < 2 ^ 64.
Proof.
  intros z Hz. unfold i64, i64_min, i64_max, two63 in Hz.
  change (2 ^ 64) with 18446744073709551616.
  unfold zigzag, unzigzag. destruct (Z.ltb_spec z 0) as [Hneg|Hpos].
  - destruct (Z.eqb_spec ((-2 * z - 1) mod 2) 0) as [E|E]; split; try lia.
    + exfalso. revert E. Z.div_mod_to_equations. lia.
    + Z.div_mod_to_equations. lia.
  - destruct (Z.eqb_spec ((2 * z) mod 2) 0) as [E|E]; split; try lia.
    + Z.div_mod_to_equations. lia.
    + exfalso. revert E. Z.div_mod_to_equations. lia.
Qed.

(* ---------- decoders ---------- *)

Definition dec_i64 (bs : list Z) : option (Z * list Z) :=
  match varint_dec 10 bs with Some (n, r) => Some (unzigzag n, r) | None => None end.

Definition dec_u8 (bs : list Z) : option (Z * list Z) :=
  match bs with b :: r => Some (b, r) | [] => None end.

(* n items, one after the other (n is the fuel) *)
Fixpoint dec_n {A} (d : list Z -> option (A * list Z)) (n : nat) (bs : list Z) : option (list A * list Z) :=
  match n with
  | O => Some ([], bs)
  | S k => match d bs with
           | Some (x, r) => match dec_n d k r with
                            | Some (xs, r') => Some (x :: xs, r')
                            | None => None
                            end
           | None => None
           end
  end.

Definition dec_seq {A} (d : list Z -> option (A * list Z)) (bs : list Z) : option (list A * list Z) :=
  match varint_dec 10 bs with Some (n, r) => dec_n d (Z.to_nat n) r | None => None end.

Definition dec_words : list Z -> option (list Z * list Z) := dec_seq dec_i64.
Definition dec_bytes : list Z -> option (list Z * list Z) := dec_seq dec_u8.

Definition dec_mutation (bs : list Z) : option (mutation * list Z) :=
  match dec_words bs with
  | Some (k, r) => match dec_words r with
                   | Some (v, r') => Some ({| m_key := k; m_value := v |}, r')
                   | None => None
                   end
  | None => None
  end.

Definition dec_solution (bs : list Z) : option (solution * list Z) :=
  match dec_bytes bs with
  | Some (c, r1) =>
    match dec_bytes r1 with
    | Some (p, r2) =>
      match dec_seq dec_words r2 with
      | Some (d, r3) =>
        match dec_seq dec_mutation r3 with
        | Some (ms, r4) => Some ({| sol_contract := c; sol_predicate := p; sol_data := d; sol_muts := ms |}, r4)
        | None => None
        end
      | None => None
      end
    | None => None
    end
  | None => None
  end.

(* ---------- well-formedness (what the Rust types guarantee) ---------- *)

Definition wf_words (ws : list Z) : Prop := Forall i64 ws /\ zlen ws < 2 ^ 64.
Definition wf_mutation (m : mutation) : Prop := wf_words (m_key m) /\ wf_words (m_value m).
Definition wf_address (a : list Z) : Prop := length a = 32%nat /\ Forall byte a.
Definition wf_solution (s : solution) : Prop :=
  wf_address (sol_contract s) /\ wf_address (sol_predicate s) /\
  Forall wf_words (sol_data s) /\ zlen (sol_data s) < 2 ^ 64 /\
  Forall wf_mutation (sol_muts s) /\ zlen (sol_muts s) < 2 ^ 64.

(* ---------- round trips ---------- *)

Lemma dec_i64_roundtrip : forall z rest, i64 z -> dec_i64 (pc_i64 z ++ rest) = Some (z, rest).
Proof.
  intros z rest Hz. destruct (zigzag_roundtrip z Hz) as [E Hr].
  unfold dec_i64, pc_i64. rewrite (varint_roundtrip (zigzag z) rest Hr), E. reflexivity.
Qed.

Lemma dec_u8_roundtrip : forall b rest, dec_u8 ([b] ++ rest) = Some (b, rest).
Proof. reflexivity. Qed.

Lemma dec_n_roundtrip {A} (f : A -> list Z) (d : list Z -> option (A * list Z)) (P : A -> Prop) :
  (forall x rest, P x -> d (f x ++ rest) = Some (x, rest)) ->
  forall l rest, Forall P l -> dec_n d (length l) (flat_map f l ++ rest) = Some (l, rest).
Proof.
  intros Hd. induction l as [|x l IH]; intros rest Hf; [reflexivity|].
  inversion Hf as [|x0 l0 Px Pl]; subst.
  cbn [length flat_map dec_n]. rewrite <- app_assoc, (Hd x _ Px), (IH rest Pl). reflexivity.
Qed.

Lemma dec_seq_roundtrip {A} (f : A -> list Z) (d : list Z -> option (A * list Z)) (P : A -> Prop) :
  (forall x rest, P x -> d (f x ++ rest) = Some (x, rest)) ->
  forall l rest, Forall P l -> zlen l < 2 ^ 64 ->
  dec_seq d (pc_seq f l ++ rest) = Some (l, rest).
Proof.
  intros Hd l rest Hf Hl. unfold dec_seq, pc_seq. rewrite <- app_assoc.
  rewrite varint_roundtrip by (unfold zlen in *; lia).
  unfold zlen. rewrite Nat2Z.id. apply (dec_n_roundtrip f d P Hd l rest Hf).
Qed.

Lemma dec_words_roundtrip : forall ws rest, wf_words ws -> dec_words (pc_words ws ++ rest) = Some (ws, rest).
Proof.
  intros ws rest [Hf Hl]. unfold dec_words, pc_words.
  apply (dec_seq_roundtrip pc_i64 dec_i64 i64 dec_i64_roundtrip ws rest Hf Hl).
Qed.

Lemma dec_bytes_roundtrip : forall bs rest, zlen bs < 2 ^ 64 -> dec_bytes (pc_bytes bs ++ rest) = Some (bs, rest).
Proof.
  intros bs rest Hl. unfold dec_bytes, pc_bytes.
  apply (dec_seq_roundtrip (fun b => [b]) dec_u8 (fun _ => True)); auto.
  apply Forall_forall. auto.
Qed.

Lemma dec_mutation_roundtrip : forall m rest, wf_mutation m -> dec_mutation (pc_mutation m ++ rest) = Some (m, rest).
Proof.
  intros [k v] rest [Hk Hv]. cbn [m_key m_value] in *. unfold dec_mutation, pc_mutation. cbn [m_key m_value].
  rewrite <- app_assoc, (dec_words_roundtrip k _ Hk), (dec_words_roundtrip v _ Hv). reflexivity.
Qed.

Lemma wf_address_len : forall a, wf_address a -> zlen a < 2 ^ 64.
Proof. intros a [Hl _]. unfold zlen. rewrite Hl. reflexivity. Qed.

Lemma dec_solution_roundtrip : forall s rest,
  wf_solution s -> dec_solution (pc_solution s ++ rest) = Some (s, rest).
Proof.
  intros [c p d ms] rest [Hc [Hp [Hd [Hdl [Hm Hml]]]]]. cbn [sol_contract sol_predicate sol_data sol_muts] in *.
  unfold dec_solution, pc_solution. cbn [sol_contract sol_predicate sol_data sol_muts].
  rewrite <- !app_assoc.
  rewrite (dec_bytes_roundtrip c _ (wf_address_len c Hc)).
  rewrite (dec_bytes_roundtrip p _ (wf_address_len p Hp)).
  rewrite (dec_seq_roundtrip pc_words dec_words wf_words dec_words_roundtrip d _ Hd Hdl).
  rewrite (dec_seq_roundtrip pc_mutation dec_mutation wf_mutation dec_mutation_roundtrip ms _ Hm Hml).
  reflexivity.
Qed.

(* ---------- injectivity / prefix freeness ---------- *)

Lemma dec_prefix_free {A} (f : A -> list Z) (d : list Z -> option (A * list Z)) (P : A -> Prop) :
  (forall x rest, P x -> d (f x ++ rest) = Some (x, rest)) ->
  forall x y r r', P x -> P y -> f x ++ r = f y ++ r' -> x = y /\ r = r'.
Proof.
  intros Hd x y r r' Px Py E. pose proof (Hd x r Px) as E1. rewrite E, (Hd y r' Py) in E1.
  injection E1 as E1 E2. auto.
Qed.

Lemma dec_injective {A} (f : A -> list Z) (d : list Z -> option (A * list Z)) (P : A -> Prop) :
  (forall x rest, P x -> d (f x ++ rest) = Some (x, rest)) ->
  forall x y, P x -> P y -> f x = f y -> x = y.
Proof.
  intros Hd x y Px Py E.
  apply (dec_prefix_free f d P Hd x y [] [] Px Py). rewrite E. reflexivity.
Qed.

Lemma pc_i64_injective : forall a b, i64 a -> i64 b -> pc_i64 a = pc_i64 b -> a = b.
Proof. exact (dec_injective pc_i64 dec_i64 i64 dec_i64_roundtrip). Qed.

Lemma pc_words_injective : forall a b, wf_words a -> wf_words b -> pc_words a = pc_words b -> a = b.
Proof. exact (dec_injective pc_words dec_words wf_words dec_words_roundtrip). Qed.

Lemma pc_mutation_injective : forall a b, wf_mutation a -> wf_mutation b -> pc_mutation a = pc_mutation b -> a = b.
Proof. exact (dec_injective pc_mutation dec_mutation wf_mutation dec_mutation_roundtrip). Qed.

Lemma solution_preimage_prefix_free : forall s s' r r',
  wf_solution s -> wf_solution s' -> pc_solution s ++ r = pc_solution s' ++ r' -> s = s' /\ r = r'.
Proof. exact (dec_prefix_free pc_solution dec_solution wf_solution dec_solution_roundtrip). Qed.

Lemma solution_preimage_injective : forall s s',
  wf_solution s -> wf_solution s' -> pc_solution s = pc_solution s' -> s = s'.
Proof. exact (dec_injective pc_solution dec_solution wf_solution dec_solution_roundtrip). Qed.
