(* Postcard wire format (C17): varint / zig-zag round trips, decoders for the composite encodings,
   injectivity of the solution pre-image. *)
From Coq Require Import ZArith List Lia Bool.
From EB Require Import Types.Postcard.
Import ListNotations.
Open Scope list_scope.
Open Scope Z_scope.

(* ---------- varint ---------- *)

Lemma varint_dec_lim_S : forall m f b r,
  varint_dec_lim m (S f) (b :: r) =
  if b <? 128
  then match f with O => if b <=? m then Some (b, r) else None | S _ => Some (b, r) end
  else match varint_dec_lim m f r with Some (hi, r') => Some ((b - 128) + 128 * hi, r') | None => None end.
Proof. reflexivity. Qed.

Lemma pow128_succ : forall f : nat, 128 ^ Z.of_nat (S f) = 128 * 128 ^ Z.of_nat f.
Proof. intros f. rewrite Nat2Z.inj_succ, Z.pow_succ_r by lia. reflexivity. Qed.

Lemma pow128_pos : forall f : nat, 0 < 128 ^ Z.of_nat f.
Proof. intros f. apply Z.pow_pos_nonneg; lia. Qed.

(* what is written with at most `fuel` bytes and fits the last byte limit `m` is read back: the values below
   128^(fuel-1) * (m+1), i.e. below 2^64 for (fuel, m) = (10, 1) and below 2^16 for (3, 3) *)
Lemma varint_lim_roundtrip : forall m fuel n rest,
  (0 < fuel)%nat -> 0 <= m < 128 -> 0 <= n < 128 ^ (Z.of_nat fuel - 1) * (m + 1) ->
  varint_dec_lim m fuel (varint_go fuel n ++ rest) = Some (n, rest).
Proof.
  intros m. induction fuel as [|f IH]; intros n rest Hf Hm Hn; [lia|].
  replace (Z.of_nat (S f) - 1) with (Z.of_nat f) in Hn by lia.
  cbn [varint_go]. destruct (Z.ltb_spec n 128) as [Hlt|Hge].
  - cbn [app]. rewrite varint_dec_lim_S. destruct (Z.ltb_spec n 128) as [_|Hc]; [|lia].
    destruct f as [|f']; [|reflexivity].
    change (128 ^ Z.of_nat 0) with 1 in Hn. destruct (Z.leb_spec n m) as [_|Hc]; [reflexivity | lia].
  - cbn [app]. rewrite varint_dec_lim_S.
    destruct (Z.ltb_spec (n mod 128 + 128) 128) as [Hc|_].
    { pose proof (Z.mod_pos_bound n 128 eq_refl). lia. }
    destruct f as [|f'].
    { change (128 ^ Z.of_nat 0) with 1 in Hn. lia. }
    rewrite pow128_succ in Hn.
    rewrite IH.
    + f_equal. f_equal. pose proof (Z.div_mod n 128). lia.
    + lia.
    + exact Hm.
    + replace (Z.of_nat (S f') - 1) with (Z.of_nat f') by lia.
      split; [apply Z.div_pos; lia | apply Z.div_lt_upper_bound; lia].
Qed.

Lemma varint_roundtrip : forall n rest,
  0 <= n < 2 ^ 64 -> varint_dec 10 (varint n ++ rest) = Some (n, rest).
Proof.
  intros n rest Hn. unfold varint, varint_dec. change (max_of_last_byte 10) with 1.
  apply varint_lim_roundtrip; [lia | lia |].
  change (128 ^ (Z.of_nat 10 - 1) * (1 + 1)) with 18446744073709551616.
  change (2 ^ 64) with 18446744073709551616 in Hn. lia.
Qed.

(* the encoding is self-delimiting, hence injective and prefix free *)
Lemma varint_prefix_free : forall n m r r',
  0 <= n < 2 ^ 64 -> 0 <= m < 2 ^ 64 -> varint n ++ r = varint m ++ r' -> n = m /\ r = r'.
Proof.
  intros n m r r' Hn Hm E.
  pose proof (varint_roundtrip n r Hn) as E1. rewrite E, (varint_roundtrip m r' Hm) in E1.
  injection E1 as E1 E2. auto.
Qed.

Lemma varint_go_length : forall fuel n, (length (varint_go fuel n) <= fuel)%nat.
Proof.
  induction fuel as [|f IH]; intros n; cbn [varint_go]; [cbn; lia|].
  destruct (n <? 128); cbn [length]; [lia|]. specialize (IH (n / 128)). lia.
Qed.

Lemma varint_length : forall n, (length (varint n) <= 10)%nat.
Proof. intros n. apply varint_go_length. Qed.

(* ---------- zig-zag ---------- *)

Lemma zigzag_roundtrip : forall z, i64 z -> unzigzag (zigzag z) = z /\ 0 <= zigzag z < 2 ^ 64.
Proof.
  intros z Hz. unfold i64, i64_min, i64_max, two63 in Hz.
  change (2 ^ 64) with 18446744073709551616.
  unfold zigzag, unzigzag. destruct (Z.ltb_spec z 0) as [Hneg|Hpos].
  - destruct (Z.eqb_spec ((-2 * z - 1) mod 2) 0) as [E|E]; split; try lia.
    + exfalso. revert E. Z.div_mod_to_equations. lia.
    + Z.div_mod_to_equations. lia.
  - destruct (Z.eqb_spec ((2 * z) mod 2) 0) as [E|E]; split; try lia.
    + Z.div_mod_to_equations. lia.
    + exfalso. revert E. Z.div_mod_to_equations. lia.
Qed.

(* ---------- decoders ---------- *)

Definition dec_i64 (bs : list Z) : option (Z * list Z) :=
  match varint_dec 10 bs with Some (n, r) => Some (unzigzag n, r) | None => None end.

Definition dec_u8 (bs : list Z) : option (Z * list Z) :=
  match bs with b :: r => Some (b, r) | [] => None end.

(* n items, one after the other (n is the fuel): the specification of a sequence body *)
Fixpoint dec_n {A} (d : list Z -> option (A * list Z)) (n : nat) (bs : list Z) : option (list A * list Z) :=
  match n with
  | O => Some ([], bs)
  | S k => match d bs with
           | Some (x, r) => match dec_n d k r with
                            | Some (xs, r') => Some (x :: xs, r')
                            | None => None
                            end
           | None => None
           end
  end.

(* n items (n is a number READ FROM THE INPUT, possibly huge), by structural recursion on `fuel`, a list at least as
   long as the input: every item of every sequence of these types takes at least one byte, so more items than
   remaining bytes cannot be there and postcard runs into the end of the input (DeserializeUnexpectedEnd) *)
Fixpoint dec_cnt {A} (d : list Z -> option (A * list Z)) (fuel : list Z) (n : Z) (bs : list Z)
  : option (list A * list Z) :=
  if n <=? 0 then Some ([], bs) else
  match fuel with
  | [] => None
  | _ :: k => match d bs with
              | Some (x, r) => match dec_cnt d k (n - 1) r with
                               | Some (xs, r') => Some (x :: xs, r')
                               | None => None
                               end
              | None => None
              end
  end.

(* varint(usize) count, then the items; the unread input itself is the fuel *)
Definition dec_seq {A} (d : list Z -> option (A * list Z)) (bs : list Z) : option (list A * list Z) :=
  match varint_dec 10 bs with Some (n, r) => dec_cnt d r n r | None => None end.

(* the plain reading (the count as fuel): equal to dec_seq for item decoders that take at least one byte
   (dec_seq_eq_naive below), but not computable on a damaged count *)
Definition dec_seq_naive {A} (d : list Z -> option (A * list Z)) (bs : list Z) : option (list A * list Z) :=
  match varint_dec 10 bs with Some (n, r) => dec_n d (Z.to_nat n) r | None => None end.

Definition dec_words : list Z -> option (list Z * list Z) := dec_seq dec_i64.
Definition dec_bytes : list Z -> option (list Z * list Z) := dec_seq dec_u8.

Definition dec_mutation (bs : list Z) : option (mutation * list Z) :=
  match dec_words bs with
  | Some (k, r) => match dec_words r with
                   | Some (v, r') => Some ({| m_key := k; m_value := v |}, r')
                   | None => None
                   end
  | None => None
  end.

Definition dec_solution (bs : list Z) : option (solution * list Z) :=
  match dec_bytes bs with
  | Some (c, r1) =>
    match dec_bytes r1 with
    | Some (p, r2) =>
      match dec_seq dec_words r2 with
      | Some (d, r3) =>
        match dec_seq dec_mutation r3 with
        | Some (ms, r4) => Some ({| sol_contract := c; sol_predicate := p; sol_data := d; sol_muts := ms |}, r4)
        | None => None
        end
      | None => None
      end
    | None => None
    end
  | None => None
  end.

(* ---------- decoders only take a non-empty prefix of the input ---------- *)

(* r is what is left of bs after reading at least one byte *)
Definition took (bs r : list Z) : Prop := exists pre, bs = pre ++ r /\ (0 < length pre)%nat.
Definition consumes {A} (d : list Z -> option (A * list Z)) : Prop :=
  forall bs x r, d bs = Some (x, r) -> took bs r.

Lemma took_trans : forall a b c, took a b -> took b c -> took a c.
Proof.
  intros a b c (p1 & E1 & L1) (p2 & E2 & L2). exists (p1 ++ p2). subst a b.
  rewrite <- app_assoc. split; [reflexivity | rewrite app_length; lia].
Qed.

Lemma took_sfx : forall a b c, took a b -> (exists pre, b = pre ++ c) -> took a c.
Proof.
  intros a b c (p1 & E1 & L1) (p2 & E2). exists (p1 ++ p2). subst a b.
  rewrite <- app_assoc. split; [reflexivity | rewrite app_length; lia].
Qed.

Lemma took_length : forall a b, took a b -> (length b < length a)%nat.
Proof. intros a b (p & E & L). subst a. rewrite app_length. lia. Qed.

(* a varint takes between 1 and `fuel` bytes *)
Lemma varint_lim_prefix : forall m fuel bs n r,
  varint_dec_lim m fuel bs = Some (n, r) -> exists pre, bs = pre ++ r /\ (1 <= length pre <= fuel)%nat.
Proof.
  intros m. induction fuel as [|f IH]; intros bs n r E; [discriminate|].
  destruct bs as [|b bs]; [discriminate|]. rewrite varint_dec_lim_S in E.
  destruct (b <? 128).
  - assert (E' : bs = r).
    { destruct f; [destruct (b <=? m); [|discriminate]|]; injection E as _ E; exact E. }
    subst r. exists [b]. split; [reflexivity | cbn [length]; lia].
  - destruct (varint_dec_lim m f bs) as [[hi r']|] eqn:E'; [|discriminate].
    injection E as _ E. subst r'. destruct (IH bs hi r E') as (pre & Ep & Lp).
    exists (b :: pre). subst bs. split; [reflexivity | cbn [length]; lia].
Qed.

Lemma varint_dec_consumes : forall fuel, consumes (varint_dec fuel).
Proof.
  intros fuel bs n r E. unfold varint_dec in E.
  destruct (varint_lim_prefix _ fuel bs n r E) as (pre & Ep & Lp). exists pre. split; [exact Ep | lia].
Qed.

(* a decoded varint is below 128^(fuel-1) * (m+1) when the input consists of bytes *)
Lemma varint_lim_range : forall m fuel bs n r,
  0 <= m < 128 -> Forall byte bs -> varint_dec_lim m fuel bs = Some (n, r) ->
  0 <= n < 128 ^ (Z.of_nat fuel - 1) * (m + 1).
Proof.
  intros m. induction fuel as [|f IH]; intros bs n r Hm Hb E; [discriminate|].
  destruct bs as [|b bs]; [discriminate|]. inversion Hb as [|b0 l0 Hb0 Hbs]; subst.
  rewrite varint_dec_lim_S in E. unfold byte in Hb0.
  replace (Z.of_nat (S f) - 1) with (Z.of_nat f) by lia.
  destruct (Z.ltb_spec b 128) as [Hlt|Hge].
  - destruct f as [|f'].
    + destruct (Z.leb_spec b m) as [Hle|_]; [|discriminate]. injection E as E _. subst n.
      change (128 ^ Z.of_nat 0) with 1. lia.
    + injection E as E _. subst n. rewrite pow128_succ. pose proof (pow128_pos f') as Hp.
      split; [lia|]. nia.
  - destruct (varint_dec_lim m f bs) as [[hi r']|] eqn:E'; [|discriminate].
    injection E as E _. change (b - 128 + 128 * hi = n) in E. destruct f as [|f']; [discriminate|].
    pose proof (IH bs hi r' Hm Hbs E') as Hhi.
    replace (Z.of_nat (S f') - 1) with (Z.of_nat f') in Hhi by lia.
    rewrite pow128_succ. lia.
Qed.

Lemma dec_i64_consumes : consumes dec_i64.
Proof.
  intros bs x r E. unfold dec_i64 in E. destruct (varint_dec 10 bs) as [[n r']|] eqn:E'; [|discriminate].
  injection E as _ E. subst r'. exact (varint_dec_consumes 10 bs n r E').
Qed.

Lemma dec_u8_consumes : consumes dec_u8.
Proof.
  intros bs x r E. destruct bs as [|b bs]; [discriminate|]. injection E as _ E. subst r.
  exists [b]. split; [reflexivity | cbn [length]; lia].
Qed.

Lemma dec_cnt_unfold {A} (d : list Z -> option (A * list Z)) : forall fuel n bs,
  dec_cnt d fuel n bs =
  if n <=? 0 then Some ([], bs) else
  match fuel with
  | [] => None
  | _ :: k => match d bs with
              | Some (x, r) => match dec_cnt d k (n - 1) r with Some (xs, r') => Some (x :: xs, r') | None => None end
              | None => None
              end
  end.
Proof. intros fuel n bs. destruct fuel; reflexivity. Qed.

(* whatever dec_cnt returns is what the plain reading returns *)
Lemma dec_cnt_some {A} (d : list Z -> option (A * list Z)) : forall fuel n bs res,
  dec_cnt d fuel n bs = Some res -> dec_n d (Z.to_nat n) bs = Some res.
Proof.
  induction fuel as [|b k IH]; intros n bs res E; rewrite dec_cnt_unfold in E;
    destruct (Z.leb_spec n 0) as [Hn|Hn].
  - replace (Z.to_nat n) with O by lia. exact E.
  - discriminate.
  - replace (Z.to_nat n) with O by lia. exact E.
  - replace (Z.to_nat n) with (S (Z.to_nat (n - 1))) by lia. cbn [dec_n].
    destruct (d bs) as [[x r]|]; [|discriminate].
    destruct (dec_cnt d k (n - 1) r) as [[xs r']|] eqn:E1; [|discriminate].
    rewrite (IH (n - 1) r (xs, r') E1). exact E.
Qed.

(* with enough fuel, and items that take at least one byte, dec_cnt IS the plain reading *)
Lemma dec_cnt_eq {A} (d : list Z -> option (A * list Z)) : consumes d ->
  forall fuel n bs, (length bs <= length fuel)%nat -> dec_cnt d fuel n bs = dec_n d (Z.to_nat n) bs.
Proof.
  intros Hc. induction fuel as [|b k IH]; intros n bs L; rewrite dec_cnt_unfold;
    destruct (Z.leb_spec n 0) as [Hn|Hn].
  - replace (Z.to_nat n) with O by lia. reflexivity.
  - replace (Z.to_nat n) with (S (Z.to_nat (n - 1))) by lia. cbn [dec_n].
    destruct (d bs) as [[x r]|] eqn:E; [|reflexivity].
    apply Hc in E. apply took_length in E. cbn [length] in L. lia.
  - replace (Z.to_nat n) with O by lia. reflexivity.
  - replace (Z.to_nat n) with (S (Z.to_nat (n - 1))) by lia. cbn [dec_n].
    destruct (d bs) as [[x r]|] eqn:E; [|reflexivity].
    rewrite IH; [reflexivity|]. apply Hc in E. apply took_length in E. cbn [length] in L. lia.
Qed.

Lemma dec_seq_eq_naive {A} (d : list Z -> option (A * list Z)) :
  consumes d -> forall bs, dec_seq d bs = dec_seq_naive d bs.
Proof.
  intros Hc bs. unfold dec_seq, dec_seq_naive. destruct (varint_dec 10 bs) as [[n r]|]; [|reflexivity].
  apply (dec_cnt_eq d Hc). lia.
Qed.

(* a claimed count above the number of remaining bytes is rejected (after at most that many item reads) *)
Lemma dec_cnt_short {A} (d : list Z -> option (A * list Z)) : forall fuel n bs,
  Z.of_nat (length fuel) < n -> dec_cnt d fuel n bs = None.
Proof.
  induction fuel as [|b k IH]; intros n bs L; rewrite dec_cnt_unfold; cbn [length] in L;
    destruct (Z.leb_spec n 0) as [Hn|Hn]; try lia; [reflexivity|].
  destruct (d bs) as [[x r]|]; [|reflexivity]. rewrite IH by lia. reflexivity.
Qed.

Lemma dec_n_sfx {A} (d : list Z -> option (A * list Z)) : consumes d ->
  forall n bs xs r, dec_n d n bs = Some (xs, r) -> exists pre, bs = pre ++ r.
Proof.
  intros Hc. induction n as [|n IH]; intros bs xs r E; cbn [dec_n] in E.
  - injection E as _ E. subst r. exists []. reflexivity.
  - destruct (d bs) as [[x r1]|] eqn:E1; [|discriminate].
    destruct (dec_n d n r1) as [[xs' r2]|] eqn:E2; [|discriminate]. injection E as _ E. subst r2.
    destruct (Hc bs x r1 E1) as (p1 & Ep1 & _). destruct (IH r1 xs' r E2) as (p2 & Ep2).
    exists (p1 ++ p2). subst bs r1. rewrite <- app_assoc. reflexivity.
Qed.

Lemma dec_seq_consumes {A} (d : list Z -> option (A * list Z)) : consumes d -> consumes (dec_seq d).
Proof.
  intros Hc bs xs r E. unfold dec_seq in E. destruct (varint_dec 10 bs) as [[n r1]|] eqn:E1; [|discriminate].
  apply dec_cnt_some in E. apply (took_sfx bs r1 r).
  - exact (varint_dec_consumes 10 bs n r1 E1).
  - exact (dec_n_sfx d Hc _ _ _ _ E).
Qed.

Lemma dec_words_consumes : consumes dec_words.
Proof. exact (dec_seq_consumes dec_i64 dec_i64_consumes). Qed.

Lemma dec_bytes_consumes : consumes dec_bytes.
Proof. exact (dec_seq_consumes dec_u8 dec_u8_consumes). Qed.

Lemma dec_mutation_consumes : consumes dec_mutation.
Proof.
  intros bs x r E. unfold dec_mutation in E.
  destruct (dec_words bs) as [[k r1]|] eqn:E1; [|discriminate].
  destruct (dec_words r1) as [[v r2]|] eqn:E2; [|discriminate]. injection E as _ E. subst r2.
  exact (took_trans _ _ _ (dec_words_consumes _ _ _ E1) (dec_words_consumes _ _ _ E2)).
Qed.

Lemma dec_solution_consumes : consumes dec_solution.
Proof.
  intros bs x r E. unfold dec_solution in E.
  destruct (dec_bytes bs) as [[c r1]|] eqn:E1; [|discriminate].
  destruct (dec_bytes r1) as [[p r2]|] eqn:E2; [|discriminate].
  destruct (dec_seq dec_words r2) as [[d r3]|] eqn:E3; [|discriminate].
  destruct (dec_seq dec_mutation r3) as [[ms r4]|] eqn:E4; [|discriminate]. injection E as _ E. subst r4.
  apply (took_trans _ r1); [exact (dec_bytes_consumes _ _ _ E1)|].
  apply (took_trans _ r2); [exact (dec_bytes_consumes _ _ _ E2)|].
  apply (took_trans _ r3); [exact (dec_seq_consumes _ dec_words_consumes _ _ _ E3)|].
  exact (dec_seq_consumes _ dec_mutation_consumes _ _ _ E4).
Qed.

(* ---------- well-formedness (what the Rust types guarantee) ---------- *)

Definition wf_words (ws : list Z) : Prop := Forall i64 ws /\ zlen ws < 2 ^ 64.
Definition wf_mutation (m : mutation) : Prop := wf_words (m_key m) /\ wf_words (m_value m).
Definition wf_address (a : list Z) : Prop := length a = 32%nat /\ Forall byte a.
Definition wf_solution (s : solution) : Prop :=
  wf_address (sol_contract s) /\ wf_address (sol_predicate s) /\
  Forall wf_words (sol_data s) /\ zlen (sol_data s) < 2 ^ 64 /\
  Forall wf_mutation (sol_muts s) /\ zlen (sol_muts s) < 2 ^ 64.

(* ---------- round trips ---------- *)

Lemma dec_i64_roundtrip : forall z rest, i64 z -> dec_i64 (pc_i64 z ++ rest) = Some (z, rest).
Proof.
  intros z rest Hz. destruct (zigzag_roundtrip z Hz) as [E Hr].
  unfold dec_i64, pc_i64. rewrite (varint_roundtrip (zigzag z) rest Hr), E. reflexivity.
Qed.

Lemma dec_u8_roundtrip : forall b rest, dec_u8 ([b] ++ rest) = Some (b, rest).
Proof. reflexivity. Qed.

Lemma dec_n_roundtrip {A} (f : A -> list Z) (d : list Z -> option (A * list Z)) (P : A -> Prop) :
  (forall x rest, P x -> d (f x ++ rest) = Some (x, rest)) ->
  forall l rest, Forall P l -> dec_n d (length l) (flat_map f l ++ rest) = Some (l, rest).
Proof.
  intros Hd. induction l as [|x l IH]; intros rest Hf; [reflexivity|].
  inversion Hf as [|x0 l0 Px Pl]; subst.
  cbn [length flat_map dec_n]. rewrite <- app_assoc, (Hd x _ Px), (IH rest Pl). reflexivity.
Qed.

(* (the item decoder must take at least one byte per item: then the unread input is enough fuel) *)
Lemma dec_seq_roundtrip {A} (f : A -> list Z) (d : list Z -> option (A * list Z)) (P : A -> Prop) :
  consumes d ->
  (forall x rest, P x -> d (f x ++ rest) = Some (x, rest)) ->
  forall l rest, Forall P l -> zlen l < 2 ^ 64 ->
  dec_seq d (pc_seq f l ++ rest) = Some (l, rest).
Proof.
  intros Hc Hd l rest Hf Hl. rewrite (dec_seq_eq_naive d Hc). unfold dec_seq_naive, pc_seq. rewrite <- app_assoc.
  rewrite varint_roundtrip by (unfold zlen in *; lia).
  unfold zlen. rewrite Nat2Z.id. apply (dec_n_roundtrip f d P Hd l rest Hf).
Qed.

Lemma dec_words_roundtrip : forall ws rest, wf_words ws -> dec_words (pc_words ws ++ rest) = Some (ws, rest).
Proof.
  intros ws rest [Hf Hl]. unfold dec_words, pc_words.
  apply (dec_seq_roundtrip pc_i64 dec_i64 i64 dec_i64_consumes dec_i64_roundtrip ws rest Hf Hl).
Qed.

Lemma dec_bytes_roundtrip : forall bs rest, zlen bs < 2 ^ 64 -> dec_bytes (pc_bytes bs ++ rest) = Some (bs, rest).
Proof.
  intros bs rest Hl. unfold dec_bytes, pc_bytes.
  apply (dec_seq_roundtrip (fun b => [b]) dec_u8 (fun _ => True) dec_u8_consumes); auto.
  apply Forall_forall. auto.
Qed.

Lemma dec_mutation_roundtrip : forall m rest, wf_mutation m -> dec_mutation (pc_mutation m ++ rest) = Some (m, rest).
Proof.
  intros [k v] rest [Hk Hv]. cbn [m_key m_value] in *. unfold dec_mutation, pc_mutation. cbn [m_key m_value].
  rewrite <- app_assoc, (dec_words_roundtrip k _ Hk), (dec_words_roundtrip v _ Hv). reflexivity.
Qed.

Lemma wf_address_len : forall a, wf_address a -> zlen a < 2 ^ 64.
Proof. intros a [Hl _]. unfold zlen. rewrite Hl. reflexivity. Qed.

Lemma dec_solution_roundtrip : forall s rest,
  wf_solution s -> dec_solution (pc_solution s ++ rest) = Some (s, rest).
Proof.
  intros [c p d ms] rest [Hc [Hp [Hd [Hdl [Hm Hml]]]]]. cbn [sol_contract sol_predicate sol_data sol_muts] in *.
  unfold dec_solution, pc_solution. cbn [sol_contract sol_predicate sol_data sol_muts].
  rewrite <- !app_assoc.
  rewrite (dec_bytes_roundtrip c _ (wf_address_len c Hc)).
  rewrite (dec_bytes_roundtrip p _ (wf_address_len p Hp)).
  rewrite (dec_seq_roundtrip pc_words dec_words wf_words dec_words_consumes dec_words_roundtrip d _ Hd Hdl).
  rewrite (dec_seq_roundtrip pc_mutation dec_mutation wf_mutation dec_mutation_consumes dec_mutation_roundtrip ms _ Hm Hml).
  reflexivity.
Qed.

(* ---------- injectivity / prefix freeness ---------- *)

Lemma dec_prefix_free {A} (f : A -> list Z) (d : list Z -> option (A * list Z)) (P : A -> Prop) :
  (forall x rest, P x -> d (f x ++ rest) = Some (x, rest)) ->
  forall x y r r', P x -> P y -> f x ++ r = f y ++ r' -> x = y /\ r = r'.
Proof.
  intros Hd x y r r' Px Py E. pose proof (Hd x r Px) as E1. rewrite E, (Hd y r' Py) in E1.
  injection E1 as E1 E2. auto.
Qed.

Lemma dec_injective {A} (f : A -> list Z) (d : list Z -> option (A * list Z)) (P : A -> Prop) :
  (forall x rest, P x -> d (f x ++ rest) = Some (x, rest)) ->
  forall x y, P x -> P y -> f x = f y -> x = y.
Proof.
  intros Hd x y Px Py E.
  apply (dec_prefix_free f d P Hd x y [] [] Px Py). rewrite E. reflexivity.
Qed.

Lemma pc_i64_injective : forall a b, i64 a -> i64 b -> pc_i64 a = pc_i64 b -> a = b.
Proof. exact (dec_injective pc_i64 dec_i64 i64 dec_i64_roundtrip). Qed.

Lemma pc_words_injective : forall a b, wf_words a -> wf_words b -> pc_words a = pc_words b -> a = b.
Proof. exact (dec_injective pc_words dec_words wf_words dec_words_roundtrip). Qed.

Lemma pc_mutation_injective : forall a b, wf_mutation a -> wf_mutation b -> pc_mutation a = pc_mutation b -> a = b.
Proof. exact (dec_injective pc_mutation dec_mutation wf_mutation dec_mutation_roundtrip). Qed.

Lemma solution_preimage_prefix_free : forall s s' r r',
  wf_solution s -> wf_solution s' -> pc_solution s ++ r = pc_solution s' ++ r' -> s = s' /\ r = r'.
Proof. exact (dec_prefix_free pc_solution dec_solution wf_solution dec_solution_roundtrip). Qed.

Lemma solution_preimage_injective : forall s s',
  wf_solution s -> wf_solution s' -> pc_solution s = pc_solution s' -> s = s'.
Proof. exact (dec_injective pc_solution dec_solution wf_solution dec_solution_roundtrip). Qed.
