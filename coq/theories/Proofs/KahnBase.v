(* Association-list lemmas and the parent map of the predicate-graph checker (part of C01). *)
From Coq Require Import Arith List Lia Bool.
From EB Require Import Check.Graph Spec.GraphRef.
Import ListNotations.
Local Open Scope nat_scope.
Local Open Scope list_scope.

(* strictly ascending lists *)
Fixpoint asc (l : list nat) : Prop :=
  match l with [] => True | x :: r => (forall y, In y r -> x < y) /\ asc r end.

Lemma asc_NoDup l : asc l -> NoDup l.
Proof.
  induction l as [|x r IH]; cbn [asc]; intros H; constructor.
  - intros Hin. destruct H as [H _]. specialize (H x Hin). lia.
  - apply IH. apply H.
Qed.

Lemma asc_seq k : forall a, asc (seq a k).
Proof.
  induction k as [|k IH]; intros a; cbn [seq asc]; [exact I|].
  split; [|apply IH]. intros y Hy. apply in_seq in Hy. lia.
Qed.

(* remove the first occurrence of a key *)
Fixpoint rem1 (u : nat) (K : list nat) : list nat :=
  match K with [] => [] | k :: r => if u =? k then r else k :: rem1 u r end.

Lemma rem1_incl u K : incl (rem1 u K) K.
Proof.
  induction K as [|k r IH]; cbn [rem1]; [apply incl_refl|].
  destruct (u =? k); [apply incl_tl, incl_refl|].
  intros x [Hx|Hx]; [left; exact Hx|right; apply IH; exact Hx].
Qed.

Lemma asc_rem1 u K : asc K -> asc (rem1 u K).
Proof.
  induction K as [|k r IH]; cbn [rem1 asc]; [trivial|]. intros [H1 H2].
  destruct (u =? k); [exact H2|]. cbn [asc]. split; [|apply IH; exact H2].
  intros y Hy. apply H1. apply (rem1_incl u r). exact Hy.
Qed.

Lemma in_rem1 u K x : NoDup K -> (In x (rem1 u K) <-> In x K /\ x <> u).
Proof.
  induction K as [|k r IH]; cbn [rem1]; intros Hnd.
  - cbn [In]. tauto.
  - inversion Hnd as [|k' r' Hnotin Hnd']; subst.
    destruct (Nat.eqb_spec u k) as [E|NE].
    + subst k. cbn [In]. split.
      * intros Hx. split; [right; exact Hx|]. intros E. subst x. contradiction.
      * intros [[Hx|Hx] Hne]; [congruence|exact Hx].
    + cbn [In]. rewrite (IH Hnd'). split.
      * intros [Hx|[Hx Hne]]; [subst x; split; [left; reflexivity|congruence]|split; [right; exact Hx|exact Hne]].
      * intros [[Hx|Hx] Hne]; [left; exact Hx|right; split; assumption].
Qed.

Lemma length_rem1 u K : In u K -> S (length (rem1 u K)) = length K.
Proof.
  induction K as [|k r IH]; cbn [rem1 In]; [contradiction|]. intros Hin.
  destruct (Nat.eqb_spec u k) as [E|NE]; [reflexivity|].
  destruct Hin as [Hin|Hin]; [congruence|]. cbn [length]. rewrite (IH Hin). reflexivity.
Qed.

Section Assoc.
  Context {A : Type}.
  Implicit Types m : list (nat * A).

  Lemma akeys_cons k (v : A) m : akeys ((k, v) :: m) = k :: akeys m.
  Proof. reflexivity. Qed.

  Lemma akeys_length m : length (akeys m) = length m.
  Proof. apply map_length. Qed.

  Lemma aget_ainsert k k' (v : A) m :
    aget k (ainsert k' v m) = if k =? k' then Some v else aget k m.
  Proof.
    induction m as [|[k0 v0] r IH]; cbn [ainsert aget].
    - destruct (k =? k'); reflexivity.
    - destruct (Nat.eqb_spec k' k0) as [E|NE].
      + subst k0. cbn [aget]. destruct (k =? k'); reflexivity.
      + destruct (k' <? k0).
        * cbn [aget]. destruct (k =? k'); reflexivity.
        * cbn [aget]. rewrite IH. destruct (Nat.eqb_spec k k0) as [E2|NE2]; [|reflexivity].
          subst k0. destruct (Nat.eqb_spec k k'); [congruence|reflexivity].
  Qed.

  Lemma aget_some_in k m d : aget k m = Some d -> In k (akeys m).
  Proof.
    induction m as [|[k0 v0] r IH]; cbn [aget]; [discriminate|]. rewrite akeys_cons.
    destruct (Nat.eqb_spec k k0) as [E|NE]; intros H; [left; congruence|right; apply IH; exact H].
  Qed.

  Lemma in_aget k m : In k (akeys m) -> exists d, aget k m = Some d.
  Proof.
    induction m as [|[k0 v0] r IH]; [intros []|]. rewrite akeys_cons. cbn [aget In].
    destruct (Nat.eqb_spec k k0) as [E|NE]; intros H; [eauto|].
    destruct H as [H|H]; [congruence|apply IH; exact H].
  Qed.

  Lemma akeys_aremove u m : akeys (aremove u m) = rem1 u (akeys m).
  Proof.
    induction m as [|[k0 v0] r IH]; [reflexivity|]. rewrite akeys_cons. cbn [aremove rem1].
    destruct (u =? k0); [reflexivity|]. rewrite akeys_cons, IH. reflexivity.
  Qed.

  Lemma aget_aremove u x m : NoDup (akeys m) ->
    aget x (aremove u m) = if x =? u then None else aget x m.
  Proof.
    induction m as [|[k0 v0] r IH]; intros Hnd.
    - cbn. destruct (x =? u); reflexivity.
    - rewrite akeys_cons in Hnd. inversion Hnd as [|k' r' Hnotin Hnd']; subst.
      cbn [aremove]. destruct (Nat.eqb_spec u k0) as [E|NE].
      + subst k0. cbn [aget]. destruct (Nat.eqb_spec x u) as [E2|NE2]; [|reflexivity].
        subst x. destruct (aget u r) eqn:Eg; [|reflexivity].
        exfalso. apply Hnotin. eapply aget_some_in; eauto.
      + cbn [aget]. rewrite (IH Hnd'). destruct (Nat.eqb_spec x k0) as [E2|NE2]; [|reflexivity].
        subst k0. destruct (Nat.eqb_spec x u); [congruence|reflexivity].
  Qed.

  Lemma length_aremove u m : In u (akeys m) -> S (length (aremove u m)) = length m.
  Proof.
    intros H. rewrite <- (akeys_length (aremove u m)), akeys_aremove, (length_rem1 _ _ H).
    apply akeys_length.
  Qed.
End Assoc.

(* ---- adec / reduce_in_degrees ---- *)
Lemma aget_adec k x m :
  aget x (adec k m) = if x =? k then option_map Nat.pred (aget x m) else aget x m.
Proof.
  induction m as [|[k0 d0] r IH]; cbn [adec aget].
  - destruct (x =? k); reflexivity.
  - destruct (Nat.eqb_spec k k0) as [E|NE].
    + subst k0. cbn [aget]. destruct (x =? k); reflexivity.
    + cbn [aget]. rewrite IH. destruct (Nat.eqb_spec x k0) as [E2|NE2]; [|reflexivity].
      subst k0. destruct (Nat.eqb_spec x k); [congruence|reflexivity].
Qed.

Lemma akeys_adec k m : akeys (adec k m) = akeys m.
Proof.
  induction m as [|[k0 d0] r IH]; [reflexivity|]. cbn [adec].
  destruct (k =? k0); rewrite !akeys_cons; [reflexivity|]. rewrite IH. reflexivity.
Qed.

Lemma akeys_reduce cs : forall m, akeys (reduce_in_degrees m cs) = akeys m.
Proof.
  unfold reduce_in_degrees. induction cs as [|c cs IH]; intros m; cbn [fold_left]; [reflexivity|].
  rewrite IH. apply akeys_adec.
Qed.

Lemma length_reduce cs m : length (reduce_in_degrees m cs) = length m.
Proof. rewrite <- !akeys_length, akeys_reduce. reflexivity. Qed.

(* the saturating decrement is truncated subtraction of the multiplicity *)
Lemma aget_reduce x cs : forall m,
  aget x (reduce_in_degrees m cs) = option_map (fun d => d - count_occ Nat.eq_dec cs x) (aget x m).
Proof.
  unfold reduce_in_degrees. induction cs as [|c cs IH]; intros m; cbn [fold_left count_occ].
  - destruct (aget x m); cbn [option_map]; [f_equal; lia|reflexivity].
  - rewrite IH, aget_adec. destruct (Nat.eq_dec c x) as [E|NE].
    + subst c. rewrite Nat.eqb_refl. destruct (aget x m); cbn [option_map]; [f_equal; lia|reflexivity].
    + destruct (Nat.eqb_spec x c); [congruence|reflexivity].
Qed.

(* ---- the parent map ---- *)
Definition valid (p : predicate) : Prop :=
  forall ix, ix < length (p_nodes p) -> children p ix <> None.
Definition edge (p : predicate) (u v : nat) : Prop :=
  u < length (p_nodes p) /\ exists cs, children p u = Some cs /\ In v cs.
Definition closed (p : predicate) : Prop := forall u v, edge p u v -> v < length (p_nodes p).
Definition acyclic (p : predicate) : Prop :=
  exists rank : nat -> nat, forall u v, edge p u v -> rank u < rank v.

Section PM.
  Variable p : predicate.
  Notation n := (length (p_nodes p)).

  (* number of edges u -> v *)
  Definition cnt (u v : nat) : nat := count_occ Nat.eq_dec (kids p u) v.

  Lemma children_some_lt u cs : children p u = Some cs -> u < n.
  Proof.
    unfold children, node_edges. intros H. apply nth_error_Some.
    destruct (nth_error (p_nodes p) u); [discriminate|]. cbn [option_map] in H. discriminate.
  Qed.

  Lemma kids_some u cs : children p u = Some cs -> kids p u = cs.
  Proof. unfold kids. intros H. rewrite H. reflexivity. Qed.

  Lemma edge_cnt u v : edge p u v <-> cnt u v > 0.
  Proof.
    unfold edge, cnt. rewrite <- count_occ_In. split.
    - intros [_ [cs [Hc Hin]]]. rewrite (kids_some _ _ Hc). exact Hin.
    - unfold kids. destruct (children p u) as [cs|] eqn:Hc; [|intros []].
      intros Hin. split; [eapply children_some_lt; eauto|eauto].
  Qed.

  Lemma parents_of_aentry ix m v : parents_of (aentry ix m) v = parents_of m v.
  Proof.
    unfold aentry, parents_of. destruct (aget ix m) eqn:E; [reflexivity|].
    rewrite aget_ainsert. destruct (Nat.eqb_spec v ix) as [E2|NE2]; [|reflexivity].
    subst v. rewrite E. reflexivity.
  Qed.

  Lemma parents_of_apush c ix m v :
    parents_of (apush c ix m) v = parents_of m v ++ (if Nat.eq_dec c v then [ix] else []).
  Proof.
    unfold apush, parents_of.
    destruct (aget c m) eqn:E; rewrite aget_ainsert;
      (destruct (Nat.eqb_spec v c) as [E2|NE2]; destruct (Nat.eq_dec c v) as [E3|NE3]; try congruence).
    - subst v. rewrite E. reflexivity.
    - rewrite app_nil_r. reflexivity.
    - subst v. rewrite E. reflexivity.
    - rewrite app_nil_r. reflexivity.
  Qed.

  Lemma parents_of_fold cs ix v : forall m,
    parents_of (fold_left (fun acc c => apush c ix acc) cs m) v
    = parents_of m v ++ repeat ix (count_occ Nat.eq_dec cs v).
  Proof.
    induction cs as [|c cs IH]; intros m; cbn [fold_left count_occ].
    - cbn [repeat]. rewrite app_nil_r. reflexivity.
    - rewrite IH, parents_of_apush. destruct (Nat.eq_dec c v); cbn [repeat].
      + rewrite <- app_assoc. reflexivity.
      + rewrite app_nil_r. reflexivity.
  Qed.

  Lemma cpm_go_spec todo : forall m pm, cpm_go p todo m = Ok pm ->
    forall v, parents_of pm v = parents_of m v ++ flat_map (fun u => repeat u (cnt u v)) todo.
  Proof.
    induction todo as [|ix rest IH]; intros m pm; cbn [cpm_go flat_map].
    - intros H v. injection H as H. subst pm. rewrite app_nil_r. reflexivity.
    - destruct (children p ix) as [cs|] eqn:E; [|discriminate]. intros H v.
      rewrite (IH _ _ H v), parents_of_fold, parents_of_aentry, <- app_assoc.
      unfold cnt. rewrite (kids_some _ _ E). reflexivity.
  Qed.

  Lemma cpm_go_ok todo : forall m, (forall ix, In ix todo -> children p ix <> None) ->
    exists pm, cpm_go p todo m = Ok pm.
  Proof.
    induction todo as [|ix rest IH]; intros m Hv; cbn [cpm_go]; [eauto|].
    destruct (children p ix) as [cs|] eqn:E.
    - apply IH. intros j Hj. apply Hv. right. exact Hj.
    - exfalso. apply (Hv ix); [left; reflexivity|exact E].
  Qed.

  Lemma cpm_go_err k : forall a m ix, cpm_go p (seq a k) m = Err (InvalidNodeEdges ix) ->
    a <= ix < a + k /\ children p ix = None /\ forall j, a <= j < ix -> children p j <> None.
  Proof.
    induction k as [|k IH]; intros a m ix; cbn [seq cpm_go]; [discriminate|].
    destruct (children p a) as [cs|] eqn:E.
    - intros H. destruct (IH _ _ _ H) as [H1 [H2 H3]]. split; [lia|]. split; [exact H2|].
      intros j Hj. destruct (Nat.eq_dec j a) as [Ej|NEj]; [subst j; congruence|apply H3; lia].
    - intros H. injection H as H. subst ix. split; [lia|]. split; [exact E|]. intros j Hj. lia.
  Qed.

  Lemma cpm_go_total todo : forall m,
    (forall s, cpm_go p todo m <> Panic s) /\ cpm_go p todo m <> OutOfFuel.
  Proof.
    induction todo as [|ix rest IH]; intros m; cbn [cpm_go].
    - split; [intros s|]; discriminate.
    - destruct (children p ix); [apply IH|]. split; [intros s|]; discriminate.
  Qed.

  Lemma cpm_go_valid todo : forall m pm, cpm_go p todo m = Ok pm ->
    forall ix, In ix todo -> children p ix <> None.
  Proof.
    induction todo as [|ix rest IH]; intros m pm; cbn [cpm_go]; [intros _ j []|].
    destruct (children p ix) as [cs|] eqn:E; [|discriminate].
    intros H j [Hj|Hj]; [subst j; congruence|eapply IH; eauto].
  Qed.

  (* ---- statements about create_parent_map ---- *)
  Lemma create_parent_map_ok : valid p -> exists pm, create_parent_map p = Ok pm.
  Proof.
    intros Hv. apply cpm_go_ok. intros ix Hix. apply Hv. apply in_seq in Hix. lia.
  Qed.

  Lemma create_parent_map_valid pm : create_parent_map p = Ok pm -> valid p.
  Proof.
    intros H ix Hix. eapply cpm_go_valid; [exact H|]. apply in_seq. lia.
  Qed.

  Lemma create_parent_map_err ix : create_parent_map p = Err (InvalidNodeEdges ix) ->
    ix < n /\ children p ix = None /\ forall j, j < ix -> children p j <> None.
  Proof.
    intros H. destruct (cpm_go_err _ _ _ _ H) as [H1 [H2 H3]].
    split; [lia|]. split; [exact H2|]. intros j Hj. apply H3. lia.
  Qed.

  Lemma create_parent_map_total :
    (forall s, create_parent_map p <> Panic s) /\ create_parent_map p <> OutOfFuel.
  Proof. apply cpm_go_total. Qed.

  (* the error is reported exactly when some edge range is invalid *)
  Lemma create_parent_map_cases :
    (exists pm, create_parent_map p = Ok pm) \/ (exists ix, create_parent_map p = Err (InvalidNodeEdges ix)).
  Proof.
    destruct create_parent_map_total as [Hp Hf].
    destruct (create_parent_map p) as [pm|[ix]|s|] eqn:E; [left; eauto|right; eauto| |congruence].
    exfalso. exact (Hp s eq_refl).
  Qed.

  Lemma parents_of_spec pm : create_parent_map p = Ok pm ->
    forall v, parents_of pm v = parents_ref p v.
  Proof.
    intros H v. unfold create_parent_map in H. rewrite (cpm_go_spec _ _ _ H v).
    reflexivity.
  Qed.

  Lemma parents_ref_in u v : In u (parents_ref p v) <-> edge p u v.
  Proof.
    unfold parents_ref. rewrite in_flat_map, edge_cnt. split.
    - intros [x [Hx Hin]]. apply repeat_spec in Hin as Heq. subst x.
      fold (cnt u v) in Hin. destruct (cnt u v); [destruct Hin|lia].
    - intros Hc. exists u. split.
      + apply in_seq. unfold n_nodes. apply edge_cnt in Hc. destruct Hc as [Hc _]. lia.
      + fold (cnt u v). destruct (cnt u v); [lia|left; reflexivity].
  Qed.
End PM.
