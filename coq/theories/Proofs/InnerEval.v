(* Proofs about the level-by-level evaluation of a predicate graph (Check/Inner.v) against the
   reference semantics (Spec/GraphRef.v).  The facts about the level sort are hypotheses (level_sort_ok). *)
From Coq Require Import List Arith Lia Bool Permutation ZArith.
From EB Require Import Spec.InnerSpec.
Import ListNotations.
Open Scope list_scope.
Local Open Scope nat_scope.

Arguments sat_add_u64 : simpl never.

(* ------------------------------------------------------------------------------------------ *)
(* list helpers *)

Lemma nodup_app_inv {A} (a b : list A) :
  NoDup (a ++ b) -> NoDup a /\ NoDup b /\ (forall x, In x a -> In x b -> False).
Proof.
  induction a as [|x a IH]; simpl; intros H.
  - split; [constructor|]. split; [exact H|]. intros x [].
  - inversion H as [|y l Hn Hd]; subst. destruct (IH Hd) as (Ha & Hb & Hab).
    split. { constructor; [|exact Ha]. intros Hi. apply Hn. apply in_or_app. now left. }
    split; [exact Hb|]. intros z [Hz|Hz] Hzb.
    + subst z. apply Hn. apply in_or_app. now right.
    + exact (Hab z Hz Hzb).
Qed.

Lemma in_nth_concat (L : list (list nat)) i v : In v (nth i L []) -> In v (concat L).
Proof.
  revert i; induction L as [|l L IH]; intros [|i]; simpl; try tauto.
  - intros H; apply in_or_app; now left.
  - intros H; apply in_or_app; right; eauto.
Qed.

Lemma nodup_concat_nth (L : list (list nat)) a b v :
  NoDup (concat L) -> In v (nth a L []) -> In v (nth b L []) -> a = b.
Proof.
  revert a b; induction L as [|l L IH]; intros a b Hnd Ha Hb.
  - destruct a; simpl in Ha; contradiction.
  - simpl in Hnd. destruct (nodup_app_inv _ _ Hnd) as (_ & HL & Hx).
    destruct a as [|a], b as [|b]; simpl in Ha, Hb.
    + reflexivity.
    + exfalso. eapply Hx; [exact Ha|]. eapply in_nth_concat; exact Hb.
    + exfalso. eapply Hx; [exact Hb|]. eapply in_nth_concat; exact Ha.
    + f_equal. eapply IH; eauto.
Qed.

Lemma nodup_split_unique {A} (l1 l2 l1' l2' : list A) x :
  NoDup (l1 ++ x :: l2) -> l1 ++ x :: l2 = l1' ++ x :: l2' -> l1 = l1'.
Proof.
  revert l1'; induction l1 as [|a l1 IH]; intros l1' Hnd E.
  - destruct l1' as [|b l1']; [reflexivity|]. simpl in E. injection E as E1 E2. subst b.
    simpl in Hnd. apply NoDup_cons_iff in Hnd as [Hn Hd]. exfalso. apply Hn. rewrite E2. apply in_or_app. right. now left.
  - destruct l1' as [|b l1']; simpl in E; injection E as E1 E2.
    + subst a. simpl in Hnd. apply NoDup_cons_iff in Hnd as [Hn Hd]. exfalso. apply Hn. apply in_or_app. right. now left.
    + subst b. f_equal. apply IH; [|exact E2]. simpl in Hnd. apply NoDup_cons_iff in Hnd as [Hn Hd]. exact Hd.
Qed.

Definition nonempty (l : list nat) : bool := negb (match l with [] => true | _ => false end).

Lemma filter_split {A} (f : A -> bool) l a x b : filter f l = a ++ x :: b ->
  exists a' b', l = a' ++ x :: b' /\ filter f a' = a /\ filter f b' = b.
Proof.
  revert a; induction l as [|y l IH]; intros a E; simpl in E.
  - destruct a; discriminate.
  - destruct (f y) eqn:Fy.
    + destruct a as [|a0 a]; simpl in E; injection E as E1 E2.
      * subst. exists [], l. simpl. auto.
      * subst a0. destruct (IH _ E2) as (a' & b' & E3 & Ha & Hb). subst l.
        exists (y :: a'), b'. simpl. rewrite Fy, Ha. auto.
    + destruct (IH _ E) as (a' & b' & E3 & Ha & Hb). subst l.
      exists (y :: a'), b'. simpl. rewrite Fy. auto.
Qed.

Lemma concat_filter_nonempty L : concat (filter nonempty L) = concat L.
Proof.
  induction L as [|l L IH]; [reflexivity|]. destruct l; simpl; [exact IH|]. now rewrite IH.
Qed.

Lemma filter_nonempty_all L l : In l (filter nonempty L) -> l <> [].
Proof. intros H. apply filter_In in H as [_ H]. destruct l; [discriminate|congruence]. Qed.

Lemma length_concat_nonempty (L : list (list nat)) :
  (forall l, In l L -> l <> []) -> length L <= length (concat L).
Proof.
  induction L as [|l L IH]; intros H; simpl; [lia|].
  rewrite app_length. assert (l <> []) by (apply H; now left).
  assert (length L <= length (concat L)) by (apply IH; intros; apply H; now right).
  destruct l; [congruence|simpl; lia].
Qed.

Lemma flat_map_ext_in' {A B} (f g : A -> list B) l :
  (forall a, In a l -> f a = g a) -> flat_map f l = flat_map g l.
Proof.
  induction l as [|x l IH]; intros H; simpl; [reflexivity|].
  rewrite (H x) by now left. f_equal. apply IH. intros; apply H; now right.
Qed.

Lemma flat_map_nil_inv {A B} (f : A -> list B) l : flat_map f l = [] -> forall a, In a l -> f a = [].
Proof.
  induction l as [|x l IH]; simpl; intros H a []; apply app_eq_nil in H as [H1 H2]; subst; auto.
Qed.

Lemma flat_map_all_nil {A B} (f : A -> list B) l : (forall a, In a l -> f a = []) -> flat_map f l = [].
Proof.
  induction l as [|x l IH]; intros H; simpl; [reflexivity|].
  rewrite (H x) by now left. apply IH. intros; apply H; now right.
Qed.

Lemma find_map_key {B} (F : nat -> B) nodes u :
  In u nodes -> find (fun e => Nat.eqb (fst e) u) (map (fun v => (v, F v)) nodes) = Some (u, F u).
Proof.
  induction nodes as [|a nodes IH]; intros H; [contradiction|]. simpl.
  destruct (Nat.eqb_spec a u) as [E|E]; [now subst|]. apply IH. destruct H; [contradiction|assumption].
Qed.

(* ------------------------------------------------------------------------------------------ *)
(* association lists *)

Lemma aget_ainsert {A} k k' (v : A) m :
  aget k (ainsert k' v m) = if Nat.eqb k k' then Some v else aget k m.
Proof.
  induction m as [|[a w] r IH]; simpl.
  - destruct (Nat.eqb k k'); reflexivity.
  - destruct (Nat.eqb_spec k' a) as [E|E].
    + subst a. simpl. destruct (Nat.eqb k k'); reflexivity.
    + destruct (Nat.ltb k' a); simpl.
      * destruct (Nat.eqb k k'); reflexivity.
      * rewrite IH. destruct (Nat.eqb_spec k a) as [E1|E1]; [|reflexivity].
        destruct (Nat.eqb_spec k k') as [E2|E2]; [congruence|reflexivity].
Qed.

(* ------------------------------------------------------------------------------------------ *)
(* the graph: parents, leaves, validity *)

Lemma parents_ref_in p u v : In u (parents_ref p v) <-> edge p u v.
Proof.
  unfold parents_ref, edge, n_nodes. rewrite in_flat_map. split.
  - intros (w & Hw & Hr). pose proof (repeat_spec _ _ _ Hr) as E. subst w.
    apply in_seq in Hw. split; [lia|].
    apply (count_occ_In Nat.eq_dec).
    destruct (count_occ Nat.eq_dec (kids p u) v); [simpl in Hr; contradiction|lia].
  - intros (Hu & Hin). exists u. split; [apply in_seq; lia|].
    apply (count_occ_In Nat.eq_dec) in Hin.
    destruct (count_occ Nat.eq_dec (kids p u) v); [lia|simpl; now left].
Qed.

Lemma parent_lt p u v : In u (parents_ref p v) -> u < length (p_nodes p).
Proof. intros H. apply parents_ref_in in H. exact (proj1 H). Qed.

Lemma parent_not_leaf p u v : In u (parents_ref p v) -> leaf_ref p u = false.
Proof.
  intros H. apply parents_ref_in in H. destruct H as [_ H]. unfold leaf_ref.
  destruct (kids p u); [contradiction|reflexivity].
Qed.

Lemma cpm_go_valid p todo : forall m pm, cpm_go p todo m = Ok pm -> forall ix, In ix todo -> children p ix <> None.
Proof.
  induction todo as [|a todo IH]; intros m pm H ix Hin; [contradiction|].
  simpl in H. destruct (children p a) eqn:C; [|discriminate].
  destruct Hin as [E|Hin]; [subst; congruence|]. eapply IH; eauto.
Qed.

Lemma create_parent_map_valid p pm :
  create_parent_map p = Ok pm -> forall ix, ix < length (p_nodes p) -> children p ix <> None.
Proof. intros H ix Hix. eapply cpm_go_valid; [exact H|]. apply in_seq. lia. Qed.

Lemma is_leaf_ref p v : children p v <> None -> is_leaf p v = leaf_ref p v.
Proof.
  intros H. unfold is_leaf, leaf_ref, kids. destruct (children p v) as [[|c cs]|]; congruence.
Qed.

(* ------------------------------------------------------------------------------------------ *)
(* nothing deferred *)

Lemma iter_spread_nil k p : iter_spread k p [] = [].
Proof. induction k; simpl; auto. Qed.

Lemma find_deferred_none p : find_deferred p (fun _ => false) = [].
Proof.
  unfold find_deferred. replace (filter (fun _ : nat => false) (seq 0 (length (p_nodes p)))) with (@nil nat).
  - apply iter_spread_nil.
  - induction (seq 0 (length (p_nodes p))); simpl; auto.
Qed.

Lemma should_cache_nil p node : should_cache p [] node = false.
Proof.
  unfold should_cache. simpl. destruct (children p node) as [cs|]; [|reflexivity].
  induction cs; simpl; auto.
Qed.

Lemma remove_deferred_nil levels : remove_deferred levels [] = filter nonempty levels.
Proof.
  unfold remove_deferred. f_equal. rewrite <- (map_id levels) at 2. apply map_ext. intros l.
  induction l as [|x l IH]; simpl; [reflexivity|]. f_equal. exact IH.
Qed.

(* ------------------------------------------------------------------------------------------ *)
(* parents lie in strictly earlier levels, in the form used by the induction over levels *)

Definition parents_before (p : predicate) (levels : list (list nat)) : Prop :=
  forall done level rest u v, levels = done ++ level :: rest -> In v level -> In u (parents_ref p v) -> In u (concat done).

Lemma lso_parents_before p pm levels : level_sort_ok p pm levels -> parents_before p levels.
Proof.
  intros H done level rest u v E Hv Hu.
  assert (Hvn : v < length (p_nodes p)).
  { apply (lso_nodes _ _ _ H). rewrite E, concat_app. apply in_or_app; right. simpl. apply in_or_app; now left. }
  destruct (lso_edges _ _ _ H u v) as (i & j & Hij & Hi & Hj).
  { apply parents_ref_in; exact Hu. } { exact Hvn. }
  assert (j = length done).
  { eapply nodup_concat_nth; [exact (lso_nodup _ _ _ H) | exact Hj |]. rewrite E. rewrite nth_middle. exact Hv. }
  subst j. rewrite E in Hi. rewrite app_nth1 in Hi by lia.
  apply in_nth_concat with i. exact Hi.
Qed.

Lemma parents_before_filter p levels : parents_before p levels -> parents_before p (filter nonempty levels).
Proof.
  intros H done level rest u v E Hv Hu.
  destruct (filter_split _ _ _ _ _ E) as (a' & b' & E' & Ha & Hb).
  rewrite <- Ha, concat_filter_nonempty. eapply H; eauto.
Qed.

(* ------------------------------------------------------------------------------------------ *)
(* the reference value as a fixed point of one evaluation step *)

Definition nval_of (r : prog_res) : nval :=
  match r with
  | PRun (OutParent s m) g => NVParent (s, m) g
  | PRun (OutLeaf o) g => NVLeaf o g
  | PFail => NVFail
  end.

Definition gather_with (g : nat -> outcome unit nval) : list nat -> outcome unit (option (list sm)) :=
  fix gather (us : list nat) : outcome unit (option (list sm)) :=
    match us with
    | [] => Ok (Some [])
    | u :: r =>
        let* x := g u in
        let* rest := gather r in
        Ok (match x, rest with NVParent o _, Some l => Some (o :: l) | _, _ => None end)
    end.

Lemma gather_ext g g' us : (forall u, In u us -> g u = g' u) -> gather_with g us = gather_with g' us.
Proof.
  induction us as [|u us IH]; intros H; [reflexivity|].
  simpl. rewrite (H u) by now left. rewrite IH; [reflexivity|]. intros; apply H; now right.
Qed.

Section Eval.
  Variable run : nat -> bool -> list sm -> outcome unit prog_res.
  Variable p : predicate.
  Notation n := (length (p_nodes p)).
  Notation V := (value p run (fun _ => false)).

  Definition vstep (g : nat -> outcome unit nval) (v : nat) : outcome unit nval :=
    let* ins := gather_with g (parents_ref p v) in
    match ins with
    | None => Ok NVSkipped
    | Some ins => let* r := run v (leaf_ref p v) ins in Ok (nval_of r)
    end.

  Lemma value_S f v : V (S f) v = vstep (V f) v.
  Proof. reflexivity. Qed.

  Lemma vstep_ext g g' v : (forall u, In u (parents_ref p v) -> g u = g' u) -> vstep g v = vstep g' v.
  Proof. intros H. unfold vstep. now rewrite (gather_ext g g' _ H). Qed.

  Variable levels : list (list nat).
  Hypothesis Hnd : NoDup (concat levels).
  Hypothesis Hnodes : forall v, In v (concat levels) <-> v < n.
  Hypothesis Hpb : parents_before p levels.
  Hypothesis Hne : forall l, In l levels -> l <> [].

  Lemma value_stable_aux : forall rest done, levels = done ++ rest ->
     (forall v f, In v (concat done) -> length done <= f -> V f v = V (length done) v) ->
     forall v f, In v (concat levels) -> length levels <= f -> V f v = V (length levels) v.
  Proof.
    induction rest as [|level rest IH]; intros done E Hd.
    - rewrite app_nil_r in E. subst done. exact Hd.
    - apply (IH (done ++ [level])).
      + rewrite <- app_assoc. exact E.
      + intros v f Hv Hf. rewrite app_length in Hf |- *. simpl in Hf |- *. rewrite Nat.add_1_r in Hf |- *.
        rewrite concat_app in Hv. simpl in Hv. rewrite app_nil_r in Hv. apply in_app_or in Hv as [Hv|Hv].
        * rewrite (Hd v f Hv) by lia. rewrite (Hd v (S (length done)) Hv) by lia. reflexivity.
        * destruct f as [|f]; [lia|]. rewrite !value_S. apply vstep_ext. intros u Hu.
          apply Hd; [|lia]. eapply Hpb; eauto.
  Qed.

  Lemma levels_le_n : length levels <= n.
  Proof.
    pose proof (length_concat_nonempty levels Hne) as H1.
    assert (H2 : length (concat levels) <= length (seq 0 n)).
    { apply NoDup_incl_length; [exact Hnd|]. intros v Hv. apply in_seq. apply Hnodes in Hv. lia. }
    rewrite seq_length in H2. lia.
  Qed.

  Lemma value_stable v f : v < n -> length levels <= f -> V f v = V (length levels) v.
  Proof.
    intros Hv Hf. apply (value_stable_aux levels []); auto.
    - intros w g Hw. simpl in Hw. contradiction.
    - apply Hnodes. exact Hv.
  Qed.

  Notation val := (vals p run).

  Lemma val_eq v : v < n -> val v = vstep val v.
  Proof.
    intros Hv. unfold vals. rewrite value_S. apply vstep_ext. intros u Hu.
    pose proof levels_le_n as Hl. pose proof (parent_lt _ _ _ Hu) as Hun.
    rewrite (value_stable u n) by lia. rewrite (value_stable u (S n)) by lia. reflexivity.
  Qed.

  (* ---------------------------------------------------------------------------------------- *)
  (* Phase A of the run: no program has failed so far *)

  Variable pm : list (nat * list nat).
  Hypothesis Hvalid : forall ix, ix < n -> children p ix <> None.
  Hypothesis Hpar : forall v, v < n -> parents_of pm v = parents_ref p v.
  Hypothesis Hleaf : run_respects_leaf run.

  Definition outv (u : nat) : option sm := match val u with Ok (NVParent o _) => Some o | _ => None end.
  Definition ref_ins (v : nat) : list sm := flat_map (fun u => opt_list (outv u)) (parents_ref p v).
  Definition ev (v : nat) : nat * list sm := (v, ref_ins v).
  (* the result of running v on the reference inputs *)
  Definition rr (v : nat) : prog_res := match run v (is_leaf p v) (ref_ins v) with Ok r => r | _ => PFail end.

  Definition node_ok (v : nat) : Prop :=
    v < n /\ exists r, run v (is_leaf p v) (ref_ins v) = Ok r /\ val v = Ok (nval_of r) /\ r <> PFail /\
                       (leaf_ref p v = false -> exists s m g, r = PRun (OutParent s m) g).

  Record invA (nodes evn : list nat) (st : inner_state) : Prop := {
    a_cache : is_cache st = [];
    a_failed : is_failed st = [];
    a_vals : forall v, In v nodes -> node_ok v;
    a_local : forall u, aget u (is_local st) = if memb u nodes then outv u else None;
    a_unsat : is_unsat st = flat_map (fun v => unsat_of v (val v)) nodes;
    a_data : is_data st = flat_map (fun v => data_of (val v)) nodes;
    a_gas : is_gas st = fold_left (fun a v => gas_add a (val v)) nodes 0%Z;
    a_events : is_events st = rev (map ev evn)
  }.

  Lemma node_ok_parent nodes evn st u v : invA nodes evn st -> In u nodes -> In u (parents_ref p v) ->
    exists o g, val u = Ok (NVParent o g).
  Proof.
    intros HA Hu Hp. destruct (a_vals _ _ _ HA u Hu) as (_ & r & _ & Hval & _ & Hl).
    destruct (Hl (parent_not_leaf _ _ _ Hp)) as (s & m & g & E). subst r. simpl in Hval. eauto.
  Qed.

  Lemma gather_parents us : (forall u, In u us -> exists o g, val u = Ok (NVParent o g)) ->
    gather_with val us = Ok (Some (flat_map (fun u => opt_list (outv u)) us)).
  Proof.
    induction us as [|u us IH]; intros H; [reflexivity|].
    destruct (H u (or_introl eq_refl)) as (o & g & E).
    change (gather_with val (u :: us)) with
      (let* x := val u in let* rest := gather_with val us in
       Ok (match x, rest with NVParent o _, Some l => Some (o :: l) | _, _ => None end)).
    rewrite IH by (intros; apply H; now right). rewrite E. cbn [bind flat_map]. assert (Eo : outv u = Some o) by (unfold outv; now rewrite E). rewrite Eo. reflexivity.
  Qed.

  (* a node all of whose parents were processed is evaluated by the reference on the same inputs *)
  Lemma node_val nodes evn st v r : invA nodes evn st -> v < n -> (forall u, In u (parents_ref p v) -> In u nodes) ->
    run v (is_leaf p v) (ref_ins v) = Ok r -> val v = Ok (nval_of r).
  Proof.
    intros HA Hv Hp Hr. rewrite (val_eq v Hv). unfold vstep.
    rewrite gather_parents by (intros u Hu; eapply node_ok_parent; eauto).
    cbn [bind]. fold (ref_ins v). rewrite <- (is_leaf_ref p v (Hvalid v Hv)). rewrite Hr. reflexivity.
  Qed.

  Lemma inputs_A nodes evn st v : invA nodes evn st -> v < n -> (forall u, In u (parents_ref p v) -> In u nodes) ->
    inputs_of pm st v = ref_ins v.
  Proof.
    intros HA Hv Hp. unfold inputs_of, ref_ins. rewrite (Hpar v Hv). apply flat_map_ext_in'. intros u Hu.
    rewrite (a_cache _ _ _ HA). simpl. rewrite (a_local _ _ _ HA).
    assert (M : memb u nodes = true).
    { unfold memb. apply existsb_exists. exists u. split; [auto|apply Nat.eqb_refl]. }
    rewrite M. destruct (outv u); reflexivity.
  Qed.

  Lemma run_level_A st level rs : (forall v, In v level -> inputs_of pm st v = ref_ins v) ->
    run_level run p pm st level = Ok rs ->
    rs = map (fun v => (v, rr v, ref_ins v)) level /\ forall v, In v level -> run v (is_leaf p v) (ref_ins v) = Ok (rr v).
  Proof.
    revert rs; induction level as [|v level IH]; intros rs Hin H; simpl in H.
    - injection H as <-. split; [reflexivity|]. intros v [].
    - apply bind_ok in H as (r & Hr & H). apply bind_ok in H as (rs' & Hrs & H). injection H as <-.
      rewrite (Hin v (or_introl eq_refl)) in Hr |- *.
      destruct (IH rs' (fun w Hw => Hin w (or_intror Hw)) Hrs) as (E & Hall).
      assert (Er : rr v = r) by (unfold rr; now rewrite Hr).
      split. { simpl. rewrite Er, E. reflexivity. }
      intros w [Hw|Hw]; [subst w; now rewrite Er|auto].
  Qed.

  (* ---------------------------------------------------------------------------------------- *)
  (* generic facts about absorb / run_levels *)

  Lemma absorb_failed ca d rs : forall st,
    exists extra, is_failed (fst (absorb p ca d st rs)) = is_failed st ++ extra.
  Proof.
    induction rs as [|[[v r] ins] rs IH]; intros st; simpl.
    - exists []. now rewrite app_nil_r.
    - destruct r as [[s m|o] g|].
      + destruct (should_cache p d v);
          match goal with |- context [absorb _ _ _ ?s _] => destruct (IH s) as (ex & E) end;
          exists ex; rewrite E; reflexivity.
      + match goal with |- context [absorb _ _ _ ?s _] => destruct (IH s) as (ex & E) end.
        exists ex; rewrite E; reflexivity.
      + destruct ca.
        * match goal with |- context [absorb _ _ _ ?s _] => destruct (IH s) as (ex & E) end.
          exists ([v] ++ ex). rewrite E. simpl. now rewrite <- app_assoc.
        * exists [v]. reflexivity.
  Qed.

  Lemma absorb_events ca d rs : forall st, is_events (fst (absorb p ca d st rs)) = is_events st.
  Proof.
    induction rs as [|[[v r] ins] rs IH]; intros st; simpl; [reflexivity|].
    destruct r as [[s m|o] g|].
    - destruct (should_cache p d v); rewrite IH; reflexivity.
    - rewrite IH; reflexivity.
    - destruct ca; [rewrite IH|]; reflexivity.
  Qed.

  Lemma absorb_cache_nil ca rs : forall st, is_cache (fst (absorb p ca [] st rs)) = is_cache st.
  Proof.
    induction rs as [|[[v r] ins] rs IH]; intros st; simpl; [reflexivity|].
    destruct r as [[s m|o] g|].
    - rewrite should_cache_nil. rewrite IH; reflexivity.
    - rewrite IH; reflexivity.
    - destruct ca; [rewrite IH|]; reflexivity.
  Qed.

  Lemma absorb_nostop d rs : forall st, snd (absorb p true d st rs) = false.
  Proof.
    induction rs as [|[[v r] ins] rs IH]; intros st; simpl; [reflexivity|].
    destruct r as [[s m|o] g|]; try destruct (should_cache p d v); apply IH.
  Qed.

  Lemma run_levels_failed ca rest : forall st st' stop,
    run_levels run p ca pm [] st rest = Ok (st', stop) ->
    (exists extra, is_failed st' = is_failed st ++ extra) /\ is_cache st' = is_cache st /\ (ca = true -> stop = false).
  Proof.
    induction rest as [|level rest IH]; intros st st' stop H; simpl in H.
    - injection H as <- <-. split; [exists []; now rewrite app_nil_r|auto].
    - apply bind_ok in H as (rs & Hrs & H).
      pose proof (absorb_failed ca [] rs (add_events st rs)) as (ex & E).
      pose proof (absorb_cache_nil ca rs (add_events st rs)) as Ec.
      pose proof (fun d => absorb_nostop d rs (add_events st rs)) as Ens.
      destruct (absorb p ca [] (add_events st rs) rs) as [st1 stop1] eqn:EA. simpl in E, Ec.
      destruct stop1.
      + injection H as <- <-. split; [eauto|]. split; [exact Ec|]. intros ->. specialize (Ens []). rewrite EA in Ens. exact Ens.
      + destruct (IH _ _ _ H) as ((ex2 & E2) & Ec2 & Hs). split.
        * exists (ex ++ ex2). rewrite E2, E. now rewrite app_assoc.
        * split; [congruence|exact Hs].
  Qed.

  (* ---------------------------------------------------------------------------------------- *)
  (* absorbing the results of one level in phase A *)

  Lemma invA_extend nodes evn st st1 v r :
    invA nodes evn st -> v < n -> run v (is_leaf p v) (ref_ins v) = Ok r -> val v = Ok (nval_of r) -> r <> PFail ->
    (leaf_ref p v = false -> exists s m g, r = PRun (OutParent s m) g) ->
    is_cache st1 = is_cache st -> is_failed st1 = is_failed st -> is_events st1 = is_events st ->
    (forall u, aget u (is_local st1) = if Nat.eqb u v then outv v else aget u (is_local st)) ->
    is_unsat st1 = is_unsat st ++ unsat_of v (val v) -> is_data st1 = is_data st ++ data_of (val v) ->
    is_gas st1 = gas_add (is_gas st) (val v) ->
    invA (nodes ++ [v]) evn st1.
  Proof.
    intros HA Hv Hr Hval Hnf Hl Hc Hf He Hloc Hun Hda Hga. constructor.
    - rewrite Hc. apply HA.
    - rewrite Hf. apply HA.
    - intros w Hw. apply in_app_or in Hw as [Hw|[Hw|[]]]; [now apply (a_vals _ _ _ HA)|].
      subst w. split; [exact Hv|]. exists r. auto.
    - intros u. rewrite Hloc. unfold memb. rewrite existsb_app. simpl. fold (memb u nodes).
      rewrite (a_local _ _ _ HA). destruct (Nat.eqb u v) eqn:Euv.
      + apply Nat.eqb_eq in Euv. subst u. rewrite orb_true_r. reflexivity.
      + rewrite !orb_false_r. reflexivity.
    - rewrite flat_map_app. simpl. rewrite app_nil_r, Hun, (a_unsat _ _ _ HA). reflexivity.
    - rewrite flat_map_app. simpl. rewrite app_nil_r, Hda, (a_data _ _ _ HA). reflexivity.
    - rewrite fold_left_app. simpl. rewrite Hga, (a_gas _ _ _ HA). reflexivity.
    - rewrite He. apply HA.
  Qed.

  Lemma absorb_A ca : forall level nodes evn st st' stop,
    invA nodes evn st ->
    (forall v, In v level -> v < n /\ run v (is_leaf p v) (ref_ins v) = Ok (rr v) /\ val v = Ok (nval_of (rr v))) ->
    absorb p ca [] st (map (fun v => (v, rr v, ref_ins v)) level) = (st', stop) ->
    (stop = false /\ invA (nodes ++ level) evn st' /\ (forall v, In v level -> rr v <> PFail))
    \/ (exists a f b tl, level = a ++ f :: b /\ (forall v, In v a -> rr v <> PFail) /\ rr f = PFail /\
                         is_failed st' = f :: tl /\ (ca = false -> tl = [] /\ stop = true) /\ (ca = true -> stop = false)).
  Proof.
    induction level as [|v level IH]; intros nodes evn st st' stop HA Hall Habs.
    - simpl in Habs. injection Habs as <- <-. left. rewrite app_nil_r. split; [reflexivity|]. split; [exact HA|]. intros v [].
    - destruct (Hall v (or_introl eq_refl)) as (Hv & Hr & Hval).
      assert (Hall' : forall w, In w level -> w < n /\ run w (is_leaf p w) (ref_ins w) = Ok (rr w) /\ val w = Ok (nval_of (rr w)))
        by (intros w Hw; apply Hall; now right).
      cbn [map absorb] in Habs.
      assert (Hlf : forall o g, rr v = PRun (OutLeaf o) g -> leaf_ref p v = false -> False).
      { intros o g Er Hl. rewrite <- (is_leaf_ref p v (Hvalid v Hv)) in Hl. rewrite Hl, Er in Hr. exact (Hleaf _ _ _ _ Hr). }
      destruct (rr v) as [[s m|o] g|] eqn:Er.
      + rewrite should_cache_nil in Habs.
        match type of Habs with absorb _ _ _ ?s1 _ = _ => assert (HA1 : invA (nodes ++ [v]) evn s1) end.
        { apply (invA_extend nodes evn st _ v _ HA Hv Hr Hval); try reflexivity.
          - discriminate.
          - intros _. eauto.
          - intros u. cbn [is_local]. rewrite aget_ainsert. unfold outv. rewrite Hval. reflexivity.
          - rewrite Hval. cbn. now rewrite app_nil_r.
          - rewrite Hval. cbn. now rewrite app_nil_r.
          - rewrite Hval. reflexivity. }
        destruct (IH _ _ _ _ _ HA1 Hall' Habs) as [(Hs & HA2 & Hnf)|(a & f & b & tl & E & Ha & Hf & Hfl & Hc)].
        * left. rewrite <- app_assoc in HA2. split; [exact Hs|]. split; [exact HA2|].
          intros w [Hw|Hw]; [subst w; rewrite Er; discriminate|auto].
        * right. exists (v :: a), f, b, tl. split; [simpl; now rewrite E|]. split; [|auto].
          intros w [Hw|Hw]; [subst w; rewrite Er; discriminate|auto].
      + match type of Habs with absorb _ _ _ ?s1 _ = _ => assert (HA1 : invA (nodes ++ [v]) evn s1) end.
        { apply (invA_extend nodes evn st _ v _ HA Hv Hr Hval); try reflexivity.
          - discriminate.
          - intros Hl. exfalso. eapply Hlf; eauto.
          - intros u. cbn [is_local]. destruct (Nat.eqb_spec u v) as [Euv|Euv]; [|reflexivity]. subst u.
            rewrite (a_local _ _ _ HA). unfold outv. rewrite Hval. cbn. destruct (memb v nodes); reflexivity.
          - rewrite Hval. cbn. destruct o as [[|]|m]; cbn; now rewrite ?app_nil_r.
          - rewrite Hval. cbn. destruct o as [[|]|m]; cbn; now rewrite ?app_nil_r.
          - rewrite Hval. reflexivity. }
        destruct (IH _ _ _ _ _ HA1 Hall' Habs) as [(Hs & HA2 & Hnf)|(a & f & b & tl & E & Ha & Hf & Hfl & Hc)].
        * left. rewrite <- app_assoc in HA2. split; [exact Hs|]. split; [exact HA2|].
          intros w [Hw|Hw]; [subst w; rewrite Er; discriminate|auto].
        * right. exists (v :: a), f, b, tl. split; [simpl; now rewrite E|]. split; [|auto].
          intros w [Hw|Hw]; [subst w; rewrite Er; discriminate|auto].
      + right. exists [], v, level. destruct ca.
        * match type of Habs with absorb _ _ _ ?s1 ?rs = _ =>
            destruct (absorb_failed true [] rs s1) as (ex & E); pose proof (absorb_nostop [] rs s1) as Hns end.
          rewrite Habs in E, Hns. cbn in E, Hns. rewrite (a_failed _ _ _ HA) in E.
          exists ex. split; [reflexivity|]. split; [intros w []|]. split; [exact Er|]. split; [exact E|].
          split; [discriminate|auto].
        * injection Habs as <- <-. exists []. split; [reflexivity|]. split; [intros w []|]. split; [exact Er|].
          cbn. rewrite (a_failed _ _ _ HA). split; [reflexivity|]. split; [auto|discriminate].
  Qed.

  Lemma node_ok_of_run v r : v < n -> run v (is_leaf p v) (ref_ins v) = Ok r -> val v = Ok (nval_of r) -> r <> PFail -> node_ok v.
  Proof.
    intros Hv Hr Hval Hnf. split; [exact Hv|]. exists r. repeat split; auto.
    intros Hl. rewrite <- (is_leaf_ref p v (Hvalid v Hv)) in Hl. rewrite Hl in Hr.
    destruct r as [[s m|o] g|]; [eauto| |congruence]. exfalso. exact (Hleaf _ _ _ _ Hr).
  Qed.

  (* ---------------------------------------------------------------------------------------- *)
  (* the whole run *)

  (* Phase B: f is the first node, in level order, whose program failed; everything before it ran as in the reference *)
  Definition invF (ca : bool) (st : inner_state) : Prop :=
    exists pre f post tl, concat levels = pre ++ f :: post /\ (forall v, In v pre -> node_ok v) /\ f < n /\
                          val f = Ok NVFail /\ is_failed st = f :: tl /\ (ca = false -> tl = []).

  Lemma run_levels_A ca : forall rest done st st' stop,
    levels = done ++ rest -> invA (concat done) (concat done) st ->
    run_levels run p ca pm [] st rest = Ok (st', stop) ->
    (stop = false /\ invA (concat levels) (concat levels) st') \/ invF ca st'.
  Proof.
    induction rest as [|level rest IH]; intros done st st' stop E HA H; simpl in H.
    - injection H as <- <-. left. rewrite app_nil_r in E. subst done. auto.
    - apply bind_ok in H as (rs & Hrs & H).
      assert (Hin : forall v, In v level -> v < n /\ forall u, In u (parents_ref p v) -> In u (concat done)).
      { intros v Hv. split.
        - apply Hnodes. rewrite E, concat_app. apply in_or_app; right. simpl. apply in_or_app; now left.
        - intros u Hu. eapply Hpb; eauto. }
      destruct (run_level_A st level rs) as (Ers & Hruns); [ | exact Hrs | ].
      { intros v Hv. destruct (Hin v Hv) as [Hv1 Hv2]. eapply inputs_A; eauto. }
      subst rs.
      assert (Hall : forall v, In v level -> v < n /\ run v (is_leaf p v) (ref_ins v) = Ok (rr v) /\ val v = Ok (nval_of (rr v))).
      { intros v Hv. destruct (Hin v Hv) as [Hv1 Hv2]. split; [exact Hv1|]. split; [auto|]. eapply node_val; eauto. }
      match type of H with context [add_events st ?rs] =>
        assert (HA' : invA (concat done) (concat done ++ level) (add_events st rs)) end.
      { destruct HA as [h1 h2 h3 h4 h5 h6 h7 h8]. constructor; cbn [add_events is_cache is_failed is_local is_unsat is_data is_gas is_events]; auto.
        rewrite h8, map_app, rev_app_distr, map_map. reflexivity. }
      match type of H with context [absorb p ca [] ?s ?rs] => destruct (absorb p ca [] s rs) as [st1 stop1] eqn:EA end.
      destruct (absorb_A ca level _ _ _ _ _ HA' Hall EA)
        as [(Hs & HA2 & Hnf) | (a & f & b & tl & El & Ha & Hf & Hfl & Hc1 & Hc2)].
      + subst stop1. apply (IH (done ++ [level])) in H; auto.
        * rewrite <- app_assoc. exact E.
        * rewrite concat_app. simpl. rewrite app_nil_r. exact HA2.
      + assert (Hfin : In f level) by (rewrite El; apply in_or_app; right; now left).
        assert (HF : forall tl', (ca = false -> tl' = []) -> forall s', is_failed s' = f :: tl' -> invF ca s').
        { intros tl' Htl s' Hs'. exists (concat done ++ a), f, (b ++ concat rest), tl'.
          split. { rewrite E, concat_app. simpl. rewrite El. rewrite <- !app_assoc. reflexivity. }
          split. { intros v Hv. apply in_app_or in Hv as [Hv|Hv]; [now apply (a_vals _ _ _ HA)|].
                   assert (Hvl : In v level) by (rewrite El; apply in_or_app; now left).
                   destruct (Hall v Hvl) as (h1 & h2 & h3). eapply node_ok_of_run; eauto. }
          destruct (Hall f Hfin) as (h1 & h2 & h3). rewrite Hf in h3.
          split; [exact h1|]. split; [exact h3|]. split; [exact Hs'|exact Htl]. }
        right. destruct stop1.
        * injection H as <- <-. apply (HF tl); [|exact Hfl]. intros Hca. now destruct (Hc1 Hca).
        * destruct (run_levels_failed _ _ _ _ _ H) as ((ex & Eex) & _ & _).
          apply (HF (tl ++ ex)); [|rewrite Eex, Hfl; reflexivity].
          intros Hca. destruct (Hc1 Hca) as [_ Hst]. discriminate.
  Qed.

  Definition st0 : inner_state :=
    {| is_cache := []; is_local := []; is_failed := []; is_unsat := []; is_data := []; is_gas := 0%Z; is_events := [] |}.

  Lemma invA_init : invA [] [] st0.
  Proof. constructor; try reflexivity. intros v []. Qed.

  Lemma run_levels_all ca st stop :
    run_levels run p ca pm [] st0 levels = Ok (st, stop) ->
    (stop = false /\ invA (concat levels) (concat levels) st) \/ invF ca st.
  Proof. intros H. eapply (run_levels_A ca levels []); eauto. exact invA_init. Qed.

  (* what can be read off a final phase-A state *)
  Lemma out_of_events_A nodes st u : invA nodes nodes st -> In u nodes ->
    out_of_events run p (map ev nodes) u = outv u.
  Proof.
    intros HA Hu. unfold out_of_events, ev. rewrite (find_map_key ref_ins nodes u Hu).
    destruct (a_vals _ _ _ HA u Hu) as (_ & r & Hr & Hval & _). rewrite Hr. unfold outv. rewrite Hval.
    destruct r as [[s m|o] g|]; reflexivity.
  Qed.

  Lemma node_ok_ran v : node_ok v -> ran_ok (val v).
  Proof.
    intros (_ & r & _ & Hval & Hnf & _). rewrite Hval. destruct r as [[s m|o] g|]; simpl; auto.
  Qed.
End Eval.

(* ------------------------------------------------------------------------------------------ *)
(* malformed graphs *)

Lemma malformed_parent_map run p ca is_def mode cache ix :
  create_parent_map p = Err (InvalidNodeEdges ix) ->
  check_predicate_inner run p ca is_def mode cache
  = Ok {| ir_res := Err (PInvalidNodeEdges ix); ir_cache := cache; ir_events := [] |}.
Proof. intros H. unfold check_predicate_inner. rewrite H. reflexivity. Qed.

Lemma malformed_topo_sort run p ca is_def mode cache pm ix :
  create_parent_map p = Ok pm -> parallel_topo_sort p pm = Err (InvalidNodeEdges ix) ->
  check_predicate_inner run p ca is_def mode cache
  = Ok {| ir_res := Err (PInvalidNodeEdges ix); ir_cache := cache; ir_events := [] |}.
Proof. intros H1 H2. unfold check_predicate_inner. rewrite H1, H2. reflexivity. Qed.

(* ------------------------------------------------------------------------------------------ *)
(* totality: if every program run returns, so does the check *)

Lemma run_level_total run p pm st level :
  (forall ix l ins, exists r, run ix l ins = Ok r) -> exists rs, run_level run p pm st level = Ok rs.
Proof.
  intros Hrun. induction level as [|v level (rs & IH)]; simpl; [eauto|].
  destruct (Hrun v (is_leaf p v) (inputs_of pm st v)) as (r & Hr). rewrite Hr, IH. simpl. eauto.
Qed.

Lemma run_levels_total run p ca pm d levels :
  (forall ix l ins, exists r, run ix l ins = Ok r) -> forall st, exists x, run_levels run p ca pm d st levels = Ok x.
Proof.
  intros Hrun. induction levels as [|level levels IH]; intros st; simpl; [eauto|].
  destruct (run_level_total run p pm st level Hrun) as (rs & Hrs). rewrite Hrs. simpl.
  destruct (absorb p ca d (add_events st rs) rs) as [st1 [|]]; [eauto|apply IH].
Qed.

(* ------------------------------------------------------------------------------------------ *)
(* the single pass without deferral *)

Definition res_of (st : inner_state) : outcome perr2 (Z * list (list Z)) :=
  match is_failed st with
  | _ :: _ => Err (PProgramErrors (is_failed st))
  | [] => match is_unsat st with
          | _ :: _ => Err (PConstraintsUnsatisfied (is_unsat st))
          | [] => Ok (is_gas st, is_data st)
          end
  end.

Lemma single_pass_unfold run p ca pm sorted :
  create_parent_map p = Ok pm -> parallel_topo_sort p pm = Ok sorted ->
  single_pass run p ca =
  let* x := run_levels run p ca pm [] st0 (filter nonempty sorted) in
  Ok {| ir_res := res_of (fst x); ir_cache := is_cache (fst x); ir_events := rev (is_events (fst x)) |}.
Proof.
  intros H1 H2. unfold single_pass, check_predicate_inner. rewrite H1, H2.
  rewrite find_deferred_none. cbv zeta. rewrite remove_deferred_nil.
  fold st0. destruct (run_levels run p ca pm [] st0 (filter nonempty sorted)) as [[st stop]| | |]; reflexivity.
Qed.

Lemma single_pass_total run p ca pm sorted :
  (forall ix l ins, exists r, run ix l ins = Ok r) ->
  create_parent_map p = Ok pm -> parallel_topo_sort p pm = Ok sorted ->
  exists r, single_pass run p ca = Ok r.
Proof.
  intros Hrun H1 H2. rewrite (single_pass_unfold run p ca pm sorted H1 H2).
  destruct (run_levels_total run p ca pm [] (filter nonempty sorted) Hrun st0) as (x & Hx). rewrite Hx. simpl. eauto.
Qed.

Lemma ran_unsat_good v x : ran_ok x -> unsat_of v x = [] -> good_val x.
Proof. destruct x as [[o g|[[|]|m] g| |]| | |]; simpl; auto; discriminate. Qed.

Lemma good_unsat_nil v x : good_val x -> unsat_of v x = [].
Proof. destruct x as [[o g|[[|]|m] g| |]| | |]; simpl; auto; contradiction. Qed.

Lemma good_ran x : good_val x -> ran_ok x.
Proof. destruct x as [[o g|[[|]|m] g| |]| | |]; simpl; auto. Qed.


(* ------------------------------------------------------------------------------------------ *)
(* the order of the run events, independent of what the programs return *)

Lemma filter_app_split {A} (f : A -> bool) l : forall a b, filter f l = a ++ b ->
  exists a' b', l = a' ++ b' /\ filter f a' = a /\ filter f b' = b.
Proof.
  induction l as [|y l IH]; intros a b E; simpl in E.
  - symmetry in E. apply app_eq_nil in E as [-> ->]. exists [], []. auto.
  - destruct (f y) eqn:Fy.
    + destruct a as [|a0 a]; simpl in E.
      * exists [], (y :: l). simpl. rewrite Fy. auto.
      * injection E as E1 E2. subst a0. destruct (IH _ _ E2) as (a' & b' & E3 & Ha & Hb). subst l.
        exists (y :: a'), b'. simpl. rewrite Fy, Ha. auto.
    + destruct (IH _ _ E) as (a' & b' & E3 & Ha & Hb). subst l.
      exists (y :: a'), b'. simpl. rewrite Fy. auto.
Qed.

Lemma run_level_keys run p pm st level : forall rs,
  run_level run p pm st level = Ok rs -> map (fun r => (fst (fst r), snd r)) rs = map (fun v => (v, inputs_of pm st v)) level.
Proof.
  induction level as [|v level IH]; intros rs H; simpl in H.
  - injection H as <-. reflexivity.
  - apply bind_ok in H as (r & Hr & H). apply bind_ok in H as (rs' & Hrs & H). injection H as <-.
    simpl. now rewrite (IH rs' Hrs).
Qed.

Lemma absorb_stop_failed p ca d rs : forall st,
  snd (absorb p ca d st rs) = true -> is_failed (fst (absorb p ca d st rs)) <> [].
Proof.
  induction rs as [|[[v r] ins] rs IH]; intros st; simpl; [discriminate|].
  destruct r as [[s m|o] g|].
  - destruct (should_cache p d v); apply IH.
  - apply IH.
  - destruct ca; [apply IH|]. simpl. intros _ H. apply app_eq_nil in H as [_ H]. discriminate.
Qed.

Lemma run_levels_events run p ca pm d : forall rest st st' stop,
  run_levels run p ca pm d st rest = Ok (st', stop) ->
  exists done rest', rest = done ++ rest' /\
     map fst (rev (is_events st')) = map fst (rev (is_events st)) ++ concat done /\
     (stop = false -> rest' = []) /\ (stop = true -> is_failed st' <> []).
Proof.
  induction rest as [|level rest IH]; intros st st' stop H; simpl in H.
  - injection H as <- <-. exists [], []. simpl. rewrite app_nil_r. repeat split; auto; discriminate.
  - apply bind_ok in H as (rs & Hrs & H).
    pose proof (absorb_events p ca d rs (add_events st rs)) as Hev.
    pose proof (absorb_stop_failed p ca d rs (add_events st rs)) as Hsf.
    destruct (absorb p ca d (add_events st rs) rs) as [st1 stop1]. cbn [fst snd] in Hev, Hsf.
    assert (E1 : map fst (rev (is_events st1)) = map fst (rev (is_events st)) ++ level).
    { rewrite Hev. cbn [add_events is_events]. rewrite rev_app_distr, rev_involutive, map_app.
      rewrite (run_level_keys _ _ _ _ _ _ Hrs), map_map. cbn [fst]. now rewrite map_id. }
    destruct stop1.
    + injection H as <- <-. exists [level], rest. simpl. rewrite app_nil_r.
      repeat split; auto; discriminate.
    + destruct (IH _ _ _ H) as (done & rest' & E & E2 & H1 & H2).
      exists (level :: done), rest'. simpl. rewrite E2, E1, <- app_assoc. rewrite E. repeat split; auto.
Qed.

Section FinalA.
  Variable run : nat -> bool -> list sm -> outcome unit prog_res.
  Variable p : predicate.
  Variable ca : bool.
  Variable pm : list (nat * list nat).
  Variable sorted : list (list nat).
  Variable r : inner_result.
  Hypothesis Hcpm : create_parent_map p = Ok pm.
  Hypothesis Htopo : parallel_topo_sort p pm = Ok sorted.
  Hypothesis Hres : single_pass run p ca = Ok r.
  Notation n := (length (p_nodes p)).
  Notation nodes := (concat sorted).

  (* the events are the nodes of a prefix of the levels, in level order; of all levels unless the check stopped
     at the first failure *)
  Lemma events_follow_levels_l :
    exists done rest, sorted = done ++ rest /\ map fst (ir_events r) = concat done /\
                      (no_program_failed (ir_res r) \/ ca = true -> rest = []).
  Proof.
    rewrite (single_pass_unfold run p ca pm sorted Hcpm Htopo) in Hres.
    destruct (run_levels run p ca pm [] st0 (filter nonempty sorted)) as [[st stop]| | |] eqn:ERL; try discriminate.
    cbn [bind fst] in Hres. injection Hres as Er.
    destruct (run_levels_events _ _ _ _ _ _ _ _ _ ERL) as (done' & rest' & E & Eev & H1 & H2).
    destruct (run_levels_failed run p pm ca _ _ _ _ ERL) as (_ & _ & Hca).
    assert (Hstop : no_program_failed (ir_res r) \/ ca = true -> stop = false).
    { intros [Hnf|Hc]; [|auto]. destruct stop; [|reflexivity]. exfalso.
      rewrite <- Er in Hnf. cbn [ir_res] in Hnf. unfold res_of in Hnf.
      destruct (is_failed st) eqn:Ef; [now apply H2|exact Hnf]. }
    destruct stop.
    - destruct (filter_app_split _ _ _ _ E) as (done & rest & Es & Hd & Hr).
      exists done, rest. split; [exact Es|]. split.
      + rewrite <- Er. cbn [ir_events]. rewrite Eev. cbn. rewrite <- Hd. apply concat_filter_nonempty.
      + intros H. specialize (Hstop H). discriminate.
    - rewrite (H1 eq_refl), app_nil_r in E. subst done'.
      exists sorted, []. split; [now rewrite app_nil_r|]. split; [|reflexivity].
      rewrite <- Er. cbn [ir_events]. rewrite Eev. cbn. apply concat_filter_nonempty.
  Qed.

  Hypothesis Hok : level_sort_ok p pm sorted.

  (* (a) *)
  Lemma each_node_once_after_parents_l : no_program_failed (ir_res r) ->
    map fst (ir_events r) = nodes /\ NoDup (map fst (ir_events r)) /\
    Permutation (map fst (ir_events r)) (seq 0 n) /\
    forall pre v ins post, ir_events r = pre ++ (v, ins) :: post ->
                           forall u, In u (parents_ref p v) -> In u (map fst pre).
  Proof.
    intros Hnf.
    assert (Eev : map fst (ir_events r) = nodes).
    { destruct events_follow_levels_l as (done & rest & Es & Eev & Hr).
      rewrite (Hr (or_introl Hnf)), app_nil_r in Es. now subst done. }
    split; [exact Eev|]. rewrite Eev. split; [exact (lso_nodup _ _ _ Hok)|]. split.
    - apply NoDup_Permutation; [exact (lso_nodup _ _ _ Hok)|apply seq_NoDup|].
      intros x. rewrite (lso_nodes _ _ _ Hok x), in_seq. lia.
    - intros pre v ins post E u Hu.
      assert (Esplit : nodes = map fst pre ++ v :: map fst post).
      { rewrite <- Eev, E, map_app. reflexivity. }
      assert (Hv : In v nodes) by (rewrite Esplit; apply in_or_app; right; now left).
      apply in_concat in Hv as (level & Hl & Hvl).
      apply in_split in Hl as (done & rest & Es). apply in_split in Hvl as (a & b & El).
      assert (Hud : In u (concat done)).
      { eapply (lso_parents_before _ _ _ Hok); [exact Es| |exact Hu]. rewrite El. apply in_or_app; right; now left. }
      assert (E2 : nodes = (concat done ++ a) ++ v :: (b ++ concat rest)).
      { rewrite Es, concat_app. simpl. rewrite El, <- !app_assoc. reflexivity. }
      assert (E3 : map fst pre = concat done ++ a).
      { eapply nodup_split_unique; [|rewrite <- Esplit; exact E2]. rewrite <- Esplit. exact (lso_nodup _ _ _ Hok). }
      rewrite E3. apply in_or_app. now left.
  Qed.

End FinalA.

Section Final.
  Variable run : nat -> bool -> list sm -> outcome unit prog_res.
  Variable p : predicate.
  Variable ca : bool.
  Variable pm : list (nat * list nat).
  Variable sorted : list (list nat).
  Variable r : inner_result.
  Hypothesis Hcpm : create_parent_map p = Ok pm.
  Hypothesis Htopo : parallel_topo_sort p pm = Ok sorted.
  Hypothesis Hok : level_sort_ok p pm sorted.
  Hypothesis Hleaf : run_respects_leaf run.
  Hypothesis Hres : single_pass run p ca = Ok r.
  Notation n := (length (p_nodes p)).
  Notation nodes := (concat sorted).
  Notation val := (vals p run).

  Lemma final_cases : exists st,
      r = {| ir_res := res_of st; ir_cache := []; ir_events := rev (is_events st) |} /\
      (invA run p nodes nodes st \/ invF run p sorted ca st).
  Proof.
    rewrite (single_pass_unfold run p ca pm sorted Hcpm Htopo) in Hres.
    destruct (run_levels run p ca pm [] st0 (filter nonempty sorted)) as [[st stop]| | |] eqn:ERL; try discriminate.
    cbn [bind fst] in Hres. injection Hres as Er. exists st.
    destruct (run_levels_failed run p pm ca _ _ _ _ ERL) as (_ & Hc & _). cbn in Hc.
    split; [rewrite <- Er, Hc; reflexivity|].
    pose proof (run_levels_all run p (filter nonempty sorted)) as H.
    rewrite concat_filter_nonempty in H.
    specialize (H (lso_nodup _ _ _ Hok) (lso_nodes _ _ _ Hok)
                  (parents_before_filter _ _ (lso_parents_before _ _ _ Hok))
                  (filter_nonempty_all sorted) pm (create_parent_map_valid p pm Hcpm) (lso_parents _ _ _ Hok) Hleaf
                  ca st stop ERL).
    destruct H as [(_ & HA)|HF]; [now left|right].
    unfold invF in *. rewrite concat_filter_nonempty in HF. exact HF.
  Qed.

  Lemma no_failure_A : no_program_failed (ir_res r) ->
    exists st, r = {| ir_res := res_of st; ir_cache := []; ir_events := map (ev run p) nodes |} /\ invA run p nodes nodes st.
  Proof.
    intros Hnf. destruct final_cases as (st & Er & [HA|HF]).
    - exists st. split; [|exact HA]. rewrite Er, (a_events _ _ _ _ _ HA), rev_involutive. reflexivity.
    - exfalso. destruct HF as (pre & f & post & tl & _ & _ & _ & _ & Hfl & _).
      rewrite Er in Hnf. cbn [ir_res] in Hnf. unfold res_of in Hnf. rewrite Hfl in Hnf. exact Hnf.
  Qed.

  Lemma map_fst_ev l : map fst (map (ev run p) l) = l.
  Proof. rewrite map_map. unfold ev. simpl. apply map_id. Qed.

  (* (b) *)
  Lemma inputs_are_parent_outputs_l : no_program_failed (ir_res r) ->
    forall v ins, In (v, ins) (ir_events r) ->
      ins = flat_map (fun u => opt_list (out_of_events run p (ir_events r) u)) (parents_ref p v) /\
      forall u, In u (parents_ref p v) ->
                is_leaf p u = false /\ exists o, out_of_events run p (ir_events r) u = Some o.
  Proof.
    intros Hnf v ins Hin. destruct (no_failure_A Hnf) as (st & Er & HA).
    rewrite Er in Hin |- *. cbn [ir_events] in Hin |- *.
    apply in_map_iff in Hin as (w & Ew & Hw). unfold ev in Ew. injection Ew as -> <-.
    assert (Hpn : forall u, In u (parents_ref p v) -> In u nodes).
    { intros u Hu. apply (lso_nodes _ _ _ Hok). eapply parent_lt; eauto. }
    split.
    - unfold ref_ins. apply flat_map_ext_in'. intros u Hu.
      rewrite (out_of_events_A run p nodes st u HA (Hpn u Hu)). reflexivity.
    - intros u Hu. pose proof (Hpn u Hu) as Hun. split.
      + rewrite (is_leaf_ref p u).
        * eapply parent_not_leaf; eauto.
        * apply (create_parent_map_valid p pm Hcpm). eapply parent_lt; eauto.
      + rewrite (out_of_events_A run p nodes st u HA Hun).
        destruct (a_vals _ _ _ _ _ HA u Hun) as (_ & r0 & _ & Hval & _ & Hl).
        destruct (Hl (parent_not_leaf _ _ _ Hu)) as (s & m & g & E). subst r0.
        unfold outv. rewrite Hval. simpl. eauto.
  Qed.

  (* (c), success *)
  Lemma inner_ok_iff_l :
    (exists gas data, ir_res r = Ok (gas, data)) <-> (forall v, v < n -> good_val (val v)).
  Proof.
    split.
    - intros (gas & data & E).
      assert (Hnf : no_program_failed (ir_res r)) by (rewrite E; exact I).
      destruct (no_failure_A Hnf) as (st & Er & HA). rewrite Er in E. cbn [ir_res] in E.
      unfold res_of in E. rewrite (a_failed _ _ _ _ _ HA) in E.
      destruct (is_unsat st) eqn:Eu; [|discriminate]. rewrite (a_unsat _ _ _ _ _ HA) in Eu.
      intros v Hv. apply (lso_nodes _ _ _ Hok) in Hv.
      apply (ran_unsat_good v).
      + apply node_ok_ran. exact (a_vals _ _ _ _ _ HA v Hv).
      + exact (flat_map_nil_inv _ _ Eu v Hv).
    - intros Hgood. destruct final_cases as (st & Er & [HA|HF]).
      + rewrite Er. cbn [ir_res]. unfold res_of. rewrite (a_failed _ _ _ _ _ HA).
        rewrite (a_unsat _ _ _ _ _ HA). rewrite flat_map_all_nil; [eauto|].
        intros v Hv. apply good_unsat_nil. apply Hgood. apply (lso_nodes _ _ _ Hok). exact Hv.
      + exfalso. destruct HF as (pre & f & post & tl & _ & _ & Hf & Hvf & _).
        specialize (Hgood f Hf). rewrite Hvf in Hgood. exact Hgood.
  Qed.

  Lemma inner_ok_values_l gas data : ir_res r = Ok (gas, data) ->
    gas = fold_left (fun a v => gas_add a (val v)) nodes 0%Z /\
    data = flat_map (fun v => data_of (val v)) nodes.
  Proof.
    intros E. assert (Hnf : no_program_failed (ir_res r)) by (rewrite E; exact I).
    destruct (no_failure_A Hnf) as (st & Er & HA). rewrite Er in E. cbn [ir_res] in E.
    unfold res_of in E. rewrite (a_failed _ _ _ _ _ HA) in E.
    destruct (is_unsat st); [|discriminate]. injection E as <- <-.
    split; [apply (a_gas _ _ _ _ _ HA)|apply (a_data _ _ _ _ _ HA)].
  Qed.

  (* (c), unsatisfied *)
  Lemma inner_unsat_l us : ir_res r = Err (PConstraintsUnsatisfied us) ->
    (forall v, v < n -> ran_ok (val v)) /\ us <> [] /\
    us = flat_map (fun v => unsat_of v (val v)) nodes.
  Proof.
    intros E. assert (Hnf : no_program_failed (ir_res r)) by (rewrite E; exact I).
    destruct (no_failure_A Hnf) as (st & Er & HA). rewrite Er in E. cbn [ir_res] in E.
    unfold res_of in E. rewrite (a_failed _ _ _ _ _ HA) in E.
    destruct (is_unsat st) eqn:Eu; [discriminate|]. injection E as <-.
    split. { intros v Hv. apply node_ok_ran. apply (a_vals _ _ _ _ _ HA). apply (lso_nodes _ _ _ Hok). exact Hv. }
    split; [discriminate|]. rewrite <- Eu. apply (a_unsat _ _ _ _ _ HA).
  Qed.

  (* (c), failure *)
  Lemma inner_failed_l failed : ir_res r = Err (PProgramErrors failed) ->
    exists f tl pre post, failed = f :: tl /\ nodes = pre ++ f :: post /\
                          (forall v, In v pre -> ran_ok (val v)) /\ val f = Ok NVFail /\ (ca = false -> tl = []).
  Proof.
    intros E. destruct final_cases as (st & Er & [HA|HF]); rewrite Er in E; cbn [ir_res] in E; unfold res_of in E.
    - rewrite (a_failed _ _ _ _ _ HA) in E. destruct (is_unsat st); discriminate.
    - destruct HF as (pre & f & post & tl & Es & Hpre & Hf & Hvf & Hfl & Hca).
      rewrite Hfl in E. injection E as <-. exists f, tl, pre, post.
      repeat split; auto. intros v Hv. apply node_ok_ran. auto.
  Qed.

  Lemma single_pass_cache_l : ir_cache r = [].
  Proof. destruct final_cases as (st & Er & _). rewrite Er. reflexivity. Qed.
End Final.
