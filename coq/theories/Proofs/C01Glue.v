(* Glue: the facts about the level sort that InnerEval assumes (record level_sort_ok) are the ones Kahn proves. *)
From Coq Require Import List Arith Lia Permutation.
From EB Require Import Proofs.KahnBase Proofs.Kahn Spec.InnerSpec Proofs.InnerEval Spec.GraphRef.
Import ListNotations.
Open Scope nat_scope.

Lemma edge_inner_kahn p u v : InnerSpec.edge p u v <-> KahnBase.edge p u v.
Proof.
  unfold InnerSpec.edge, KahnBase.edge, kids. split.
  - intros [H1 H2]. split; [assumption|]. destruct (children p u) as [cs|] eqn:E; [eauto|contradiction].
  - intros [H1 [cs [E H2]]]. split; [assumption|]. rewrite E. assumption.
Qed.

Lemma in_concat_nth {A} (x : A) (ls : list (list A)) :
  In x (concat ls) -> exists i L, nth_error ls i = Some L /\ In x L.
Proof.
  induction ls as [|L ls IH]; simpl; intros H; [contradiction|].
  apply in_app_or in H as [H|H].
  - exists 0, L. split; [reflexivity|assumption].
  - destruct (IH H) as [i [L' [E I]]]. exists (S i), L'. split; assumption.
Qed.

Lemma nth_error_nth_default {A} (ls : list (list A)) i L : nth_error ls i = Some L -> nth i ls [] = L.
Proof. revert i; induction ls as [|x ls IH]; intros [|i]; simpl; intros H; try discriminate; [congruence|auto]. Qed.

Lemma kahn_level_sort_ok p pm levels :
  create_parent_map p = Ok pm -> parallel_topo_sort p pm = Ok levels -> level_sort_ok p pm levels.
Proof.
  intros Hpm Hts.
  destruct (kahn_levels p pm levels Hpm Hts) as [_ [Hnd [Hin [_ [_ Hedge]]]]].
  constructor.
  - exact Hnd.
  - exact Hin.
  - intros u v He Hv.
    apply edge_inner_kahn in He.
    assert (Hu : u < length (p_nodes p)) by (destruct He; assumption).
    apply Hin in Hu. apply Hin in Hv.
    destruct (in_concat_nth _ _ Hu) as [i [Li [Ei Ii]]].
    destruct (in_concat_nth _ _ Hv) as [j [Lj [Ej Ij]]].
    exists i, j. split; [exact (Hedge u v i j Li Lj He Ei Ii Ej Ij)|].
    rewrite (nth_error_nth_default _ _ _ Ei), (nth_error_nth_default _ _ _ Ej). split; assumption.
  - intros v _. exact (parents_of_spec p pm Hpm v).
Qed.

(* ---- the Inner theorems with the level-sort facts discharged ---- *)
Section Combined.
  Variables (run : nat -> bool -> list sm -> outcome unit prog_res) (p : predicate) (collect_all : bool)
            (pm : list (nat * list nat)) (levels : list (list nat)) (r : inner_result).
  Hypothesis Hpm : create_parent_map p = Ok pm.
  Hypothesis Hts : parallel_topo_sort p pm = Ok levels.
  Hypothesis Hrun : single_pass run p collect_all = Ok r.

  Lemma c01_each_node_once :
    no_program_failed (ir_res r) ->
    map fst (ir_events r) = concat levels /\ NoDup (map fst (ir_events r)) /\
    Permutation (map fst (ir_events r)) (seq 0 (length (p_nodes p))) /\
    forall pre v ins post, ir_events r = pre ++ (v, ins) :: post ->
                           forall u, In u (parents_ref p v) -> In u (map fst pre).
  Proof. exact (each_node_once_after_parents_l run p collect_all pm levels r Hpm Hts Hrun (kahn_level_sort_ok p pm levels Hpm Hts)). Qed.

  Lemma c01_inputs : run_respects_leaf run -> no_program_failed (ir_res r) ->
    forall v ins, In (v, ins) (ir_events r) ->
      ins = flat_map (fun u => opt_list (out_of_events run p (ir_events r) u)) (parents_ref p v) /\
      forall u, In u (parents_ref p v) -> is_leaf p u = false /\ exists o, out_of_events run p (ir_events r) u = Some o.
  Proof. intros Hl. exact (inputs_are_parent_outputs_l run p collect_all pm levels r Hpm Hts (kahn_level_sort_ok p pm levels Hpm Hts) Hl Hrun). Qed.

  Lemma c01_ok_iff : run_respects_leaf run ->
    ((exists gas data, ir_res r = Ok (gas, data)) <-> (forall v, v < length (p_nodes p) -> good_val (vals p run v))).
  Proof. intros Hl. exact (inner_ok_iff_l run p collect_all pm levels r Hpm Hts (kahn_level_sort_ok p pm levels Hpm Hts) Hl Hrun). Qed.

  Lemma c01_ok_values : run_respects_leaf run -> forall gas data, ir_res r = Ok (gas, data) ->
      gas = fold_left (fun a v => gas_add a (vals p run v)) (concat levels) 0%Z /\
      data = flat_map (fun v => data_of (vals p run v)) (concat levels).
  Proof. intros Hl. exact (inner_ok_values_l run p collect_all pm levels r Hpm Hts (kahn_level_sort_ok p pm levels Hpm Hts) Hl Hrun). Qed.

  Lemma c01_unsat : run_respects_leaf run -> forall us, ir_res r = Err (PConstraintsUnsatisfied us) ->
      (forall v, v < length (p_nodes p) -> ran_ok (vals p run v)) /\ us <> [] /\
      us = flat_map (fun v => unsat_of v (vals p run v)) (concat levels).
  Proof. intros Hl. exact (inner_unsat_l run p collect_all pm levels r Hpm Hts (kahn_level_sort_ok p pm levels Hpm Hts) Hl Hrun). Qed.

  Lemma c01_failed : run_respects_leaf run -> forall failed, ir_res r = Err (PProgramErrors failed) ->
      exists f tl pre post, failed = f :: tl /\ concat levels = pre ++ f :: post /\
        (forall v, In v pre -> ran_ok (vals p run v)) /\ vals p run f = Ok NVFail /\ (collect_all = false -> tl = []).
  Proof. intros Hl. exact (inner_failed_l run p collect_all pm levels r Hpm Hts (kahn_level_sort_ok p pm levels Hpm Hts) Hl Hrun). Qed.
End Combined.
