(* C08: assembly of the per-operation refinement lemmas, and the error-index theorem for `exec`. *)
From Coq Require Import ZArith List Lia Bool.
From EB Require Import Vm.Exec Spec.Ops Proofs.OpsRefine Proofs.OpsRefine2 Proofs.OpsRefine3.
Import ListNotations.
Open Scope list_scope.
Open Scope Z_scope.

Lemma data_step_refines o s m pm :
  is_data_op o = true -> zlen s <= 4096 -> zlen m <= 10240 ->
  refines (data_step o s m pm) (op_spec o s m pm).
Proof.
  intros Hd Hs Hm. destruct o; try discriminate Hd.
  - apply r_push; assumption.
  - apply r_pop; assumption.
  - apply r_dup; assumption.
  - apply r_dup_from; assumption.
  - apply r_swap; assumption.
  - apply r_swap_index; assumption.
  - apply r_select; assumption.
  - apply r_select_range; assumption.
  - apply r_reserve; assumption.
  - apply r_load_s; assumption.
  - apply r_store_s; assumption.
  - apply r_drop; assumption.
  - apply r_eq; assumption.
  - apply r_eq_range; assumption.
  - apply r_gt; assumption.
  - apply r_lt; assumption.
  - apply r_gte; assumption.
  - apply r_lte; assumption.
  - apply r_and; assumption.
  - apply r_or; assumption.
  - apply r_not; assumption.
  - apply r_eq_set; assumption.
  - apply r_bitand; assumption.
  - apply r_bitor; assumption.
  - apply r_add; assumption.
  - apply r_sub; assumption.
  - apply r_mul; assumption.
  - apply r_div; assumption.
  - apply r_mod; assumption.
  - apply r_shl; assumption.
  - apply r_shr; assumption.
  - apply r_shri; assumption.
  - apply r_alloc; assumption.
  - apply r_free; assumption.
  - apply r_load; assumption.
  - apply r_store; assumption.
  - apply r_load_range; assumption.
  - apply r_store_range; assumption.
  - apply r_loadp; assumption.
  - apply r_load_rangep; assumption.
Qed.

Definition same_rest (v v' : vm) : Prop :=
  pc v' = pc v /\ halt v' = halt v /\ rstack v' = rstack v /\ parent_memory v' = parent_memory v.

Theorem data_op_refines_spec : forall E o v v' c,
  is_data_op o = true -> well_formed_op o -> zlen (stack v) <= 4096 -> zlen (memory v) <= 10240 ->
  (step_basic E o v = Ok (v', c) <->
   (op_spec o (stack v) (memory v) (parent_memory v) = Some (stack v', memory v') /\ c = CNext /\
    pc v' = pc v /\ halt v' = halt v /\ rstack v' = rstack v /\ parent_memory v' = parent_memory v)).
Proof.
  intros E o v v' c Hd _ Hs Hm. rewrite (step_basic_data E o v Hd).
  pose proof (data_step_refines o (stack v) (memory v) (parent_memory v) Hd Hs Hm) as H.
  destruct (op_spec o (stack v) (memory v) (parent_memory v)) as [[s' m']|]; cbn [refines] in H.
  - rewrite H. cbn [bind]. split.
    + intros [= <- <-]. cbn [set_stack_mem stack memory pc halt rstack parent_memory]. repeat split.
    + intros [Hsp [-> [Hpc [Hh [Hr Hp]]]]]. injection Hsp as -> ->.
      destruct v as [p0 s0 m0 pm0 h0 r0], v' as [p1 s1 m1 pm1 h1 r1].
      cbn [set_stack_mem stack memory pc halt rstack parent_memory] in *. subst. reflexivity.
  - destruct H as [e ->]. cbn [bind]. split; [discriminate|]. intros [Hsp _]. discriminate Hsp.
Qed.

Theorem data_op_spec_none_is_error : forall E o v,
  is_data_op o = true -> well_formed_op o -> zlen (stack v) <= 4096 -> zlen (memory v) <= 10240 ->
  op_spec o (stack v) (memory v) (parent_memory v) = None -> exists e, step_basic E o v = Err e.
Proof.
  intros E o v Hd _ Hs Hm Hn. rewrite (step_basic_data E o v Hd).
  pose proof (data_step_refines o (stack v) (memory v) (parent_memory v) Hd Hs Hm) as H.
  rewrite Hn in H. destruct H as [e ->]. exists e. reflexivity.
Qed.

(* converse: a data op that does not produce a result fails by the specification (no panic, no fuel) *)
Theorem data_op_total : forall E o v,
  is_data_op o = true -> zlen (stack v) <= 4096 -> zlen (memory v) <= 10240 ->
  (exists v', step_basic E o v = Ok (v', CNext)) \/ (exists e, step_basic E o v = Err e).
Proof.
  intros E o v Hd Hs Hm. rewrite (step_basic_data E o v Hd).
  pose proof (data_step_refines o (stack v) (memory v) (parent_memory v) Hd Hs Hm) as H.
  destruct (op_spec o (stack v) (memory v) (parent_memory v)) as [[s' m']|]; cbn [refines] in H.
  - left. rewrite H. eexists. reflexivity.
  - right. destruct H as [e ->]. exists e. reflexivity.
Qed.

(* ---------- the error carries the failing operation's own index ---------- *)
Theorem error_at_own_index : forall f E oa limit v spent tr o e,
  oa (pc v) = Some o ->
  spent + e_cost E o <= 18446744073709551615 -> spent + e_cost E o <= limit ->
  o <> OCompute ->
  step_basic E o v = Err e ->
  exec (S f) E oa limit v spent tr = Err (pc v, e, v).
Proof.
  intros f E oa limit v spent tr o e Hoa Hg1 Hg2 Hno Hstep.
  cbn [exec]. rewrite Hoa.
  assert (Hgas : (u64_max <? spent + e_cost E o) || (limit <? spent + e_cost E o) = false).
  { unfold u64_max, two64. apply orb_false_iff. split; apply Z.ltb_ge; lia. }
  rewrite Hgas.
  destruct o; try (exfalso; apply Hno; reflexivity); rewrite Hstep; reflexivity.
Qed.
