(* Proofs about the text codecs (Types/Hex.v) and the human-readable serde surface (Types/Serde.v). *)
From Coq Require Import String.
From Coq Require Import ZArith List Lia Bool Permutation.
From EB Require Import Types.Hex Types.Serde Spec.PredicateSpec Proofs.PredicateProofs.
Open Scope string_scope.
Open Scope list_scope.
Open Scope Z_scope.

(* ================================================================== *)
(* Part 1: hex                                                         *)
(* ================================================================== *)

(* ---------- the finite sweep over all 256 bytes ---------- *)

Definition all_bytes : list Z := map Z.of_nat (seq 0 256).

Lemma all_bytes_in b : byte b -> In b all_bytes.
Proof.
  intros H. unfold byte in H. unfold all_bytes. apply in_map_iff. exists (Z.to_nat b).
  split; [lia|]. apply in_seq. lia.
Qed.

(* both digits of the rendering of b decode, and the two nibbles recombine to b *)
Definition pair_ok (d : Z -> Z) (b : Z) : bool :=
  match hex_val (d (b / 16)), hex_val (d (b mod 16)) with
  | Some h, Some l => h * 16 + l =? b
  | _, _ => false
  end.

Lemma sweep_upper : forallb (pair_ok hex_digit_upper) all_bytes = true.
Proof. vm_compute. reflexivity. Qed.
Lemma sweep_lower : forallb (pair_ok hex_digit_lower) all_bytes = true.
Proof. vm_compute. reflexivity. Qed.

Lemma pair_ok_byte (d : Z -> Z) :
  forallb (pair_ok d) all_bytes = true -> forall b, byte b -> pair_ok d b = true.
Proof. intros H b Hb. rewrite forallb_forall in H. apply H. apply all_bytes_in. exact Hb. Qed.

Lemma decode_pairs_cons (d : Z -> Z) b r :
  pair_ok d b = true ->
  hex_decode_pairs (d (b / 16) :: d (b mod 16) :: r) =
  match hex_decode_pairs r with Some bs => Some (b :: bs) | None => None end.
Proof.
  unfold pair_ok. intros H. cbn [hex_decode_pairs].
  destruct (hex_val (d (b / 16))) as [h|]; [|discriminate].
  destruct (hex_val (d (b mod 16))) as [l|]; [|discriminate].
  apply Z.eqb_eq in H. rewrite H. reflexivity.
Qed.

(* single byte *)
Lemma hex_byte_roundtrip_upper b : byte b -> hex_decode (hex_byte_upper b) = Some [b].
Proof.
  intros Hb. unfold hex_decode, hex_byte_upper. cbn [length Nat.even].
  rewrite (decode_pairs_cons hex_digit_upper b [] (pair_ok_byte _ sweep_upper b Hb)). reflexivity.
Qed.
Lemma hex_byte_roundtrip_lower b : byte b -> hex_decode (hex_byte_lower b) = Some [b].
Proof.
  intros Hb. unfold hex_decode, hex_byte_lower. cbn [length Nat.even].
  rewrite (decode_pairs_cons hex_digit_lower b [] (pair_ok_byte _ sweep_lower b Hb)). reflexivity.
Qed.

(* ---------- lengths ---------- *)

Lemma hex_encode_upper_length bs : length (hex_encode_upper bs) = (2 * length bs)%nat.
Proof. induction bs as [|b bs IH]; [reflexivity|]. unfold hex_encode_upper in *. cbn [flat_map hex_byte_upper app length]. rewrite IH. lia. Qed.
Lemma hex_encode_lower_length bs : length (hex_encode_lower bs) = (2 * length bs)%nat.
Proof. induction bs as [|b bs IH]; [reflexivity|]. unfold hex_encode_lower in *. cbn [flat_map hex_byte_lower app length]. rewrite IH. lia. Qed.

Lemma even_double n : Nat.even (2 * n) = true.
Proof. rewrite Nat.even_mul. reflexivity. Qed.

(* ---------- round trips ---------- *)

Lemma decode_pairs_upper bs : Forall byte bs -> hex_decode_pairs (hex_encode_upper bs) = Some bs.
Proof.
  induction bs as [|b bs IH]; intros H; [reflexivity|].
  pose proof (Forall_inv H) as Hb. pose proof (Forall_inv_tail H) as Ht.
  unfold hex_encode_upper. cbn [flat_map hex_byte_upper app].
  rewrite (decode_pairs_cons hex_digit_upper b _ (pair_ok_byte _ sweep_upper b Hb)).
  fold (hex_encode_upper bs). rewrite (IH Ht). reflexivity.
Qed.
Lemma decode_pairs_lower bs : Forall byte bs -> hex_decode_pairs (hex_encode_lower bs) = Some bs.
Proof.
  induction bs as [|b bs IH]; intros H; [reflexivity|].
  pose proof (Forall_inv H) as Hb. pose proof (Forall_inv_tail H) as Ht.
  unfold hex_encode_lower. cbn [flat_map hex_byte_lower app].
  rewrite (decode_pairs_cons hex_digit_lower b _ (pair_ok_byte _ sweep_lower b Hb)).
  fold (hex_encode_lower bs). rewrite (IH Ht). reflexivity.
Qed.

Lemma hex_roundtrip_upper bs : Forall byte bs -> hex_decode (hex_encode_upper bs) = Some bs.
Proof. intros H. unfold hex_decode. rewrite hex_encode_upper_length, even_double. apply decode_pairs_upper, H. Qed.
Lemma hex_roundtrip_lower bs : Forall byte bs -> hex_decode (hex_encode_lower bs) = Some bs.
Proof. intros H. unfold hex_decode. rewrite hex_encode_lower_length, even_double. apply decode_pairs_lower, H. Qed.

Lemma hex_decode_case_insensitive bs :
  Forall byte bs -> hex_decode (hex_encode_upper bs) = hex_decode (hex_encode_lower bs).
Proof. intros H. rewrite hex_roundtrip_upper, hex_roundtrip_lower by exact H. reflexivity. Qed.

(* ---------- rejections ---------- *)

Lemma hex_decode_odd cs : Nat.odd (length cs) = true -> hex_decode cs = None.
Proof. intros H. unfold hex_decode. rewrite <- Nat.negb_odd, H. reflexivity. Qed.

Lemma list_pair_ind (P : list Z -> Prop) :
  P [] -> (forall a, P [a]) -> (forall a b r, P r -> P (a :: b :: r)) -> forall l, P l.
Proof.
  intros H0 H1 H2. fix IH 1. intros l. destruct l as [|a l']; [exact H0|].
  destruct l' as [|b r]; [apply H1|]. apply H2. apply IH.
Qed.

Lemma decode_pairs_bad_char c cs : In c cs -> hex_val c = None -> hex_decode_pairs cs = None.
Proof.
  intros Hin Hc. revert Hin. induction cs as [|a|a b r IH] using list_pair_ind; intros Hin.
  - destruct Hin.
  - reflexivity.
  - cbn [hex_decode_pairs].
    destruct Hin as [E|[E|Hin]].
    + subst a. rewrite Hc. reflexivity.
    + subst b. rewrite Hc. destruct (hex_val a); reflexivity.
    + rewrite (IH Hin). destruct (hex_val a); [destruct (hex_val b)|]; reflexivity.
Qed.

Lemma hex_decode_bad_char c cs : In c cs -> hex_val c = None -> hex_decode cs = None.
Proof. intros Hin Hc. unfold hex_decode. rewrite (decode_pairs_bad_char c cs Hin Hc). destruct (Nat.even (length cs)); reflexivity. Qed.

(* ---------- what a successful decode returns ---------- *)

Lemma hex_val_range c n : hex_val c = Some n -> 0 <= n < 16.
Proof.
  unfold hex_val. intros H.
  destruct (Z.leb_spec 65 c), (Z.leb_spec c 70); cbn [andb] in H; try (injection H as <-; lia);
  destruct (Z.leb_spec 97 c), (Z.leb_spec c 102); cbn [andb] in H; try (injection H as <-; lia);
  destruct (Z.leb_spec 48 c), (Z.leb_spec c 57); cbn [andb] in H; try (injection H as <-; lia); discriminate.
Qed.

Lemma decode_pairs_sound cs : forall bs,
  hex_decode_pairs cs = Some bs -> Forall byte bs /\ length cs = (2 * length bs)%nat.
Proof.
  induction cs as [|a|a b r IH] using list_pair_ind; intros bs H.
  - injection H as <-. split; [constructor|reflexivity].
  - discriminate.
  - cbn [hex_decode_pairs] in H.
    destruct (hex_val a) as [h|] eqn:Ea; [|discriminate].
    destruct (hex_val b) as [l|] eqn:Eb; [|discriminate].
    destruct (hex_decode_pairs r) as [bs'|]; [|discriminate].
    injection H as <-. destruct (IH bs' eq_refl) as [F L].
    pose proof (hex_val_range a h Ea). pose proof (hex_val_range b l Eb).
    split; [constructor; [unfold byte; lia|exact F]|]. cbn [length]. rewrite L. lia.
Qed.

(* a decoded string consists of bytes and was twice as long *)
Lemma hex_decode_sound cs bs : hex_decode cs = Some bs -> Forall byte bs /\ length cs = (2 * length bs)%nat.
Proof. unfold hex_decode. destruct (Nat.even (length cs)); [apply decode_pairs_sound|discriminate]. Qed.

(* ---------- mixed case: decoding ignores the case of every letter ---------- *)

(* u8::to_ascii_uppercase / to_ascii_lowercase *)
Definition ascii_upper (c : Z) : Z := if (97 <=? c) && (c <=? 122) then c - 32 else c.
Definition ascii_lower (c : Z) : Z := if (65 <=? c) && (c <=? 90) then c + 32 else c.

Ltac leb_split :=
  repeat (match goal with |- context [?a <=? ?b] => destruct (Z.leb_spec a b) end; cbn [andb]; try lia).

Lemma hex_val_upper c : hex_val (ascii_upper c) = hex_val c.
Proof. unfold ascii_upper. leb_split; [|reflexivity..]. unfold hex_val. leb_split; first [reflexivity | f_equal; lia]. Qed.
Lemma hex_val_lower c : hex_val (ascii_lower c) = hex_val c.
Proof. unfold ascii_lower. leb_split; [|reflexivity..]. unfold hex_val. leb_split; first [reflexivity | f_equal; lia]. Qed.

Lemma decode_pairs_map (f : Z -> Z) :
  (forall c, hex_val (f c) = hex_val c) -> forall cs, hex_decode_pairs (map f cs) = hex_decode_pairs cs.
Proof.
  intros Hf cs. induction cs as [|a|a b r IH] using list_pair_ind; [reflexivity|reflexivity|].
  cbn [map hex_decode_pairs]. rewrite !Hf, IH. reflexivity.
Qed.

Lemma hex_decode_to_upper cs : hex_decode (map ascii_upper cs) = hex_decode cs.
Proof. unfold hex_decode. rewrite map_length, (decode_pairs_map ascii_upper hex_val_upper). reflexivity. Qed.
Lemma hex_decode_to_lower cs : hex_decode (map ascii_lower cs) = hex_decode cs.
Proof. unfold hex_decode. rewrite map_length, (decode_pairs_map ascii_lower hex_val_lower). reflexivity. Qed.

(* ---------- words <-> hex ---------- *)

Lemma bytes_of_words_byte ws : Forall byte (bytes_of_words ws).
Proof.
  induction ws as [|w ws IH]; [constructor|].
  unfold bytes_of_words in *. cbn [flat_map]. apply Forall_app. split; [apply bytes_of_word_byte|exact IH].
Qed.

(* chunks_exact drops a trailing incomplete chunk *)
Lemma chunks_flat_map_tail {A} (f : A -> list Z) (k : nat) (extra : list Z) (l : list A) : forall fuel,
  (length extra < k)%nat -> Forall (fun x => length (f x) = k) l -> (length l <= fuel)%nat ->
  chunks fuel k (flat_map f l ++ extra) = map f l.
Proof.
  induction l as [|x l IH]; intros fuel Hk HF Hfuel.
  - destruct fuel as [|fuel]; cbn [chunks flat_map map app]; [reflexivity|].
    destruct (Nat.ltb_spec (length extra) k) as [_|Hc]; [reflexivity|lia].
  - destruct fuel as [|fuel]; [cbn [length] in Hfuel; lia|].
    pose proof (Forall_inv HF) as Hx. pose proof (Forall_inv_tail HF) as Ht. cbv beta in Hx.
    cbn [chunks flat_map map]. rewrite <- app_assoc.
    destruct (Nat.ltb_spec (length (f x ++ flat_map f l ++ extra)) k) as [Hc|_].
    { rewrite app_length in Hc. lia. }
    rewrite (firstn_app_exact (f x) (flat_map f l ++ extra) k Hx), (skipn_app_exact (f x) (flat_map f l ++ extra) k Hx).
    f_equal. apply IH; [exact Hk|exact Ht|cbn [length] in Hfuel; lia].
Qed.

Lemma words_of_chunks_tail ws extra :
  Forall i64 ws -> (length extra < 8)%nat -> words_of_chunks (bytes_of_words ws ++ extra) = ws.
Proof.
  intros Hw He. unfold words_of_chunks, bytes_of_words.
  rewrite (chunks_flat_map_tail bytes_of_word 8 extra ws).
  - rewrite map_map. induction Hw as [|w ws Hw1 Hws IH]; [reflexivity|].
    cbn [map]. rewrite (word_of_bytes_of_word w Hw1), IH. reflexivity.
  - exact He.
  - apply Forall_forall. intros w _. apply bytes_of_word_length.
  - rewrite app_length. fold (bytes_of_words ws). rewrite bytes_of_words_length. lia.
Qed.

Lemma words_of_chunks_bytes ws : Forall i64 ws -> words_of_chunks (bytes_of_words ws) = ws.
Proof.
  intros H. rewrite <- (app_nil_r (bytes_of_words ws)). apply words_of_chunks_tail; [exact H|cbn [length]; lia].
Qed.

Lemma words_hex_roundtrip ws : Forall i64 ws -> words_from_hex (words_to_hex ws) = Some ws.
Proof.
  intros H. unfold words_from_hex, words_to_hex.
  rewrite (hex_roundtrip_lower _ (bytes_of_words_byte ws)). cbn [option_map].
  rewrite (words_of_chunks_bytes ws H). reflexivity.
Qed.

(* upper-case input is accepted as well *)
Lemma words_hex_roundtrip_upper ws : Forall i64 ws -> words_from_hex (hex_encode_upper (bytes_of_words ws)) = Some ws.
Proof.
  intros H. unfold words_from_hex.
  rewrite (hex_roundtrip_upper _ (bytes_of_words_byte ws)). cbn [option_map].
  rewrite (words_of_chunks_bytes ws H). reflexivity.
Qed.

(* words_from_hex_str silently drops up to 7 trailing bytes *)
Lemma words_from_hex_drops_tail ws extra :
  Forall i64 ws -> Forall byte extra -> (length extra < 8)%nat ->
  words_from_hex (hex_encode_lower (bytes_of_words ws ++ extra)) = Some ws.
Proof.
  intros Hw Hb He. unfold words_from_hex.
  rewrite hex_roundtrip_lower by (apply Forall_app; split; [apply bytes_of_words_byte|exact Hb]).
  cbn [option_map]. rewrite (words_of_chunks_tail ws extra Hw He). reflexivity.
Qed.

Lemma words_from_hex_i64 cs ws : words_from_hex cs = Some ws -> Forall i64 ws.
Proof.
  unfold words_from_hex. destruct (hex_decode cs) as [bs|]; [|discriminate]. cbn [option_map].
  intros [= <-]. unfold words_of_chunks. apply Forall_forall. intros w Hin.
  apply in_map_iff in Hin as (ch & <- & _). apply word_of_bytes_i64.
Qed.

(* ---------- Display / FromStr ---------- *)

Lemma display_fromstr_roundtrip n a :
  length a = n -> Forall byte a -> parse_addr n (display_addr a) = Some a.
Proof.
  intros L H. unfold parse_addr, display_addr. rewrite (hex_roundtrip_upper a H).
  rewrite L, Nat.eqb_refl. reflexivity.
Qed.

Lemma display_fromstr_wrong_length n a :
  length a <> n -> Forall byte a -> parse_addr n (display_addr a) = None.
Proof.
  intros L H. unfold parse_addr, display_addr. rewrite (hex_roundtrip_upper a H).
  destruct (Nat.eqb_spec (length a) n) as [E|_]; [contradiction|reflexivity].
Qed.

(* lower-case (the LowerHex rendering) parses back as well *)
Lemma lower_hex_fromstr_roundtrip n a :
  length a = n -> Forall byte a -> parse_addr n (lower_hex_addr a) = Some a.
Proof.
  intros L H. unfold parse_addr, lower_hex_addr. rewrite (hex_roundtrip_lower a H).
  rewrite L, Nat.eqb_refl. reflexivity.
Qed.

Lemma parse_addr_sound n cs a : parse_addr n cs = Some a -> length a = n /\ Forall byte a.
Proof.
  unfold parse_addr. destruct (hex_decode cs) as [bs|] eqn:E; [|discriminate].
  destruct (Nat.eqb_spec (length bs) n) as [L|_]; [|discriminate]. intros [= <-].
  split; [exact L|]. apply (hex_decode_sound cs bs E).
Qed.

Definition wf_sig (sg : list Z * Z) : Prop := length (fst sg) = 64%nat /\ Forall byte (fst sg) /\ byte (snd sg).
Definition wf_addr (a : list Z) : Prop := length a = 32%nat /\ Forall byte a.

Lemma sig_bytes_wf sg : wf_sig sg -> length (sig_bytes sg) = 65%nat /\ Forall byte (sig_bytes sg).
Proof.
  intros (L & F & B). unfold sig_bytes. split.
  - rewrite app_length, L. reflexivity.
  - apply Forall_app. split; [exact F|]. constructor; [exact B|constructor].
Qed.

Lemma sig_of_bytes_sig_bytes sg : length (fst sg) = 64%nat -> sig_of_bytes (sig_bytes sg) = sg.
Proof.
  intros L. destruct sg as [s id]. cbn [fst snd] in *. unfold sig_of_bytes, sig_bytes. cbn [fst snd].
  rewrite (firstn_app_exact s [id] 64 L). rewrite app_nth2 by lia. rewrite L. reflexivity.
Qed.

Lemma content_address_display_roundtrip a : wf_addr a -> parse_content_address (display_content_address a) = Some a.
Proof. intros [L F]. apply display_fromstr_roundtrip; assumption. Qed.

Lemma signature_display_roundtrip sg : wf_sig sg -> parse_signature (display_signature sg) = Some sg.
Proof.
  intros W. destruct (sig_bytes_wf sg W) as [L F]. unfold parse_signature, display_signature.
  rewrite (display_fromstr_roundtrip 65 _ L F). cbn [option_map].
  rewrite sig_of_bytes_sig_bytes by apply W. reflexivity.
Qed.

(* "CONTRACT:PREDICATE": 64 digits, a colon, 64 digits; both halves parse back.  (There is no FromStr for it.) *)
Lemma display_predicate_address_parts c p :
  wf_addr c -> wf_addr p ->
  length (display_predicate_address c p) = 129%nat /\
  parse_content_address (firstn 64 (display_predicate_address c p)) = Some c /\
  nth 64 (display_predicate_address c p) 0 = 58 /\
  parse_content_address (skipn 65 (display_predicate_address c p)) = Some p.
Proof.
  intros [Lc Fc] [Lp Fp]. unfold display_predicate_address, parse_content_address.
  assert (L64 : length (display_addr c) = 64%nat) by (unfold display_addr; rewrite hex_encode_upper_length, Lc; reflexivity).
  assert (L64p : length (display_addr p) = 64%nat) by (unfold display_addr; rewrite hex_encode_upper_length, Lp; reflexivity).
  repeat split.
  - rewrite !app_length, L64, L64p. reflexivity.
  - rewrite (firstn_app_exact _ _ 64 L64). apply display_fromstr_roundtrip; assumption.
  - rewrite app_nth2 by lia. rewrite L64. reflexivity.
  - rewrite app_assoc. rewrite (skipn_app_exact (display_addr c ++ [58]) (display_addr p) 65).
    + apply display_fromstr_roundtrip; assumption.
    + rewrite app_length, L64. reflexivity.
Qed.

(* ================================================================== *)
(* Part 2: serde, human-readable                                       *)
(* ================================================================== *)

(* ---------- well-formedness: what the Rust types guarantee ---------- *)

Definition swf_mutation (m : mutation) : Prop := Forall i64 (m_key m) /\ Forall i64 (m_value m).
Definition swf_solution (s : solution) : Prop :=
  wf_addr (sol_contract s) /\ wf_addr (sol_predicate s) /\
  Forall (Forall i64) (sol_data s) /\ Forall swf_mutation (sol_muts s).
Definition swf_contract (c : contract) : Prop := Forall wf_pred (c_predicates c) /\ wf_addr (c_salt c).
Definition swf_signed_contract (sc : signed_contract) : Prop :=
  swf_contract (sc_contract sc) /\ wf_sig (sc_signature sc).

(* ---------- generic lemmas ---------- *)

Ltac field_compute :=
  repeat match goal with
  | |- context [field ?ns ?fs] =>
      let r := eval cbv [field matching filter accepts existsb fst snd String.eqb Ascii.eqb Bool.eqb orb] in (field ns fs) in
      change (field ns fs) with r
  end.

Lemma mapM_map {A B} (f : B -> option A) (g : A -> B) (l : list A) :
  Forall (fun x => f (g x) = Some x) l -> mapM f (map g l) = Some l.
Proof.
  induction 1 as [|x l Hx _ IH]; [reflexivity|]. cbn [map mapM]. rewrite Hx. cbn [obind]. rewrite IH. reflexivity.
Qed.

Lemma de_seq_ser_seq {A} (P : A -> Prop) (f : sval -> option A) (g : A -> sval) (l : list A) :
  (forall x, P x -> f (g x) = Some x) -> Forall P l -> de_seq f (ser_seq g l) = Some l.
Proof.
  intros Hfg HP. unfold de_seq, ser_seq. apply mapM_map. apply Forall_forall. intros x Hin.
  apply Hfg. rewrite Forall_forall in HP. apply HP, Hin.
Qed.

Lemma de_i64_num z : i64 z -> de_i64 (SNum z) = Some z.
Proof. intros H. unfold de_i64. apply i64b_spec in H. rewrite H. reflexivity. Qed.
Lemma de_u16_num z : 0 <= z < 65536 -> de_u16 (SNum z) = Some z.
Proof.
  intros H. unfold de_u16, u16b. destruct (Z.leb_spec 0 z); [|lia]. destruct (Z.ltb_spec z 65536); [|lia]. reflexivity.
Qed.
Lemma de_u8_num z : byte z -> de_u8 (SNum z) = Some z.
Proof. intros H. unfold de_u8. apply byteb_spec in H. rewrite H. reflexivity. Qed.

Lemma de_i64_sound v z : de_i64 v = Some z -> v = SNum z /\ i64 z.
Proof.
  unfold de_i64. destruct v as [n| | |]; try discriminate. destruct (i64b n) eqn:E; [|discriminate].
  intros [= <-]. split; [reflexivity|apply i64b_spec, E].
Qed.
Lemma de_u16_sound v z : de_u16 v = Some z -> v = SNum z /\ 0 <= z < 65536.
Proof.
  unfold de_u16, u16b. destruct v as [n| | |]; try discriminate.
  destruct (Z.leb_spec 0 n), (Z.ltb_spec n 65536); cbn [andb]; try discriminate.
  intros [= <-]. split; [reflexivity|lia].
Qed.

(* ---------- round trips ---------- *)

Lemma words_hr_roundtrip ws : Forall i64 ws -> de_hr_words (ser_hr_words ws) = Some ws.
Proof. intros H. unfold de_hr_words, ser_hr_words. apply (de_seq_ser_seq i64); [exact de_i64_num|exact H]. Qed.

Lemma hash_hr_roundtrip n a : length a = n -> Forall byte a -> de_hr_hash n (ser_hr_hash a) = Some a.
Proof. intros L F. unfold de_hr_hash, ser_hr_hash. apply (display_fromstr_roundtrip n a L F). Qed.

Lemma hash_hr_wrong_length n a : length a <> n -> Forall byte a -> de_hr_hash n (ser_hr_hash a) = None.
Proof. intros L F. unfold de_hr_hash, ser_hr_hash. apply (display_fromstr_wrong_length n a L F). Qed.

Lemma content_address_hr_roundtrip a : wf_addr a -> de_hr_content_address (ser_hr_content_address a) = Some a.
Proof. intros [L F]. apply hash_hr_roundtrip; assumption. Qed.

Lemma signature_hr_roundtrip sg : wf_sig sg -> de_hr_signature (ser_hr_signature sg) = Some sg.
Proof.
  intros W. destruct (sig_bytes_wf sg W) as [L F]. unfold de_hr_signature, ser_hr_signature.
  rewrite (hash_hr_roundtrip 65 _ L F). cbn [option_map]. rewrite sig_of_bytes_sig_bytes by apply W. reflexivity.
Qed.

Lemma program_hr_roundtrip bs : Forall byte bs -> de_hr_program (ser_hr_program bs) = Some bs.
Proof. intros F. unfold de_hr_program, ser_hr_program. apply hex_roundtrip_lower, F. Qed.

(* a program given in upper case is accepted too *)
Lemma program_hr_upper bs : Forall byte bs -> de_hr_program (SStr (hex_encode_upper bs)) = Some bs.
Proof. intros F. unfold de_hr_program. apply hex_roundtrip_upper, F. Qed.

Lemma mutation_hr_roundtrip m : swf_mutation m -> de_hr_mutation (ser_hr_mutation m) = Some m.
Proof.
  intros [Hk Hv]. unfold de_hr_mutation, ser_hr_mutation, de_struct2. field_compute. cbn [obind].
  rewrite (words_hr_roundtrip _ Hk). cbn [obind]. rewrite (words_hr_roundtrip _ Hv). cbn [obind].
  destruct m; reflexivity.
Qed.

Lemma predicate_address_hr_roundtrip c p :
  wf_addr c -> wf_addr p -> de_hr_predicate_address (ser_hr_predicate_address (c, p)) = Some (c, p).
Proof.
  intros Hc Hp. unfold de_hr_predicate_address, ser_hr_predicate_address, de_struct2. cbn [fst snd]. field_compute.
  cbn [obind]. rewrite (content_address_hr_roundtrip c Hc). cbn [obind].
  rewrite (content_address_hr_roundtrip p Hp). reflexivity.
Qed.

Lemma solution_fields_roundtrip s :
  swf_solution s ->
  de_hr_predicate_address (ser_hr_predicate_address (sol_contract s, sol_predicate s)) = Some (sol_contract s, sol_predicate s) /\
  de_seq de_hr_words (ser_seq ser_hr_words (sol_data s)) = Some (sol_data s) /\
  de_seq de_hr_mutation (ser_seq ser_hr_mutation (sol_muts s)) = Some (sol_muts s).
Proof.
  intros (Hc & Hp & Hd & Hm). repeat split.
  - apply predicate_address_hr_roundtrip; assumption.
  - apply (de_seq_ser_seq (Forall i64)); [exact words_hr_roundtrip|exact Hd].
  - apply (de_seq_ser_seq swf_mutation); [exact mutation_hr_roundtrip|exact Hm].
Qed.

Lemma solution_hr_roundtrip s : swf_solution s -> de_hr_solution (ser_hr_solution s) = Some s.
Proof.
  intros W. destruct (solution_fields_roundtrip s W) as (E1 & E2 & E3).
  unfold de_hr_solution, ser_hr_solution, de_struct3. field_compute. cbn [obind].
  rewrite E1. cbn [obind]. rewrite E2. cbn [obind]. rewrite E3. cbn [obind fst snd]. destruct s; reflexivity.
Qed.

Lemma solution_set_hr_roundtrip ss : Forall swf_solution ss -> de_hr_solution_set (ser_hr_solution_set ss) = Some ss.
Proof.
  intros W. unfold de_hr_solution_set, ser_hr_solution_set, de_struct1. field_compute. cbn [obind].
  rewrite (de_seq_ser_seq swf_solution _ _ ss solution_hr_roundtrip W). reflexivity.
Qed.

Lemma node_hr_roundtrip n : wf_node n -> de_hr_node (ser_hr_node n) = Some n.
Proof.
  intros (He & L & F). unfold de_hr_node, ser_hr_node, de_struct2. field_compute. cbn [obind].
  rewrite (de_u16_num _ He). cbn [obind]. rewrite (content_address_hr_roundtrip _ (conj L F)). cbn [obind].
  destruct n; reflexivity.
Qed.

Lemma predicate_hr_roundtrip p : wf_pred p -> de_hr_predicate (ser_hr_predicate p) = Some p.
Proof.
  intros [Hn He]. unfold de_hr_predicate, ser_hr_predicate, de_struct2. field_compute. cbn [obind].
  rewrite (de_seq_ser_seq wf_node _ _ _ node_hr_roundtrip Hn). cbn [obind].
  rewrite (de_seq_ser_seq (fun e => 0 <= e < 65536) de_u16 SNum _ de_u16_num He). cbn [obind].
  destruct p; reflexivity.
Qed.

Lemma contract_hr_roundtrip c : swf_contract c -> de_hr_contract (ser_hr_contract c) = Some c.
Proof.
  intros [Hp [L F]]. unfold de_hr_contract, ser_hr_contract, de_struct2. field_compute. cbn [obind].
  rewrite (de_seq_ser_seq wf_pred _ _ _ predicate_hr_roundtrip Hp). cbn [obind].
  rewrite (hash_hr_roundtrip 32 _ L F). cbn [obind]. destruct c; reflexivity.
Qed.

Lemma signed_contract_hr_roundtrip sc :
  swf_signed_contract sc -> de_hr_signed_contract (ser_hr_signed_contract sc) = Some sc.
Proof.
  intros [Hc Hs]. unfold de_hr_signed_contract, ser_hr_signed_contract, de_struct2. field_compute. cbn [obind].
  rewrite (contract_hr_roundtrip _ Hc). cbn [obind]. rewrite (signature_hr_roundtrip _ Hs). cbn [obind].
  destruct sc; reflexivity.
Qed.

(* ---------- legacy field names ---------- *)

Lemma alias_accepted_solution s :
  swf_solution s ->
  de_hr_solution (rename_field "predicate_data" "decision_variables" (ser_hr_solution s)) = Some s.
Proof.
  intros W. destruct (solution_fields_roundtrip s W) as (E1 & E2 & E3).
  change (rename_field "predicate_data" "decision_variables" (ser_hr_solution s)) with
    (SMap [("predicate_to_solve", ser_hr_predicate_address (sol_contract s, sol_predicate s));
           ("decision_variables", ser_seq ser_hr_words (sol_data s));
           ("state_mutations", ser_seq ser_hr_mutation (sol_muts s))]).
  unfold de_hr_solution, de_struct3. field_compute. cbn [obind].
  rewrite E1. cbn [obind]. rewrite E2. cbn [obind]. rewrite E3. cbn [obind fst snd]. destruct s; reflexivity.
Qed.

Lemma alias_accepted_solution_set ss :
  Forall swf_solution ss ->
  de_hr_solution_set (rename_field "solutions" "data" (ser_hr_solution_set ss)) = Some ss.
Proof.
  intros W.
  change (rename_field "solutions" "data" (ser_hr_solution_set ss)) with (SMap [("data", ser_seq ser_hr_solution ss)]).
  unfold de_hr_solution_set, de_struct1. field_compute. cbn [obind].
  rewrite (de_seq_ser_seq swf_solution _ _ ss solution_hr_roundtrip W). reflexivity.
Qed.

(* both legacy names at once, at both levels *)
Lemma legacy_solution_set_accepted ss :
  Forall swf_solution ss -> de_hr_solution_set (ser_hr_solution_set_legacy ss) = Some ss.
Proof.
  intros W. unfold de_hr_solution_set, ser_hr_solution_set_legacy, de_struct1. field_compute. cbn [obind].
  rewrite (de_seq_ser_seq swf_solution de_hr_solution ser_hr_solution_legacy ss alias_accepted_solution W). reflexivity.
Qed.

(* a field given under both its name and its alias is a duplicate *)
Lemma alias_duplicate_rejected_solution_set a b :
  de_hr_solution_set (SMap [("solutions", a); ("data", b)]) = None.
Proof. reflexivity. Qed.
Lemma alias_duplicate_rejected_solution a b c d :
  de_hr_solution (SMap [("predicate_to_solve", a); ("predicate_data", b); ("decision_variables", c); ("state_mutations", d)]) = None.
Proof. unfold de_hr_solution, de_struct3. field_compute. cbn [obind]. destruct (de_hr_predicate_address a); reflexivity. Qed.

(* ---------- field order, unknown fields ---------- *)

Lemma matching_perm ns fs fs' : Permutation fs fs' -> Permutation (matching ns fs) (matching ns fs').
Proof.
  unfold matching. induction 1 as [|x l l' _ IH|x y l|l l' l'' _ IH1 _ IH2]; cbn [filter].
  - constructor.
  - destruct (accepts ns (fst x)); [constructor|]; exact IH.
  - destruct (accepts ns (fst x)), (accepts ns (fst y)); try apply Permutation_refl. apply perm_swap.
  - eapply Permutation_trans; eassumption.
Qed.

Lemma field_perm ns fs fs' : Permutation fs fs' -> field ns fs = field ns fs'.
Proof.
  intros P. apply (matching_perm ns) in P. unfold field.
  destruct (matching ns fs) as [|kv [|kv2 r]].
  - apply Permutation_nil in P. rewrite P. reflexivity.
  - apply Permutation_length_1_inv in P. rewrite P. reflexivity.
  - pose proof (Permutation_length P) as L. destruct (matching ns fs') as [|kv' [|kv2' r']]; try discriminate L. reflexivity.
Qed.

Lemma de_struct1_perm {A R} n1 (d1 : sval -> option A) (mk : A -> R) fs fs' :
  Permutation fs fs' -> de_struct1 n1 d1 mk (SMap fs) = de_struct1 n1 d1 mk (SMap fs').
Proof. intros P. unfold de_struct1. rewrite (field_perm n1 fs fs' P). reflexivity. Qed.
Lemma de_struct2_perm {A B R} n1 n2 (d1 : sval -> option A) (d2 : sval -> option B) (mk : A -> B -> R) fs fs' :
  Permutation fs fs' -> de_struct2 n1 n2 d1 d2 mk (SMap fs) = de_struct2 n1 n2 d1 d2 mk (SMap fs').
Proof. intros P. unfold de_struct2. rewrite (field_perm n1 fs fs' P), (field_perm n2 fs fs' P). reflexivity. Qed.
Lemma de_struct3_perm {A B C R} n1 n2 n3 (d1 : sval -> option A) (d2 : sval -> option B) (d3 : sval -> option C)
    (mk : A -> B -> C -> R) fs fs' :
  Permutation fs fs' -> de_struct3 n1 n2 n3 d1 d2 d3 mk (SMap fs) = de_struct3 n1 n2 n3 d1 d2 d3 mk (SMap fs').
Proof.
  intros P. unfold de_struct3. rewrite (field_perm n1 fs fs' P), (field_perm n2 fs fs' P), (field_perm n3 fs fs' P). reflexivity.
Qed.

Lemma solution_field_order fs fs' : Permutation fs fs' -> de_hr_solution (SMap fs) = de_hr_solution (SMap fs').
Proof. apply de_struct3_perm. Qed.
Lemma mutation_field_order fs fs' : Permutation fs fs' -> de_hr_mutation (SMap fs) = de_hr_mutation (SMap fs').
Proof. apply de_struct2_perm. Qed.
Lemma solution_set_field_order fs fs' : Permutation fs fs' -> de_hr_solution_set (SMap fs) = de_hr_solution_set (SMap fs').
Proof. apply de_struct1_perm. Qed.
Lemma predicate_field_order fs fs' : Permutation fs fs' -> de_hr_predicate (SMap fs) = de_hr_predicate (SMap fs').
Proof. apply de_struct2_perm. Qed.
Lemma contract_field_order fs fs' : Permutation fs fs' -> de_hr_contract (SMap fs) = de_hr_contract (SMap fs').
Proof. apply de_struct2_perm. Qed.

(* the serialised fields of a solution in any order *)
Lemma solution_hr_roundtrip_any_order s fs :
  swf_solution s -> Permutation fs
    [("predicate_to_solve", ser_hr_predicate_address (sol_contract s, sol_predicate s));
     ("predicate_data", ser_seq ser_hr_words (sol_data s));
     ("state_mutations", ser_seq ser_hr_mutation (sol_muts s))] ->
  de_hr_solution (SMap fs) = Some s.
Proof. intros W P. rewrite (solution_field_order _ _ P). exact (solution_hr_roundtrip s W). Qed.

Lemma accepts_false ns k : ~ In k ns -> accepts ns k = false.
Proof.
  intros H. unfold accepts. destruct (existsb (String.eqb k) ns) eqn:E; [|reflexivity].
  apply existsb_exists in E as (x & Hin & Hx). apply String.eqb_eq in Hx. subst x. contradiction.
Qed.

Lemma field_unknown ns k v fs : ~ In k ns -> field ns ((k, v) :: fs) = field ns fs.
Proof. intros H. unfold field, matching. cbn [filter fst]. rewrite (accepts_false ns k H). reflexivity. Qed.

Lemma solution_unknown_field_ignored k v fs :
  ~ In k ["predicate_to_solve"; "predicate_data"; "decision_variables"; "state_mutations"] ->
  de_hr_solution (SMap ((k, v) :: fs)) = de_hr_solution (SMap fs).
Proof.
  intros H. unfold de_hr_solution, de_struct3.
  rewrite !field_unknown; [reflexivity| | |]; intros Hin; apply H; cbn [In] in *; tauto.
Qed.

Lemma solution_set_unknown_field_ignored k v fs :
  ~ In k ["solutions"; "data"] -> de_hr_solution_set (SMap ((k, v) :: fs)) = de_hr_solution_set (SMap fs).
Proof. intros H. unfold de_hr_solution_set, de_struct1. rewrite field_unknown by exact H. reflexivity. Qed.

(* ---------- rejections ---------- *)

Lemma field_missing ns fs : Forall (fun kv => ~ In (fst kv) ns) fs -> field ns fs = None.
Proof.
  intros H. unfold field, matching. replace (filter _ fs) with (@nil (string * sval)); [reflexivity|].
  induction H as [|kv fs Hkv _ IH]; [reflexivity|]. cbn [filter]. rewrite (accepts_false ns _ Hkv). exact IH.
Qed.

Lemma content_address_hr_bad_char c cs : In c cs -> hex_val c = None -> de_hr_content_address (SStr cs) = None.
Proof.
  intros Hin Hc. unfold de_hr_content_address, de_hr_hash, parse_addr. rewrite (hex_decode_bad_char c cs Hin Hc). reflexivity.
Qed.

Lemma content_address_hr_wrong_length a :
  length a <> 32%nat -> Forall byte a -> de_hr_content_address (ser_hr_content_address a) = None.
Proof. apply hash_hr_wrong_length. Qed.

Lemma signature_hr_wrong_length bs :
  length bs <> 65%nat -> Forall byte bs -> de_hr_signature (ser_hr_hash bs) = None.
Proof. intros L F. unfold de_hr_signature. rewrite (hash_hr_wrong_length 65 bs L F). reflexivity. Qed.

Lemma words_hr_out_of_range z l r : ~ i64 z -> de_hr_words (SSeq (map SNum l ++ SNum z :: r)) = None.
Proof.
  intros H. unfold de_hr_words, de_seq. induction l as [|x l IH]; cbn [map app mapM].
  - unfold de_i64. destruct (i64b z) eqn:E; [apply i64b_spec in E; contradiction|reflexivity].
  - rewrite IH. destruct (de_i64 (SNum x)); reflexivity.
Qed.

(* a deserialised content address / signature is well-formed *)
Lemma content_address_hr_sound v a : de_hr_content_address v = Some a -> wf_addr a.
Proof. unfold de_hr_content_address, de_hr_hash. destruct v; try discriminate. apply parse_addr_sound. Qed.

(* ================================================================== *)
(* Part 3: vocabulary for the examples                                 *)
(* ================================================================== *)

(* the ASCII codes of a Coq string literal *)
Fixpoint codes (s : string) : list Z :=
  match s with
  | EmptyString => []
  | String a r => Z.of_N (Ascii.N_of_ascii a) :: codes r
  end.

Definition ex_contract_addr : list Z := repeat 171 32.
Definition ex_predicate_addr : list Z := map Z.of_nat (seq 0 32).
Definition ex_solution : solution :=
  {| sol_contract := ex_contract_addr; sol_predicate := ex_predicate_addr;
     sol_data := [[1; -2]; []];
     sol_muts := [{| m_key := [0]; m_value := [42; -9223372036854775808] |}] |}.
Definition ex_signature : list Z * Z := (map Z.of_nat (seq 0 64), 3).
Definition ex_predicate : predicate :=
  {| p_nodes := [{| n_edge_start := 0; n_program := ex_predicate_addr |};
                 {| n_edge_start := 65535; n_program := ex_contract_addr |}];
     p_edges := [1] |}.
Definition ex_signed_contract : signed_contract :=
  {| sc_contract := {| c_predicates := [ex_predicate]; c_salt := repeat 0 32 |}; sc_signature := ex_signature |}.

Ltac range_solve :=
  repeat match goal with
  | |- _ /\ _ => split
  | |- Forall _ _ => constructor
  | |- (_ <= _)%Z => cbv; intro; discriminate
  | |- (_ < _)%Z => reflexivity
  | |- @eq nat _ _ => reflexivity
  end.

Lemma ex_solution_wf : swf_solution ex_solution.
Proof. unfold swf_solution, wf_addr, swf_mutation, byte, i64. cbn. range_solve. Qed.
Lemma ex_signature_wf : wf_sig ex_signature.
Proof. unfold wf_sig, byte. cbn. range_solve. Qed.
Lemma ex_signed_contract_wf : swf_signed_contract ex_signed_contract.
Proof.
  unfold swf_signed_contract, swf_contract, wf_pred, wf_node, wf_sig, wf_addr, byte. cbn. range_solve.
Qed.
