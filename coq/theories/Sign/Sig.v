(* Model of crates/sign: signing contracts over their content address, recovery, and the word encodings of
   public keys and signatures (encode.rs) that the VM's RecoverSecp256k1 op produces and consumes.
   secp256k1 itself is an abstract recoverable signature scheme. *)
From EB Require Export Hash.Addr Vm.Step.
Open Scope list_scope.
Open Scope Z_scope.

(* encode::public_key : 33 bytes -> 4 words + the last byte in the low bits of a fifth word *)
Definition public_key_words (k33 : list Z) : list Z := words4 (firstn 32 k33) ++ [nth 32 k33 0].
(* encode::signature : 64 bytes and the recovery id -> 8 words + id *)
Definition signature_words (sig64 : list Z) (id : Z) : list Z := words_of_bytes 8 sig64 ++ [id].

Section Scheme.
  Variable H : list Z -> list Z.
  Variable secret : Type.
  Variable pk : secret -> list Z.                                   (* 33-byte compressed public key *)
  Variable sign_raw : secret -> list Z -> list Z * Z.              (* digest32 -> (sig64, recovery id) *)
  Variable recover_raw : list Z -> list Z -> Z -> secp_res.        (* digest32, sig64, id in 0..3 *)

  (* sign_hash / contract::sign *)
  Definition sign_contract (sk : secret) (preds : list predicate) (salt : list Z) : list Z * Z :=
    sign_raw sk (contract_addr H preds salt).

  (* recover_from_message: RecoveryId::try_from(i32::from(signature.1)) then from_compact then recover *)
  Definition recover_hash (digest sig64 : list Z) (id : Z) : option (list Z) :=
    if (id <? 0) || (3 <? id) then None
    else match recover_raw digest sig64 id with SecpKey k => Some k | _ => None end.

  (* contract::recover / contract::verify *)
  Definition recover_contract (preds : list predicate) (salt : list Z) (sg : list Z * Z) : option (list Z) :=
    recover_hash (contract_addr H preds salt) (fst sg) (snd sg).
  Definition verify_contract (preds : list predicate) (salt : list Z) (sg : list Z * Z) : bool :=
    match recover_contract preds salt sg with Some _ => true | None => false end.
End Scheme.
