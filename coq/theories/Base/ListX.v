(* Small list lemmas shared by the development. *)
From Coq Require Export List Arith Lia.
Export ListNotations.

Lemma firstn_exact {A} (l : list A) n : length l = n -> firstn n l = l.
Proof. intros <-. apply firstn_all. Qed.
Lemma skipn_exact {A} (l : list A) n : length l = n -> skipn n l = [].
Proof. intros <-. apply skipn_all. Qed.

Lemma firstn_app_exact {A} (l r : list A) n : length l = n -> firstn n (l ++ r) = l.
Proof. intros <-. rewrite firstn_app, Nat.sub_diag, firstn_O, app_nil_r. apply firstn_all. Qed.
Lemma skipn_app_exact {A} (l r : list A) n : length l = n -> skipn n (l ++ r) = r.
Proof. intros <-. rewrite skipn_app, Nat.sub_diag, skipn_O, skipn_all. reflexivity. Qed.
