(* Outcomes of modelled Rust functions: a value, a typed error, a panic at a named site,
   or exhaustion of the model's fuel (never a normal-looking value). *)
From Coq Require Export String.
From EB Require Export Base.Word.

Inductive outcome (E A : Type) : Type :=
| Ok (a : A)
| Err (e : E)
| Panic (site : string)
| OutOfFuel.
Arguments Ok {E A} a.
Arguments Err {E A} e.
Arguments Panic {E A} site.
Arguments OutOfFuel {E A}.

Definition bind {E A B} (x : outcome E A) (f : A -> outcome E B) : outcome E B :=
  match x with
  | Ok a => f a
  | Err e => Err e
  | Panic s => Panic s
  | OutOfFuel => OutOfFuel
  end.

Definition omap {E A B} (f : A -> B) (x : outcome E A) : outcome E B :=
  bind x (fun a => Ok (f a)).

Definition map_err {E F A} (f : E -> F) (x : outcome E A) : outcome F A :=
  match x with
  | Ok a => Ok a
  | Err e => Err (f e)
  | Panic s => Panic s
  | OutOfFuel => OutOfFuel
  end.

Definition of_option {E A} (e : E) (x : option A) : outcome E A :=
  match x with Some a => Ok a | None => Err e end.

Declare Scope outcome_scope.
Delimit Scope outcome_scope with outcome.
Notation "'let*' x ':=' c 'in' k" := (bind c (fun x => k))
  (at level 200, x pattern, c at level 100, k at level 200, right associativity) : outcome_scope.
Open Scope outcome_scope.

Definition is_ok {E A} (x : outcome E A) : bool := match x with Ok _ => true | _ => false end.
Definition is_err {E A} (x : outcome E A) : bool := match x with Err _ => true | _ => false end.
Definition is_panic {E A} (x : outcome E A) : bool := match x with Panic _ => true | _ => false end.
Definition no_panic {E A} (x : outcome E A) : Prop := forall s, x <> Panic s.

Lemma bind_ok {E A B} (x : outcome E A) (f : A -> outcome E B) b :
  bind x f = Ok b -> exists a, x = Ok a /\ f a = Ok b.
Proof. destruct x; simpl; try discriminate. intros H. eauto. Qed.

Lemma bind_no_panic {E A B} (x : outcome E A) (f : A -> outcome E B) :
  no_panic x -> (forall a, x = Ok a -> no_panic (f a)) -> no_panic (bind x f).
Proof.
  unfold no_panic. intros Hx Hf s. destruct x; simpl; try discriminate.
  - apply Hf. reflexivity.
  - intros _. exact (Hx site eq_refl).
Qed.
