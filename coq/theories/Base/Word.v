(* Machine words as mathematical integers with explicit ranges.
   Word = i64, Gas = u64, usize = u64 (a 64-bit host is assumed and stated in DESIGN.md). *)
From Coq Require Export ZArith List Bool Lia.
Export ListNotations.
Open Scope Z_scope.

Definition two63 : Z := 9223372036854775808.
Definition two64 : Z := 18446744073709551616.
Definition i64_min : Z := - two63.
Definition i64_max : Z := two63 - 1.
Definition u64_max : Z := two64 - 1.

Definition i64b (z : Z) : bool := (i64_min <=? z) && (z <=? i64_max).
Definition u64b (z : Z) : bool := (0 <=? z) && (z <=? u64_max).
Definition i64 (z : Z) : Prop := i64_min <= z <= i64_max.
Definition u64 (z : Z) : Prop := 0 <= z <= u64_max.

Lemma i64b_spec z : i64b z = true <-> i64 z.
Proof. unfold i64b, i64. rewrite andb_true_iff, !Z.leb_le. tauto. Qed.
Lemma u64b_spec z : u64b z = true <-> u64 z.
Proof. unfold u64b, u64. rewrite andb_true_iff, !Z.leb_le. tauto. Qed.

(* Two's complement reinterpretations. *)
Definition to_u64 (z : Z) : Z := z mod two64.                     (* `as u64` *)
Definition wrap64 (z : Z) : Z :=                                  (* `as i64` of an unbounded value *)
  let m := z mod two64 in if m <? two63 then m else m - two64.

Lemma two64_eq : two64 = 2 * two63. Proof. reflexivity. Qed.

Lemma wrap64_i64 z : i64 (wrap64 z).
Proof.
  unfold wrap64, i64, i64_min, i64_max.
  pose proof (Z.mod_pos_bound z two64 eq_refl) as H.
  destruct (Z.ltb_spec (z mod two64) two63); rewrite two64_eq in *; lia.
Qed.

Lemma wrap64_id z : i64 z -> wrap64 z = z.
Proof.
  unfold wrap64, i64, i64_min, i64_max. intros H.
  destruct (Z_lt_le_dec z 0) as [Hn|Hp].
  - assert (E : z mod two64 = z + two64).
    { symmetry. apply (Z.mod_unique_pos _ _ (-1)). unfold two64, two63 in *. lia. lia. }
    rewrite E. destruct (Z.ltb_spec (z + two64) two63); rewrite two64_eq in *; lia.
  - rewrite Z.mod_small by (rewrite two64_eq; lia).
    destruct (Z.ltb_spec z two63); lia.
Qed.

Lemma to_u64_range z : u64 (to_u64 z).
Proof.
  unfold to_u64, u64, u64_max. pose proof (Z.mod_pos_bound z two64 eq_refl). lia.
Qed.

Lemma wrap64_to_u64 z : i64 z -> wrap64 (to_u64 z) = z.
Proof.
  intros H. unfold to_u64, wrap64. rewrite Z.mod_mod by discriminate.
  exact (wrap64_id z H).
Qed.

Lemma to_u64_wrap64 z : u64 z -> to_u64 (wrap64 z) = z.
Proof.
  unfold u64, u64_max, to_u64, wrap64. intros H.
  rewrite (Z.mod_small z two64) by lia.
  destruct (Z.ltb_spec z two63).
  - apply Z.mod_small; lia.
  - symmetry. apply (Z.mod_unique_pos _ _ (-1)); rewrite two64_eq in *; lia.
Qed.

(* Checked arithmetic as Rust's `checked_*` on i64. *)
Definition chk (z : Z) : option Z := if i64b z then Some z else None.
Definition checked_add (a b : Z) := chk (a + b).
Definition checked_sub (a b : Z) := chk (a - b).
Definition checked_mul (a b : Z) := chk (a * b).
Definition checked_div (a b : Z) : option Z := if b =? 0 then None else chk (Z.quot a b).
Definition checked_rem (a b : Z) : option Z :=
  if b =? 0 then None else if (a =? i64_min) && (b =? -1) then None else Some (Z.rem a b).

Lemma chk_some z r : chk z = Some r <-> (i64 z /\ r = z).
Proof.
  unfold chk. destruct (i64b z) eqn:E.
  - apply i64b_spec in E. split; [intros [= <-]; auto | intros [_ ->]; auto].
  - split; [discriminate|]. intros [H _]. apply i64b_spec in H. congruence.
Qed.

Lemma chk_none z : chk z = None <-> ~ i64 z.
Proof.
  unfold chk. destruct (i64b z) eqn:E.
  - apply i64b_spec in E. split; [discriminate | tauto].
  - split; auto. intros _ H. apply i64b_spec in H. congruence.
Qed.

(* usize::try_from(word): on a 64-bit host exactly the non-negative words. *)
Definition to_usize (z : Z) : option nat := if z <? 0 then None else Some (Z.to_nat z).

Definition bool_of_word (z : Z) : option bool :=
  if z =? 0 then Some false else if z =? 1 then Some true else None.
Definition word_of_bool (b : bool) : Z := if b then 1 else 0.

Definition all_i64 (l : list Z) : Prop := Forall i64 l.

Definition zlen {A} (l : list A) : Z := Z.of_nat (length l).
