(* Big-endian byte strings.  Bytes are Z in 0..255. *)
From EB Require Export Base.Word Base.ListX.
Open Scope Z_scope.

Definition byteb (b : Z) : bool := (0 <=? b) && (b <? 256).
Definition byte (b : Z) : Prop := 0 <= b < 256.
Lemma byteb_spec b : byteb b = true <-> byte b.
Proof. unfold byteb, byte. rewrite andb_true_iff, Z.leb_le, Z.ltb_lt. tauto. Qed.

(* n big-endian bytes of v (mod 256^n) *)
Fixpoint be_bytes (n : nat) (v : Z) : list Z :=
  match n with
  | O => []
  | S k => be_bytes k (v / 256) ++ [v mod 256]
  end.

Definition be_val (l : list Z) : Z := fold_left (fun acc b => acc * 256 + b) l 0.

Lemma be_bytes_length n v : length (be_bytes n v) = n.
Proof. revert v; induction n as [|n IH]; intros v; simpl; [reflexivity|]. rewrite app_length, IH. simpl. lia. Qed.

Lemma be_bytes_byte n v : Forall byte (be_bytes n v).
Proof.
  revert v; induction n as [|n IH]; intros v; simpl; [constructor|].
  apply Forall_app. split; [apply IH|]. constructor; [|constructor].
  unfold byte. pose proof (Z.mod_pos_bound v 256 eq_refl). lia.
Qed.

Lemma be_val_snoc l b : be_val (l ++ [b]) = be_val l * 256 + b.
Proof. unfold be_val. rewrite fold_left_app. reflexivity. Qed.

Lemma be_val_bytes n v : be_val (be_bytes n v) = v mod 256 ^ Z.of_nat n.
Proof.
  revert v; induction n as [|n IH]; intros v.
  - simpl. rewrite Z.mod_1_r. reflexivity.
  - cbn [be_bytes]. rewrite be_val_snoc, IH.
    rewrite Nat2Z.inj_succ, Z.pow_succ_r by lia.
    rewrite (Z.rem_mul_r v 256 (256 ^ Z.of_nat n)) by (try apply Z.pow_pos_nonneg; lia).
    lia.
Qed.

Lemma be_val_nonneg l : Forall byte l -> 0 <= be_val l < 256 ^ Z.of_nat (length l).
Proof.
  induction l as [|b l IH] using rev_ind; intros H.
  - simpl. unfold be_val; simpl. lia.
  - apply Forall_app in H as [Hl Hb]. inversion Hb as [|? ? Hb' _]; subst.
    specialize (IH Hl). rewrite be_val_snoc, app_length. simpl length.
    replace (Z.of_nat (length l + 1)) with (Z.succ (Z.of_nat (length l))) by lia.
    rewrite Z.pow_succ_r by lia. unfold byte in Hb'. lia.
Qed.

Lemma be_bytes_val l : Forall byte l -> be_bytes (length l) (be_val l) = l.
Proof.
  induction l as [|b l IH] using rev_ind; intros H; [reflexivity|].
  apply Forall_app in H as [Hl Hb]. inversion Hb as [|? ? Hb' _]; subst.
  rewrite app_length. simpl length. rewrite Nat.add_1_r. cbn [be_bytes].
  rewrite be_val_snoc. unfold byte in Hb'.
  replace ((be_val l * 256 + b) / 256) with (be_val l).
  2:{ apply (Z.div_unique _ _ _ b); lia. }
  replace ((be_val l * 256 + b) mod 256) with b.
  2:{ apply (Z.mod_unique _ _ (be_val l)); lia. }
  rewrite IH by assumption. reflexivity.
Qed.

Lemma be_bytes_inj n a b :
  0 <= a < 256 ^ Z.of_nat n -> 0 <= b < 256 ^ Z.of_nat n -> be_bytes n a = be_bytes n b -> a = b.
Proof.
  intros Ha Hb E. apply (f_equal be_val) in E. rewrite !be_val_bytes in E.
  rewrite !Z.mod_small in E by assumption. exact E.
Qed.

(* Words *)
Definition bytes_of_word (w : Z) : list Z := be_bytes 8 (to_u64 w).
Definition word_of_bytes (bs : list Z) : Z := wrap64 (be_val bs).

Lemma pow256_8 : 256 ^ Z.of_nat 8 = two64. Proof. reflexivity. Qed.

Lemma word_of_bytes_of_word w : i64 w -> word_of_bytes (bytes_of_word w) = w.
Proof.
  intros H. unfold word_of_bytes, bytes_of_word. rewrite be_val_bytes, pow256_8.
  unfold to_u64. rewrite Z.mod_mod by discriminate. exact (wrap64_to_u64 w H).
Qed.

Lemma bytes_of_word_of_bytes bs : length bs = 8%nat -> Forall byte bs -> bytes_of_word (word_of_bytes bs) = bs.
Proof.
  intros L H. unfold word_of_bytes, bytes_of_word.
  pose proof (be_val_nonneg bs H) as R. rewrite L, pow256_8 in R.
  rewrite to_u64_wrap64 by (unfold u64, u64_max; lia).
  rewrite <- L at 1. apply be_bytes_val; assumption.
Qed.

Lemma bytes_of_word_length w : length (bytes_of_word w) = 8%nat.
Proof. apply be_bytes_length. Qed.
Lemma bytes_of_word_byte w : Forall byte (bytes_of_word w).
Proof. apply be_bytes_byte. Qed.
Lemma word_of_bytes_i64 bs : i64 (word_of_bytes bs).
Proof. apply wrap64_i64. Qed.

Lemma bytes_of_word_inj a b : i64 a -> i64 b -> bytes_of_word a = bytes_of_word b -> a = b.
Proof.
  intros Ha Hb E. rewrite <- (word_of_bytes_of_word a Ha), <- (word_of_bytes_of_word b Hb), E. reflexivity.
Qed.

(* word lists <-> byte lists *)
Definition bytes_of_words (ws : list Z) : list Z := flat_map bytes_of_word ws.

Fixpoint words_of_bytes (fuel : nat) (bs : list Z) : list Z :=
  match fuel with
  | O => []
  | S f => match bs with
           | [] => []
           | _ => word_of_bytes (firstn 8 bs) :: words_of_bytes f (skipn 8 bs)
           end
  end.

Lemma bytes_of_words_length ws : length (bytes_of_words ws) = (8 * length ws)%nat.
Proof.
  induction ws as [|w ws IH]; [reflexivity|].
  unfold bytes_of_words in *. cbn [flat_map]. rewrite app_length, IH, bytes_of_word_length. simpl length. lia.
Qed.

Lemma words_of_bytes_of_words ws fuel :
  Forall i64 ws -> (length ws <= fuel)%nat -> words_of_bytes fuel (bytes_of_words ws) = ws.
Proof.
  revert fuel; induction ws as [|w ws IH]; intros fuel H L.
  - destruct fuel; reflexivity.
  - destruct fuel as [|f]; [simpl in L; lia|].
    inversion H as [|? ? Hw Hws]; subst.
    unfold bytes_of_words. cbn [flat_map words_of_bytes].
    pose proof (bytes_of_word_length w) as L8.
    destruct (bytes_of_word w ++ flat_map bytes_of_word ws) eqn:E.
    { apply (f_equal (@length Z)) in E. rewrite app_length, L8 in E. simpl in E. lia. }
    rewrite <- E.
    rewrite (firstn_app_exact _ (flat_map bytes_of_word ws) 8 L8), (skipn_app_exact _ (flat_map bytes_of_word ws) 8 L8).
    rewrite word_of_bytes_of_word by assumption.
    f_equal. apply IH; [assumption|simpl in L; lia].
Qed.

(* u16 big-endian *)
Definition u16b (z : Z) : bool := (0 <=? z) && (z <? 65536).
Definition u16 (z : Z) : Prop := 0 <= z < 65536.
Definition bytes_of_u16 (z : Z) : list Z := be_bytes 2 z.
Definition u16_of_bytes (bs : list Z) : Z := be_val bs.

Lemma u16_roundtrip z : u16 z -> u16_of_bytes (bytes_of_u16 z) = z.
Proof. intros H. unfold u16_of_bytes, bytes_of_u16. rewrite be_val_bytes. apply Z.mod_small. exact H. Qed.
