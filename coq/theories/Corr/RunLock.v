(* Correspondence evaluators for C20: histories recorded from real threads (and from shuttle schedules) applying
   read-modify-write closures to StdLock are checked against the serial-chain checker of the lock model. *)
From EB Require Export Corr.Common Lock.Lock.
Open Scope list_scope.
Open Scope Z_scope.

Record lock_case := {
  lc_init : Z;
  lc_threads : Z; lc_calls_per_thread : Z;
  lc_history : list (Z * Z * Z * Z);     (* (tid, seen, written, returned) in the order of the sequence number drawn under the lock *)
  lc_final : Z;                          (* value read after all threads joined *)
  lc_torn : bool;                        (* some closure observed the two halves of the datum out of sync *)
}.

Definition hrec_of (e : Z * Z * Z * Z) : hrec Z :=
  match e with (t, s, w, _) => (Z.to_nat t, s, w) end.

(* the model's checker accepts exactly serial chains (C20_history_checker_sound_complete) *)
Definition lock_mismatch (c : lock_case) : bool :=
  negb (check_history Z.eqb (lc_init c) (map hrec_of (lc_history c))).

(* every closure is an increment returning the value it saw: no lost update, no torn value, results distinct *)
Definition lock_spec_fail (c : lock_case) : bool :=
  let total := lc_threads c * lc_calls_per_thread c in
  negb ((zlen (lc_history c) =? total)
        && (lc_final c =? lc_init c + total)
        && negb (lc_torn c)
        && forallb (fun e => match e with (_, s, w, r) => (w =? s + 1) && (r =? s) end) (lc_history c)
        && zlist_eqb (map (fun e => match e with (_, s, _, _) => s end) (lc_history c))
                     (map (fun i => lc_init c + i) (map Z.of_nat (seq 0 (Z.to_nat total))))
        && forallb (fun t => zlen (filter (fun e => match e with (t', _, _, _) => t' =? t end) (lc_history c)) =? lc_calls_per_thread c)
                   (map Z.of_nat (seq 0 (Z.to_nat (lc_threads c))))).

Definition lock_mismatches := collect lock_mismatch.
Definition lock_spec_failures := collect lock_spec_fail.
