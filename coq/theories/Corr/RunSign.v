(* Correspondence evaluators for C19: contract signatures and the sign/VM word encodings. *)
From EB Require Export Corr.Common Sign.Sig Hash.Sha256 Corr.RunTypes.
Open Scope list_scope.
Open Scope Z_scope.

Record sign_case := {
  sg_preds : list predicate; sg_salt : list Z;
  sg_addr : list Z;                    (* essential_hash::content_addr(&contract) *)
  sg_signer : list Z;                  (* the signer's public key, 33 bytes *)
  sg_sig : list Z; sg_id : Z;          (* signature bytes and recovery id returned by sign::contract::sign *)
  sg_recovered : list Z;               (* sign::contract::recover: 33 bytes, or [] on error *)
  sg_verify : bool;                    (* sign::contract::verify *)
  sg_perm_recovered : list (list Z);   (* recover over every permutation of the predicates *)
  sg_tampered : list (list Z);         (* recover after each single tampering (predicate, salt, signature bit): 33 bytes or [] *)
  sg_bad_ids : list (Z * Z);           (* (recovery id, 0 = Err / 1 = Ok / 2 = panic) for ids 0..255 sampled *)
  sg_enc_pk : list Z;                  (* sign::encode::public_key *)
  sg_enc_sig : list Z;                 (* sign::encode::signature *)
  sg_vm : list Z;                      (* stack (bottom first) after RecoverSecp256k1 on words4(addr) ++ enc_sig; [-1] on error *)
  sg_enc_pk_bytes : list Z;            (* sign::encode::public_key_as_bytes, 40 bytes *)
  sg_enc_sig_bytes : list Z;           (* sign::encode::signature_as_bytes, 72 bytes *)
  sg_api : list bool;                  (* the hash / message level API on the same digest and key, each expected true:
                                          sign_hash(addr) = the contract signature; sign_message = sign_hash;
                                          recover_hash = signer; recover_from_message = signer; verify_hash ok;
                                          verify_message(signer) ok; verify_message(another key) fails;
                                          recover_hash of a different digest is not the signer *)
}.

Definition sign_env (c : sign_case) : env :=
  {| e_solutions := []; e_index := 0; e_pre := fun _ _ _ => Some []; e_post := fun _ _ _ => Some [];
     e_cost := fun _ => 1; e_sha256 := sha256; e_ed25519 := fun _ _ _ => None;
     e_secp := fun h s i => if zlist_eqb h (sg_addr c) && zlist_eqb s (sg_sig c) && (i =? sg_id c)
                            then match sg_recovered c with [] => SecpNoKey | k => SecpKey k end
                            else SecpParseErr |}.

Definition sign_mismatch (c : sign_case) : bool :=
  negb (zlist_eqb (contract_addr sha256 (sg_preds c) (sg_salt c)) (sg_addr c)
        && zlist_eqb (public_key_words (sg_signer c)) (sg_enc_pk c)
        && zlist_eqb (signature_words (sg_sig c) (sg_id c)) (sg_enc_sig c)
        && zlist_eqb (bytes_of_words (public_key_words (sg_signer c))) (sg_enc_pk_bytes c)
        && zlist_eqb (bytes_of_words (signature_words (sg_sig c) (sg_id c))) (sg_enc_sig_bytes c)
        && match op_recover_secp256k1 (sign_env c) (rev (words4 (sg_addr c) ++ sg_enc_sig c)) with
           | Ok s => zlist_eqb (rev s) (sg_vm c)
           | _ => zlist_eqb (sg_vm c) [-1]
           end).

Definition sign_spec_fail (c : sign_case) : bool :=
  negb (sg_verify c
        && zlist_eqb (sg_recovered c) (sg_signer c)                          (* sign then recover returns the signer *)
        && forallb (zlist_eqb (sg_signer c)) (sg_perm_recovered c)           (* independent of predicate order *)
        && forallb (fun r => negb (zlist_eqb r (sg_signer c))) (sg_tampered c) (* any tampering: not the signer's key any more *)
        && forallb (fun e => if (0 <=? fst e) && (fst e <=? 3) then negb (snd e =? 2) else snd e =? 0) (sg_bad_ids c)
        && (length (sg_enc_pk c) =? 5)%nat && (length (sg_enc_sig c) =? 9)%nat
        && (length (sg_enc_pk_bytes c) =? 40)%nat && (length (sg_enc_sig_bytes c) =? 72)%nat
        && zlist_eqb (sg_enc_pk_bytes c) (bytes_of_words (sg_enc_pk c)) && zlist_eqb (sg_enc_sig_bytes c) (bytes_of_words (sg_enc_sig c))
        && forallb (fun b => b) (sg_api c)
        (* the VM produces exactly the sign crate's encoding of the recovered key *)
        && zlist_eqb (sg_vm c) (sg_enc_pk c)).

Definition sign_mismatches := collect sign_mismatch.
Definition sign_spec_failures := collect sign_spec_fail.
