(* Correspondence evaluators for the types / hash / validators (C06, C16, C17, C18). *)
From EB Require Export Corr.Common Types.MutationCodec Types.PredicateCodec Types.Postcard Hash.Addr Hash.Sha256 Check.Validate Types.Hex Types.Serde Types.PostcardAll.
Open Scope list_scope.
Open Scope Z_scope.

Inductive mres := MOk (ms : list mutation) | MErr (kind : Z) | MPanic.      (* 0 WordsTooShort 1 NegativeKeyLength 2 NegativeValueLength *)
Inductive pres := POk (p : predicate) | PErrShort | PPanic.
Inductive eres := EOk (bs : list Z) | ETooManyNodes | ETooManyEdges | EPanic.

Definition mut_eqb (a b : mutation) : bool := zlist_eqb (m_key a) (m_key b) && zlist_eqb (m_value a) (m_value b).
Definition mderr_code (e : mderr) : Z := match e with WordsTooShort => 0 | NegativeKeyLength => 1 | NegativeValueLength => 2 end.
Definition mres_of (x : outcome mderr (list mutation)) : mres :=
  match x with Ok ms => MOk ms | Err e => MErr (mderr_code e) | _ => MPanic end.
Definition mres_eqb (a b : mres) : bool :=
  match a, b with
  | MOk x, MOk y => list_eqb mut_eqb x y
  | MErr x, MErr y => x =? y
  | _, _ => false
  end.
Definition node_eqb (a b : node) : bool := (n_edge_start a =? n_edge_start b) && zlist_eqb (n_program a) (n_program b).
Definition pred_eqb (a b : predicate) : bool := list_eqb node_eqb (p_nodes a) (p_nodes b) && zlist_eqb (p_edges a) (p_edges b).
Definition pres_of (x : outcome pdec_err predicate) : pres := match x with Ok p => POk p | Err _ => PErrShort | _ => PPanic end.
Definition pres_eqb (a b : pres) : bool :=
  match a, b with POk x, POk y => pred_eqb x y | PErrShort, PErrShort => true | _, _ => false end.
Definition eres_of (x : outcome penc_err (list Z)) : eres :=
  match x with Ok bs => EOk bs | Err TooManyNodes => ETooManyNodes | Err TooManyEdges => ETooManyEdges | _ => EPanic end.
Definition eres_eqb (a b : eres) : bool :=
  match a, b with EOk x, EOk y => zlist_eqb x y | ETooManyNodes, ETooManyNodes => true | ETooManyEdges, ETooManyEdges => true | _, _ => false end.

(* a value of one of the public data types, for the binary (postcard) serde surface *)
Inductive pcv :=
| PVContentAddress (a : list Z) | PVPredicateAddress (c p : list Z) | PVMutation (m : mutation) | PVSolution (s : solution)
| PVSolutionSet (ss : list solution) | PVPredicate (p : predicate) | PVProgram (bs : list Z) | PVContract (c : contract)
| PVSignature (b : list Z) (id : Z) | PVSignedContract (sc : signed_contract).

Definition contract_eqb (a b : contract) : bool := list_eqb pred_eqb (c_predicates a) (c_predicates b) && zlist_eqb (c_salt a) (c_salt b).
Definition sig_eqb (a b : list Z * Z) : bool := zlist_eqb (fst a) (fst b) && (snd a =? snd b).
Definition sol_eqb_pc (a b : solution) : bool :=
  zlist_eqb (sol_contract a) (sol_contract b) && zlist_eqb (sol_predicate a) (sol_predicate b)
  && zzlist_eqb (sol_data a) (sol_data b) && list_eqb mut_eqb (sol_muts a) (sol_muts b).

Definition pcv_encode (v : pcv) : list Z :=
  match v with
  | PVContentAddress a => pc_content_address a
  | PVPredicateAddress c p => pc_predicate_address (c, p)
  | PVMutation m => pc_mutation m
  | PVSolution s => pc_solution s
  | PVSolutionSet ss => pc_solution_set ss
  | PVPredicate p => pc_predicate p
  | PVProgram bs => pc_program bs
  | PVContract c => pc_contract c
  | PVSignature b id => pc_signature (b, id)
  | PVSignedContract sc => pc_signed_contract sc
  end.

(* the model's decoder applied to the bytes gives back the value *)
Definition pcv_decodes (v : pcv) (bs : list Z) : bool :=
  match v with
  | PVContentAddress a => match from_bytes dec_content_address bs with Some x => zlist_eqb x a | None => false end
  | PVPredicateAddress c p => match from_bytes dec_predicate_address bs with Some x => zlist_eqb (fst x) c && zlist_eqb (snd x) p | None => false end
  | PVMutation m => match from_bytes dec_mutation bs with Some x => mut_eqb x m | None => false end
  | PVSolution s => match from_bytes dec_solution_strict bs with Some x => sol_eqb_pc x s | None => false end
  | PVSolutionSet ss => match from_bytes dec_solution_set_strict bs with Some x => list_eqb sol_eqb_pc x ss | None => false end
  | PVPredicate p => match from_bytes dec_predicate bs with Some x => pred_eqb x p | None => false end
  | PVProgram b => match from_bytes dec_program bs with Some x => zlist_eqb x b | None => false end
  | PVContract c => match from_bytes dec_contract bs with Some x => contract_eqb x c | None => false end
  | PVSignature b id => match from_bytes dec_signature bs with Some x => sig_eqb x (b, id) | None => false end
  | PVSignedContract sc => match from_bytes dec_signed_contract bs with
                           | Some x => contract_eqb (sc_contract x) (sc_contract sc) && sig_eqb (sc_signature x) (sc_signature sc)
                           | None => false end
  end.

(* does the model's decoder accept these (possibly damaged) bytes at all? *)
Definition pcv_accepts (kind : Z) (bs : list Z) : bool :=
  match kind with
  | 0 => match from_bytes dec_content_address bs with Some _ => true | None => false end
  | 1 => match from_bytes dec_predicate_address bs with Some _ => true | None => false end
  | 2 => match from_bytes dec_mutation bs with Some _ => true | None => false end
  | 3 => match from_bytes dec_solution_strict bs with Some _ => true | None => false end
  | 4 => match from_bytes dec_solution_set_strict bs with Some _ => true | None => false end
  | 5 => match from_bytes dec_predicate bs with Some _ => true | None => false end
  | 6 => match from_bytes dec_program bs with Some _ => true | None => false end
  | 7 => match from_bytes dec_contract bs with Some _ => true | None => false end
  | 8 => match from_bytes dec_signature bs with Some _ => true | None => false end
  | _ => match from_bytes dec_signed_contract bs with Some _ => true | None => false end
  end.

Inductive types_case :=
| TPanicked                                                             (* the implementation panicked while the case was being computed *)
| TPostcard (v : pcv) (bytes : list Z) (back_ok : bool)                 (* postcard::to_allocvec; from_bytes(bytes) == value *)
| TPostcardDamaged (kind : Z) (bytes : list Z) (accepted : bool)        (* postcard::from_bytes::<T> on damaged bytes: accepted or rejected *)
| TDecodeMutations (ws : list Z) (res : mres)
| TDecodeMutation (ws : list Z) (res : mres)                            (* MOk [m] on success *)
| TEncodeMutations (ms : list mutation) (words : list Z) (sizes : list Z) (back : mres)
| TPredDecode (bs : list Z) (res : pres)
| TPredEncode (p : predicate) (res : eres) (size : Z) (back : pres)
| TPredEncodeSized (n e : Z) (kind : Z) (len : Z) (size : Z) (back_ok : bool) (addr : list Z)
                                  (* `sized_pred n e`: 0 encoded / 1 TooManyNodes / 2 TooManyEdges, length, encoded_size, round trip, address *)
| TNodeEdges (p : predicate) (results : list (option (list Z)))         (* node_edges(i), i = 0 .. n+1 *)
| TWord (w : Z) (bytes : list Z) (back : Z)                             (* bytes_from_word, word_from_bytes *)
| TWordSlice (bs : list Z) (w : Z)                                      (* word_from_bytes_slice: up to 8 bytes, left aligned, zero padded *)
| TBoolWord (w : Z) (r : Z)                                             (* bool_from_word: 0 Some false, 1 Some true, 2 None *)
| THashIter (chunks : list (list Z)) (h : list Z) (h_flat : list Z)     (* hash_bytes_iter over the chunks; hash_bytes of their concatenation *)
| THashWords (ws : list Z) (h : list Z) (hb : list Z)                   (* essential_hash::hash_words; hash_bytes of the same bytes *)
| TWords4 (b32 : list Z) (ws : list Z) (back : list Z)                  (* word_4_from_u8_32, u8_32_from_word_4 *)
| TWords8 (b64 : list Z) (ws : list Z) (back : list Z)
| TAddrPredicate (p : predicate) (addr : list Z)
| TAddrProgram (bs : list Z) (addr : list Z)
| TAddrSolution (s : solution) (postcard : list Z) (addr : list Z)
| TAddrContract (ps : list predicate) (salt : list Z) (addr : list Z) (from_addrs : list Z) (perm_addrs : list (list Z))
| TAddrSet (sols : list solution) (addr : list Z) (from_addrs : list Z) (perm_addrs : list (list Z))
| TCheckSet (sols : list solution) (ok : bool) (perm_oks : list bool)
| TCheckPredicate (nodes edges : Z) (ok : bool)                         (* a predicate with that many nodes / edges *)
| TCheckContract (sizes : list (Z * Z)) (ok : bool)                     (* one (nodes, edges) pair per predicate *)
| THexWords (ws : list Z) (hexs : list Z) (back : option (list Z)) (back_upper : option (list Z))   (* hex_str_from_words, words_from_hex_str *)
| TDisplay (kind : Z) (bytes : list Z) (shown : list Z) (parsed : option (list Z)) (parsed_lower : option (list Z))
                                                                        (* Display then FromStr; kind 32 = ContentAddress, 65 = Signature *)
| TSerdeOther (kind : Z) (json_ok : bool) (postcard_ok : bool) (display_ok : bool)
          (* 1 Predicate 2 Contract 3 SignedContract 4 Program 5 Mutation 6 Solution 7 PredicateAddress 8 Signature 9 ContentAddress:
             the implementation's own JSON and postcard round trips (and Display/FromStr where defined) *)
| TSerdeSolutionSet (sols : list solution) (tree : sval) (back_ok : bool) (legacy_ok : bool) (postcard_ok : bool).
          (* serde_json::to_value; from_value(tree) == value; legacy field names accepted; postcard round trip *)

Definition sol_eqb_full (a b : solution) : bool :=
  zlist_eqb (sol_contract a) (sol_contract b) && zlist_eqb (sol_predicate a) (sol_predicate b)
  && zzlist_eqb (sol_data a) (sol_data b) && list_eqb mut_eqb (sol_muts a) (sol_muts b).

Fixpoint sval_eqb (a b : sval) : bool :=
  match a, b with
  | SNum x, SNum y => x =? y
  | SStr x, SStr y => zlist_eqb x y
  | SSeq x, SSeq y => (fix go (l1 l2 : list sval) : bool :=
                         match l1, l2 with [], [] => true | u :: r1, v :: r2 => sval_eqb u v && go r1 r2 | _, _ => false end) x y
  | SMap x, SMap y => (fix go (l1 l2 : list (string * sval)) : bool :=
                         match l1, l2 with
                         | [], [] => true
                         | (k1, u) :: r1, (k2, v) :: r2 => String.eqb k1 k2 && sval_eqb u v && go r1 r2
                         | _, _ => false end) x y
  | _, _ => false
  end.

Definition optlist_eqb (a b : option (list Z)) : bool :=
  match a, b with Some x, Some y => zlist_eqb x y | None, None => true | _, _ => false end.

Definition sized_pred (n e : Z) : predicate :=
  {| p_nodes := repeat {| n_edge_start := 65535; n_program := repeat 0 32 |} (Z.to_nat n); p_edges := repeat 0 (Z.to_nat e) |}.

(* the lexicographic successor-free spec of a sorted, concatenated address list *)
Definition H := sha256.

Definition types_mismatch (c : types_case) : bool :=
  match c with
  | TPanicked => true
  | TPostcard v bs _ => negb (zlist_eqb (pcv_encode v) bs && pcv_decodes v bs)
  | TPostcardDamaged k bs acc => negb (Bool.eqb (pcv_accepts k bs) acc)
  | TDecodeMutations ws r => negb (mres_eqb (mres_of (decode_mutations ws)) r)
  | TDecodeMutation ws r => negb (mres_eqb (mres_of (omap (fun m => [m]) (decode_mutation ws))) r)
  | TEncodeMutations ms words sizes _ =>
      negb (zlist_eqb (encode_mutations ms) words && zlist_eqb (map encode_mutation_size ms) sizes)
  | TPredDecode bs r => negb (pres_eqb (pres_of (decode_predicate bs)) r)
  | TPredEncode p r size _ => negb (eres_eqb (eres_of (encode_predicate p)) r && (predicate_encoded_size p =? size))
  | TPredEncodeSized n e kind len size _ addr =>
      negb (match encode_predicate (sized_pred n e) with
            | Ok bs => (kind =? 0) && (zlen bs =? len)
            | Err TooManyNodes => kind =? 1
            | Err TooManyEdges => kind =? 2
            | _ => false
            end && (predicate_encoded_size (sized_pred n e) =? size) && zlist_eqb (predicate_addr H (sized_pred n e)) addr)
  | TNodeEdges p rs => negb (list_eqb optlist_eqb (map (node_edges p) (seq 0 (length (p_nodes p) + 2))) rs)
  | TWord w bytes back => negb (zlist_eqb (bytes_of_word w) bytes && (word_of_bytes bytes =? back))
  | TWordSlice bs w => negb (word_of_bytes (firstn 8 (bs ++ repeat 0 8)) =? w)
  | TBoolWord w r => negb (r =? (if w =? 0 then 0 else if w =? 1 then 1 else 2))
  | THashIter chunks h _ => negb (zlist_eqb (sha256 (concat chunks)) h)
  | THashWords ws h _ => negb (zlist_eqb (sha256 (bytes_of_words ws)) h)
  | TWords4 b32 ws back => negb (zlist_eqb (words_of_bytes 4 b32) ws && zlist_eqb (bytes_of_words ws) back)
  | TWords8 b64 ws back => negb (zlist_eqb (words_of_bytes 8 b64) ws && zlist_eqb (bytes_of_words ws) back)
  | TAddrPredicate p a => negb (zlist_eqb (predicate_addr H p) a)
  | TAddrProgram bs a => negb (zlist_eqb (program_addr H bs) a)
  | TAddrSolution s pc a => negb (zlist_eqb (pc_solution s) pc && zlist_eqb (solution_addr H s) a)
  | TAddrContract ps salt a _ _ => negb (zlist_eqb (contract_addr H ps salt) a)
  | TAddrSet sols a _ _ => negb (zlist_eqb (set_addr H sols) a)
  | TCheckSet sols ok _ => negb (Bool.eqb (is_ok (check_set sols)) ok)
  | TCheckPredicate n e ok => negb (Bool.eqb (is_ok (check_predicate_limits (sized_pred n e))) ok)
  | TCheckContract sizes ok => negb (Bool.eqb (is_ok (check_contract (map (fun s => sized_pred (fst s) (snd s)) sizes))) ok)
  | THexWords ws hexs back _ => negb (zlist_eqb (words_to_hex ws) hexs && option_eqb zlist_eqb (words_from_hex hexs) back)
  | TDisplay kind bytes shown parsed _ =>
      negb (zlist_eqb (display_addr bytes) shown && option_eqb zlist_eqb (parse_addr (Z.to_nat kind) shown) parsed)
  | TSerdeOther _ _ _ _ => false
  | TSerdeSolutionSet sols tree _ _ _ =>
      (* the model's deserialiser reads the implementation's tree back to the value (field order is irrelevant) *)
      negb (match de_hr_solution_set tree with Some l => list_eqb sol_eqb_full l sols | None => false end)
  end.

(* documented limits, literally *)
Definition spec_check_set (sols : list solution) : bool :=
  (1 <=? zlen sols) && (zlen sols <=? 100)
  && forallb (fun s => (zlen (sol_data s) <=? 100) && forallb (fun v => zlen v <=? 10000) (sol_data s)) sols
  && (fold_right (fun s a => zlen (sol_muts s) + a) 0 sols <=? 1000)
  && forallb (fun s => forallb (fun m => (zlen (m_key m) <=? 1000) && (zlen (m_value m) <=? 10000)) (sol_muts s)
                       && (length (nodup (list_eq_dec Z.eq_dec) (map m_key (sol_muts s))) =? length (sol_muts s))%nat) sols.

(* the properties evaluated on the implementation's own outputs *)
Definition types_spec_fail (c : types_case) : bool :=
  match c with
  | TPanicked => true
  | TPostcard _ _ back_ok => negb back_ok
  | TPostcardDamaged _ _ _ => false
  | TDecodeMutations _ r | TDecodeMutation _ r => match r with MPanic => true | _ => false end
  | TEncodeMutations ms words sizes back =>
      negb (mres_eqb back (MOk ms)                                              (* round trip *)
            && zlist_eqb sizes (map (fun m => 2 + zlen (m_key m) + zlen (m_value m)) ms)
            && (zlen words =? 1 + fold_right Z.add 0 sizes))
  | TPredDecode _ r => match r with PPanic => true | _ => false end
  | TPredEncode p r size back =>
      match r with
      | EOk bs => negb ((zlen (p_nodes p) <=? 1000) && (zlen (p_edges p) <=? 1000) && (size =? zlen bs)
                        && (zlen bs =? 34 * zlen (p_nodes p) + 2 * zlen (p_edges p) + 4) && pres_eqb back (POk p))
      | ETooManyNodes => negb (1000 <? zlen (p_nodes p))
      | ETooManyEdges => negb ((zlen (p_nodes p) <=? 1000) && (1000 <? zlen (p_edges p)))
      | EPanic => true
      end
  | TPredEncodeSized n e kind len size back_ok addr =>
      (* at most 1000 nodes and 1000 edges encode (to 34 n + 2 e + 4 bytes) and decode back; anything larger is refused;
         the address of an encodable predicate is not the all-zero placeholder *)
      negb (if (n <=? 1000) && (e <=? 1000)
            then (kind =? 0) && (len =? 34 * n + 2 * e + 4) && (size =? len) && back_ok && negb (zlist_eqb addr (repeat 0 32))
            else if 1000 <? n then kind =? 1 else kind =? 2)
  | TNodeEdges p rs =>
      (* documented sub-range: empty for the leaf marker; [edge_start, next non-leaf edge_start or |edges|) *)
      negb (list_eqb optlist_eqb rs
        (map (fun ix => match nth_error (p_nodes p) ix with
                        | None => None
                        | Some nd =>
                            if n_edge_start nd =? 65535 then Some []
                            else let e_end := match nth_error (p_nodes p) (S ix) with
                                              | Some nx => if n_edge_start nx =? 65535 then zlen (p_edges p) else n_edge_start nx
                                              | None => zlen (p_edges p) end in
                                 if (n_edge_start nd <=? e_end) && (e_end <=? zlen (p_edges p))
                                 then Some (firstn (Z.to_nat (e_end - n_edge_start nd)) (skipn (Z.to_nat (n_edge_start nd)) (p_edges p)))
                                 else None
                        end) (seq 0 (length (p_nodes p) + 2))))
  | TWord w bytes back => negb ((back =? w) && (length bytes =? 8)%nat
                                && (be_val bytes =? w mod 18446744073709551616))
  | TWordSlice bs w => negb ((w mod 18446744073709551616) =? be_val (firstn 8 (bs ++ repeat 0 8)))
  | TBoolWord w r => negb (r =? (if w =? 0 then 0 else if w =? 1 then 1 else 2))
  | THashIter _ h hf => negb (zlist_eqb h hf)
  | THashWords _ h hb => negb (zlist_eqb h hb)
  | TWords4 b32 ws back => negb (zlist_eqb back b32 && (length ws =? 4)%nat)
  | TWords8 b64 ws back => negb (zlist_eqb back b64 && (length ws =? 8)%nat)
  | TAddrPredicate p a =>
      match encode_predicate p with
      | Ok bs => negb (zlist_eqb a (sha256 bs))
      | _ => negb (zlist_eqb a (repeat 0 32))
      end
  | TAddrProgram bs a => negb (zlist_eqb a (sha256 bs))
  | TAddrSolution s pc a => negb (zlist_eqb a (sha256 pc))
  | TAddrContract ps salt a from_addrs perms =>
      negb (zlist_eqb a from_addrs && forallb (zlist_eqb a) perms)          (* helpers agree; order independent *)
  | TAddrSet sols a from_addrs perms => negb (zlist_eqb a from_addrs && forallb (zlist_eqb a) perms)
  | TCheckSet sols ok perm_oks => negb (Bool.eqb ok (spec_check_set sols) && forallb (Bool.eqb ok) perm_oks)
  | TCheckPredicate n e ok => negb (Bool.eqb ok ((n <=? 1000) && (e <=? 1000)))
  | TCheckContract sizes ok =>
      negb (Bool.eqb ok ((zlen sizes <=? 100) && forallb (fun s => (fst s <=? 1000) && (snd s <=? 1000)) sizes))
  | THexWords ws _ back back_upper => negb (option_eqb zlist_eqb back (Some ws) && option_eqb zlist_eqb back_upper (Some ws))
  | TDisplay _ bytes _ parsed parsed_lower =>
      negb (option_eqb zlist_eqb parsed (Some bytes) && option_eqb zlist_eqb parsed_lower (Some bytes))
  | TSerdeOther _ j p d => negb (j && p && d)
  | TSerdeSolutionSet _ _ back_ok legacy_ok postcard_ok => negb (back_ok && legacy_ok && postcard_ok)
  end.

Definition types_mismatches := collect types_mismatch.
Definition types_spec_failures := collect types_spec_fail.
