(* Helpers for the correspondence evaluators: boolean equalities and index collection. *)
From Coq Require Export String NArith.
From EB Require Export Base.ListX Base.Word Base.Outcome.
Open Scope list_scope.

Fixpoint list_eqb {A} (eqb : A -> A -> bool) (a b : list A) : bool :=
  match a, b with
  | [], [] => true
  | x :: a', y :: b' => eqb x y && list_eqb eqb a' b'
  | _, _ => false
  end.
Definition zlist_eqb := list_eqb Z.eqb.
Definition zzlist_eqb := list_eqb zlist_eqb.
Definition option_eqb {A} (eqb : A -> A -> bool) (a b : option A) : bool :=
  match a, b with Some x, Some y => eqb x y | None, None => true | _, _ => false end.
Definition pair_eqb {A B} (ea : A -> A -> bool) (eb : B -> B -> bool) (a b : A * B) : bool :=
  ea (fst a) (fst b) && eb (snd a) (snd b).

(* ids of the cases on which `bad` holds *)
Definition collect {C} (bad : C -> bool) (cases : list (N * C)) : list N :=
  map fst (filter (fun c => bad (snd c)) cases).

Definition zrange (n : nat) : list Z := map Z.of_nat (seq 0 n).
