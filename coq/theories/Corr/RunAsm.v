(* Correspondence evaluators for the asm crate (C13, C15): model vs implementation, and the
   specification table evaluated directly on the implementation's observed behaviour. *)
From EB Require Export Corr.Common Asm.Op Asm.Effects Generated.OpTable.
Open Scope string_scope.
Open Scope list_scope.
Open Scope Z_scope.

Inductive presult := PROk (ops : list op) | PRInvalid (b : Z) | PRNotEnough | PRPanic.

Definition presult_of (x : outcome perr (list op)) : presult :=
  match x with
  | Ok ops => PROk ops
  | Err (InvalidOpcode b) => PRInvalid b
  | Err NotEnoughBytes => PRNotEnough
  | _ => PRPanic
  end.
Definition ops_eqb := list_eqb op_eqb.
Definition presult_eqb (a b : presult) : bool :=
  match a, b with
  | PROk x, PROk y => ops_eqb x y
  | PRInvalid x, PRInvalid y => x =? y
  | PRNotEnough, PRNotEnough => true
  | _, _ => false
  end.

(* a parser driven by the generated specification table only *)
Definition srow := (Z * string * string * Z)%type.
Definition r_opcode (r : srow) := fst (fst (fst r)).
Definition r_path (r : srow) := snd (fst (fst r)).
Definition r_short (r : srow) := snd (fst r).
Definition r_args (r : srow) := snd r.
Definition spec_lookup (b : Z) : option srow := find (fun r => r_opcode r =? b) spec_table.

Inductive sres := SOk (l : list (Z * string * list Z)) | SInvalid (b : Z) | SNotEnough | SFuel.
Fixpoint spec_parse (fuel : nat) (bs : list Z) : sres :=
  match bs with
  | [] => SOk []
  | b :: rest =>
    match fuel with
    | O => SFuel
    | S f =>
      match spec_lookup b with
      | None => SInvalid b
      | Some r =>
        let n := Z.to_nat (r_args r) in
        if (length rest <? n)%nat then SNotEnough
        else match spec_parse f (skipn n rest) with
             | SOk l => SOk ((b, r_path r, firstn n rest) :: l)
             | e => e
             end
      end
    end
  end.

Definition raw_eqb : list (Z * string * list Z) -> list (Z * string * list Z) -> bool :=
  list_eqb (fun a b => (fst (fst a) =? fst (fst b)) && String.eqb (snd (fst a)) (snd (fst b)) && zlist_eqb (snd a) (snd b)).

Inductive asm_case :=
| CBytes (bs : list Z) (parsed : presult) (reenc : list Z) (raw : list (Z * string * list Z))
| COps (ops : list op) (bytes : list Z) (back : presult)
| CTable (rows : list (Z * bool * string * Z * Z))
| CShorts (rows : list (string * Z * Z))
| CFx (ops : list op) (bytes : list Z) (analyzed : Z) (answers : list bool)   (* answers for fl = 0..63 *)
| CFxRaw (bytes : list Z) (answers : list bool).                              (* any byte string; [] = the scan panicked *)

Definition table_row_eqb (a b : Z * bool * string * Z * Z) : bool :=
  match a, b with
  | (b1, v1, p1, o1, n1), (b2, v2, p2, o2, n2) =>
      (b1 =? b2) && Bool.eqb v1 v2 && String.eqb p1 p2 && (o1 =? o2) && (n1 =? n2)
  end.
Definition model_table_rows : list (Z * bool * string * Z * Z) :=
  map (fun b => match opcode_decode b with
                | Some o => (b, true, op_path o, opcode_of o, arg_bytes o)
                | None => (b, false, "", 0, 0)
                end) (zrange 256).
Definition spec_table_rows (t : list srow) : list (Z * bool * string * Z * Z) :=
  map (fun b => match find (fun r => r_opcode r =? b) t with
                | Some r => (b, true, r_path r, r_opcode r, r_args r)
                | None => (b, false, "", 0, 0)
                end) (zrange 256).
Definition short_row_eqb (a b : string * Z * Z) : bool :=
  match a, b with (s1, o1, n1), (s2, o2, n2) => String.eqb s1 s2 && (o1 =? o2) && (n1 =? n2) end.

Definition fx_answers_model (bytes : list Z) : list bool := map (bytes_contains_any bytes) (zrange 64).
Definition fx_answers_spec (ops : list op) : list bool := map (fun fl => existsb (has_effect fl) ops) (zrange 64).

(* model output differs from implementation output *)
Definition asm_mismatch (c : asm_case) : bool :=
  match c with
  | CBytes bs p _ _ => negb (presult_eqb (presult_of (from_bytes bs)) p)
  | COps ops bytes _ => negb (zlist_eqb (to_bytes ops) bytes)
  | CTable rows => negb (list_eqb table_row_eqb rows model_table_rows)
  | CShorts rows => negb (list_eqb short_row_eqb rows (map (fun o => (op_short o, opcode_of o, arg_bytes o)) all_ops))
  | CFx ops bytes an answers =>
      negb ((an =? analyze ops) && list_eqb Bool.eqb answers (fx_answers_model bytes))
  | CFxRaw bytes answers => negb (list_eqb Bool.eqb answers (fx_answers_model bytes))
  end.

(* the specification fails on the implementation's observed behaviour *)
Definition asm_spec_fail (c : asm_case) : bool :=
  match c with
  | CBytes bs p reenc raw =>
      match p, spec_parse (length bs) bs with
      | PROk _, SOk l => negb (zlist_eqb reenc bs && raw_eqb raw l)
      | PRInvalid b, SInvalid b' => negb (b =? b')
      | PRNotEnough, SNotEnough => false
      | _, _ => true
      end
  | COps ops bytes back => negb (presult_eqb back (PROk ops))
  | CTable rows =>
      negb (list_eqb table_row_eqb rows (spec_table_rows spec_table)
            && list_eqb table_row_eqb rows (spec_table_rows pinned_table))
  | CShorts rows =>
      negb (list_eqb short_row_eqb rows (map (fun r => (r_short r, r_opcode r, r_args r)) spec_table))
  | CFx ops bytes an answers =>
      negb ((an =? effects_spec ops) && list_eqb Bool.eqb answers (fx_answers_spec ops))
  | CFxRaw bytes answers =>
      (* total on untrusted bytes; when the bytes parse, the answers are those of the parsed program *)
      match answers with
      | [] => true
      | _ => match spec_parse (length bytes) bytes, from_bytes bytes with
             | SOk _, Ok ops => negb (list_eqb Bool.eqb answers (fx_answers_spec ops))
             | _, _ => false
             end
      end
  end.

Definition asm_mismatches := collect asm_mismatch.
Definition asm_spec_failures := collect asm_spec_fail.
