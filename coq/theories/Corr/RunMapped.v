(* Correspondence evaluators for C14: mapped bytecode vs the operation list, on the implementation and the model. *)
From EB Require Export Corr.RunAsm Vm.Exec Vm.Mapped Spec.MappedSpec.
Open Scope list_scope.
Open Scope Z_scope.

(* what the implementation did with a byte string *)
Record mapped_case := {
  mc_bytes : list Z;
  mc_parse : presult;                      (* asm::from_bytes *)
  mc_map_ok : bool;                        (* BytecodeMapped::try_from succeeded (owned and borrowed agree) *)
  mc_map_err : presult;                    (* its error as a presult (PROk [] when it succeeded) *)
  mc_indices : list Z;                     (* op_indices() *)
  mc_ops : list op;                        (* ops().collect() *)
  mc_random : list (option op);            (* op(i) for i = 0 .. len+1 *)
  mc_from_iter_bytes : list Z;             (* BytecodeMapped::from_iter(parsed ops).bytecode() *)
  mc_from_iter_indices : list Z;
}.

Definition optop_eqb (a b : option op) : bool :=
  match a, b with Some x, Some y => op_eqb x y | None, None => true | _, _ => false end.

Definition mapped_mismatch (c : mapped_case) : bool :=
  match try_from_bytes (mc_bytes c) with
  | Ok m => negb (mc_map_ok c && zlist_eqb (mp_indices m) (mc_indices c)
                  && match mapped_ops m with Ok ops => ops_eqb ops (mc_ops c) | _ => false end)
  | Err e => negb (negb (mc_map_ok c) && presult_eqb (presult_of (Err e)) (mc_map_err c))
  | _ => true
  end.

(* the property evaluated on the implementation alone *)
Definition mapped_spec_fail (c : mapped_case) : bool :=
  match mc_parse c with
  | PROk ops =>
      negb (mc_map_ok c && ops_eqb (mc_ops c) ops
            && zlist_eqb (mc_indices c) (offsets 0 ops)
            && list_eqb optop_eqb (mc_random c) (map (fun i => op_at ops i) (zrange_z (zlen ops + 2)))
            && zlist_eqb (mc_from_iter_bytes c) (mc_bytes c)
            && zlist_eqb (mc_from_iter_indices c) (mc_indices c))
  | PRPanic => true
  | e => negb (negb (mc_map_ok c) && presult_eqb e (mc_map_err c))
  end.

Definition mapped_mismatches := collect mapped_mismatch.
Definition mapped_spec_failures := collect mapped_spec_fail.
