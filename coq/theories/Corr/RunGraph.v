(* Correspondence evaluators for the solution-set checker (C01, C03, C04, C16, C06). *)
From EB Require Export Corr.Common Check.Set Spec.GraphRef Spec.TwoPassSpec Check.Validate Hash.Addr Hash.Sha256.
Open Scope list_scope.
Open Scope Z_scope.

(* ---- case literals ---- *)
Record graph_case := {
  g_predicates : list (list Z * list Z * predicate);    (* contract, predicate address, predicate *)
  g_programs : list (list Z * list Z);                  (* program address, bytecode *)
  g_solutions : list solution;
  g_state : state;
  g_collect_all : bool;
  g_fuel : N;
  (* what the implementation returned from check_and_compute_solution_set_two_pass *)
  g_res : Z;            (* 0 Ok, 1 predicate errors, 2 mutations decode error, 3 duplicate mutations, 4 panic *)
  g_gas : Z;
  g_sols : list solution;                               (* the returned set on Ok *)
  g_errs : list (Z * Z * list Z);                       (* (solution, kind 0=invalid edges 1=program errors 2=unsatisfied, node indices) *)
  g_err_sol : Z;                                        (* solution index of a mutation error *)
  g_events : list (Z * Z * Z * list (list Z * list Z)); (* recorded runs: pass (0/1), solution, node, inputs (stack, memory) *)
}.

Definition bytes_eqb2 (a b : list Z) : bool := zlist_eqb a b.
Definition empty_pred : predicate := {| p_nodes := []; p_edges := [] |}.
Definition lookup_of (c : graph_case) : lookup :=
  {| lk_predicate := fun ca pa => match find (fun e => bytes_eqb2 (fst (fst e)) ca && bytes_eqb2 (snd (fst e)) pa) (g_predicates c) with
                                  | Some e => snd e | None => empty_pred end;
     lk_program := fun a => match find (fun e => bytes_eqb2 (fst e) a) (g_programs c) with Some e => snd e | None => [] end |}.

Definition run_two_pass (c : graph_case) : outcome unit two_pass_result :=
  two_pass (N.to_nat (g_fuel c)) (lookup_of c) (g_collect_all c) (g_solutions c) (g_state c).

(* ---- comparisons ---- *)
Definition mut_eqb (a b : mutation) : bool := zlist_eqb (m_key a) (m_key b) && zlist_eqb (m_value a) (m_value b).
Definition sol_eqb (a b : solution) : bool :=
  zlist_eqb (sol_contract a) (sol_contract b) && zlist_eqb (sol_predicate a) (sol_predicate b)
  && zzlist_eqb (sol_data a) (sol_data b) && list_eqb mut_eqb (sol_muts a) (sol_muts b).

(* mutations compared as multisets (insertion sort on the encoded form) *)
Fixpoint zlist_leb (a b : list Z) : bool :=
  match a, b with
  | [], _ => true
  | _ :: _, [] => false
  | x :: a', y :: b' => if x <? y then true else if y <? x then false else zlist_leb a' b'
  end.
Fixpoint ins_sorted (x : list Z) (l : list (list Z)) : list (list Z) :=
  match l with [] => [x] | y :: r => if zlist_leb x y then x :: l else y :: ins_sorted x r end.
Definition sort_lists (l : list (list Z)) : list (list Z) := fold_right ins_sorted [] l.
Definition muts_canon (ms : list mutation) : list (list Z) := sort_lists (map encode_mutation ms).
Definition sol_eqb_set (a b : solution) : bool :=
  zlist_eqb (sol_contract a) (sol_contract b) && zlist_eqb (sol_predicate a) (sol_predicate b)
  && zzlist_eqb (sol_data a) (sol_data b) && zzlist_eqb (muts_canon (sol_muts a)) (muts_canon (sol_muts b)).

Definition perr_obs (e : nat * perr2) : Z * Z * list Z :=
  match snd e with
  | PInvalidNodeEdges ix => (Z.of_nat (fst e), 0, [Z.of_nat ix])
  | PProgramErrors l => (Z.of_nat (fst e), 1, map Z.of_nat l)
  | PConstraintsUnsatisfied l => (Z.of_nat (fst e), 2, map Z.of_nat l)
  end.
Definition err_eqb (a b : Z * Z * list Z) : bool :=
  match a, b with (s1, k1, l1), (s2, k2, l2) => (s1 =? s2) && (k1 =? k2) && zlist_eqb l1 l2 end.

(* events of one pass as a canonical list: sorted by (solution, node) *)
Definition ev_key (e : Z * Z * list (list Z * list Z)) : list Z := [fst (fst e); snd (fst e)].
Definition ev_enc (e : Z * Z * list (list Z * list Z)) : list Z :=
  fst (fst e) :: snd (fst e) :: zlen (snd e)
  :: flat_map (fun io => zlen (fst io) :: fst io ++ zlen (snd io) :: snd io) (snd e).
Definition events_canon (l : list (Z * Z * list (list Z * list Z))) : list (list Z) := sort_lists (map ev_enc l).
Definition model_events (l : list (nat * nat * list sm)) : list (Z * Z * list (list Z * list Z)) :=
  map (fun e => (Z.of_nat (fst (fst e)), Z.of_nat (snd (fst e)), snd e)) l.
Definition impl_events (c : graph_case) (pass : Z) : list (Z * Z * list (list Z * list Z)) :=
  flat_map (fun e => match e with (ps, s, n, ins) => if ps =? pass then [(s, n, ins)] else [] end) (g_events c).

(* model vs implementation: result, gas, returned set (exact order), reported indices, run events *)
Definition graph_mismatch (c : graph_case) : bool :=
  match run_two_pass c with
  | Ok r =>
      negb (zzlist_eqb (events_canon (model_events (tp_events1 r))) (events_canon (impl_events c 0))
            && zzlist_eqb (events_canon (model_events (tp_events2 r))) (events_canon (impl_events c 1)))
      || match tp_res r with
         | Ok (g, sols) => negb ((g_res c =? 0) && (g =? g_gas c) && list_eqb sol_eqb sols (g_sols c))
         | Err (SFailed errs) => negb ((g_res c =? 1) && list_eqb err_eqb (map perr_obs errs) (g_errs c))
         | Err (SMutationsDecode s) => negb ((g_res c =? 2) && (Z.of_nat s =? g_err_sol c))
         | Err (SMutationsDuplicate s) => negb ((g_res c =? 3) && (Z.of_nat s =? g_err_sol c))
         | _ => true
         end
  | _ => true
  end.

(* the reference semantics evaluated against the implementation's verdict *)
Definition graph_spec_fail (c : graph_case) : bool :=
  match reference (N.to_nat (g_fuel c)) (lookup_of c) (g_state c) (g_solutions c) with
  | RefOk g sols runs =>
      negb ((g_res c =? 0) && (g =? g_gas c) && list_eqb sol_eqb_set sols (g_sols c)
            (* each node ran exactly once, after its parents, on exactly their outputs *)
            && zzlist_eqb (events_canon (model_events runs))
                          (events_canon (map (fun e => match e with (_, s, n, ins) => (s, n, ins) end) (g_events c))))
  | RefInvalidGraph i =>
      (* rejected with an invalid-graph error naming that solution, and nothing of that solution was run *)
      negb ((g_res c =? 1)
            && existsb (fun e => match e with (s, k, _) => (s =? Z.of_nat i) && (k =? 0) end) (g_errs c)
            && forallb (fun e => match e with (_, s, _, _) => negb (s =? Z.of_nat i) end) (g_events c))
  | RefFailed => (g_res c =? 0) || (g_res c =? 4)
  | RefPanic => true
  | RefFuel => false
  end
  (* every node ran at most once over the two passes *)
  || negb (let keys := map (fun e => match e with (_, s, n, _) => [s; n] end) (g_events c) in
           zzlist_eqb (sort_lists keys) (sort_lists (nodup (list_eq_dec Z.eq_dec) keys)))
  || (g_res c =? 4).

Definition graph_mismatches := Common.collect graph_mismatch.
Definition graph_spec_failures := Common.collect graph_spec_fail.

(* ---- C03: post-state reads and key successors through the hook ---- *)
Record post_case := {
  pc_entries : post_state;                       (* proposed (contract, key, value) in insertion order *)
  pc_state : state;
  pc_contract : list Z; pc_key : list Z; pc_n : Z;
  pc_res : list (list Z);                        (* verif::read_post (the state never fails) *)
  pc_pre_res : list (list Z);                    (* the pre-state view asked directly *)
  pc_succ : list (list Z * option (list Z));     (* verif::successor on sample keys *)
}.

Definition optkey_eqb (a b : option (list Z)) : bool :=
  match a, b with Some x, Some y => zlist_eqb x y | None, None => true | _, _ => false end.

Definition post_mismatch (c : post_case) : bool :=
  negb (match read_or_fallback (pc_entries c) (state_view (pc_state c)) (pc_contract c) (pc_key c) (pc_n c) with
        | Some r => zzlist_eqb r (pc_res c)
        | None => false
        end
        && forallb (fun e => optkey_eqb (next_key (fst e)) (snd e)) (pc_succ c)).

(* the overlay semantics of the property, evaluated on what the implementation returned *)
Definition post_spec_fail (c : post_case) : bool :=
  let ks := keys_from (pc_key c) (req (pc_n c)) in
  negb (zzlist_eqb (pc_res c) (map (overlay_val (pc_entries c) (pc_state c) (pc_contract c)) ks)
        && zzlist_eqb (pc_pre_res c) (map (st_val (pc_state c) (pc_contract c)) ks)   (* pre reads never see mutations *)
        && forallb (fun e => match snd e with
                             | Some k' => (num k' =? num (fst e) + 1) && (length k' =? length (fst e))%nat
                             | None => match fst e with [] => true | k => forallb (fun w => w =? i64_max) k end
                             end) (pc_succ c)).

Definition post_mismatches := Common.collect post_mismatch.
Definition post_spec_failures := Common.collect post_spec_fail.

(* ---- C04: every permutation of a solution set ---- *)
Record perm_case := {
  pp_sols : list solution;                                  (* the set in its original order *)
  pp_addrs : list (list Z);                                 (* content address of every permutation *)
  pp_check : list bool;                                     (* check_set verdict of every permutation *)
  pp_results : list (Z * Z * list (list (list Z)));         (* two-pass of every permutation: result code, gas, and per ORIGINAL
                                                               solution the returned mutations (encoded, sorted) *)
}.
Definition all_same {A} (eqb : A -> A -> bool) (l : list A) : bool :=
  match l with [] => true | x :: r => forallb (eqb x) r end.
Definition perm_res_eqb (a b : Z * Z * list (list (list Z))) : bool :=
  (* the verdict is Ok / not Ok: WHICH error of a failing set is reported first may depend on the order *)
  match a, b with (r1, g1, m1), (r2, g2, m2) =>
    if (r1 =? 0) || (r2 =? 0) then (r1 =? r2) && (g1 =? g2) && list_eqb zzlist_eqb m1 m2 else negb (r1 =? 4) && negb (r2 =? 4)
  end.

Definition perm_mismatch (c : perm_case) : bool :=
  negb (match pp_addrs c with a :: _ => zlist_eqb a (set_addr sha256 (pp_sols c)) | [] => true end
        && match pp_check c with b :: _ => Bool.eqb b (is_ok (check_set (pp_sols c))) | [] => true end).

(* a solution set is a set: nothing depends on the order of the solutions *)
Definition perm_spec_fail (c : perm_case) : bool :=
  negb (all_same zlist_eqb (pp_addrs c) && all_same Bool.eqb (pp_check c) && all_same perm_res_eqb (pp_results c)).

Definition perm_mismatches := Common.collect perm_mismatch.
Definition perm_spec_failures := Common.collect perm_spec_fail.

(* ---- graph helpers through the hook (C01, C03): parent map, level sort, deferral, should_cache ---- *)
Record helper_case := {
  hc_pred : predicate;
  hc_seeds : list Z;                                     (* nodes whose program contains a post-state read *)
  hc_parent_map : option (list (Z * list Z));            (* verif::parent_map; None = invalid edges *)
  hc_pm_err : Z;                                         (* reported node index on error *)
  hc_levels : option (list (list Z));                    (* verif::topo_sort; None = error *)
  hc_deferred : list Z;                                  (* verif::deferred, sorted *)
  hc_cached : list bool;                                 (* verif::cached for every node *)
}.
Definition natz (l : list nat) : list Z := map Z.of_nat l.
Definition pm_eqb (a b : list (Z * list Z)) : bool := list_eqb (pair_eqb Z.eqb zlist_eqb) a b.
Definition seeds_fn (c : helper_case) (ix : nat) : bool := existsb (Z.eqb (Z.of_nat ix)) (hc_seeds c).

Definition helper_mismatch (c : helper_case) : bool :=
  let p := hc_pred c in
  negb (match create_parent_map p, hc_parent_map c with
        | Ok pm, Some pm' =>
            pm_eqb (map (fun e => (Z.of_nat (fst e), natz (snd e))) pm) pm'
            && match parallel_topo_sort p pm, hc_levels c with
               | Ok ls, Some ls' => zzlist_eqb (map natz ls) ls'
               | Err _, None => true
               | _, _ => false
               end
        | Err (InvalidNodeEdges ix), None => Z.of_nat ix =? hc_pm_err c
        | _, _ => false
        end
        && zzlist_eqb (sort_lists (map (fun x => [x]) (natz (find_deferred p (seeds_fn c))))) (sort_lists (map (fun x => [x]) (hc_deferred c)))
        && match hc_parent_map c with
           | Some _ => list_eqb Bool.eqb (map (should_cache p (find_deferred p (seeds_fn c))) (seq 0 (length (p_nodes p)))) (hc_cached c)
           | None => true
           end).

(* the declarative side: levels partition the nodes with parents strictly earlier; deferred = reachable from the seeds *)
Definition helper_spec_fail (c : helper_case) : bool :=
  let p := hc_pred c in
  let n := length (p_nodes p) in
  match hc_levels c with
  | Some ls =>
      let flat := concat ls in
      negb (zzlist_eqb (sort_lists (map (fun x => [x]) flat)) (map (fun x => [x]) (natz (seq 0 n)))   (* every node exactly once *)
            && forallb (fun l => negb (match l with [] => true | _ => false end)) ls
            && graph_ok p)
  | None => match hc_parent_map c with
            | Some _ => edges_valid p && acyclic_ref p          (* rejected although valid and acyclic *)
            | None => edges_valid p
            end
  end
  || (* deferred nodes (dangling edge targets >= n are outside the claim) = ancestors-or-self contain a post-state read *)
     (let d := filter (fun v => v <? Z.of_nat n) (hc_deferred c) in
      negb (zlist_eqb d (natz (filter (fun v => deferred_ref p (seeds_fn c) n v) (seq 0 n))))).

Definition helper_mismatches := Common.collect helper_mismatch.
Definition helper_spec_failures := Common.collect helper_spec_fail.
