(* Correspondence evaluators for the VM (C05, C07-C12, C14): a case is an environment, a program, an
   initial machine state and a gas limit together with what the implementation did on it. *)
From EB Require Export Corr.Common Vm.Exec Spec.Ops Hash.Sha256.
Open Scope list_scope.
Open Scope Z_scope.

Definition zmods (n m : Z) : list Z := map (fun i => i mod m) (zrange_z n).

(* ---------- environment literals ---------- *)
Inductive cost_lit := CostConst (c : Z) | CostTable (tbl : list (Z * Z)) (dflt : Z).   (* by opcode byte *)
Definition cost_of (c : cost_lit) (o : op) : Z :=
  match c with
  | CostConst k => k
  | CostTable tbl d =>
      match find (fun e => fst e =? opcode_of o) tbl with Some e => snd e | None => d end
  end.

(* recorded oracle calls: (contract bytes, key, count) -> result *)
Definition view_tbl := list (list Z * list Z * Z * option (list (list Z))).
Definition view_of (t : view_tbl) : view := fun c k n =>
  match find (fun e => match e with (c', k', n', _) => zlist_eqb c c' && zlist_eqb k k' && (n =? n') end) t with
  | Some (_, _, _, r) => r
  | None => Some [[-777; -777; -777]]     (* a request the implementation never made *)
  end.

Definition sha_tbl := list (list Z * list Z).
Definition sha_of (t : sha_tbl) (bs : list Z) : list Z :=
  match find (fun e => zlist_eqb (fst e) bs) t with Some e => snd e | None => sha256 bs end.   (* no entry: SHA-256 itself (Hash/Sha256.v) *)
(* ed25519: (key, sig, msg) -> 0 = invalid key error, 1 = false, 2 = true *)
Definition ed_tbl := list (list Z * list Z * list Z * Z).
Definition ed_of (t : ed_tbl) (k sg m : list Z) : option bool :=
  match find (fun e => match e with (k', s', m', _) => zlist_eqb k k' && zlist_eqb sg s' && zlist_eqb m m' end) t with
  | Some (_, _, _, r) => if r =? 0 then None else Some (r =? 2)
  | None => None
  end.
(* secp: (digest, sig, id) -> [] = parse error, [0] = no key, 33 bytes = key *)
Definition secp_tbl := list (list Z * list Z * Z * list Z).
Definition secp_of (t : secp_tbl) (h sg : list Z) (id : Z) : secp_res :=
  match find (fun e => match e with (h', s', i', _) => zlist_eqb h h' && zlist_eqb sg s' && (id =? i') end) t with
  | Some (_, _, _, r) => match r with [] => SecpParseErr | [_] => SecpNoKey | k => SecpKey k end
  | None => SecpParseErr
  end.

Record env_lit := {
  l_solutions : list solution; l_index : Z;
  l_pre : view_tbl; l_post : view_tbl; l_cost : cost_lit;
  l_sha : sha_tbl; l_ed : ed_tbl; l_secp : secp_tbl }.

Definition env_of (l : env_lit) : env :=
  {| e_solutions := l_solutions l; e_index := Z.to_nat (l_index l);
     e_pre := view_of (l_pre l); e_post := view_of (l_post l); e_cost := cost_of (l_cost l);
     e_sha256 := sha_of (l_sha l); e_ed25519 := ed_of (l_ed l); e_secp := secp_of (l_secp l) |}.

(* ---------- observed implementation behaviour ---------- *)
Inductive ires := IOk (gas : Z) | IErr (p : Z) (class : Z) | IPanic.

Record obs := {
  o_res : ires;
  o_pc : Z; o_stack : list Z (* Rust order: bottom first *); o_memory : list Z; o_halt : bool;
  o_repeat : list (Z * Z * Z * Z);   (* bottom first: counter, 1=up/0=down, limit (0 for down), index *)
  o_priced : Z; o_cost_sum : Z;      (* what the implementation asked the cost function *)
  o_reads : list (Z * list Z * list Z * Z);  (* in call order: 0=pre/1=post, contract, key, count *)
  o_mapped_same : bool;              (* executing the mapped bytecode gave the identical result and state *)
  o_eval : Z;                        (* Vm::eval_ops from the same state: 0 false, 1 true, 2 invalid, 3 error, 4 panic *)
}.

Record vm_case := {
  c_env : env_lit; c_ops : list op;
  c_pc : Z; c_stack : list Z (* bottom first *); c_memory : list Z; c_parent : option (list Z);
  c_limit : Z; c_fuel : N;
  c_obs : obs }.

Definition init_vm (c : vm_case) : vm :=
  {| pc := c_pc c; stack := rev (c_stack c); memory := c_memory c;
     parent_memory := match c_parent c with Some m => [m] | None => [] end; halt := false; rstack := [] |}.

Definition run_model (c : vm_case) : X :=
  exec_ops (N.to_nat (c_fuel c)) (env_of (c_env c)) (c_ops c) (c_limit c) (init_vm c).

Definition slot_obs (s : slot) : Z * Z * Z * Z :=
  match s_up s with
  | Some l => (s_counter s, 1, l, s_index s)
  | None => (s_counter s, 0, 0, s_index s)
  end.
Definition quad_eqb (a b : Z * Z * Z * Z) : bool :=
  match a, b with (a1, a2, a3, a4), (b1, b2, b3, b4) => (a1 =? b1) && (a2 =? b2) && (a3 =? b3) && (a4 =? b4) end.

(* full comparison of a final state *)
Definition state_eqb (v : vm) (o : obs) : bool :=
  (pc v =? o_pc o) && zlist_eqb (rev (stack v)) (o_stack o) && zlist_eqb (memory v) (o_memory o)
  && Bool.eqb (halt v) (o_halt o) && list_eqb quad_eqb (rev (map slot_obs (rstack v))) (o_repeat o).

Definition sum_cost (E : env) (tr : list op) : Z := fold_left (fun a o => a + e_cost E o) tr 0.

(* an out-of-gas error raised by the check that precedes every operation (at a Compute the error can also
   come from the join of the children, after the breadth has been popped) *)
Definition gas_precheck_error (c : vm_case) (p e : Z) : bool :=
  (e =? 14) && match op_at (c_ops c) p with Some OCompute => false | _ => true end.

(* ---- generic mismatch: everything observable ---- *)
Definition vm_mismatch (c : vm_case) : bool :=
  let o := c_obs c in
  match run_model c, o_res o with
  | Ok (v, g, tr), IOk g' =>
      negb ((g =? g') && state_eqb v o && (zlen tr =? o_priced o) && (sum_cost (env_of (c_env c)) tr =? o_cost_sum o))
  | Err (p, e, v), IErr p' e' =>
      negb ((p =? p') && (errc_code e =? e')
            && (if gas_precheck_error c p' e' then state_eqb v o else true))   (* out of gas: state before the op *)
  | _, _ => true
  end.

(* ---- property projections (DESIGN.md section 5, item 3) ---- *)
Definition sizes_ok_obs (o : obs) : bool :=
  (zlen (o_stack o) <=? 4096) && (zlen (o_memory o) <=? 10240) && (zlen (o_repeat o) <=? 4096).

(* C05: totality and bounds *)
Definition c05_mismatch (c : vm_case) : bool :=
  let o := c_obs c in
  match run_model c, o_res o with
  | Ok (v, _, _), IOk _ =>
      negb ((zlen (stack v) =? zlen (o_stack o)) && (zlen (memory v) =? zlen (o_memory o))
            && (zlen (rstack v) =? zlen (o_repeat o)))
  | Err _, IErr _ _ => false
  | _, _ => true
  end.
Definition c05_spec_fail (c : vm_case) : bool :=
  let o := c_obs c in
  match o_res o with
  | IPanic => true
  | IOk _ => negb (sizes_ok_obs o)
  | IErr _ e => if e =? 14 then negb (sizes_ok_obs o) else false
  end.

(* C07: gas *)
Definition c07_mismatch (c : vm_case) : bool :=
  let o := c_obs c in
  match run_model c, o_res o with
  | Ok (_, g, tr), IOk g' => negb ((g =? g') && (zlen tr =? o_priced o))
  | Err (p, e, v), IErr p' e' =>
      negb (Bool.eqb (errc_code e =? 14) (e' =? 14) && (if e' =? 14 then (p =? p') else true)
            && (if gas_precheck_error c p' e' then state_eqb v o else true))
  | _, _ => true
  end.
(* the implementation's own record: reported gas = sum of the costs it was quoted, never above the limit *)
Definition c07_spec_fail (c : vm_case) : bool :=
  let o := c_obs c in
  match o_res o with
  | IOk g => negb ((g =? o_cost_sum o) && (g <=? c_limit c) && (0 <=? g) && (g <=? u64_max))
  | IErr _ e => if e =? 14 then false else false
  | IPanic => true
  end.

(* C08-C12: the observables the specification determines uniquely - success or failure, the index of the
   failing operation, and on success the whole final state and the gas.  The theorems of these properties
   show that the model's values are the specified ones, so a difference here is a failure of the
   specification on a concrete input (error classes are not specified and only count as a mismatch). *)
Definition eval_code (c : vm_case) : Z :=
  match eval_ops (N.to_nat (c_fuel c)) (env_of (c_env c)) (c_ops c) (c_limit c) (init_vm c) with
  | EvFalse => 0 | EvTrue => 1 | EvInvalid => 2 | EvErr _ _ => 3 | EvPanic => 4 | EvFuel => 5
  end.
Definition sem_fail (c : vm_case) : bool :=
  let o := c_obs c in
  match run_model c, o_res o with
  | Ok (v, g, tr), IOk g' => negb ((g =? g') && state_eqb v o && (o_eval o =? eval_code c))
  | Err (p, _, _), IErr p' _ => negb ((p =? p') && (o_eval o =? 3))
  | _, _ => true
  end.

(* C08 additionally: the declarative op specification evaluated directly on single-operation cases *)
Definition c08_spec_fail (c : vm_case) : bool :=
  let o := c_obs c in
  match c_ops c with
  | [op] =>
    if is_data_op op && (c_pc c =? 0) then
      match op_spec op (rev (c_stack c)) (c_memory c) (match c_parent c with Some m => [m] | None => [] end), o_res o with
      | Some (s', m'), IOk _ => negb (zlist_eqb (rev s') (o_stack o) && zlist_eqb m' (o_memory o) && (o_pc o =? 1))
      | None, IErr p _ => negb (p =? 0)
      | _, _ => true
      end
    else sem_fail c
  | _ => sem_fail c
  end.

(* C14: list execution vs mapped execution of the implementation *)
Definition c14_spec_fail (c : vm_case) : bool := negb (o_mapped_same (c_obs c)).

Definition vm_mismatches := collect vm_mismatch.
Definition c05_mismatches := collect c05_mismatch.
Definition c05_spec_failures := collect c05_spec_fail.
Definition c07_mismatches := collect c07_mismatch.
Definition c07_spec_failures := collect c07_spec_fail.
Definition c14_spec_failures := collect c14_spec_fail.
Definition sem_failures := collect sem_fail.
Definition c08_spec_failures := collect c08_spec_fail.

(* debugging aid used by --replay: the model's result in observable form *)
Definition show_model (c : vm_case) :=
  match run_model c with
  | Ok (v, g, tr) => (0, g, pc v, rev (stack v), memory v, zlen tr)
  | Err (p, e, v) => (1, errc_code e, p, rev (stack v), memory v, 0)
  | Panic _ => (2, 0, 0, [], [], 0)
  | OutOfFuel => (3, 0, 0, [], [], 0)
  end.

Definition show_models (cases : list (N * vm_case)) := map (fun c => (fst c, show_model (snd c))) cases.
