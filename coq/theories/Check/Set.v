(* Model of the solution-set level of crates/check/src/solution.rs: run_program, check_predicate,
   check_set_predicates, decode_mutations, PostState/read_or_fallback/next_key,
   check_and_compute_solution_set and check_and_compute_solution_set_two_pass. *)
From EB Require Export Check.Inner Vm.Exec Asm.Effects.
Open Scope list_scope.
Open Scope Z_scope.

Definition zlist_eqb (a b : list Z) : bool := if list_eq_dec Z.eq_dec a b then true else false.

(* ---------- state ---------- *)
(* an in-memory state: contract -> key -> value; absent = empty value.  This is the StateRead
   implementation the harness uses; it answers a range by walking successor keys. *)
Definition kv := list (list Z * list Z).
Definition state := list (list Z * kv).

Fixpoint kv_get (k : list Z) (m : kv) : option (list Z) :=
  match m with [] => None | (k', v) :: r => if zlist_eqb k k' then Some v else kv_get k r end.
Fixpoint st_get (c : list Z) (s : state) : option kv :=
  match s with [] => None | (c', m) :: r => if zlist_eqb c c' then Some m else st_get c r end.

(* next_key: increment the key as a big-endian number of i64 digits; None on wrap-around of all words *)
Fixpoint next_key_rev (rk : list Z) : option (list Z) :=     (* rk = key reversed: last word first *)
  match rk with
  | [] => None
  | w :: r => if w =? i64_max then option_map (cons i64_min) (next_key_rev r) else Some ((w + 1) :: r)
  end.
Definition next_key (k : list Z) : option (list Z) := option_map (@rev Z) (next_key_rev (rev k)).

Definition range_cap : Z := 10241.       (* the harness state answers at most this many keys per request; also the cap of the model of the
                                            read_or_fallback loop (the Rust loop is uncapped): a result of more than 5120 values cannot be
                                            written to the 10240-word memory, so the VM op fails either way *)

Fixpoint state_range (n : nat) (m : kv) (k : list Z) : list (list Z) :=
  match n with
  | O => []
  | S n' => (match kv_get k m with Some v => v | None => [] end)
            :: match next_key k with Some k' => state_range n' m k' | None => [] end
  end.
Definition state_view (s : state) : view := fun c k n =>
  Some (state_range (Z.to_nat (Z.min (Z.max n 0) range_cap)) (match st_get c s with Some m => m | None => [] end) k).

(* PostState: insertion list; later insertions for the same contract and key win (HashMap::insert) *)
Definition post_state := list (list Z * list Z * list Z).      (* contract, key, value in insertion order *)
Definition post_has_contract (ps : post_state) (c : list Z) : bool :=
  existsb (fun e => zlist_eqb (fst (fst e)) c) ps.
Definition post_get (ps : post_state) (c k : list Z) : option (list Z) :=
  match find (fun e => zlist_eqb (fst (fst e)) c && zlist_eqb (snd (fst e)) k) (rev ps) with
  | Some e => Some (snd e)
  | None => None
  end.

(* read_or_fallback *)
Fixpoint rof_loop (n : nat) (ps : post_state) (pre : view) (c k : list Z) : option (list (list Z)) :=
  match n with
  | O => Some []
  | S n' =>
      let v := match post_get ps c k with
               | Some v => Some v
               | None => match pre c k 1 with
                         | None => None
                         | Some vs => Some (last vs [])          (* value.pop().unwrap_or_default() *)
                         end
               end in
      match v with
      | None => None
      | Some v =>
          match next_key k with
          | Some k' => option_map (cons v) (rof_loop n' ps pre c k')
          | None => Some [v]
          end
      end
  end.
Definition read_or_fallback (ps : post_state) (pre : view) : view := fun c k n =>
  if post_has_contract ps c then rof_loop (Z.to_nat (Z.min (Z.max n 0) range_cap)) ps pre c k
  else pre c k n.

(* ---------- programs ---------- *)
Record sol_ctx := {
  sc_solutions : list solution; sc_index : nat;
  sc_pre : view; sc_post : view;
}.

Definition dummy_sha (_ : list Z) : list Z := repeat 0 32.
Definition env_for (c : sol_ctx) : env :=
  {| e_solutions := sc_solutions c; e_index := sc_index c; e_pre := sc_pre c; e_post := sc_post c;
     e_cost := fun _ => 1; e_sha256 := dummy_sha; e_ed25519 := fun _ _ _ => None; e_secp := fun _ _ _ => SecpParseErr |}.

(* run_program; stacks in `sm` are bottom-first *)
Definition run_program (fuel : nat) (c : sol_ctx) (prog : list Z) (leaf : bool) (parents : list sm) : outcome unit prog_res :=
  match from_bytes prog with
  | Ok ops =>
      let st := concat (map fst parents) in
      let mem := concat (map snd parents) in
      if (4096 <? zlen st) || (10240 <? zlen mem) then Ok PFail
      else
        match exec_ops fuel (env_for c) ops u64_max
                {| pc := 0; stack := rev st; memory := mem; parent_memory := []; halt := false; rstack := [] |} with
        | Ok (v, g, _) =>
            let out := if leaf then
                         match rev (stack v) with
                         | [2] => OutLeaf (DataOutput (memory v))
                         | [1] => OutLeaf (Satisfied true)
                         | _ => OutLeaf (Satisfied false)
                         end
                       else OutParent (rev (stack v)) (memory v) in
            Ok (PRun out g)
        | Err _ => Ok PFail
        | Panic s => Panic s
        | OutOfFuel => OutOfFuel
        end
  | Err _ => Ok PFail
  | Panic s => Panic s
  | OutOfFuel => OutOfFuel
  end.

(* what the checker is given: predicates by address and programs by address *)
Record lookup := {
  lk_predicate : list Z -> list Z -> predicate;     (* contract, predicate address *)
  lk_program : list Z -> list Z;                    (* program address -> bytecode *)
}.

Definition post_effects : Z := Z.lor fx_post_key_range fx_post_key_range_extern.
Definition node_program (lk : lookup) (p : predicate) (ix : nat) : list Z :=
  match nth_error (p_nodes p) ix with Some nd => lk_program lk (n_program nd) | None => [] end.
Definition node_is_deferred (lk : lookup) (p : predicate) (ix : nat) : bool :=
  bytes_contains_any (node_program lk p ix) post_effects.

(* check_predicate for one solution *)
Definition check_predicate (fuel : nat) (lk : lookup) (collect_all : bool) (mode : run_mode) (c : sol_ctx)
           (cache : list (nat * sm)) : outcome unit inner_result :=
  let sol := nth (sc_index c) (sc_solutions c) empty_solution in
  let p := lk_predicate lk (sol_contract sol) (sol_predicate sol) in
  check_predicate_inner (fun ix leaf ins => run_program fuel c (node_program lk p ix) leaf ins)
                        p collect_all (node_is_deferred lk p) mode cache.

(* ---------- the set ---------- *)
Inductive set_err : Type :=
| SFailed (errs : list (nat * perr2))          (* PredicateErrors: (solution index, error) *)
| SMutationsDecode (sol : nat)
| SMutationsDuplicate (sol : nat).

Record set_result := {
  sr_res : outcome set_err (Z * list (nat * list (list Z)));    (* gas, data outputs per solution *)
  sr_caches : list (list (nat * sm));
  sr_events : list (nat * nat * list sm);                       (* (solution, node, inputs) *)
}.

(* check_set_predicates: every solution is checked (in parallel in the Rust); results are delivered by index *)
Fixpoint check_solutions_go (fuel : nat) (lk : lookup) (collect_all : bool) (mode : run_mode)
         (sols : list solution) (pre post : view) (ixs : list nat) (caches : list (list (nat * sm)))
  : outcome unit (list inner_result) :=
  match ixs with
  | [] => Ok []
  | i :: rest =>
      let* r := check_predicate fuel lk collect_all mode
                  {| sc_solutions := sols; sc_index := i; sc_pre := pre; sc_post := post |} (nth i caches []) in
      let* rs := check_solutions_go fuel lk collect_all mode sols pre post rest caches in
      Ok (r :: rs)
  end.

Definition check_set_predicates (fuel : nat) (lk : lookup) (collect_all : bool) (mode : run_mode)
           (sols : list solution) (pre post : view) (caches : list (list (nat * sm))) : outcome unit set_result :=
  let ixs := seq 0 (length sols) in
  let* rs := check_solutions_go fuel lk collect_all mode sols pre post ixs caches in
  let indexed := combine ixs rs in
  let failed := flat_map (fun ir => match ir_res (snd ir) with Err e => [(fst ir, e)] | _ => [] end) indexed in
  let events := flat_map (fun ir => map (fun ev => (fst ir, fst ev, snd ev)) (ir_events (snd ir))) indexed in
  match failed with
  | _ :: _ => Ok {| sr_res := Err (SFailed failed); sr_caches := map (fun _ => []) caches; sr_events := events |}
              (* the caches were taken out of the map (mem::take) and are dropped on failure *)
  | [] =>
      let gas := fold_left (fun a ir => match ir_res (snd ir) with Ok (g, _) => sat_add_u64 a g | _ => a end) indexed 0 in
      let data := map (fun ir => (fst ir, match ir_res (snd ir) with Ok (_, d) => d | _ => [] end)) indexed in
      Ok {| sr_res := Ok (gas, data); sr_caches := map (fun ir => ir_cache (snd ir)) indexed; sr_events := events |}
  end.

(* decode_mutations of check: append the mutations encoded in the data outputs to their solution;
   the duplicate set starts from the keys the solution already mutates *)
Definition key_in (k : list Z) (ks : list (list Z)) : bool := existsb (zlist_eqb k) ks.

Fixpoint apply_muts (seen : list (list Z)) (ms : list mutation) (acc : list mutation) : option (list (list Z) * list mutation) :=
  match ms with
  | [] => Some (seen, acc)
  | m :: r => if key_in (m_key m) seen then None else apply_muts (m_key m :: seen) r (acc ++ [m])
  end.

Fixpoint apply_outputs (sol_ix : nat) (seen : list (list Z)) (mems : list (list Z)) (acc : list mutation)
  : outcome set_err (list mutation) :=
  match mems with
  | [] => Ok acc
  | mem :: r =>
      match decode_mutations mem with
      | Ok ms => match apply_muts seen ms acc with
                 | Some (seen', acc') => apply_outputs sol_ix seen' r acc'
                 | None => Err (SMutationsDuplicate sol_ix)
                 end
      | Err _ => Err (SMutationsDecode sol_ix)
      | Panic s => Panic s
      | OutOfFuel => OutOfFuel
      end
  end.

Definition set_muts (s : solution) (ms : list mutation) : solution :=
  {| sol_contract := sol_contract s; sol_predicate := sol_predicate s; sol_data := sol_data s; sol_muts := ms |}.

Fixpoint update_nth {A} (n : nat) (f : A -> A) (l : list A) : list A :=
  match l, n with
  | [], _ => []
  | x :: r, O => f x :: r
  | x :: r, S k => x :: update_nth k f r
  end.

Fixpoint decode_mutations_set (data : list (nat * list (list Z))) (sols : list solution) : outcome set_err (list solution) :=
  match data with
  | [] => Ok sols
  | (ix, mems) :: rest =>
      let s := nth ix sols empty_solution in
      let* ms := apply_outputs ix (map m_key (sol_muts s)) mems (sol_muts s) in
      decode_mutations_set rest (update_nth ix (fun s => set_muts s ms) sols)
  end.

Record compute_result := {
  cr_res : outcome set_err (Z * list solution);
  cr_caches : list (list (nat * sm));
  cr_events : list (nat * nat * list sm);
}.

(* check_and_compute_solution_set *)
Definition check_and_compute (fuel : nat) (lk : lookup) (collect_all : bool) (mode : run_mode)
           (sols : list solution) (pre post : view) (caches : list (list (nat * sm))) : outcome unit compute_result :=
  let* r := check_set_predicates fuel lk collect_all mode sols pre post caches in
  match sr_res r with
  | Ok (gas, data) =>
      match decode_mutations_set data sols with
      | Ok sols' => Ok {| cr_res := Ok (gas, sols'); cr_caches := sr_caches r; cr_events := sr_events r |}
      | Err e => Ok {| cr_res := Err e; cr_caches := sr_caches r; cr_events := sr_events r |}
      | Panic s => Panic s
      | OutOfFuel => OutOfFuel
      end
  | Err e => Ok {| cr_res := Err e; cr_caches := sr_caches r; cr_events := sr_events r |}
  | Panic s => Panic s
  | OutOfFuel => OutOfFuel
  end.

Definition build_post_state (sols : list solution) : post_state :=
  flat_map (fun s => map (fun m => (sol_contract s, m_key m, m_value m)) (sol_muts s)) sols.

Record two_pass_result := {
  tp_res : outcome set_err (Z * list solution);
  tp_events1 : list (nat * nat * list sm);
  tp_events2 : list (nat * nat * list sm);
}.

(* check_and_compute_solution_set_two_pass *)
Definition two_pass (fuel : nat) (lk : lookup) (collect_all : bool) (sols : list solution) (pre_state : state)
  : outcome unit two_pass_result :=
  let pre := state_view pre_state in
  let caches0 := map (fun _ => []) sols in
  let* r1 := check_and_compute fuel lk collect_all Outputs sols pre (read_or_fallback [] pre) caches0 in
  match cr_res r1 with
  | Ok (gas1, sols1) =>
      let ps := build_post_state sols1 in
      let* r2 := check_and_compute fuel lk collect_all Checks sols1 pre (read_or_fallback ps pre) (cr_caches r1) in
      match cr_res r2 with
      | Ok (gas2, sols2) =>
          Ok {| tp_res := Ok (sat_add_u64 gas1 gas2, sols2); tp_events1 := cr_events r1; tp_events2 := cr_events r2 |}
      | Err e => Ok {| tp_res := Err e; tp_events1 := cr_events r1; tp_events2 := cr_events r2 |}
      | Panic s => Panic s
      | OutOfFuel => OutOfFuel
      end
  | Err e => Ok {| tp_res := Err e; tp_events1 := cr_events r1; tp_events2 := [] |}
  | Panic s => Panic s
  | OutOfFuel => OutOfFuel
  end.
