(* Model of the predicate-graph helpers of crates/check/src/solution.rs:
   create_parent_map, in_degrees, reduce_in_degrees, find_nodes_with_no_parents, parallel_topo_sort,
   find_deferred, should_cache, remove_deferred, remove_not_deferred.
   Node indices are nat (the Rust casts them to u16: graphs with at most 65535 nodes are assumed;
   validation limits them to 1000).  BTreeMaps are association lists kept in ascending key order;
   HashSets are lists compared as sets. *)
From EB Require Export Types.PredicateCodec.
Open Scope list_scope.

(* edge targets of a node as nat *)
Definition children (p : predicate) (ix : nat) : option (list nat) :=
  option_map (map Z.to_nat) (node_edges p ix).

Inductive gerr : Type := InvalidNodeEdges (ix : nat).

(* ---- association lists with ascending keys ---- *)
Fixpoint aget {A} (k : nat) (m : list (nat * A)) : option A :=
  match m with
  | [] => None
  | (k', v) :: r => if Nat.eqb k k' then Some v else aget k r
  end.
Fixpoint ainsert {A} (k : nat) (v : A) (m : list (nat * A)) : list (nat * A) :=
  match m with
  | [] => [(k, v)]
  | (k', v') :: r =>
      if Nat.eqb k k' then (k, v) :: r
      else if Nat.ltb k k' then (k, v) :: (k', v') :: r
      else (k', v') :: ainsert k v r
  end.
Fixpoint aremove {A} (k : nat) (m : list (nat * A)) : list (nat * A) :=
  match m with
  | [] => []
  | (k', v) :: r => if Nat.eqb k k' then r else (k', v) :: aremove k r
  end.
Definition akeys {A} (m : list (nat * A)) : list nat := map fst m.

(* nodes.entry(k).or_default().push(v) *)
Definition apush (k v : nat) (m : list (nat * list nat)) : list (nat * list nat) :=
  match aget k m with
  | Some l => ainsert k (l ++ [v]) m
  | None => ainsert k [v] m
  end.
Definition aentry (k : nat) (m : list (nat * list nat)) : list (nat * list nat) :=
  match aget k m with Some _ => m | None => ainsert k [] m end.

(* create_parent_map: for node_ix in 0..n { entry(node_ix); for edge in node_edges(node_ix)? { entry(edge).push(node_ix) } } *)
Fixpoint cpm_go (p : predicate) (todo : list nat) (m : list (nat * list nat)) : outcome gerr (list (nat * list nat)) :=
  match todo with
  | [] => Ok m
  | ix :: rest =>
      match children p ix with
      | None => Err (InvalidNodeEdges ix)
      | Some cs => cpm_go p rest (fold_left (fun acc c => apush c ix acc) cs (aentry ix m))
      end
  end.
Definition create_parent_map (p : predicate) : outcome gerr (list (nat * list nat)) :=
  cpm_go p (seq 0 (length (p_nodes p))) [].

Definition parents_of (pm : list (nat * list nat)) (ix : nat) : list nat :=
  match aget ix pm with Some l => l | None => [] end.

(* in_degrees *)
Definition in_degrees (n : nat) (pm : list (nat * list nat)) : list (nat * nat) :=
  map (fun ix => (ix, length (parents_of pm ix))) (seq 0 n).

(* reduce_in_degrees: saturating decrement of every listed child that is still in the map *)
Fixpoint adec (k : nat) (m : list (nat * nat)) : list (nat * nat) :=
  match m with
  | [] => []
  | (k', d) :: r => if Nat.eqb k k' then (k', Nat.pred d) :: r else (k', d) :: adec k r
  end.
Definition reduce_in_degrees (m : list (nat * nat)) (cs : list nat) : list (nat * nat) :=
  fold_left (fun acc c => adec c acc) cs m.

Definition find_nodes_with_no_parents (m : list (nat * nat)) : list nat :=
  map fst (filter (fun e => Nat.eqb (snd e) 0) m).

(* the `for node in current_level` loop *)
Fixpoint process_level (p : predicate) (level : list nat) (m : list (nat * nat)) : outcome gerr (list (nat * nat)) :=
  match level with
  | [] => Ok m
  | node :: rest =>
      match children p node with
      | None => Err (InvalidNodeEdges node)
      | Some cs => process_level p rest (aremove node (reduce_in_degrees m cs))
      end
  end.

(* parallel_topo_sort: `while !in_degrees.is_empty()`; every round removes at least one node *)
Fixpoint topo_go (fuel : nat) (p : predicate) (m : list (nat * nat)) (acc : list (list nat)) : outcome gerr (list (list nat)) :=
  match m with
  | [] => Ok (rev acc)
  | _ =>
    match fuel with
    | O => OutOfFuel
    | S f =>
      let level := find_nodes_with_no_parents m in
      match level with
      | [] => Err (InvalidNodeEdges 0)          (* cycle detected *)
      | _ => let* m' := process_level p level m in topo_go f p m' (level :: acc)
      end
    end
  end.
Definition parallel_topo_sort (p : predicate) (pm : list (nat * list nat)) : outcome gerr (list (list nat)) :=
  let n := length (p_nodes p) in topo_go (S n) p (in_degrees n pm) [].

(* ---- deferral (find_deferred, after the fix: everything reachable from a deferred node) ---- *)
Definition memb (x : nat) (l : list nat) : bool := existsb (Nat.eqb x) l.
Definition add_all (xs : list nat) (s : list nat) : list nat :=
  fold_left (fun acc x => if memb x acc then acc else acc ++ [x]) xs s.
(* one propagation round: add the children of every member that is a node *)
Definition spread (p : predicate) (s : list nat) : list nat :=
  fold_left (fun acc u => match children p u with Some cs => add_all cs acc | None => acc end) s s.
Fixpoint iter_spread (k : nat) (p : predicate) (s : list nat) : list nat :=
  match k with O => s | S k' => iter_spread k' p (spread p s) end.
Definition find_deferred (p : predicate) (is_deferred : nat -> bool) : list nat :=
  let n := length (p_nodes p) in
  iter_spread n p (filter is_deferred (seq 0 n)).

(* should_cache *)
Definition should_cache (p : predicate) (deferred : list nat) (node : nat) : bool :=
  negb (memb node deferred) &&
  match children p node with Some cs => existsb (fun c => memb c deferred) cs | None => false end.

Definition remove_deferred (levels : list (list nat)) (deferred : list nat) : list (list nat) :=
  filter (fun l => negb (match l with [] => true | _ => false end))
         (map (filter (fun x => negb (memb x deferred))) levels).
Definition remove_not_deferred (levels : list (list nat)) (deferred : list nat) : list (list nat) :=
  filter (fun l => negb (match l with [] => true | _ => false end))
         (map (filter (fun x => memb x deferred)) levels).
