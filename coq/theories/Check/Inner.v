(* Model of check_predicate_inner, check_set_predicates and the mutation-computing entry points of
   crates/check/src/solution.rs, parametric in how one program node is run.  The model is instrumented:
   it returns the list of run events (node, inputs) next to the result, mirroring the recorder hook. *)
From EB Require Export Check.Graph Vm.Machine Types.MutationCodec.
Open Scope list_scope.

Inductive run_mode := Outputs | Checks.

(* result of running one program node *)
Inductive leaf_out := Satisfied (b : bool) | DataOutput (m : list Z).
Inductive node_out := OutParent (s m : list Z) (* stack bottom-first as in the Rust Vec *) | OutLeaf (o : leaf_out).
Inductive prog_res := PRun (o : node_out) (gas : Z) | PFail.        (* ProgramError of any kind *)

Definition sm := (list Z * list Z)%type.                           (* (stack, memory) of a parent *)

Inductive perr2 : Type :=
| PInvalidNodeEdges (ix : nat)
| PProgramErrors (failed : list nat)
| PConstraintsUnsatisfied (ixs : list nat).

Definition sat_add_u64 (a b : Z) : Z := Z.min (a + b) u64_max.

Record inner_state := {
  is_cache : list (nat * sm);        (* the global cache shared by the two run modes *)
  is_local : list (nat * sm);
  is_failed : list nat; is_unsat : list nat; is_data : list (list Z); is_gas : Z;
  is_events : list (nat * list sm);  (* run events, most recent first *)
}.

Section Inner.
  (* run ix leaf inputs *)
  Variable run : nat -> bool -> list sm -> outcome unit prog_res.   (* Panic / OutOfFuel of the VM propagate *)
  Variable p : predicate.
  Variable collect_all : bool.
  Variable is_def : nat -> bool.                                     (* program contains a post-state read *)

  Definition is_leaf (ix : nat) : bool := match children p ix with Some [] => true | _ => false end.

  Definition inputs_of (pm : list (nat * list nat)) (st : inner_state) (ix : nat) : list sm :=
    flat_map (fun par => match aget par (is_cache st) with
                         | Some o => [o]
                         | None => match aget par (is_local st) with Some o => [o] | None => [] end
                         end) (parents_of pm ix).

  (* run all nodes of a level against the caches as they are at the start of the level *)
  Fixpoint run_level (pm : list (nat * list nat)) (st : inner_state) (level : list nat)
    : outcome unit (list (nat * prog_res * list sm)) :=
    match level with
    | [] => Ok []
    | ix :: rest =>
        let ins := inputs_of pm st ix in
        let* r := run ix (is_leaf ix) ins in
        let* rs := run_level pm st rest in
        Ok ((ix, r, ins) :: rs)
    end.

  (* `for (node, res) in outputs`; returns the new state and whether the early return fired *)
  Fixpoint absorb (deferred : list nat) (st : inner_state) (rs : list (nat * prog_res * list sm)) : inner_state * bool :=
    match rs with
    | [] => (st, false)
    | (node, r, _) :: rest =>
      match r with
      | PRun (OutParent s m) g =>
          let st' := if should_cache p deferred node
                     then {| is_cache := ainsert node (s, m) (is_cache st); is_local := is_local st; is_failed := is_failed st;
                             is_unsat := is_unsat st; is_data := is_data st; is_gas := sat_add_u64 (is_gas st) g; is_events := is_events st |}
                     else {| is_cache := is_cache st; is_local := ainsert node (s, m) (is_local st); is_failed := is_failed st;
                             is_unsat := is_unsat st; is_data := is_data st; is_gas := sat_add_u64 (is_gas st) g; is_events := is_events st |} in
          absorb deferred st' rest
      | PRun (OutLeaf o) g =>
          let st' := {| is_cache := is_cache st; is_local := is_local st; is_failed := is_failed st;
                        is_unsat := match o with Satisfied false => is_unsat st ++ [node] | _ => is_unsat st end;
                        is_data := match o with DataOutput m => is_data st ++ [m] | _ => is_data st end;
                        is_gas := sat_add_u64 (is_gas st) g; is_events := is_events st |} in
          absorb deferred st' rest
      | PFail =>
          let st' := {| is_cache := is_cache st; is_local := is_local st; is_failed := is_failed st ++ [node];
                        is_unsat := is_unsat st; is_data := is_data st; is_gas := is_gas st; is_events := is_events st |} in
          if collect_all then absorb deferred st' rest else (st', true)
      end
    end.

  Definition add_events (st : inner_state) (rs : list (nat * prog_res * list sm)) : inner_state :=
    {| is_cache := is_cache st; is_local := is_local st; is_failed := is_failed st; is_unsat := is_unsat st;
       is_data := is_data st; is_gas := is_gas st;
       is_events := rev (map (fun r => (fst (fst r), snd r)) rs) ++ is_events st |}.

  Fixpoint run_levels (pm : list (nat * list nat)) (deferred : list nat) (st : inner_state) (levels : list (list nat))
    : outcome unit (inner_state * bool) :=
    match levels with
    | [] => Ok (st, false)
    | level :: rest =>
        let* rs := run_level pm st level in
        let (st', stop) := absorb deferred (add_events st rs) rs in
        if stop then Ok (st', true) else run_levels pm deferred st' rest
    end.

  Record inner_result := {
    ir_res : outcome perr2 (Z * list (list Z));   (* (gas, data outputs) *)
    ir_cache : list (nat * sm);
    ir_events : list (nat * list sm);             (* in execution order *)
  }.

  Definition check_predicate_inner (mode : run_mode) (cache : list (nat * sm)) : outcome unit inner_result :=
    match create_parent_map p with
    | Err (InvalidNodeEdges ix) => Ok {| ir_res := Err (PInvalidNodeEdges ix); ir_cache := cache; ir_events := [] |}
    | Panic s => Panic s | OutOfFuel => OutOfFuel
    | Ok pm =>
      match parallel_topo_sort p pm with
      | Err (InvalidNodeEdges ix) => Ok {| ir_res := Err (PInvalidNodeEdges ix); ir_cache := cache; ir_events := [] |}
      | Panic s => Panic s | OutOfFuel => OutOfFuel
      | Ok sorted =>
        let deferred := find_deferred p is_def in
        let levels := match mode with
                      | Outputs => remove_deferred sorted deferred
                      | Checks => remove_not_deferred sorted deferred
                      end in
        let st0 := {| is_cache := cache; is_local := []; is_failed := []; is_unsat := []; is_data := []; is_gas := 0; is_events := [] |} in
        let* (st, _) := run_levels pm deferred st0 levels in
        let res := match is_failed st with
                   | _ :: _ => Err (PProgramErrors (is_failed st))
                   | [] => match is_unsat st with
                           | _ :: _ => Err (PConstraintsUnsatisfied (is_unsat st))
                           | [] => Ok (is_gas st, is_data st)
                           end
                   end in
        Ok {| ir_res := res; ir_cache := is_cache st; ir_events := rev (is_events st) |}
      end
    end.
End Inner.
