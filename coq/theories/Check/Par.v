(* An interleaving semantics of the parallel sections of the checker (rayon) - model for property C02.

   Where the Rust is parallel:
   (a) crates/check/src/solution.rs `check_set_predicates`:
         solutions.par_iter().zip(caches).enumerate().map(..).partition(Result::is_ok)
       one task per solution; both halves of the partition keep the index order of the items;
   (b) `check_predicate_inner`: parallel_nodes.into_par_iter().map(..).collect::<BTreeMap<u16,_>>()
       one task per node of a level; the caches are only READ during the level and written after it;
   (c) crates/vm/src/compute.rs: (0..breadth).into_par_iter().map(..).collect::<Result<Vec<_>,_>>()
       one task per child; on failure rayon hands back the error of SOME failing child and may skip
       children that have not started yet;
   (d) crates/vm/src/cached.rs: OnceLock<HashSet<Hash>>::get_or_init(|| init_predicate_exists(solutions)).

   WHAT IS ASSUMED (trusted base of C02; the harness checks (1) with a shared-state inventory of the sources):
   (1) a task is a pure function of its index and of inputs that are immutable while the section runs:
       tasks cannot observe each other.  Here: a section is a function `f : nat -> R` over indices 0..n-1.
       The only shared mutable object, the OnceLock of (d), is modelled explicitly below (`run_cell`).
   (2) rayon delivers the results of an indexed parallel iterator BY INDEX (`collect` into a Vec,
       `partition` into two Vecs: original order; `collect` into a BTreeMap: by key), whatever the order
       in which the tasks ran: task i writes slot i, and the section ends when all slots are written.
   (3) a pool of w worker threads executes the tasks in some order: the completion order is an
       interleaving of the per-worker task sequences (`interleave`), hence a permutation of 0..n-1.
   Nothing else is assumed: every completion order is allowed. *)
From Coq Require Import List Arith Lia Bool Permutation.
Import ListNotations.
Open Scope list_scope.

(* ---------- the indexed parallel map ---------- *)
Section ParMap.
  Context {R : Type}.

  (* task i writes its result into slot i; an index without a slot writes nothing *)
  Fixpoint set_slot (i : nat) (x : R) (l : list (option R)) : list (option R) :=
    match l, i with
    | [], _ => []
    | _ :: r, O => Some x :: r
    | y :: r, S k => y :: set_slot k x r
    end.

  (* the event `Finish i`: task i completes and publishes `f i` *)
  Definition finish (f : nat -> R) (slots : list (option R)) (i : nat) : list (option R) :=
    set_slot i (f i) slots.

  (* a schedule is the list of the indices in completion order *)
  Definition run_par (f : nat -> R) (n : nat) (sched : list nat) : list (option R) :=
    fold_left (finish f) sched (repeat None n).

  (* the join: read the slots by index; defined only when every slot has been written *)
  Fixpoint collect (slots : list (option R)) : option (list R) :=
    match slots with
    | [] => Some []
    | Some x :: r => match collect r with Some xs => Some (x :: xs) | None => None end
    | None :: _ => None
    end.

  (* every task finished exactly once, in any order *)
  Definition complete (n : nat) (sched : list nat) : Prop := Permutation sched (seq 0 n).

  (* the sequential evaluation *)
  Definition seq_map (f : nat -> R) (n : nat) : list R := map f (seq 0 n).
End ParMap.

(* ---------- worker pools ---------- *)
(* w workers, worker j executes its queue `nth j qs` front to back; the completion order of the
   section is any interleaving of the queues.  Work stealing only changes which queue a task is in. *)
Inductive interleave : list (list nat) -> list nat -> Prop :=
| il_done : forall qs, Forall (fun q => q = []) qs -> interleave qs []
| il_step : forall qs1 i q qs2 s,
    interleave (qs1 ++ q :: qs2) s -> interleave (qs1 ++ (i :: q) :: qs2) (i :: s).

(* the queues hand out every task exactly once *)
Definition assignment (n : nat) (qs : list (list nat)) : Prop := Permutation (concat qs) (seq 0 n).

(* ---------- a write-once cell shared by the tasks (OnceLock) ---------- *)
Section OnceCell.
  Context {R C : Type}.

  (* a task either never touches the cell or reads it (through get_or_init) and continues with the value *)
  Inductive task := Pure (r : R) | ReadCell (k : C -> R).
  Inductive event := Finish (i : nat) | InitCell (i : nat).

  Record pstate := { slots : list (option R); cell : option C; init_by : option nat }.

  Variable tasks : nat -> task.
  Variable init_of : nat -> C.        (* the value the closure task i passes to get_or_init evaluates to *)

  (* OnceLock::get_or_init: exactly one initialiser runs; everybody else gets the stored value *)
  Definition get_or_init (i : nat) (st : pstate) : C * pstate :=
    match cell st with
    | Some c => (c, st)
    | None => (init_of i, {| slots := slots st; cell := Some (init_of i); init_by := Some i |})
    end.

  (* `InitCell i`: task i reaches its get_or_init call (and goes on running);
     `Finish i`: task i completes; a reader uses the value get_or_init gives it *)
  Definition step (st : pstate) (e : event) : pstate :=
    match e with
    | InitCell i => snd (get_or_init i st)
    | Finish i =>
        match tasks i with
        | Pure r => {| slots := set_slot i r (slots st); cell := cell st; init_by := init_by st |}
        | ReadCell k =>
            let st' := snd (get_or_init i st) in
            {| slots := set_slot i (k (fst (get_or_init i st))) (slots st'); cell := cell st'; init_by := init_by st' |}
        end
    end.

  Definition run_cell (n : nat) (sched : list event) : pstate :=
    fold_left step sched {| slots := repeat None n; cell := None; init_by := None |}.

  Definition finishes (sched : list event) : list nat :=
    flat_map (fun e => match e with Finish i => [i] | InitCell _ => [] end) sched.

  (* does the event go through get_or_init? *)
  Definition touches (e : event) : bool :=
    match e with
    | InitCell _ => true
    | Finish i => match tasks i with ReadCell _ => true | Pure _ => false end
    end.

  (* the result of task i when the cell holds c *)
  Definition task_with (c : C) (i : nat) : R :=
    match tasks i with Pure r => r | ReadCell k => k c end.
End OnceCell.
Arguments task : clear implicits.
Arguments pstate : clear implicits.

(* ---------- what the caller does with the slot vector ---------- *)
Section Partition.
  Context {A E : Type}.

  Definition indexed {X} (l : list X) : list (nat * X) := combine (seq 0 (length l)) l.

  (* `.enumerate().map(..).partition(Result::is_ok)`: both halves in index order *)
  Definition partition_results (rs : list (A + E)) : list (nat * A) * list (nat * E) :=
    (flat_map (fun ir => match snd ir with inl a => [(fst ir, a)] | inr _ => [] end) (indexed rs),
     flat_map (fun ir => match snd ir with inr e => [(fst ir, e)] | inl _ => [] end) (indexed rs)).
  Definition failures (rs : list (A + E)) : list (nat * E) := snd (partition_results rs).
End Partition.

Section TryCollect.
  Context {R : Type}.
  Variable failed : R -> bool.

  (* `collect::<Result<Vec<_>,_>>()`: the error handed back is that of SOME failing child.  The choice is
     made explicit: the first failing task in completion order (any other choice function would do) *)
  Definition chosen_error (f : nat -> R) (sched : list nat) : option nat :=
    find (fun i => failed (f i)) sched.

  Inductive try_result := AllOk (rs : list R) | ChildFailed (i : nat) (r : R).

  (* None: the section has not ended (no failure seen and some task still missing) *)
  Definition try_collect (f : nat -> R) (n : nat) (sched : list nat) : option try_result :=
    match chosen_error f sched with
    | Some i => Some (ChildFailed i (f i))
    | None => match collect (run_par f n sched) with Some rs => Some (AllOk rs) | None => None end
    end.

  (* what the parent looks at (compute.rs maps any child error to the class Compute) *)
  Inductive try_obs := ObsOk (rs : list R) | ObsSomeChildFailed.
  Definition observe (r : try_result) : try_obs :=
    match r with AllOk rs => ObsOk rs | ChildFailed _ _ => ObsSomeChildFailed end.

  Definition try_collect_seq (f : nat -> R) (n : nat) : try_obs :=
    if existsb failed (map f (seq 0 n)) then ObsSomeChildFailed else ObsOk (map f (seq 0 n)).

  (* rayon stops handing out tasks once a failure has been seen: the schedules of a try-section are the
     complete ones and those that contain a failing task (all indices below n) *)
  Definition try_schedule (f : nat -> R) (n : nat) (sched : list nat) : Prop :=
    complete n sched \/
    ((forall i, In i sched -> i < n) /\ exists i, In i sched /\ failed (f i) = true).
End TryCollect.

(* ---------- collect into a BTreeMap keyed by node ---------- *)
Section Keyed.
  Context {V : Type}.
  (* BTreeMap::insert on an association list with ascending keys (same function as Check.Graph.ainsert) *)
  Fixpoint kinsert (k : nat) (v : V) (m : list (nat * V)) : list (nat * V) :=
    match m with
    | [] => [(k, v)]
    | (k', v') :: r =>
        if Nat.eqb k k' then (k, v) :: r
        else if Nat.ltb k k' then (k, v) :: (k', v') :: r
        else (k', v') :: kinsert k v r
    end.
  (* the map obtained when the tasks `g key` complete in the order `done` (a list of keys) *)
  Definition collect_keyed (g : nat -> V) (done : list nat) : list (nat * V) :=
    fold_left (fun m k => kinsert k (g k) m) done [].
End Keyed.
