(* Model of the validators: crates/check/src/solution.rs (check_set, check_solutions, check_set_state_mutations)
   and crates/check/src/predicate.rs (check, check_contract, check_signed_contract).
   Limits come from the Rust sources (Generated/Consts.v). *)
From EB Require Export Check.Set Types.PredicateCodec.
Open Scope list_scope.
Open Scope Z_scope.

Inductive verr : Type :=
| VEmpty | VTooManySolutions | VPredicateDataLen (sol : nat) | VPredDataValueTooLarge
| VTooManyMutations | VMultipleMutations (sol : nat) | VKeyTooLarge | VValueTooLarge.

(* check_solutions *)
Fixpoint check_solutions_go (ix : nat) (sols : list solution) : outcome verr unit :=
  match sols with
  | [] => Ok tt
  | s :: r =>
      if max_predicate_data <? zlen (sol_data s) then Err (VPredicateDataLen ix)
      else if existsb (fun v => max_value_size <? zlen v) (sol_data s) then Err VPredDataValueTooLarge
      else check_solutions_go (S ix) r
  end.
Definition check_solutions (sols : list solution) : outcome verr unit :=
  match sols with
  | [] => Err VEmpty
  | _ => if max_solutions <? zlen sols then Err VTooManySolutions else check_solutions_go 0 sols
  end.

(* the per-solution loop of check_set_state_mutations *)
Fixpoint check_muts (ix : nat) (seen : list (list Z)) (ms : list mutation) : outcome verr unit :=
  match ms with
  | [] => Ok tt
  | m :: r =>
      if key_in (m_key m) seen then Err (VMultipleMutations ix)
      else if max_key_size <? zlen (m_key m) then Err VKeyTooLarge
      else if max_value_size <? zlen (m_value m) then Err VValueTooLarge
      else check_muts ix (m_key m :: seen) r
  end.
Fixpoint check_muts_all (ix : nat) (sols : list solution) : outcome verr unit :=
  match sols with
  | [] => Ok tt
  | s :: r => let* _ := check_muts ix [] (sol_muts s) in check_muts_all (S ix) r
  end.
Definition state_mutations_len (sols : list solution) : Z := fold_left (fun a s => a + zlen (sol_muts s)) sols 0.
Definition check_set_state_mutations (sols : list solution) : outcome verr unit :=
  if max_state_mutations <? state_mutations_len sols then Err VTooManyMutations
  else check_muts_all 0 sols.

(* check_set *)
Definition check_set (sols : list solution) : outcome verr unit :=
  let* _ := check_solutions sols in check_set_state_mutations sols.

(* predicate.rs *)
Inductive pverr : Type := PTooManyNodes | PTooManyEdges | PTooManyPredicates | PInvalidPredicate (ix : nat) (e : pverr) | PSignature.

Definition check_predicate_limits (p : predicate) : outcome pverr unit :=
  if max_nodes <? zlen (p_nodes p) then Err PTooManyNodes
  else if max_edges <? zlen (p_edges p) then Err PTooManyEdges
  else Ok tt.

Fixpoint check_contract_go (ix : nat) (ps : list predicate) : outcome pverr unit :=
  match ps with
  | [] => Ok tt
  | p :: r => match check_predicate_limits p with
              | Ok _ => check_contract_go (S ix) r
              | Err e => Err (PInvalidPredicate ix e)
              | Panic s => Panic s | OutOfFuel => OutOfFuel
              end
  end.
Definition check_contract (ps : list predicate) : outcome pverr unit :=
  if max_predicates <? zlen ps then Err PTooManyPredicates else check_contract_go 0 ps.

(* check_signed_contract: the signature must be recoverable over the contract's content address (oracle) *)
Definition check_signed_contract (sig_recoverable : bool) (ps : list predicate) : outcome pverr unit :=
  if negb sig_recoverable then Err PSignature else check_contract ps.
