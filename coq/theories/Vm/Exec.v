(* The execution loop (vm.rs `Vm::exec`) with gas accounting, and Compute (compute.rs).
   `exec` is recursive on explicit fuel; running out of fuel is the distinguished outcome `OutOfFuel`.
   The result carries the list of executed operations (most recent first), children included, so that
   gas theorems can speak about "the operations it executed". *)
From EB Require Export Vm.Step.
Open Scope list_scope.
Open Scope Z_scope.

(* error: index of the failing op, class, machine state at the start of the failing op *)
Definition X := outcome (Z * errc * vm) (vm * Z * list op).

Fixpoint zrange_from (start : Z) (n : nat) : list Z :=
  match n with O => [] | S k => start :: zrange_from (start + 1) k end.
Definition zrange_z (n : Z) : list Z := zrange_from 0 (Z.to_nat n).

(* OpAccess for &[Op] *)
Definition op_at (ops : list op) (p : Z) : option op :=
  if (p <? 0) || (zlen ops <=? p) then None else nth_error ops (Z.to_nat p).

Definition child_vm (v : vm) (s0 : list Z) (i : Z) : R vm :=
  let* cs := push i s0 in
  if usize_max <? pc v + 1 then Panic "compute: pc + 1" else          (* unchecked + *)
  Ok {| pc := pc v + 1; stack := cs; memory := []; parent_memory := memory v :: parent_memory v;
        halt := false; rstack := rstack v |}.

(* results of the children in index order -> (sum of gas, max pc, joined memory, halt, joined trace) *)
Fixpoint join_children (rs : list X) (acc : list (vm * Z * list op)) : outcome unit (list (vm * Z * list op)) :=
  match rs with
  | [] => Ok (rev acc)
  | Ok r :: rest => join_children rest (r :: acc)
  | Err _ :: _ => Err tt            (* rayon reports *some* child error; only the fact is observable *)
  | Panic s :: _ => Panic s
  | OutOfFuel :: _ => OutOfFuel
  end.

(* a panic or fuel exhaustion of any child dominates child errors *)
Fixpoint children_status (rs : list X) : outcome unit unit :=
  match rs with
  | [] => Ok tt
  | Panic s :: _ => Panic s
  | OutOfFuel :: _ => OutOfFuel
  | _ :: rest => children_status rest
  end.

Fixpoint sum_gas (limit : Z) (acc : Z) (cs : list (vm * Z * list op)) : option Z :=
  match cs with
  | [] => Some acc
  | (_, g, _) :: rest =>
      let t := acc + g in
      if (u64_max <? t) || (limit <? t) then None else sum_gas limit t rest
  end.

(* compute_effects: store the children's memories back to back after the parent's *)
Fixpoint store_children (ptr : Z) (cs : list (vm * Z * list op)) (m : list Z) : R (list Z) :=
  match cs with
  | [] => Ok m
  | (cv, _, _) :: rest =>
      match mem_store_range ptr (memory cv) m with
      | Ok m' => store_children (ptr + zlen (memory cv)) rest m'
      | _ => Panic "compute_effects: store_range"
      end
  end.

Definition compute_with (run : vm -> X) (fuel : nat) (climit : Z) (v : vm) : R (vm * ctl * list op) :=
  match pop (stack v) with
  | Ok (breadth, s0) =>
    if breadth <? 1 then Err ECompute
    else if max_compute_depth <=? zlen (parent_memory v) then Err ECompute
    else if Z.of_nat fuel <? breadth then OutOfFuel
    else
      let rs := map (fun i => match child_vm v s0 i with
                              | Ok cv => run cv
                              | Panic s => Panic s
                              | _ => Err (pc v, ECompute, v)
                              end) (zrange_z breadth) in
      match children_status rs with
      | Panic s => Panic s
      | OutOfFuel => OutOfFuel
      | _ =>
        match join_children rs [] with
        | Ok cs =>
          match sum_gas climit 0 cs with
          | None => Err EOutOfGas
          | Some total =>
            let to_alloc := fold_left (fun a c => a + zlen (memory (fst (fst c)))) cs 0 in
            if i64_max <? to_alloc then Panic "compute_effects: memory_to_alloc overflow"
            else
              let* m1 := mem_alloc to_alloc (memory v) in
              let* m2 := store_children (zlen (memory v)) cs m1 in
              let p := fold_left (fun a c => Z.max a (pc (fst (fst c)))) cs (pc v) in
              let h := fold_left (fun a c => a || halt (fst (fst c))) cs (halt v) in
              let tr := fold_left (fun a c => snd c ++ a) cs [] in
              Ok (set_stack_mem v s0 m2, CComputeResult p total h, tr)
          end
        | Err _ => Err ECompute
        | Panic s => Panic s
        | OutOfFuel => OutOfFuel
        end
      end
  | _ => Err ECompute
  end.

Fixpoint exec (fuel : nat) (E : env) (oa : Z -> option op) (limit : Z) (v : vm) (spent : Z) (tr : list op) : X :=
  match fuel with
  | O => OutOfFuel
  | S f =>
    match oa (pc v) with
    | None => Ok (v, spent, tr)
    | Some o =>
      let next := spent + e_cost E o in
      if (u64_max <? next) || (limit <? next) then Err (pc v, EOutOfGas, v)
      else
        let r : R (vm * ctl * list op) :=
          match o with
          | OCompute => compute_with (fun cv => exec f E oa (limit - next) cv 0 []) f (limit - next) v
          | _ => let* (v', c) := step_basic E o v in Ok (v', c, [])
          end in
        match r with
        | Err e => Err (pc v, e, v)
        | Panic s => Panic s
        | OutOfFuel => OutOfFuel
        | Ok (v', c, ctr) =>
          let tr' := ctr ++ o :: tr in
          match c with
          | CNext =>
              if usize_max <? pc v' + 1 then Panic "exec: self.pc += 1"           (* unchecked += *)
              else exec f E oa limit (set_pc v' (pc v' + 1)) next tr'
          | CPc p => exec f E oa limit (set_pc v' p) next tr'
          | CHalt => Ok (v', next, tr')
          | CComputeEnd =>
              if usize_max <? pc v' + 1 then Panic "exec: self.pc += 1"
              else Ok (set_pc v' (pc v' + 1), next, tr')
          | CComputeResult p g h =>
              let total := next + g in
              if (u64_max <? total) || (limit <? total) then Err (pc v, EOutOfGas, v)
              else let v'' := set_halt (set_pc v' p) (halt v' || h) in
                   if halt v'' then Ok (v'', total, tr') else exec f E oa limit v'' total tr'
          end
        end
    end
  end.

Definition exec_ops (fuel : nat) (E : env) (ops : list op) (limit : Z) (v : vm) : X :=
  exec fuel E (op_at ops) limit v 0 [].

(* Vm::eval *)
Inductive eval_res := EvTrue | EvFalse | EvInvalid | EvErr (p : Z) (e : errc) | EvPanic | EvFuel.
Definition eval_ops (fuel : nat) (E : env) (ops : list op) (limit : Z) (v : vm) : eval_res :=
  match exec_ops fuel E ops limit v with
  | Ok (v', _, _) =>
      match stack v' with
      | w :: _ => match bool_of_word w with Some true => EvTrue | Some false => EvFalse | None => EvInvalid end
      | [] => EvInvalid
      end
  | Err (p, e, _) => EvErr p e
  | Panic _ => EvPanic
  | OutOfFuel => EvFuel
  end.
