(* Machine state, environment, error classes and stack/memory primitives of the VM model.
   Conventions (DESIGN.md section 4): words are Z with explicit i64 checks; the stack is a list with the
   TOP AT THE HEAD (the Rust Vec has it at the tail); memory index 0 is the head; the program counter and
   all sizes read from words are Z and are converted to nat only after a bounds check, so that evaluating
   the model on extreme operands never builds a huge unary number. *)
From EB Require Export Base.ListX Base.Word Base.Bytes Base.Outcome Asm.Op Generated.Consts.
Open Scope list_scope.
Open Scope Z_scope.

Definition usize_max : Z := u64_max.

(* OpError variants *)
Inductive errc : Type :=
| EAccess | EAlu | ECrypto | EStack | ERepeat | EControl | EMemory | EParentMemory | EPcOverflow
| EDecode | EEncode | EStateRead | ECompute | EFromBytes | EOutOfGas.

Definition errc_code (e : errc) : Z :=
  match e with
  | EAccess => 0 | EAlu => 1 | ECrypto => 2 | EStack => 3 | ERepeat => 4 | EControl => 5 | EMemory => 6
  | EParentMemory => 7 | EPcOverflow => 8 | EDecode => 9 | EEncode => 10 | EStateRead => 11 | ECompute => 12
  | EFromBytes => 13 | EOutOfGas => 14
  end.

Definition R (A : Type) := outcome errc A.

(* repeat slots: `up = Some limit` is Direction::Up(limit), `None` is Direction::Down *)
Record slot : Type := { s_counter : Z; s_up : option Z; s_index : Z }.

Record vm : Type := {
  pc : Z;
  stack : list Z;                 (* head = top *)
  memory : list Z;
  parent_memory : list (list Z);  (* head = innermost parent (Vec::last) *)
  halt : bool;
  rstack : list slot;             (* head = top *)
}.

Definition vm0 : vm := {| pc := 0; stack := []; memory := []; parent_memory := []; halt := false; rstack := [] |}.
Definition set_stack (v : vm) (s : list Z) : vm :=
  {| pc := pc v; stack := s; memory := memory v; parent_memory := parent_memory v; halt := halt v; rstack := rstack v |}.
Definition set_stack_mem (v : vm) (s m : list Z) : vm :=
  {| pc := pc v; stack := s; memory := m; parent_memory := parent_memory v; halt := halt v; rstack := rstack v |}.
Definition set_stack_rep (v : vm) (s : list Z) (r : list slot) : vm :=
  {| pc := pc v; stack := s; memory := memory v; parent_memory := parent_memory v; halt := halt v; rstack := r |}.
Definition set_pc (v : vm) (p : Z) : vm :=
  {| pc := p; stack := stack v; memory := memory v; parent_memory := parent_memory v; halt := halt v; rstack := rstack v |}.
Definition set_halt (v : vm) (h : bool) : vm :=
  {| pc := pc v; stack := stack v; memory := memory v; parent_memory := parent_memory v; halt := h; rstack := rstack v |}.

(* Solutions and the environment of an execution *)
Record mutation : Type := { m_key : list Z; m_value : list Z }.
Record solution : Type := {
  sol_contract : list Z;         (* 32 bytes *)
  sol_predicate : list Z;        (* 32 bytes *)
  sol_data : list (list Z);
  sol_muts : list mutation;
}.

(* A state view: contract bytes -> key -> number of values -> values, or None for a state error. *)
Definition view := list Z -> list Z -> Z -> option (list (list Z)).

Inductive secp_res := SecpParseErr | SecpNoKey | SecpKey (key33 : list Z).

Record env : Type := {
  e_solutions : list solution;
  e_index : nat;
  e_pre : view;
  e_post : view;
  e_cost : op -> Z;                                        (* OpGasCost, a u64 *)
  e_sha256 : list Z -> list Z;                             (* bytes -> 32 bytes *)
  e_ed25519 : list Z -> list Z -> list Z -> option bool;   (* key32, sig64, msg -> None = invalid key *)
  e_secp : list Z -> list Z -> Z -> secp_res;              (* digest32, sig64, id in 0..3 *)
}.

Definition empty_solution : solution :=
  {| sol_contract := repeat 0 32; sol_predicate := repeat 0 32; sol_data := []; sol_muts := [] |}.
Definition this_solution (E : env) : solution := nth (e_index E) (e_solutions E) empty_solution.

(* ---------- stack primitives (crates/vm/src/stack.rs) ---------- *)
Definition push (w : Z) (s : list Z) : R (list Z) :=
  if stack_size_limit <=? zlen s then Err EStack else Ok (w :: s).

Definition pop (s : list Z) : R (Z * list Z) :=
  match s with [] => Err EStack | w :: r => Ok (w, r) end.

(* `extend`: pushes the words one after another, first word deepest *)
Fixpoint extend (ws : list Z) (s : list Z) : R (list Z) :=
  match ws with
  | [] => Ok s
  | w :: r => let* s' := push w s in extend r s'
  end.

(* pop2 returns (w0, w1, rest) where w1 was the top *)
Definition pop2 (s : list Z) : R (Z * Z * list Z) :=
  let* (w1, s1) := pop s in let* (w0, s0) := pop s1 in Ok (w0, w1, s0).

(* popN: the N top words in push order (deepest first), and the rest *)
Definition popn (n : nat) (s : list Z) : R (list Z * list Z) :=
  if (length s <? n)%nat then Err EStack else Ok (rev (firstn n s), skipn n s).

(* usize::try_from(word) as a Z, to be compared before any conversion to nat *)
Definition usize_of (w : Z) : option Z := if w <? 0 then None else Some w.

(* `slice_split_len(slice, len)`: the `len` top words (deepest first) and the rest *)
Definition split_len (len : Z) (s : list Z) : option (list Z * list Z) :=
  if zlen s <? len then None else Some (rev (firstn (Z.to_nat len) s), skipn (Z.to_nat len) s).

(* `slice_split_len_words`: pops a length word, then that many words *)
Definition split_len_words (s : list Z) : R (list Z * list Z) :=
  match s with
  | [] => Err EStack
  | l :: r => match usize_of l with
              | None => Err EStack
              | Some n => of_option EStack (split_len n r)
              end
  end.

(* element `i` counted from the bottom of the stack (Vec index) *)
Definition from_bottom (s : list Z) (i : Z) : option Z :=
  if (i <? 0) || (zlen s <=? i) then None else nth_error s (length s - 1 - Z.to_nat i).

Fixpoint set_nth {A} (n : nat) (x : A) (l : list A) : list A :=
  match l, n with
  | [], _ => []
  | _ :: r, O => x :: r
  | y :: r, S k => y :: set_nth k x r
  end.

(* ---------- memory primitives (crates/vm/src/memory.rs) ---------- *)
Definition mem_alloc (size : Z) (m : list Z) : R (list Z) :=
  if size <? 0 then Err EMemory
  else if memory_size_limit <? zlen m + size then Err EMemory
  else Ok (m ++ repeat 0 (Z.to_nat size)).

Definition mem_load (addr : Z) (m : list Z) : R Z :=
  if (addr <? 0) || (zlen m <=? addr) then Err EMemory
  else of_option EMemory (nth_error m (Z.to_nat addr)).

Definition mem_store (addr w : Z) (m : list Z) : R (list Z) :=
  if (addr <? 0) || (zlen m <=? addr) then Err EMemory
  else Ok (set_nth (Z.to_nat addr) w m).

(* m[addr .. addr+|ws|] := ws *)
Definition splice (addr : nat) (ws m : list Z) : list Z :=
  firstn addr m ++ ws ++ skipn (addr + length ws) m.

Definition mem_store_range (addr : Z) (ws m : list Z) : R (list Z) :=
  if addr <? 0 then Err EMemory
  else if zlen m <? addr + zlen ws then Err EMemory
  else Ok (splice (Z.to_nat addr) ws m).

Definition mem_load_range (addr size : Z) (m : list Z) : R (list Z) :=
  if addr <? 0 then Err EMemory
  else if size <? 0 then Err EMemory
  else if zlen m <? addr + size then Err EMemory
  else Ok (firstn (Z.to_nat size) (skipn (Z.to_nat addr) m)).

Definition mem_free (new_len : Z) (m : list Z) : R (list Z) :=
  if (new_len <? 0) || (zlen m <? new_len) then Err EMemory
  else Ok (firstn (Z.to_nat new_len) m).

(* words <-> bytes of addresses and hashes *)
Definition words4 (bytes32 : list Z) : list Z := words_of_bytes 4 bytes32.
