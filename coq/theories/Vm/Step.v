(* One-step semantics of every operation except Compute (which needs `exec`, see Exec.v).
   Each definition mirrors the Rust function named in its comment: same pops in the same order, same
   checks in the same order, same error class (the OpError variant). *)
From EB Require Export Vm.Machine.
Open Scope list_scope.
Open Scope Z_scope.

(* control-flow request returned by a step (ProgramControlFlow) *)
Inductive ctl : Type :=
| CNext
| CPc (p : Z)
| CHalt
| CComputeEnd
| CComputeResult (p : Z) (gas : Z) (h : bool).

(* ================= Stack (stack.rs, repeat.rs) ================= *)
Definition op_dup (s : list Z) : R (list Z) :=
  let* (w, s1) := pop s in extend [w; w] s1.

(* dup_from *)
Definition op_dup_from (s : list Z) : R (list Z) :=
  let* (i, s1) := pop s in
  match usize_of i with
  | None => Err EStack
  | Some i =>
      if zlen s1 <=? i then Err EStack
      else let* w := of_option EStack (nth_error s1 (Z.to_nat i)) in push w s1
  end.

Definition op_swap (s : list Z) : R (list Z) :=
  let* (a, b, s0) := pop2 s in extend [b; a] s0.

(* swap_index *)
Definition op_swap_index (s : list Z) : R (list Z) :=
  let* (i, s1) := pop s in
  match s1 with
  | [] => Err EStack
  | top :: _ =>
    match usize_of i with
    | None => Err EStack
    | Some i =>
        if zlen s1 - 1 <? i then Err EStack
        else let* w := of_option EStack (nth_error s1 (Z.to_nat i)) in
             Ok (set_nth 0 w (set_nth (Z.to_nat i) top s1))
    end
  end.

(* select *)
Definition op_select (s : list Z) : R (list Z) :=
  let* (c, s1) := pop s in
  let* (w0, w1, s0) := pop2 s1 in
  match bool_of_word c with
  | None => Err EStack
  | Some b => push (if b then w1 else w0) s0
  end.

(* select_range *)
Definition op_select_range (s : list Z) : R (list Z) :=
  let* (c, s1) := pop s in
  match bool_of_word c with
  | None => Err EStack
  | Some b =>
    let* (l, s2) := pop s1 in
    match usize_of l with
    | None => Err EStack
    | Some len =>
      if len =? 0 then Ok s2
      else if (usize_max <? 2 * len) || (zlen s2 <? 2 * len) then Err EStack
      else let n := Z.to_nat len in
           Ok (if b then firstn n s2 ++ skipn (2 * n) s2 else skipn n s2)
    end
  end.

(* reserve_zeroed *)
Definition op_reserve (s : list Z) : R (list Z) :=
  let* (l, s1) := pop s in
  match usize_of l with
  | None => Err EStack
  | Some len =>
      let start := zlen s1 in
      if stack_size_limit <? start + len then Err EStack
      else push start (repeat 0 (Z.to_nat len) ++ s1)
  end.

(* load (bottom-relative) *)
Definition op_load_s (s : list Z) : R (list Z) :=
  let* (ix, s1) := pop s in
  let* w := of_option EStack (from_bottom s1 ix) in
  push w s1.

(* store (bottom-relative); pops [word, ix] *)
Definition op_store_s (s : list Z) : R (list Z) :=
  let* (w, ix, s0) := pop2 s in
  if (ix <? 0) || (zlen s0 <=? ix) then Err EStack
  else Ok (set_nth (length s0 - 1 - Z.to_nat ix) w s0).

(* Drop = pop_len_words(|_| Ok(())) *)
Definition op_drop (s : list Z) : R (list Z) :=
  let* (_, rest) := split_len_words s in Ok rest.

(* repeat::repeat *)
Definition op_repeat (p : Z) (s : list Z) (r : list slot) : R (list Z * list slot) :=
  let* (num, up, s0) := pop2 s in
  match bool_of_word up with
  | None => Err ERepeat
  | Some up =>
      if usize_max <? p + 1 then Err EStack
      else if stack_size_limit <=? zlen r then Err ERepeat
      else let sl := if up then {| s_counter := 0; s_up := Some num; s_index := p + 1 |}
                     else {| s_counter := num; s_up := None; s_index := p + 1 |} in
           Ok (s0, sl :: r)
  end.

Definition sat_sub1 (z : Z) : Z := if z =? i64_min then i64_min else z - 1.

(* Repeat::repeat (RepeatEnd): new repeat stack and the pc to jump to, if any *)
Definition op_repeat_end (r : list slot) : R (list slot * option Z) :=
  match r with
  | [] => Err ERepeat
  | sl :: rest =>
    match s_up sl with
    | Some limit =>
        if sat_sub1 limit <=? s_counter sl then Ok (rest, None)
        else if i64_max <? s_counter sl + 1 then Panic "Repeat::repeat: counter += 1"      (* unchecked += *)
        else Ok ({| s_counter := s_counter sl + 1; s_up := s_up sl; s_index := s_index sl |} :: rest, Some (s_index sl))
    | None =>
        if s_counter sl <=? 1 then Ok (rest, None)
        else if s_counter sl - 1 <? i64_min then Panic "Repeat::repeat: counter -= 1"      (* unchecked -= *)
        else Ok ({| s_counter := s_counter sl - 1; s_up := None; s_index := s_index sl |} :: rest, Some (s_index sl))
    end
  end.

(* ================= Pred (pred.rs, sets.rs) ================= *)
Definition pop2_push1 (f : Z -> Z -> R Z) (s : list Z) : R (list Z) :=
  let* (a, b, s0) := pop2 s in let* x := f a b in push x s0.
Definition pop1_push1 (f : Z -> R Z) (s : list Z) : R (list Z) :=
  let* (a, s0) := pop s in let* x := f a in push x s0.

Definition okb (b : bool) : R Z := Ok (word_of_bool b).

(* eq_range *)
Definition op_eq_range (s : list Z) : R (list Z) :=
  let* (len, s1) := pop s in
  if len =? 0 then push 1 s1
  else if negb (i64b (2 * len)) then Err EStack
  else if len <? 0 then Err EStack
  else (* push(double) cannot fail: one word was just popped; then pop_len_words *)
    match split_len (2 * len) s1 with
    | None => Err EStack
    | Some (ws, rest) =>
        let n := Z.to_nat len in
        push (word_of_bool (if list_eq_dec Z.eq_dec (firstn n ws) (skipn n ws) then true else false)) rest
    end.

(* decode_set: elements of a block, read from its top; the block is given deepest-first *)
Fixpoint decode_set_go (fuel : nat) (rws : list Z) (acc : list (list Z)) : R (list (list Z)) :=
  (* rws: remaining words, head = top of the block *)
  match rws with
  | [] => Ok acc
  | l :: rest =>
    match fuel with
    | O => OutOfFuel
    | S f =>
      match usize_of l with
      | None => Err EStack
      | Some n =>
          if zlen rest <? n then Err EDecode
          else decode_set_go f (skipn (Z.to_nat n) rest) (rev (firstn (Z.to_nat n) rest) :: acc)
      end
    end
  end.
Definition decode_set (ws : list Z) : R (list (list Z)) := decode_set_go (length ws) (rev ws) [].

Definition zlist_eq_dec := list_eq_dec Z.eq_dec.
Definition mem_list (x : list Z) (l : list (list Z)) : bool := if in_dec zlist_eq_dec x l then true else false.
Definition subsetb (a b : list (list Z)) : bool := forallb (fun x => mem_list x b) a.
Definition set_eqb (a b : list (list Z)) : bool := subsetb a b && subsetb b a.

(* eq_set = pop_len_words2 *)
Definition op_eq_set (s : list Z) : R (list Z) :=
  let* (rhs, s1) := split_len_words s in
  let* (lhs, s0) := split_len_words s1 in
  let* l := decode_set lhs in
  let* r := decode_set rhs in
  push (word_of_bool (set_eqb l r)) s0.

Definition step_pred (o : op) (s : list Z) : R (list Z) :=
  match o with
  | OEq => pop2_push1 (fun a b => okb (a =? b)) s
  | OEqRange => op_eq_range s
  | OGt => pop2_push1 (fun a b => okb (b <? a)) s
  | OLt => pop2_push1 (fun a b => okb (a <? b)) s
  | OGte => pop2_push1 (fun a b => okb (b <=? a)) s
  | OLte => pop2_push1 (fun a b => okb (a <=? b)) s
  | OAnd => pop2_push1 (fun a b => okb (negb (a =? 0) && negb (b =? 0))) s
  | OOr => pop2_push1 (fun a b => okb (negb (a =? 0) || negb (b =? 0))) s
  | ONot => pop1_push1 (fun a => okb (a =? 0)) s
  | OEqSet => op_eq_set s
  | OBitAnd => pop2_push1 (fun a b => Ok (Z.land a b)) s
  | OBitOr => pop2_push1 (fun a b => Ok (Z.lor a b)) s
  | _ => Err EStack
  end.

(* ================= ALU (alu.rs) ================= *)
Definition alu (o : option Z) : R Z := of_option EAlu o.
Definition shift_ok (b : Z) : bool := (0 <=? b) && (b <? bits_in_word).

Definition step_alu (o : op) (s : list Z) : R (list Z) :=
  match o with
  | OAdd => pop2_push1 (fun a b => alu (checked_add a b)) s
  | OSub => pop2_push1 (fun a b => alu (checked_sub a b)) s
  | OMul => pop2_push1 (fun a b => alu (checked_mul a b)) s
  | ODiv => pop2_push1 (fun a b => alu (checked_div a b)) s
  | OMod => pop2_push1 (fun a b => alu (checked_rem a b)) s
  | OShl => pop2_push1 (fun a b => if shift_ok b then Ok (wrap64 (a * 2 ^ b)) else Err EAlu) s
  | OShr => pop2_push1 (fun a b => if shift_ok b then Ok (wrap64 (to_u64 a / 2 ^ b)) else Err EAlu) s
  | OShrI => pop2_push1 (fun a b => if shift_ok b then Ok (a / 2 ^ b) else Err EAlu) s
  | _ => Err EAlu
  end.

(* ================= Memory (sync.rs step_op_memory, memory.rs) ================= *)
Definition step_memory (o : op) (s m : list Z) : R (list Z * list Z) :=
  match o with
  | OAlloc =>
      let* (w, s1) := pop s in
      let len := zlen m in
      let* m' := mem_alloc w m in
      let* s' := push len s1 in Ok (s', m')
  | OStore =>
      let* (w, addr, s0) := pop2 s in
      let* m' := mem_store addr w m in Ok (s0, m')
  | OLoad =>
      let* (addr, s1) := pop s in
      let* w := mem_load addr m in
      let* s' := push w s1 in Ok (s', m)
  | OFree =>
      let* (n, s1) := pop s in
      let* m' := mem_free n m in Ok (s1, m')
  | OLoadRange =>
      let* (addr, size, s0) := pop2 s in
      let* ws := mem_load_range addr size m in
      let* s' := extend ws s0 in Ok (s', m)
  | OStoreRange =>
      let* (addr, s1) := pop s in
      let* (ws, rest) := split_len_words s1 in
      let* m' := mem_store_range addr ws m in Ok (rest, m')
  | _ => Err EMemory
  end.

(* ================= ParentMemory ================= *)
Definition step_parent_memory (o : op) (s : list Z) (pm : list (list Z)) : R (list Z) :=
  match pm with
  | [] => Err EParentMemory
  | m :: _ =>
    match o with
    | OLoadP =>
        let* (addr, s1) := pop s in
        let* w := mem_load addr m in push w s1
    | OLoadRangeP =>
        let* (addr, size, s0) := pop2 s in
        let* ws := mem_load_range addr size m in extend ws s0
    | _ => Err EParentMemory
    end
  end.

(* ================= TotalControlFlow ================= *)
Definition op_jump_if (p : Z) (s : list Z) : R (list Z * ctl) :=
  let* (dist, c, s0) := pop2 s in
  match bool_of_word c with
  | None => Err EControl
  | Some false => Ok (s0, CNext)
  | Some true =>
      let d := Z.abs dist in             (* unsigned_abs: 2^63 for i64::MIN fits usize *)
      if d =? 0 then Err EControl
      else if dist <? 0 then (if p - d <? 0 then Err EPcOverflow else Ok (s0, CPc (p - d)))
      else (if usize_max <? p + d then Err EPcOverflow else Ok (s0, CPc (p + d)))
  end.

Definition op_halt_if (s : list Z) : R (list Z * ctl) :=
  let* (c, s0) := pop s in
  match bool_of_word c with
  | None => Err EControl
  | Some true => Ok (s0, CHalt)
  | Some false => Ok (s0, CNext)
  end.

Definition op_panic_if (s : list Z) : R (list Z * ctl) :=
  let* (c, s0) := pop s in
  match bool_of_word c with
  | None => Err EControl
  | Some true => Err EControl
  | Some false => Ok (s0, CNext)
  end.

(* ================= Access (access.rs) ================= *)
Definition acc_pop (s : list Z) : R (Z * list Z) := map_err (fun _ => EAccess) (pop s).

Definition op_predicate_data (data : list (list Z)) (s : list Z) : R (list Z) :=
  let* (len, s1) := acc_pop s in
  let* (vix, s2) := acc_pop s1 in
  let* (six, s3) := acc_pop s2 in
  if six <? 0 then Err EAccess
  else if (vix <? 0) || (len <? 0) || (usize_max <? vix + len) then Err EAccess
  else if zlen data <=? six then Err EAccess
  else let slot := nth (Z.to_nat six) data [] in
       if zlen slot <? vix + len then Err EAccess
       else extend (firstn (Z.to_nat len) (skipn (Z.to_nat vix) slot)) s3.

Definition op_predicate_data_len (data : list (list Z)) (s : list Z) : R (list Z) :=
  let* (six, s1) := acc_pop s in
  if six <? 0 then Err EAccess
  else if zlen data <=? six then Err EAccess
  else (* push cannot fail: one popped, one pushed (the Rust has an `expect` here) *)
       match push (zlen (nth (Z.to_nat six) data [])) s1 with
       | Ok s' => Ok s'
       | _ => Panic "predicate_data_len: push after pop"
       end.

Definition pred_data_preimage (sol : solution) : list Z :=
  bytes_of_words (flat_map (fun sl => zlen sl :: sl) (sol_data sol) ++ words4 (sol_contract sol) ++ words4 (sol_predicate sol)).

Definition bytes_eqb (a b : list Z) : bool := if zlist_eq_dec a b then true else false.

Definition op_predicate_exists (E : env) (s : list Z) : R (list Z) :=
  let* (ws, s0) := popn 4 s in
  let h := bytes_of_words ws in
  let found := existsb (fun sol => bytes_eqb (e_sha256 E (pred_data_preimage sol)) h) (e_solutions E) in
  push (word_of_bool found) s0.

Definition step_access (E : env) (o : op) (s : list Z) (r : list slot) : R (list Z) :=
  let sol := this_solution E in
  match o with
  | OPredicateData => op_predicate_data (sol_data sol) s
  | OPredicateDataLen => op_predicate_data_len (sol_data sol) s
  | OPredicateDataSlots => push (zlen (sol_data sol)) s
  | OThisAddress => extend (words4 (sol_predicate sol)) s
  | OThisContractAddress => extend (words4 (sol_contract sol)) s
  | ORepeatCounter => match r with [] => Err ERepeat | sl :: _ => push (s_counter sl) s end
  | OPredicateExists => op_predicate_exists E s
  | _ => Err EAccess
  end.

(* ================= Crypto (crypto.rs) ================= *)
Definition ceil8 (n : Z) : Z := (n + 7) / 8.

(* pop_bytes *)
Definition pop_bytes (s : list Z) : R (list Z * list Z) :=
  let* (n, s1) := pop s in
  if n <? 0 then Err EStack
  else match split_len (ceil8 n) s1 with
       | None => Err EStack
       | Some (ws, rest) => Ok (firstn (Z.to_nat n) (bytes_of_words ws), rest)
       end.

Definition op_sha256 (E : env) (s : list Z) : R (list Z) :=
  let* (data, s0) := pop_bytes s in
  extend (words4 (e_sha256 E data)) s0.

Definition op_verify_ed25519 (E : env) (s : list Z) : R (list Z) :=
  let* (key, s1) := popn 4 s in
  let* (sig, s2) := popn 8 s1 in
  let* (data, s0) := pop_bytes s2 in
  match e_ed25519 E (bytes_of_words key) (bytes_of_words sig) data with
  | None => Err ECrypto
  | Some b => push (word_of_bool b) s0
  end.

Definition op_recover_secp256k1 (E : env) (s : list Z) : R (list Z) :=
  let* (rid, s1) := pop s in
  let* (sig, s2) := popn 8 s1 in
  let* (h, s0) := popn 4 s2 in
  if (rid <? 0) || (3 <? rid) then Err ECrypto
  else match e_secp E (bytes_of_words h) (bytes_of_words sig) rid with
       | SecpParseErr => Err ECrypto
       | SecpNoKey => extend [0; 0; 0; 0; 0] s0
       | SecpKey k => extend (words4 (firstn 32 k) ++ [nth 32 k 0]) s0
       end.

Definition step_crypto (E : env) (o : op) (s : list Z) : R (list Z) :=
  match o with
  | OSha256 => op_sha256 E s
  | OVerifyEd25519 => op_verify_ed25519 E s
  | ORecoverSecp256k1 => op_recover_secp256k1 E s
  | _ => Err ECrypto
  end.

(* ================= StateRead (state_read.rs) ================= *)
(* write_values_to_memory *)
Fixpoint write_values (maddr vaddr : Z) (vs : list (list Z)) (m : list Z) : R (list Z) :=
  match vs with
  | [] => Ok m
  | v :: r =>
      let* m1 := mem_store_range maddr [vaddr; zlen v] m in
      let* m2 := mem_store_range vaddr v m1 in
      if (i64_max <? vaddr + zlen v) || (i64_max <? maddr + 2)
      then Panic "write_values_to_memory: unchecked += "          (* value_addr += value_len; mem_addr += 2 *)
      else write_values (maddr + 2) (vaddr + zlen v) r m2
  end.

Definition write_values_to_memory (maddr : Z) (vs : list (list Z)) (m : list Z) : R (list Z) :=
  let pairs := 2 * zlen vs in
  if negb (i64b (maddr + pairs)) then Err EMemory
  else write_values maddr (maddr + pairs) vs m.

Definition key_range_args (s : list Z) : R (Z * Z * list Z * list Z) :=
  (* (mem_addr, num_keys, key, rest) *)
  let* (maddr, s1) := pop s in
  if maddr <? 0 then Err EMemory
  else let* (n, s2) := pop s1 in
       if n <? 0 then Err EStack
       else let* (key, s3) := split_len_words s2 in Ok (maddr, n, key, s3).

Definition op_key_range (v : view) (contract : list Z) (s m : list Z) : R (list Z * list Z) :=
  let* (maddr, n, key, s3) := key_range_args s in
  match v contract key n with
  | None => Err EStateRead
  | Some vs => let* m' := write_values_to_memory maddr vs m in Ok (s3, m')
  end.

Definition op_key_range_ext (v : view) (s m : list Z) : R (list Z * list Z) :=
  let* (maddr, n, key, s3) := key_range_args s in
  let* (cw, s4) := popn 4 s3 in
  match v (bytes_of_words cw) key n with
  | None => Err EStateRead
  | Some vs => let* m' := write_values_to_memory maddr vs m in Ok (s4, m')
  end.

Definition step_state_read (E : env) (o : op) (s m : list Z) : R (list Z * list Z) :=
  let c := sol_contract (this_solution E) in
  match o with
  | OKeyRange => op_key_range (e_pre E) c s m
  | OKeyRangeExtern => op_key_range_ext (e_pre E) s m
  | OPostKeyRange => op_key_range (e_post E) c s m
  | OPostKeyRangeExtern => op_key_range_ext (e_post E) s m
  | _ => Err EStateRead
  end.

(* ================= dispatch of everything but Compute (sync.rs step_op) ================= *)
Definition with_stack (v : vm) (r : R (list Z)) : R (vm * ctl) :=
  let* s := r in Ok (set_stack v s, CNext).
Definition with_stack_mem (v : vm) (r : R (list Z * list Z)) : R (vm * ctl) :=
  let* (s, m) := r in Ok (set_stack_mem v s m, CNext).
Definition with_stack_ctl (v : vm) (r : R (list Z * ctl)) : R (vm * ctl) :=
  let* (s, c) := r in Ok (set_stack v s, c).

Definition step_basic (E : env) (o : op) (v : vm) : R (vm * ctl) :=
  let s := stack v in
  match o with
  (* Stack *)
  | OPush w => with_stack v (push w s)
  | OPop => with_stack v (let* (_, s0) := pop s in Ok s0)
  | ODup => with_stack v (op_dup s)
  | ODupFrom => with_stack v (op_dup_from s)
  | OSwap => with_stack v (op_swap s)
  | OSwapIndex => with_stack v (op_swap_index s)
  | OSelect => with_stack v (op_select s)
  | OSelectRange => with_stack v (op_select_range s)
  | ORepeat => let* (s', r') := op_repeat (pc v) s (rstack v) in Ok (set_stack_rep v s' r', CNext)
  | ORepeatEnd =>
      let* (r', j) := op_repeat_end (rstack v) in
      Ok (set_stack_rep v s r', match j with Some p => CPc p | None => CNext end)
  | OReserve => with_stack v (op_reserve s)
  | OLoadS => with_stack v (op_load_s s)
  | OStoreS => with_stack v (op_store_s s)
  | ODrop => with_stack v (op_drop s)
  (* Pred *)
  | OEq | OEqRange | OGt | OLt | OGte | OLte | OAnd | OOr | ONot | OEqSet | OBitAnd | OBitOr =>
      with_stack v (step_pred o s)
  (* Alu *)
  | OAdd | OSub | OMul | ODiv | OMod | OShl | OShr | OShrI => with_stack v (step_alu o s)
  (* Access *)
  | OThisAddress | OThisContractAddress | ORepeatCounter | OPredicateData | OPredicateDataLen
  | OPredicateDataSlots | OPredicateExists => with_stack v (step_access E o s (rstack v))
  (* Crypto *)
  | OSha256 | OVerifyEd25519 | ORecoverSecp256k1 => with_stack v (step_crypto E o s)
  (* TotalControlFlow *)
  | OHalt => Ok (v, CHalt)
  | OHaltIf => with_stack_ctl v (op_halt_if s)
  | OJumpIf => with_stack_ctl v (op_jump_if (pc v) s)
  | OPanicIf => with_stack_ctl v (op_panic_if s)
  (* Memory *)
  | OAlloc | OFree | OLoad | OStore | OLoadRange | OStoreRange => with_stack_mem v (step_memory o s (memory v))
  (* ParentMemory *)
  | OLoadP | OLoadRangeP => with_stack v (step_parent_memory o s (parent_memory v))
  (* StateRead *)
  | OKeyRange | OKeyRangeExtern | OPostKeyRange | OPostKeyRangeExtern =>
      with_stack_mem v (step_state_read E o s (memory v))
  (* Compute: handled by exec *)
  | OCompute => Err ECompute
  | OComputeEnd => Ok (v, CComputeEnd)
  end.
