(* BytecodeMapped (crates/vm/src/bytecode.rs) and its OpAccess instance (crates/vm/src/op_access.rs).
   A mapped program is the raw byte string together with the byte index of every operation.
   Code-shaped, executable and total; the three panic sites of `expect_ops_from_indices`
   (the slice `bytecode[ix..]` and the two `.expect(..)`) are explicit `Panic` outcomes. *)
From EB Require Export Asm.Op.
Open Scope list_scope.
Open Scope Z_scope.

Record mapped := { mp_bytes : list Z; mp_indices : list Z }.

(* --- BytecodeMapped::try_from_bytes ---
   `while let Some((ix, &opcode_byte)) = iter_enum.next()`: read the opcode byte at index `ix`;
   `Opcode::try_from(opcode_byte)?` fails with InvalidOpcode; `parse_op` pulls the 8 immediate bytes of a
   Push from the same iterator (NotEnoughBytes when they are missing); then `op_indices.push(ix)`.
   `acc` is the index vector in reverse order. *)
Fixpoint map_go (fuel : nat) (ix : Z) (bs : list Z) (acc : list Z) : outcome perr (list Z) :=
  match bs with
  | [] => Ok (rev acc)
  | b :: rest =>
    match fuel with
    | O => OutOfFuel
    | S f =>
      match opcode_decode b with
      | None => Err (InvalidOpcode b)
      | Some (OPush _) =>
          if (length rest <? 8)%nat then Err NotEnoughBytes
          else map_go f (ix + 9) (skipn 8 rest) (ix :: acc)
      | Some _ => map_go f (ix + 1) rest (ix :: acc)
      end
    end
  end.

Definition try_from_bytes (bs : list Z) : outcome perr mapped :=
  let* idx := map_go (length bs) 0 bs [] in
  Ok {| mp_bytes := bs; mp_indices := idx |}.

(* --- Default / push_op / FromIterator --- *)
Definition mapped_empty : mapped := {| mp_bytes := []; mp_indices := [] |}.

(* self.op_indices.push(self.bytecode.len()); self.bytecode.extend(op.to_bytes()) *)
Definition push_op (m : mapped) (o : op) : mapped :=
  {| mp_bytes := mp_bytes m ++ to_bytes1 o; mp_indices := mp_indices m ++ [zlen (mp_bytes m)] |}.

(* iter.for_each(|op| mapped.push_op(op)) *)
Definition mapped_of_ops (ops : list op) : mapped := fold_left push_op ops mapped_empty.

(* --- Op::try_from_bytes(&mut bytes): Option<Result<Op, Error>> ---
   None when the iterator is empty; otherwise exactly the first step of `parse`. *)
Definition parse_one (bs : list Z) : option (outcome perr op) :=
  match bs with
  | [] => None
  | b :: rest =>
    Some (match opcode_decode b with
          | None => Err (InvalidOpcode b)
          | Some (OPush _) =>
              if (length rest <? 8)%nat then Err NotEnoughBytes
              else Ok (OPush (word_of_bytes (firstn 8 rest)))
          | Some o => Ok o
          end)
  end.

(* the closure of expect_ops_from_indices:
     let mut bytes = bytecode[ix..].iter().copied();
     Op::try_from_bytes(&mut bytes).expect(MSG).expect(MSG)
   `bytecode[ix..]` panics when ix > len (ix = len is the empty slice). *)
Definition expect_op_at (bytes : list Z) (ix : Z) : outcome unit op :=
  if (ix <? 0) || (zlen bytes <? ix) then Panic "expect_ops_from_indices: bytecode[ix..]"
  else
    match parse_one (skipn (Z.to_nat ix) bytes) with
    | None => Panic "expect_ops_from_indices: expect (no bytes)"
    | Some (Ok o) => Ok o
    | Some _ => Panic "expect_ops_from_indices: expect (parse error)"
    end.

(* the whole iterator, collected *)
Fixpoint expect_ops (bytes : list Z) (idxs : list Z) : outcome unit (list op) :=
  match idxs with
  | [] => Ok []
  | ix :: rest =>
      let* o := expect_op_at bytes ix in
      let* os := expect_ops bytes rest in
      Ok (o :: os)
  end.

(* BytecodeMapped::ops *)
Definition mapped_ops (m : mapped) : outcome unit (list op) := expect_ops (mp_bytes m) (mp_indices m).

(* BytecodeMapped::op(ix): `self.ops_from(ix)?` is `op_indices.get(ix..)?` (None when ix > len, the empty
   slice when ix = len), then `.ops().next()`: the lazy iterator evaluates the closure for the first
   remaining index only. *)
Definition mapped_op (m : mapped) (i : Z) : outcome unit (option op) :=
  if (i <? 0) || (zlen (mp_indices m) <=? i) then Ok None
  else
    match nth_error (mp_indices m) (Z.to_nat i) with
    | None => Ok None
    | Some ix => let* o := expect_op_at (mp_bytes m) ix in Ok (Some o)
    end.

(* OpAccess for &BytecodeMapped: `self.op(index).map(Ok)`.  A panic inside `op` would be a panic of the
   whole execution; `exec` wants a total accessor, so this one is meaningful on values for which
   `mapped_op` never panics (proved for everything built by try_from_bytes / mapped_of_ops). *)
Definition mapped_access (m : mapped) (p : Z) : option op :=
  match mapped_op m p with Ok r => r | _ => None end.
