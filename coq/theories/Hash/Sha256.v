(* SHA-256 (FIPS 180-4) over byte lists, in Gallina.  Used only executably (correspondence: compared with the
   `sha2` crate through essential-hash); every theorem treats the hash as an arbitrary function. *)
From Coq Require Import ZArith List.
Import ListNotations.
Open Scope Z_scope.

Definition w32 (x : Z) : Z := x mod 4294967296.
Definition rotr (n x : Z) : Z := Z.lor (Z.shiftr x n) (w32 (Z.shiftl x (32 - n))).
Definition shr (n x : Z) : Z := Z.shiftr x n.
Definition ch (x y z : Z) : Z := Z.lxor (Z.land x y) (Z.land (4294967295 - x) z).
Definition maj (x y z : Z) : Z := Z.lxor (Z.lxor (Z.land x y) (Z.land x z)) (Z.land y z).
Definition bsig0 x := Z.lxor (Z.lxor (rotr 2 x) (rotr 13 x)) (rotr 22 x).
Definition bsig1 x := Z.lxor (Z.lxor (rotr 6 x) (rotr 11 x)) (rotr 25 x).
Definition ssig0 x := Z.lxor (Z.lxor (rotr 7 x) (rotr 18 x)) (shr 3 x).
Definition ssig1 x := Z.lxor (Z.lxor (rotr 17 x) (rotr 19 x)) (shr 10 x).

Definition K256 : list Z := [
 1116352408; 1899447441; 3049323471; 3921009573; 961987163; 1508970993; 2453635748; 2870763221;
 3624381080; 310598401; 607225278; 1426881987; 1925078388; 2162078206; 2614888103; 3248222580;
 3835390401; 4022224774; 264347078; 604807628; 770255983; 1249150122; 1555081692; 1996064986;
 2554220882; 2821834349; 2952996808; 3210313671; 3336571891; 3584528711; 113926993; 338241895;
 666307205; 773529912; 1294757372; 1396182291; 1695183700; 1986661051; 2177026350; 2456956037;
 2730485921; 2820302411; 3259730800; 3345764771; 3516065817; 3600352804; 4094571909; 275423344;
 430227734; 506948616; 659060556; 883997877; 958139571; 1322822218; 1537002063; 1747873779;
 1955562222; 2024104815; 2227730452; 2361852424; 2428436474; 2756734187; 3204031479; 3329325298].

Definition H0 : list Z := [1779033703; 3144134277; 1013904242; 2773480762; 1359893119; 2600822924; 528734635; 1541459225].

Fixpoint be_word (bs : list Z) : Z := fold_left (fun a b => a * 256 + b) bs 0.
Fixpoint words_be (n : nat) (bs : list Z) : list Z :=
  match n with O => [] | S k => be_word (firstn 4 bs) :: words_be k (skipn 4 bs) end.

(* message schedule: w holds W[t-1], W[t-2], ... (most recent first) *)
Fixpoint schedule (n : nat) (w : list Z) : list Z :=
  match n with
  | O => w
  | S k =>
      let wt := w32 (ssig1 (nth 1 w 0) + nth 6 w 0 + ssig0 (nth 14 w 0) + nth 15 w 0) in
      schedule k (wt :: w)
  end.

Definition round (st : list Z) (kw : Z) : list Z :=
  match st with
  | [a; b; c; d; e; f; g; h] =>
      let t1 := w32 (h + bsig1 e + ch e f g + kw) in
      let t2 := w32 (bsig0 a + maj a b c) in
      [w32 (t1 + t2); a; b; c; w32 (d + t1); e; f; g]
  | _ => st
  end.

Definition compress (hs : list Z) (block : list Z) : list Z :=
  let w := rev (schedule 48 (rev (words_be 16 block))) in
  let st := fold_left (fun s kw => round s (w32 (fst kw + snd kw))) (combine K256 w) hs in
  map (fun p => w32 (fst p + snd p)) (combine hs st).

Definition pad (msg : list Z) : list Z :=
  let l := Z.of_nat (length msg) in
  let k := (55 - l) mod 64 in
  msg ++ [128] ++ repeat 0 (Z.to_nat k)
      ++ map (fun i => (l * 8 / 256 ^ (7 - i)) mod 256) [0; 1; 2; 3; 4; 5; 6; 7].

Fixpoint blocks (fuel : nat) (hs : list Z) (bs : list Z) : list Z :=
  match fuel with
  | O => hs
  | S f => match bs with [] => hs | _ => blocks f (compress hs (firstn 64 bs)) (skipn 64 bs) end
  end.

Definition word_bytes (x : Z) : list Z := [x / 16777216 mod 256; x / 65536 mod 256; x / 256 mod 256; x mod 256].

Definition sha256 (msg : list Z) : list Z :=
  let p := pad msg in flat_map word_bytes (blocks (S (length p / 64)) H0 p).

(* FIPS 180-4 test vectors: "abc" and the empty string *)
Example sha256_abc : sha256 [97; 98; 99] =
  [186; 120; 22; 191; 143; 1; 207; 234; 65; 65; 64; 222; 93; 174; 34; 35; 176; 3; 97; 163; 150; 23; 122; 156; 180; 16; 255; 97; 242; 0; 21; 173].
Proof. vm_compute. reflexivity. Qed.
Example sha256_empty : sha256 [] =
  [227; 176; 196; 66; 152; 252; 28; 20; 154; 251; 244; 200; 153; 111; 185; 36; 39; 174; 65; 228; 100; 155; 147; 76; 164; 149; 153; 27; 120; 82; 184; 85].
Proof. vm_compute. reflexivity. Qed.
