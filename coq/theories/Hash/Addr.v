(* Pre-images of content addresses (crates/hash): what is fed to SHA-256, for an arbitrary hash function H. *)
From EB Require Export Types.Postcard Types.PredicateCodec.
Open Scope list_scope.
Open Scope Z_scope.

(* lexicographic order on byte lists (the derived Ord of [u8; 32]) and insertion sort (`sort()`) *)
Fixpoint bytes_leb (a b : list Z) : bool :=
  match a, b with
  | [], _ => true
  | _ :: _, [] => false
  | x :: a', y :: b' => if x <? y then true else if y <? x then false else bytes_leb a' b'
  end.
Fixpoint insert_sorted (x : list Z) (l : list (list Z)) : list (list Z) :=
  match l with [] => [x] | y :: r => if bytes_leb x y then x :: l else y :: insert_sorted x r end.
Definition sort_addrs (l : list (list Z)) : list (list Z) := fold_right insert_sorted [] l.

Section Addr.
  Variable H : list Z -> list Z.            (* SHA-256: bytes -> 32 bytes *)

  Definition zero_addr : list Z := repeat 0 32.

  (* impl Address for Predicate *)
  Definition predicate_preimage (p : predicate) : option (list Z) :=
    match encode_predicate p with Ok bs => Some bs | _ => None end.
  Definition predicate_addr (p : predicate) : list Z :=
    match predicate_preimage p with Some bs => H bs | None => zero_addr end.

  (* impl Address for Program *)
  Definition program_addr (bytecode : list Z) : list Z := H bytecode.

  (* contract_addr::from_predicate_addrs(_slice): sorted addresses followed by the salt *)
  Definition contract_preimage_of_addrs (addrs : list (list Z)) (salt : list Z) : list Z :=
    concat (sort_addrs addrs) ++ salt.
  Definition contract_preimage (preds : list predicate) (salt : list Z) : list Z :=
    contract_preimage_of_addrs (map predicate_addr preds) salt.
  Definition contract_addr (preds : list predicate) (salt : list Z) : list Z := H (contract_preimage preds salt).

  (* impl Address for Solution: hash of the postcard serialisation *)
  Definition solution_addr (s : solution) : list Z := H (pc_solution s).

  (* solution_set_addr::from_solution_addrs(_slice) *)
  Definition set_preimage_of_addrs (addrs : list (list Z)) : list Z := concat (sort_addrs addrs).
  Definition set_preimage (sols : list solution) : list Z := set_preimage_of_addrs (map solution_addr sols).
  Definition set_addr (sols : list solution) : list Z := H (set_preimage sols).
End Addr.
