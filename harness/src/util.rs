//! Shared helpers: PRNG, boundary pool, Gallina literal printing, sharded `cases_k.v` writer.
use std::fmt::Write as _;
use std::io::Write as _;
use std::path::{Path, PathBuf};

/// SplitMix64: every random choice of a run derives from VERIF_SEED through this generator.
#[derive(Clone)]
pub struct Rng(pub u64);
impl Rng {
    pub fn new(seed: u64) -> Self { Rng(seed.wrapping_mul(0x9E3779B97F4A7C15) ^ 0xD1B54A32D192ED03) }
    /// Independent stream for case `i` of engine `tag` so single cases can be regenerated for replay.
    pub fn for_case(seed: u64, tag: u64, i: u64) -> Self {
        let mut r = Rng::new(seed ^ tag.wrapping_mul(0xA24BAED4963EE407));
        r.0 ^= i.wrapping_mul(0x9FB21C651E98DF25);
        r.next(); r.next();
        r
    }
    pub fn next(&mut self) -> u64 {
        self.0 = self.0.wrapping_add(0x9E3779B97F4A7C15);
        let mut z = self.0;
        z = (z ^ (z >> 30)).wrapping_mul(0xBF58476D1CE4E5B9);
        z = (z ^ (z >> 27)).wrapping_mul(0x94D049BB133111EB);
        z ^ (z >> 31)
    }
    pub fn below(&mut self, n: u64) -> u64 { if n == 0 { 0 } else { self.next() % n } }
    pub fn range(&mut self, lo: i64, hi: i64) -> i64 { let span = (hi.wrapping_sub(lo) as u64).wrapping_add(1); lo.wrapping_add(self.below(span) as i64) }
    pub fn chance(&mut self, num: u64, den: u64) -> bool { self.below(den) < num }
    pub fn pick<'a, T>(&mut self, xs: &'a [T]) -> &'a T { &xs[self.below(xs.len() as u64) as usize] }
    pub fn word(&mut self) -> i64 {
        match self.below(10) {
            0..=4 => *self.pick(BOUNDARY),
            5..=7 => self.range(-20, 40),
            8 => self.range(0, 70).wrapping_add(*self.pick(&[1i64 << 8, 1 << 16, 1 << 32, 5 << 32, 0x7FFF_FFFF_0000_0000, i64::MIN])),
            _ => self.next() as i64,
        }
    }
    pub fn small(&mut self) -> i64 {
        match self.below(10) { 0..=7 => self.range(0, 12), 8 => self.range(-3, 70), _ => *self.pick(BOUNDARY) }
    }
}

pub const BOUNDARY: &[i64] = &[
    i64::MIN, i64::MIN + 1, -10241, -4097, -65, -64, -2, -1, 0, 1, 2, 3, 7, 8, 9, 31, 32, 33, 63, 64, 65,
    255, 256, 4094, 4095, 4096, 4097, 10239, 10240, 10241, (1 << 31) - 1, 1 << 31, (1 << 31) + 1,
    (1 << 32) - 1, 1 << 32, (1 << 32) + 1, 1 << 62, i64::MAX - 1, i64::MAX,
];

pub fn z(v: i64) -> String { if v < 0 { format!("({})", v) } else { v.to_string() } }
pub fn zu(v: u64) -> String { v.to_string() }
pub fn zlist<I: IntoIterator<Item = i64>>(xs: I) -> String {
    let mut s = String::from("[");
    let mut first = true;
    for x in xs { if !first { s.push_str("; "); } first = false; s.push_str(&z(x)); }
    s.push(']');
    s
}
pub fn blist(xs: &[u8]) -> String { zlist(xs.iter().map(|b| *b as i64)) }
pub fn list_of<T>(xs: &[T], f: impl Fn(&T) -> String) -> String {
    let mut s = String::from("[");
    for (i, x) in xs.iter().enumerate() { if i > 0 { s.push_str("; "); } s.push_str(&f(x)); }
    s.push(']');
    s
}
pub fn coq_bool(b: bool) -> &'static str { if b { "true" } else { "false" } }
pub fn coq_str(s: &str) -> String { format!("\"{}\"", s.replace('"', "\"\"")) }

/// Gallina constructor of an op, derived from its `Debug` rendering `Group(Name)` / `Group(Name(imm))`.
pub fn coq_op(op: &essential_asm::Op) -> String {
    let (group, name, imm) = op_parts(op);
    let c = match (group.as_str(), name.as_str()) {
        ("Stack", "Load") => "OLoadS".to_string(),
        ("Stack", "Store") => "OStoreS".to_string(),
        ("ParentMemory", "Load") => "OLoadP".to_string(),
        ("ParentMemory", "LoadRange") => "OLoadRangeP".to_string(),
        (_, n) => format!("O{n}"),
    };
    match imm { Some(w) => format!("({} {})", c, z(w)), None => c }
}
/// (group, name, immediate) parsed from the Debug rendering.
pub fn op_parts(op: &essential_asm::Op) -> (String, String, Option<i64>) {
    let d = format!("{:?}", op);
    let open = d.find('(').unwrap();
    let group = d[..open].to_string();
    let inner = &d[open + 1..d.len() - 1];
    match inner.find('(') {
        Some(p) => (group, inner[..p].to_string(), inner[p + 1..inner.len() - 1].parse().ok()),
        None => (group, inner.to_string(), None),
    }
}
pub fn op_path(op: &essential_asm::Op) -> String { let (g, n, _) = op_parts(op); format!("{g}.{n}") }
pub fn coq_ops(ops: &[essential_asm::Op]) -> String { list_of(ops, coq_op) }

/// Command line: `ebh <engine> --seed S --count N --shards K --out DIR [--tier T] [--only I] [--profile P]`
pub struct Args {
    pub engine: String, pub seed: u64, pub count: usize, pub shards: usize, pub out: PathBuf,
    pub thorough: bool, pub only: Option<u64>, pub extra: Vec<String>,
}
pub fn parse_args() -> Args {
    let a: Vec<String> = std::env::args().collect();
    let mut r = Args { engine: a.get(1).cloned().unwrap_or_default(), seed: 1, count: 100, shards: 1,
        out: PathBuf::from("."), thorough: false, only: None, extra: vec![] };
    let mut i = 2;
    while i < a.len() {
        match a[i].as_str() {
            "--seed" => { r.seed = a[i + 1].parse().unwrap(); i += 2; }
            "--count" => { r.count = a[i + 1].parse().unwrap(); i += 2; }
            "--shards" => { r.shards = a[i + 1].parse().unwrap(); i += 2; }
            "--out" => { r.out = PathBuf::from(&a[i + 1]); i += 2; }
            "--tier" => { r.thorough = a[i + 1] == "thorough"; i += 2; }
            "--only" => { r.only = Some(a[i + 1].parse().unwrap()); i += 2; }
            x => { r.extra.push(x.to_string()); i += 1; }
        }
    }
    r
}

/// Collects cases (Gallina literal + JSON description), then writes `cases_<k>.v` shards and `cases.json`.
pub struct Out {
    pub header: String,        // e.g. "From EB Require Import Corr.RunAsm."
    pub case_type: String,     // Gallina type of one case
    pub evals: Vec<String>,    // functions `list case -> list N` evaluated over the shard, in order
    pub cases: Vec<(u64, String, serde_json::Value, bool)>,
    pub only: Option<u64>,
    pub stats: serde_json::Map<String, serde_json::Value>,
}
impl Out {
    pub fn new(header: &str, case_type: &str, evals: &[&str]) -> Self {
        Out { header: header.to_string(), case_type: case_type.to_string(),
              evals: evals.iter().map(|s| s.to_string()).collect(), cases: vec![], only: None, stats: Default::default() }
    }
    /// `nontrivial`: the case exercises the property's mechanism by the engine's stated rule.
    pub fn push(&mut self, id: u64, lit: String, desc: serde_json::Value, nontrivial: bool) {
        if let Some(o) = self.only { if o != id { return; } }
        self.cases.push((id, lit, desc, nontrivial));
    }
    pub fn bump(&mut self, key: &str) {
        let v = self.stats.entry(key.to_string()).or_insert(serde_json::json!(0));
        *v = serde_json::json!(v.as_u64().unwrap_or(0) + 1);
    }
    pub fn write(&self, dir: &Path, shards: usize, prefix: &str) {
        std::fs::create_dir_all(dir).unwrap();
        let shards = shards.max(1).min(self.cases.len().max(1));
        let mut index = vec![];
        for k in 0..shards {
            let mut s = String::new();
            writeln!(s, "{}", self.header).unwrap();
            writeln!(s, "Open Scope Z_scope.").unwrap();
            writeln!(s, "Definition cases : list (N * {}) := [", self.case_type).unwrap();
            let mut first = true;
            for (j, (id, lit, _, _)) in self.cases.iter().enumerate() {
                if j % shards != k { continue; }
                if !first { s.push_str(";\n"); }
                first = false;
                write!(s, "  ({}%N, {})", id, lit).unwrap();
            }
            writeln!(s, "\n].").unwrap();
            for e in &self.evals {
                writeln!(s, "Eval vm_compute in ({} cases).", e).unwrap();
            }
            let p = dir.join(format!("{prefix}_{k}.v"));
            std::fs::File::create(&p).unwrap().write_all(s.as_bytes()).unwrap();
            index.push(p.to_string_lossy().to_string());
        }
        let descs: Vec<_> = self.cases.iter().map(|(id, _, d, _)| serde_json::json!({"id": id, "case": d})).collect();
        let mut seen = std::collections::HashSet::new();
        let mut distinct_nontrivial = 0usize;
        for (_, lit, _, nt) in &self.cases { if seen.insert(fnv(lit)) && *nt { distinct_nontrivial += 1; } }
        let j = serde_json::json!({"prefix": prefix, "shards": index, "evals": self.evals, "n": self.cases.len(),
            "distinct": seen.len(), "distinct_nontrivial": distinct_nontrivial,
            "stats": self.stats, "cases": descs});
        std::fs::write(dir.join(format!("{prefix}.json")), serde_json::to_vec(&j).unwrap()).unwrap();
    }
}

/// FNV-1a, used to count distinct cases.
pub fn fnv(s: &str) -> u64 {
    let mut h: u64 = 0xcbf29ce484222325;
    for b in s.bytes() { h ^= b as u64; h = h.wrapping_mul(0x100000001b3); }
    h
}
