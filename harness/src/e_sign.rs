//! Engine `sign`: contract signatures, recovery, tampering, and the word encodings shared with the VM (C19).
use crate::util::*;
use essential_asm::short::*;
use essential_hash::content_addr;
use essential_sign as sign;
use essential_types::{contract::{Contract, SignedContract}, convert, predicate::{Node, Predicate}, solution::Solution, ContentAddress, PredicateAddress, Signature, Word};
use essential_vm::{Access, GasLimit, Vm};
use secp256k1::{ecdsa::{RecoverableSignature, RecoveryId}, PublicKey, Secp256k1, SecretKey};
use serde_json::json;
use std::panic::{catch_unwind, AssertUnwindSafe};
use std::sync::Arc;

fn coq_pred(p: &Predicate) -> String {
    format!("(Build_predicate {} {})", list_of(&p.nodes, |n| format!("(Build_node {} {})", n.edge_start, blist(&n.program_address.0))), if p.edges.len() >= 24 && p.edges.iter().all(|e| *e == p.edges[0]) { format!("(repeat {} {})", p.edges[0], p.edges.len()) } else { zlist(p.edges.iter().map(|e| *e as i64)) })
}
fn rand_pred(rng: &mut Rng) -> Predicate {
    let n = rng.range(0, 3) as usize; let e = rng.range(0, 3) as usize;
    Predicate { nodes: (0..n).map(|_| Node { edge_start: rng.below(e as u64 + 1) as u16, program_address: ContentAddress({ let mut a = [0u8; 32]; for b in a.iter_mut() { *b = rng.next() as u8; } a }) }).collect(),
                edges: (0..e).map(|_| rng.below(n as u64 + 1) as u16).collect() }
}
fn perms<T: Clone>(v: &[T]) -> Vec<Vec<T>> {
    if v.len() <= 1 { return vec![v.to_vec()]; }
    let mut out = vec![];
    for i in 0..v.len() { let mut rest = v.to_vec(); let x = rest.remove(i); for mut p in perms(&rest) { p.insert(0, x.clone()); out.push(p); } }
    out
}
fn rec(c: &Contract, sig: &Signature) -> Vec<u8> {
    let sc = SignedContract { contract: c.clone(), signature: sig.clone() };
    match catch_unwind(AssertUnwindSafe(|| sign::contract::recover(&sc))) { Ok(Ok(pk)) => pk.serialize().to_vec(), _ => vec![] }
}

pub fn run(a: &Args) {
    let mut out = Out::new("From EB Require Import Corr.RunSign.", "sign_case", &["sign_mismatches", "sign_spec_failures"]);
    out.only = a.only;
    let secp = Secp256k1::new();
    for i in 0..a.count as u64 {
        let mut rng = Rng::for_case(a.seed, 19, i);
        let mut skb = [0u8; 32]; for b in skb.iter_mut() { *b = rng.next() as u8; } skb[0] |= 1; skb[0] &= 0x7F;
        let sk = SecretKey::from_slice(&skb).unwrap();
        let signer = PublicKey::from_secret_key(&secp, &sk);
        let mut preds: Vec<Predicate> = (0..rng.range(0, 4)).map(|_| rand_pred(&mut rng)).collect();
        // now and then a predicate exactly at (or just below) the documented size limits: 1000 edges or 1000 nodes
        let mut at_limit = false;
        if !preds.is_empty() && rng.chance(1, 8) {
            at_limit = true;
            let addr = ContentAddress({ let mut a = [0u8; 32]; for b in a.iter_mut() { *b = rng.next() as u8; } a });
            preds[0] = if rng.chance(2, 3) { Predicate { nodes: vec![Node { edge_start: 0, program_address: addr.clone() }, Node { edge_start: u16::MAX, program_address: addr }], edges: vec![1; *rng.pick(&[1000usize, 1000, 999])] } }
                       else { Predicate { nodes: vec![Node { edge_start: u16::MAX, program_address: addr }; *rng.pick(&[1000usize, 999])], edges: vec![] } };
        }
        let mut salt = [0u8; 32]; if rng.chance(3, 4) { for b in salt.iter_mut() { *b = rng.next() as u8; } }
        let contract = Contract { predicates: preds.clone(), salt };
        let signed = sign::contract::sign(contract.clone(), &sk);
        let sig = signed.signature.clone();
        let addr = content_addr(&contract);
        let recovered = rec(&contract, &sig);
        let verify = sign::contract::verify(&signed).is_ok();
        let perm_rec: Vec<Vec<u8>> = perms(&preds).into_iter().map(|q| rec(&Contract { predicates: q, salt }, &sig)).collect();
        // tampering: salt bit, predicate field, dropped predicate, signature bit
        let mut tampered: Vec<Vec<u8>> = vec![];
        { let mut c = contract.clone(); c.salt[rng.below(32) as usize] ^= 1 << rng.below(8); tampered.push(rec(&c, &sig)); }
        if !preds.is_empty() {
            let k = if at_limit { 0 } else { rng.below(preds.len() as u64) as usize };
            { let mut c = contract.clone(); c.predicates[k].edges.push(7); tampered.push(rec(&c, &sig)); }
            { let mut c = contract.clone(); c.predicates[k].nodes.push(Node { edge_start: 0, program_address: ContentAddress([9; 32]) }); tampered.push(rec(&c, &sig)); }
            { let mut c = contract.clone(); c.predicates.remove(k); tampered.push(rec(&c, &sig)); }
            // same sizes, one edge rewired / one edge_start changed
            if !contract.predicates[k].edges.is_empty() { let mut c = contract.clone(); let j = rng.below(c.predicates[k].edges.len() as u64) as usize; c.predicates[k].edges[j] ^= 1; tampered.push(rec(&c, &sig)); }
            if !contract.predicates[k].nodes.is_empty() { let mut c = contract.clone(); let j = rng.below(c.predicates[k].nodes.len() as u64) as usize; c.predicates[k].nodes[j].edge_start ^= 2; tampered.push(rec(&c, &sig)); }
            if let Some(n) = contract.predicates[k].nodes.first() { let mut c = contract.clone(); let mut a2 = n.program_address.0; a2[5] ^= 4; c.predicates[k].nodes[0].program_address = ContentAddress(a2); tampered.push(rec(&c, &sig)); }
        }
        { let mut c = contract.clone(); c.predicates.push(Predicate::default()); tampered.push(rec(&c, &sig)); }
        { let mut s2 = sig.clone(); s2.0[rng.below(64) as usize] ^= 1 << rng.below(8); tampered.push(rec(&contract, &s2)); }
        // recovery ids
        let ids: Vec<i64> = vec![0, 1, 2, 3, 4, 5, 27, 28, 128, 255, rng.below(256) as i64];
        let bad: Vec<(i64, i64)> = ids.iter().map(|id| {
            let s2 = Signature(sig.0, *id as u8);
            let sc = SignedContract { contract: contract.clone(), signature: s2 };
            (*id, match catch_unwind(AssertUnwindSafe(|| sign::contract::recover(&sc))) { Ok(Ok(_)) => 1, Ok(Err(_)) => 0, Err(_) => 2 })
        }).collect();
        // encodings
        let enc_pk = sign::encode::public_key(&signer);
        let rsig = RecoverableSignature::from_compact(&sig.0, RecoveryId::try_from(sig.1 as i32).unwrap()).unwrap();
        let enc_sig = sign::encode::signature(&rsig);
        // the VM op on words4(addr) ++ enc_sig
        let mut ops = vec![];
        for w in convert::word_4_from_u8_32(addr.0) { ops.push(PUSH(w)); }
        for w in enc_sig { ops.push(PUSH(w)); }
        ops.push(RSECP);
        let sol = Solution { predicate_to_solve: PredicateAddress { contract: ContentAddress([0; 32]), predicate: ContentAddress([0; 32]) }, predicate_data: vec![], state_mutations: vec![] };
        let mut vm = Vm::default();
        let r = catch_unwind(AssertUnwindSafe(|| vm.exec_ops(&ops, Access::new(Arc::new(vec![sol]), 0), &crate::e_graph::MemState::default2(), &|_: &essential_asm::Op| 1, GasLimit::UNLIMITED)));
        let vm_stack: Vec<Word> = match r { Ok(Ok(_)) => vm.stack.iter().copied().collect(), _ => vec![-1] };
        // the byte forms of the encodings and the hash / message level API on the same digest and key
        let enc_pk_b = sign::encode::public_key_as_bytes(&signer);
        let enc_sig_b = sign::encode::signature_as_bytes(&rsig);
        let msg = secp256k1::Message::from_digest(addr.0);
        let other = PublicKey::from_secret_key(&secp, &SecretKey::from_slice(&[0x33; 32]).unwrap());
        let mut other_digest = addr.0; other_digest[rng.below(32) as usize] ^= 1 << rng.below(8);
        let api: Vec<bool> = vec![
            catch_unwind(AssertUnwindSafe(|| sign::sign_hash(addr.0, &sk) == sig)).unwrap_or(false),
            catch_unwind(AssertUnwindSafe(|| sign::sign_message(&msg, &sk) == sig)).unwrap_or(false),
            catch_unwind(AssertUnwindSafe(|| sign::recover_hash(addr.0, &sig).map(|k| k == signer).unwrap_or(false))).unwrap_or(false),
            catch_unwind(AssertUnwindSafe(|| sign::recover_from_message(&msg, &sig).map(|k| k == signer).unwrap_or(false))).unwrap_or(false),
            catch_unwind(AssertUnwindSafe(|| sign::verify_hash(addr.0, &sig).is_ok())).unwrap_or(false),
            catch_unwind(AssertUnwindSafe(|| sign::verify_message(&msg, &sig.0, &signer).is_ok())).unwrap_or(false),
            catch_unwind(AssertUnwindSafe(|| sign::verify_message(&msg, &sig.0, &other).is_err())).unwrap_or(false),
            catch_unwind(AssertUnwindSafe(|| sign::recover_hash(other_digest, &sig).map(|k| k != signer).unwrap_or(true))).unwrap_or(false),
        ];
        let lit = format!("Build_sign_case {} {} {} {} {} {} {} {} {} {} {} {} {} {} {} {} [{}]", list_of(&preds, coq_pred), blist(&salt), blist(&addr.0), blist(&signer.serialize()),
            blist(&sig.0), sig.1, blist(&recovered), coq_bool(verify), list_of(&perm_rec, |r| blist(r)), list_of(&tampered, |r| blist(r)),
            list_of(&bad, |e| format!("({}, {})", e.0, e.1)), zlist(enc_pk.iter().copied()), zlist(enc_sig.iter().copied()), zlist(vm_stack.iter().copied()),
            blist(&enc_pk_b), blist(&enc_sig_b), api.iter().map(|b| coq_bool(*b)).collect::<Vec<_>>().join("; "));
        out.push(i, lit, json!({"predicates": preds.len(), "verify": verify, "tamperings": tampered.len()}), true);
        out.bump("signed_contracts");
    }
    out.write(&a.out, a.shards, "sign");
}
