//! Engine `types`: codecs, conversions, content addresses and validators (C06, C16, C17, C18).
use crate::util::*;
use crate::e_graph::key_pool;
use essential_check as chk;
use essential_hash::content_addr;
use essential_types::{contract::Contract, convert, predicate::{Node, Predicate, Program}, solution::{decode, encode, Mutation, Solution, SolutionSet}, ContentAddress, PredicateAddress, Word};
use serde_json::json;
use std::panic::catch_unwind;

fn coq_mut(m: &Mutation) -> String { format!("(Build_mutation {} {})", rep_list(&m.key), rep_list(&m.value)) }
/// A word list, as `repeat w n` when it is long and constant.
fn rep_list(v: &[Word]) -> String {
    if v.len() >= 24 && v.iter().all(|w| *w == v[0]) { format!("(repeat {} {})", z(v[0]), v.len()) } else { zlist(v.iter().copied()) }
}
fn coq_sol(s: &Solution) -> String {
    let data = if s.predicate_data.len() >= 24 && s.predicate_data.iter().all(|d| *d == s.predicate_data[0]) {
        format!("(repeat {} {})", rep_list(&s.predicate_data[0]), s.predicate_data.len())
    } else { list_of(&s.predicate_data, |v| rep_list(v)) };
    let muts = if s.state_mutations.len() >= 24 {
        // keys [0], [1], ... built on the Coq side
        format!("(map (fun i => Build_mutation [i] [1]) (zrange_from 0 {}))", s.state_mutations.len())
    } else { list_of(&s.state_mutations, coq_mut) };
    format!("(Build_solution {} {} {} {})", blist(&s.predicate_to_solve.contract.0), blist(&s.predicate_to_solve.predicate.0), data, muts)
}
fn coq_pred(p: &Predicate) -> String {
    format!("(Build_predicate {} {})", list_of(&p.nodes, |n| format!("(Build_node {} {})", n.edge_start, blist(&n.program_address.0))),
        zlist(p.edges.iter().map(|e| *e as i64)))
}
fn mres(r: std::thread::Result<Result<Vec<Mutation>, decode::MutationDecodeError>>) -> String {
    match r {
        Ok(Ok(ms)) => format!("(MOk {})", list_of(&ms, coq_mut)),
        Ok(Err(decode::MutationDecodeError::WordsTooShort)) => "(MErr 0)".into(),
        Ok(Err(decode::MutationDecodeError::NegativeKeyLength)) => "(MErr 1)".into(),
        Ok(Err(decode::MutationDecodeError::NegativeValueLength)) => "(MErr 2)".into(),
        Err(_) => "MPanic".into(),
    }
}
fn pres(r: std::thread::Result<Result<Predicate, essential_types::predicate::PredicateDecodeError>>) -> String {
    match r { Ok(Ok(p)) => format!("(POk {})", coq_pred(&p)), Ok(Err(_)) => "PErrShort".into(), Err(_) => "PPanic".into() }
}

fn rand_pred(rng: &mut Rng) -> Predicate {
    let n = rng.range(0, 5) as usize; let e = rng.range(0, 6) as usize;
    Predicate { nodes: (0..n).map(|_| Node { edge_start: match rng.below(4) { 0 => u16::MAX, 1 => rng.below(e as u64 + 2) as u16, _ => rng.below(e as u64 + 1) as u16 },
        program_address: ContentAddress({ let mut a = [0u8; 32]; for b in a.iter_mut() { *b = rng.next() as u8; } a }) }).collect(),
        edges: (0..e).map(|_| if rng.chance(1, 6) { rng.next() as u16 } else { rng.below(n as u64 + 1) as u16 }).collect() }
}
fn rand_sol(rng: &mut Rng) -> Solution {
    let keys = key_pool();
    let mut a = [0u8; 32]; let mut b = [0u8; 32];
    for x in a.iter_mut() { *x = rng.next() as u8; } for x in b.iter_mut() { *x = rng.next() as u8; }
    let mut muts: Vec<Mutation> = vec![];
    for _ in 0..rng.range(0, 3) { let k = rng.pick(&keys).clone(); if !muts.iter().any(|m| m.key == k) || rng.chance(1, 6) { muts.push(Mutation { key: k, value: (0..rng.range(0, 3)).map(|_| rng.word()).collect() }); } }
    Solution { predicate_to_solve: PredicateAddress { contract: ContentAddress(a), predicate: ContentAddress(b) },
        predicate_data: (0..rng.range(0, 3)).map(|_| (0..rng.range(0, 4)).map(|_| rng.word()).collect()).collect(), state_mutations: muts }
}
fn perms<T: Clone>(v: &[T]) -> Vec<Vec<T>> {
    if v.len() <= 1 { return vec![v.to_vec()]; }
    let mut out = vec![];
    for i in 0..v.len() { let mut rest = v.to_vec(); let x = rest.remove(i); for mut p in perms(&rest) { p.insert(0, x.clone()); out.push(p); } }
    out
}

pub fn run(a: &Args) {
    let sel: Vec<String> = a.extra.iter().position(|x| x == "--kinds").and_then(|i| a.extra.get(i + 1)).map(|s| s.split(',').map(|x| x.to_string()).collect())
        .unwrap_or_else(|| vec!["mut".into(), "pred".into(), "conv".into(), "addr".into(), "validate".into(), "text".into()]);
    let on = |k: &str| sel.iter().any(|s| s == k);
    let mut out = Out::new("From EB Require Import Corr.RunTypes Vm.Exec.", "types_case", &["types_mismatches", "types_spec_failures"]);
    out.only = a.only;
    let mut id = 0u64;
    let mut push = |out: &mut Out, lit: String, kind: &str, desc: serde_json::Value| { let nt = lit.len() > 30; out.push(id, lit, json!({"kind": kind, "case": desc}), nt); out.bump(kind); id += 1; };

    if on("mut") {
        // corpus: F4, F5 and friends
        let fixed: Vec<Vec<Word>> = vec![vec![1, 1, 5], vec![i64::MAX], vec![1, i64::MAX, 0], vec![1, 0, i64::MAX], vec![], vec![0], vec![0, 1, 2], vec![-1], vec![1, -1, 0], vec![1, 0, -1],
            vec![2, 1, 7, 1, 8], vec![1, 1, 7, 1, 8, 9], vec![1, i64::MAX - 1, 0], vec![1, 2, 7], vec![i64::MIN]];
        for ws in &fixed {
            let w2 = ws.clone(); push(&mut out, format!("TDecodeMutations {} {}", zlist(ws.iter().copied()), mres(catch_unwind(move || decode::decode_mutations(&w2)))), "decode_mutations", json!(ws));
            let w3 = ws.clone(); push(&mut out, format!("TDecodeMutation {} {}", zlist(ws.iter().copied()), mres(catch_unwind(move || decode::decode_mutation(&w3).map(|m| vec![m])))), "decode_mutation", json!(ws));
        }
        // exhaustive short strings over a small alphabet
        let alpha: &[Word] = if a.thorough { &[-1, 0, 1, 2, 3, i64::MAX, i64::MIN] } else { &[-1, 0, 1, 2, i64::MAX] };
        let maxlen = if a.thorough { 5 } else { 4 };
        let mut strings: Vec<Vec<Word>> = vec![vec![]];
        let mut frontier: Vec<Vec<Word>> = vec![vec![]];
        for _ in 0..maxlen { let mut next = vec![]; for s in &frontier { for x in alpha { let mut t = s.clone(); t.push(*x); next.push(t); } } strings.extend(next.iter().cloned()); frontier = next; }
        for ws in &strings {
            let w2 = ws.clone(); push(&mut out, format!("TDecodeMutations {} {}", zlist(ws.iter().copied()), mres(catch_unwind(move || decode::decode_mutations(&w2)))), "decode_mutations_exh", json!(ws));
        }
    }
    for i in 0..a.count as u64 {
        let mut rng = Rng::for_case(a.seed, 18, i);
        let kinds: Vec<&str> = ["mut", "pred", "conv", "addr", "validate", "text"].iter().copied().filter(|k| on(k)).collect();
        let kind = *rng.pick(&kinds);
        // a panic anywhere in the implementation while the cases of this round are computed is itself a result
        let r = catch_unwind(std::panic::AssertUnwindSafe(|| { match kind {
            "mut" => {
                let keys = key_pool();
                let ms: Vec<Mutation> = (0..rng.range(0, 4)).map(|_| Mutation { key: if rng.chance(1, 2) { rng.pick(&keys).clone() } else { (0..rng.range(0, 4)).map(|_| rng.word()).collect() }, value: (0..rng.range(0, 4)).map(|_| rng.word()).collect() }).collect();
                let words: Vec<Word> = encode::encode_mutations(&ms).collect();
                let sizes: Vec<Word> = ms.iter().map(|m| m.encode_size() as Word).collect();
                let w2 = words.clone();
                push(&mut out, format!("TEncodeMutations {} {} {} {}", list_of(&ms, coq_mut), zlist(words.iter().copied()), zlist(sizes.iter().copied()), mres(catch_unwind(move || decode::decode_mutations(&w2)))), "encode_mutations", json!(words));
                // a mutated encoding
                let mut w3 = words.clone();
                if !w3.is_empty() { let k = rng.below(w3.len() as u64) as usize; match rng.below(3) { 0 => { w3[k] = rng.word(); } 1 => { w3.truncate(k); } _ => { w3.insert(k, rng.word()); } } }
                let w4 = w3.clone();
                push(&mut out, format!("TDecodeMutations {} {}", zlist(w3.iter().copied()), mres(catch_unwind(move || decode::decode_mutations(&w4)))), "decode_mutations_mutated", json!(w3));
            }
            "pred" => {
                let p = rand_pred(&mut rng);
                let enc = p.encode().map(|it| it.collect::<Vec<u8>>());
                let (eres, back) = match &enc {
                    Ok(bs) => { let b2 = bs.clone(); (format!("(EOk {})", blist(bs)), pres(catch_unwind(move || Predicate::decode(&b2)))) }
                    Err(essential_types::predicate::PredicateEncodeError::TooManyNodes) => ("ETooManyNodes".into(), "PErrShort".into()),
                    Err(_) => ("ETooManyEdges".into(), "PErrShort".into()),
                };
                push(&mut out, format!("TPredEncode {} {} {} {}", coq_pred(&p), eres, p.encoded_size(), back), "pred_encode", json!({"nodes": p.nodes.len(), "edges": p.edges.len()}));
                // a panic of node_edges is recorded as the impossible result `Some [-1]` (edges are u16): both evaluators flag it
                let rs: Vec<String> = (0..p.nodes.len() + 2).map(|i| { let q = p.clone(); match catch_unwind(move || q.node_edges(i).map(|e| e.to_vec())) {
                    Ok(Some(e)) => format!("(Some {})", zlist(e.iter().map(|x| *x as i64))), Ok(None) => "None".into(), Err(_) => "(Some [-1])".into() } }).collect();
                push(&mut out, format!("TNodeEdges {} [{}]", coq_pred(&p), rs.join("; ")), "node_edges", json!({"nodes": p.nodes.len()}));
                // encoding at the documented limits: exactly / just below / just above 1000 nodes and 1000 edges
                if rng.chance(1, 12) {
                    let n = *rng.pick(&[999usize, 1000, 1000, 1001, 3]); let e = *rng.pick(&[999usize, 1000, 1000, 1001, 0]);
                    let q = Predicate { nodes: vec![Node { edge_start: u16::MAX, program_address: ContentAddress([0; 32]) }; n], edges: vec![0; e] };
                    let enc = q.encode().map(|it| it.collect::<Vec<u8>>());
                    let (kind, len, back_ok) = match &enc {
                        Ok(bs) => (0, bs.len() as i64, Predicate::decode(bs).map(|b| b == q).unwrap_or(false)),
                        Err(essential_types::predicate::PredicateEncodeError::TooManyNodes) => (1, 0, true),
                        Err(_) => (2, 0, true),
                    };
                    push(&mut out, format!("TPredEncodeSized {} {} {} {} {} {} {}", n, e, kind, len, q.encoded_size(), coq_bool(back_ok), blist(&content_addr(&q).0)), "pred_encode_sized", json!({"nodes": n, "edges": e, "result": kind}));
                }
                if let Ok(mut bs) = enc {
                    match rng.below(4) { 0 => { let k = rng.below(bs.len() as u64 + 1) as usize; bs.truncate(k); } 1 => { let k = rng.below(bs.len() as u64) as usize; bs[k] = rng.next() as u8; } 2 => { bs.push(rng.next() as u8); } _ => { bs = (0..rng.range(0, 80)).map(|_| rng.next() as u8).collect(); } }
                    let b2 = bs.clone();
                    push(&mut out, format!("TPredDecode {} {}", blist(&bs), pres(catch_unwind(move || Predicate::decode(&b2)))), "pred_decode", json!(bs.len()));
                }
            }
            "conv" => {
                let w = rng.word();
                let bytes = convert::bytes_from_word(w);
                push(&mut out, format!("TWord {} {} {}", z(w), blist(&bytes), z(convert::word_from_bytes(bytes))), "word", json!(w));
                let sl: Vec<u8> = (0..rng.range(0, 11)).map(|_| rng.next() as u8).collect();
                push(&mut out, format!("TWordSlice {} {}", blist(&sl), z(convert::word_from_bytes_slice(&sl))), "word_slice", json!(sl.len()));
                let bw = if rng.chance(1, 2) { rng.range(-2, 3) } else { rng.word() };
                push(&mut out, format!("TBoolWord {} {}", z(bw), match convert::bool_from_word(bw) { Some(false) => 0, Some(true) => 1, None => 2 }), "bool_word", json!(bw));
                let chunks: Vec<Vec<u8>> = (0..rng.range(0, 4)).map(|_| (0..*rng.pick(&[0i64, 1, 7, 31, 55, 56, 63, 64, 65, 100])).map(|_| rng.next() as u8).collect()).collect();
                let flat: Vec<u8> = chunks.concat();
                push(&mut out, format!("THashIter {} {} {}", list_of(&chunks, |c| blist(c)), blist(&essential_hash::hash_bytes_iter(chunks.iter().map(|c| c.as_slice()))), blist(&essential_hash::hash_bytes(&flat))), "hash_iter", json!(chunks.iter().map(|c| c.len()).collect::<Vec<_>>()));
                let hw: Vec<Word> = (0..rng.range(0, 6)).map(|_| rng.word()).collect();
                let hbytes: Vec<u8> = hw.iter().flat_map(|w| w.to_be_bytes()).collect();
                push(&mut out, format!("THashWords {} {} {}", zlist(hw.iter().copied()), blist(&essential_hash::hash_words(&hw)), blist(&essential_hash::hash_bytes(&hbytes))), "hash_words", json!(hw.len()));
                let mut b32 = [0u8; 32]; for b in b32.iter_mut() { *b = if rng.chance(1, 4) { 0xFF } else { rng.next() as u8 }; }
                let w4 = convert::word_4_from_u8_32(b32);
                push(&mut out, format!("TWords4 {} {} {}", blist(&b32), zlist(w4.iter().copied()), blist(&convert::u8_32_from_word_4(w4))), "words4", json!(w4));
                let mut b64 = [0u8; 64]; for b in b64.iter_mut() { *b = rng.next() as u8; }
                let w8 = convert::word_8_from_u8_64(b64);
                push(&mut out, format!("TWords8 {} {} {}", blist(&b64), zlist(w8.iter().copied()), blist(&convert::u8_64_from_word_8(w8))), "words8", json!(w8));
            }
            "text" => {
                let codes = |t: &str| -> String { zlist(t.bytes().map(|b| b as i64)) };
                let optw = |r: Result<Vec<Word>, essential_types::convert::FromHexError>| -> String { match r { Ok(v) => format!("(Some {})", zlist(v.iter().copied())), Err(_) => "None".into() } };
                match rng.below(6) {
                    4 | 5 => {
                        // the binary serde surface: postcard bytes of a random value of a random public type, compared with
                        // the model's encoder and decoder; `5`: the bytes truncated or followed by garbage
                        let damaged = rng.below(6) == 5 || rng.chance(1, 3);
                        let kind = rng.below(10);
                        let mut salt = [0u8; 32]; for b in salt.iter_mut() { *b = if rng.chance(1, 5) { 0xFF } else { rng.next() as u8 }; }
                        let mut sg = [0u8; 64]; for b in sg.iter_mut() { *b = rng.next() as u8; }
                        let sig = essential_types::Signature(sg, rng.next() as u8);
                        let contract = Contract { predicates: (0..rng.range(0, 3)).map(|_| rand_pred(&mut rng)).collect(), salt };
                        let coq_contract = |c: &Contract| format!("(Build_contract {} {})", list_of(&c.predicates, coq_pred), blist(&c.salt));
                        fn enc<T: serde::Serialize + serde::de::DeserializeOwned + PartialEq>(v: &T) -> (Vec<u8>, bool) {
                            let b = postcard::to_allocvec(v).unwrap();
                            let ok = postcard::from_bytes::<T>(&b).map(|x| &x == v).unwrap_or(false);
                            (b, ok)
                        }
                        fn acc<T: serde::de::DeserializeOwned>(b: &[u8]) -> bool { postcard::from_bytes::<T>(b).is_ok() }
                        let sol = rand_sol(&mut rng);
                        let (lit, (bytes, ok), accepts): (String, (Vec<u8>, bool), fn(&[u8]) -> bool) = match kind {
                            0 => (format!("(PVContentAddress {})", blist(&salt)), enc(&ContentAddress(salt)), acc::<ContentAddress>),
                            1 => (format!("(PVPredicateAddress {} {})", blist(&sol.predicate_to_solve.contract.0), blist(&sol.predicate_to_solve.predicate.0)), enc(&sol.predicate_to_solve), acc::<PredicateAddress>),
                            2 => { let m = Mutation { key: (0..rng.range(0, 3)).map(|_| rng.word()).collect(), value: (0..rng.range(0, 3)).map(|_| rng.word()).collect() };
                                   (format!("(PVMutation {})", coq_mut(&m)), enc(&m), acc::<Mutation>) }
                            3 => (format!("(PVSolution {})", coq_sol(&sol)), enc(&sol), acc::<Solution>),
                            4 => { let sols: Vec<Solution> = (0..rng.range(0, 3)).map(|_| rand_sol(&mut rng)).collect();
                                   (format!("(PVSolutionSet {})", list_of(&sols, coq_sol)), enc(&SolutionSet { solutions: sols }), acc::<SolutionSet>) }
                            5 => { let p = rand_pred(&mut rng); (format!("(PVPredicate {})", coq_pred(&p)), enc(&p), acc::<Predicate>) }
                            6 => { let n = if rng.chance(1, 6) { rng.range(120, 300) } else { rng.range(0, 40) };
                                   let p = Program((0..n).map(|_| rng.next() as u8).collect()); (format!("(PVProgram {})", blist(&p.0)), enc(&p), acc::<Program>) }
                            7 => (format!("(PVContract {})", coq_contract(&contract)), enc(&contract), acc::<Contract>),
                            8 => (format!("(PVSignature {} {})", blist(&sig.0), sig.1), enc(&sig), acc::<essential_types::Signature>),
                            _ => { let lit = format!("(PVSignedContract (Build_signed_contract {} ({}, {})))", coq_contract(&contract), blist(&sig.0), sig.1);
                                   (lit, enc(&essential_types::contract::SignedContract { contract, signature: sig }), acc::<essential_types::contract::SignedContract>) }
                        };
                        if damaged {
                            let mut b = bytes.clone();
                            // truncated, extended, or with one byte overwritten / inserted / removed (length prefixes and varint
                            // continuation bits included: counts far beyond the input, over-long and padded varints)
                            match rng.below(7) {
                                0 | 1 => { let k = rng.below(b.len() as u64 + 1) as usize; b.truncate(k); }
                                2 => { for _ in 0..rng.range(1, 4) { b.push(rng.next() as u8); } }
                                3 if !b.is_empty() => { let k = rng.below(b.len() as u64) as usize; b[k] = *rng.pick(&[0u8, 1, 0x7F, 0x80, 0x81, 0xFF, 0xFE, 2, 31, 32, 33, 64, 65, 66]); }
                                4 if !b.is_empty() => { let k = rng.below(b.len() as u64) as usize; b[k] = rng.next() as u8; }
                                5 => { let k = rng.below(b.len() as u64 + 1) as usize; b.insert(k, *rng.pick(&[0u8, 0x80, 0xFF, 1])); }
                                _ if !b.is_empty() => { let k = rng.below(b.len() as u64) as usize; b.remove(k); }
                                _ => { b = vec![0xFF; rng.range(1, 12) as usize]; }
                            }
                            push(&mut out, format!("TPostcardDamaged {} {} {}", kind, blist(&b), coq_bool(accepts(&b))), "postcard_damaged", json!({"kind": kind, "len": b.len(), "accepted": accepts(&b)}));
                        } else {
                            push(&mut out, format!("TPostcard {} {} {}", lit, blist(&bytes), coq_bool(ok)), "postcard_bytes", json!({"kind": kind, "len": bytes.len()}));
                        }
                    }
                    3 => {
                        fn rt<T: serde::Serialize + serde::de::DeserializeOwned + PartialEq>(v: &T) -> (bool, bool) {
                            let j = serde_json::to_string(v).ok().and_then(|t| serde_json::from_str::<T>(&t).ok()).map(|b| &b == v).unwrap_or(false)
                                && serde_json::to_value(v).ok().and_then(|t| serde_json::from_value::<T>(t).ok()).map(|b| &b == v).unwrap_or(false);
                            let p = postcard::to_allocvec(v).ok().and_then(|b| postcard::from_bytes::<T>(&b).ok()).map(|b| &b == v).unwrap_or(false);
                            (j, p)
                        }
                        let kind = rng.range(1, 9);
                        let mut salt = [0u8; 32]; for b in salt.iter_mut() { *b = rng.next() as u8; }
                        let mut sg = [0u8; 64]; for b in sg.iter_mut() { *b = rng.next() as u8; }
                        let sig = essential_types::Signature(sg, rng.next() as u8);
                        let contract = Contract { predicates: (0..rng.range(0, 3)).map(|_| rand_pred(&mut rng)).collect(), salt };
                        let ((j, p), d) = match kind {
                            1 => (rt(&rand_pred(&mut rng)), true),
                            2 => (rt(&contract), true),
                            3 => (rt(&essential_types::contract::SignedContract { contract, signature: sig }), true),
                            4 => (rt(&Program((0..rng.range(0, 40)).map(|_| rng.next() as u8).collect())), true),
                            5 => (rt(&Mutation { key: (0..rng.range(0, 3)).map(|_| rng.word()).collect(), value: (0..rng.range(0, 3)).map(|_| rng.word()).collect() }), true),
                            6 => (rt(&rand_sol(&mut rng)), true),
                            7 => { let s = rand_sol(&mut rng); (rt(&s.predicate_to_solve), format!("{}", s.predicate_to_solve).len() == 129) }
                            8 => (rt(&sig), format!("{}", sig).parse::<essential_types::Signature>().map(|b| b == sig).unwrap_or(false)),
                            _ => { let c = ContentAddress(salt); (rt(&c), format!("{}", c).parse::<ContentAddress>().map(|b| b == c).unwrap_or(false) && format!("{:x}", c).parse::<ContentAddress>().map(|b| b == c).unwrap_or(false)) }
                        };
                        push(&mut out, format!("TSerdeOther {} {} {} {}", kind, coq_bool(j), coq_bool(p), coq_bool(d)), "serde_other", json!(kind));
                    }
                    0 => {
                        let ws: Vec<Word> = (0..rng.range(0, 5)).map(|_| rng.word()).collect();
                        let h = convert::hex_str_from_words(&ws);
                        push(&mut out, format!("THexWords {} {} {} {}", zlist(ws.iter().copied()), codes(&h), optw(convert::words_from_hex_str(&h)), optw(convert::words_from_hex_str(&h.to_uppercase()))), "hex_words", json!(h));
                    }
                    1 => {
                        let optb = |r: Option<Vec<u8>>| -> String { match r { Some(v) => format!("(Some {})", blist(&v)), None => "None".into() } };
                        if rng.chance(1, 2) {
                            let mut a = [0u8; 32]; for b in a.iter_mut() { *b = rng.next() as u8; }
                            let shown = format!("{}", ContentAddress(a));
                            let p1 = shown.parse::<ContentAddress>().ok().map(|c| c.0.to_vec());
                            let p2 = shown.to_lowercase().parse::<ContentAddress>().ok().map(|c| c.0.to_vec());
                            push(&mut out, format!("TDisplay 32 {} {} {} {}", blist(&a), codes(&shown), optb(p1), optb(p2)), "display_address", json!(shown));
                        } else {
                            let mut sg = [0u8; 64]; for b in sg.iter_mut() { *b = rng.next() as u8; }
                            let sig = essential_types::Signature(sg, rng.next() as u8);
                            let bytes: [u8; 65] = sig.clone().into();
                            let shown = format!("{}", sig);
                            let back = |t: &str| -> Option<Vec<u8>> { t.parse::<essential_types::Signature>().ok().map(|s| { let b: [u8; 65] = s.into(); b.to_vec() }) };
                            push(&mut out, format!("TDisplay 65 {} {} {} {}", blist(&bytes), codes(&shown), optb(back(&shown)), optb(back(&shown.to_lowercase()))), "display_signature", json!(shown));
                        }
                    }
                    _ => {
                        let sols: Vec<Solution> = (0..rng.range(0, 3)).map(|_| rand_sol(&mut rng)).collect();
                        let set = SolutionSet { solutions: sols.clone() };
                        let tree = serde_json::to_value(&set).unwrap();
                        fn sval(v: &serde_json::Value) -> String {
                            match v {
                                serde_json::Value::Number(n) => format!("(SNum {})", z(n.as_i64().unwrap())),
                                serde_json::Value::String(t) => format!("(SStr {})", zlist(t.bytes().map(|b| b as i64))),
                                serde_json::Value::Array(a) => format!("(SSeq [{}])", a.iter().map(sval).collect::<Vec<_>>().join("; ")),
                                serde_json::Value::Object(m) => format!("(SMap [{}])", m.iter().map(|(k, x)| format!("({}%string, {})", coq_str(k), sval(x))).collect::<Vec<_>>().join("; ")),
                                _ => "(SNum (-424242))".into(),
                            }
                        }
                        let back_ok = serde_json::from_value::<SolutionSet>(tree.clone()).map(|b| b == set).unwrap_or(false)
                            && serde_json::from_str::<SolutionSet>(&serde_json::to_string(&set).unwrap()).map(|b| b == set).unwrap_or(false);
                        // the legacy field names, at both levels
                        let legacy = serde_json::to_string(&set).unwrap().replace("\"solutions\"", "\"data\"").replace("\"predicate_data\"", "\"decision_variables\"");
                        let legacy_ok = serde_json::from_str::<SolutionSet>(&legacy).map(|b| b == set).unwrap_or(false);
                        let pc = postcard::to_allocvec(&set).unwrap();
                        let postcard_ok = postcard::from_bytes::<SolutionSet>(&pc).map(|b| b == set).unwrap_or(false);
                        push(&mut out, format!("TSerdeSolutionSet {} {} {} {} {}", list_of(&sols, coq_sol), sval(&tree), coq_bool(back_ok), coq_bool(legacy_ok), coq_bool(postcard_ok)), "serde_solution_set", json!(sols.len()));
                    }
                }
            }
            "addr" => {
                match rng.below(5) {
                    0 => { let mut p = rand_pred(&mut rng);
                           // now and then a predicate whose encoding crosses the 1 KiB / 2 KiB / 4 KiB marks (streaming or chunked hashing)
                           if rng.chance(1, 5) {
                               let n = *rng.pick(&[29usize, 30, 31, 45, 60, 61, 90, 120, 121]); let e = rng.range(0, 40) as usize;
                               p = Predicate { nodes: (0..n).map(|_| Node { edge_start: if rng.chance(1, 2) { u16::MAX } else { rng.below(e as u64 + 1) as u16 },
                                   program_address: ContentAddress({ let mut a = [0u8; 32]; for b in a.iter_mut() { *b = rng.next() as u8; } a }) }).collect(),
                                   edges: (0..e).map(|_| rng.below(n as u64) as u16).collect() };
                           }
                           push(&mut out, format!("TAddrPredicate {} {}", coq_pred(&p), blist(&content_addr(&p).0)), "addr_predicate", json!(p.nodes.len())); }
                    1 => { let n = if rng.chance(1, 6) { *rng.pick(&[1023i64, 1024, 1025, 2049, 4096, 4100]) } else { rng.range(0, 150) };
                           let bs: Vec<u8> = (0..n).map(|_| rng.next() as u8).collect(); push(&mut out, format!("TAddrProgram {} {}", blist(&bs), blist(&content_addr(&Program(bs.clone())).0)), "addr_program", json!(bs.len())); }
                    2 => { let s = rand_sol(&mut rng); let pc = essential_hash::serialize(&s); push(&mut out, format!("TAddrSolution {} {} {}", coq_sol(&s), blist(&pc), blist(&content_addr(&s).0)), "addr_solution", json!(pc.len())); }
                    3 => {
                        let mut ps: Vec<Predicate> = (0..rng.range(0, 4)).map(|_| rand_pred(&mut rng)).collect();
                        if ps.len() >= 2 && rng.chance(1, 5) { let d = ps[0].clone(); ps.push(d); }      // a repeated predicate
                        let mut salt = [0u8; 32]; if rng.chance(3, 4) { for b in salt.iter_mut() { *b = rng.next() as u8; } }
                        let c = Contract { predicates: ps.clone(), salt };
                        let from = essential_hash::contract_addr::from_predicate_addrs(ps.iter().map(content_addr), &salt);
                        let pa: Vec<String> = perms(&ps).into_iter().map(|q| blist(&content_addr(&Contract { predicates: q, salt }).0)).collect();
                        push(&mut out, format!("TAddrContract {} {} {} {} [{}]", list_of(&ps, coq_pred), blist(&salt), blist(&content_addr(&c).0), blist(&from.0), pa.join("; ")), "addr_contract", json!(ps.len()));
                    }
                    _ => {
                        let mut sols: Vec<Solution> = (0..rng.range(0, 4)).map(|_| rand_sol(&mut rng)).collect();
                        if sols.len() >= 2 && rng.chance(1, 5) { let d = sols[0].clone(); sols.push(d); }     // two solutions with equal addresses
                        let set = SolutionSet { solutions: sols.clone() };
                        let from = essential_hash::solution_set_addr::from_solution_addrs(sols.iter().map(content_addr));
                        let pa: Vec<String> = perms(&sols).into_iter().map(|q| blist(&content_addr(&SolutionSet { solutions: q }).0)).collect();
                        push(&mut out, format!("TAddrSet {} {} {} [{}]", list_of(&sols, coq_sol), blist(&content_addr(&set).0), blist(&from.0), pa.join("; ")), "addr_set", json!(sols.len()));
                    }
                }
            }
            _ => {
                match rng.below(4) {
                    0 => { let n = *rng.pick(&[0i64, 1, 999, 1000, 1001, 1001, 65535, 65536, 66536, 66537, 131072]); let e = *rng.pick(&[0i64, 1000, 1001, 1001, 65535, 65536, 66536, 66537, 131072]);
                           let p = Predicate { nodes: vec![Node { edge_start: u16::MAX, program_address: ContentAddress([0; 32]) }; n as usize], edges: vec![0; e as usize] };
                           push(&mut out, format!("TCheckPredicate {} {} {}", n, e, coq_bool(chk::predicate::check(&p).is_ok())), "check_predicate", json!([n, e])); }
                    1 => { let k = *rng.pick(&[0usize, 1, 99, 100, 101]);
                           let sizes: Vec<(i64, i64)> = (0..k).map(|i| if i == k / 2 { (*rng.pick(&[1000i64, 1001, 3, 65536, 66000]), *rng.pick(&[1000i64, 1001, 0, 65536, 65543])) } else { (1, 0) }).collect();
                           let ps: Vec<Predicate> = sizes.iter().map(|(n, e)| Predicate { nodes: vec![Node { edge_start: u16::MAX, program_address: ContentAddress([0; 32]) }; *n as usize], edges: vec![0; *e as usize] }).collect();
                           push(&mut out, format!("TCheckContract {} {}", list_of(&sizes, |s| format!("({}, {})", s.0, s.1)), coq_bool(chk::predicate::check_contract(&ps).is_ok())), "check_contract", json!(k)); }
                    _ => {
                        // boundary grid: each dimension at / just below / just above its limit, one or two at a time
                        let nsol = *rng.pick(&[1usize, 1, 2, 3, 100, 101, 0]);
                        let mut sols: Vec<Solution> = (0..nsol).map(|i| Solution { predicate_to_solve: PredicateAddress { contract: ContentAddress([1; 32]), predicate: ContentAddress([i as u8; 32]) }, predicate_data: vec![], state_mutations: vec![] }).collect();
                        if !sols.is_empty() {
                            // the offending element sits at a random position: any solution, any slot, any mutation
                            let which = if sols.len() >= 24 { *rng.pick(&[0usize, sols.len() - 1]) } else { rng.below(sols.len() as u64) as usize };
                            let big_first = which == 0 || sols.len() < 24;
                            let _ = big_first; let target = if sols.len() >= 24 { 0 } else { which }; let s = &mut sols[target];
                            let slots = *rng.pick(&[0usize, 1, 3, 100, 101]);
                            let vlen = *rng.pick(&[0usize, 3, 10000, 10001]);
                            s.predicate_data = if slots >= 24 { vec![vec![7; vlen]; slots] } else {
                                let at = rng.below(slots.max(1) as u64) as usize;
                                (0..slots).map(|i| if i == at { vec![7; vlen] } else { vec![1, 2] }).collect() };
                            match rng.below(7) {
                                0 => { let total = *rng.pick(&[999usize, 1000, 1001]); s.state_mutations = (0..total).map(|i| Mutation { key: vec![i as Word], value: vec![1] }).collect(); }
                                1 => { let k = *rng.pick(&[1usize, 1, 2, 3]); let at = rng.below(k as u64) as usize; s.state_mutations = (0..k).map(|i| Mutation { key: if i == at { vec![3; *rng.pick(&[1000usize, 1001])] } else { vec![i as Word] }, value: vec![1] }).collect(); }
                                2 => { let k = *rng.pick(&[1usize, 1, 2, 3]); let at = rng.below(k as u64) as usize; s.state_mutations = (0..k).map(|i| Mutation { key: vec![i as Word], value: if i == at { vec![5; *rng.pick(&[10000usize, 10001])] } else { vec![] } }).collect(); }
                                3 => { s.state_mutations = vec![Mutation { key: vec![3], value: vec![1] }, Mutation { key: vec![4], value: vec![] }, Mutation { key: vec![3], value: vec![2] }]; }
                                4 => { s.state_mutations = vec![Mutation { key: vec![4], value: vec![1] }, Mutation { key: vec![3], value: vec![] }, Mutation { key: vec![5], value: vec![2] }, Mutation { key: vec![5], value: vec![2] }]; }
                                _ => { s.state_mutations = vec![Mutation { key: vec![3], value: vec![1] }]; }
                            }
                        }
                        if sols.len() >= 2 && sols.len() <= 3 && rng.chance(1, 2) { let m = sols[0].state_mutations.first().cloned(); if let Some(m) = m { sols[1].state_mutations.push(m); } }
                        let ok = chk::solution::check_set(&SolutionSet { solutions: sols.clone() }).is_ok();
                        let perm_oks: Vec<String> = if sols.len() <= 3 { perms(&sols).into_iter().map(|q| coq_bool(chk::solution::check_set(&SolutionSet { solutions: q }).is_ok()).to_string()).collect() }
                            else { let mut r = sols.clone(); r.reverse(); vec![coq_bool(chk::solution::check_set(&SolutionSet { solutions: r }).is_ok()).to_string()] };
                        let lit = if sols.len() >= 24 {
                            format!("({} :: map (fun i => Build_solution (repeat 1 32) (repeat i 32) [] []) (zrange_from 1 {}))", coq_sol(&sols[0]), sols.len() - 1)
                        } else { list_of(&sols, coq_sol) };
                        push(&mut out, format!("TCheckSet {} {} [{}]", lit, coq_bool(ok), perm_oks.join("; ")), "check_set", json!({"solutions": nsol, "ok": ok}));
                    }
                }
            }
        } }));
        if r.is_err() { push(&mut out, "TPanicked".into(), "impl_panic", json!({"kind": kind, "round": i})); }
    }
    out.write(&a.out, a.shards, "types");
}
