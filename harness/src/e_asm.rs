//! Engines `asm` (C13: codec bijection, opcode table, short names) and `fx` (C15: effect analysis).
use crate::util::*;
use essential_asm::{self as asm, opcode::ParseOp, Op, Opcode, ToBytes, ToOpcode};
use serde_json::json;
use std::panic::catch_unwind;

include!(concat!(env!("OUT_DIR"), "/shorts.rs"));

pub fn all_ops() -> Vec<Op> { short_table().into_iter().map(|(_, op)| op).collect() }

fn with_imm(op: &Op, w: i64) -> Op {
    match op { Op::Stack(asm::Stack::Push(_)) => Op::Stack(asm::Stack::Push(w)), o => o.clone() }
}

fn presult(bytes: &[u8]) -> (String, Option<Vec<Op>>) {
    let b = bytes.to_vec();
    let r = catch_unwind(move || asm::from_bytes(b.iter().copied()).collect::<Result<Vec<_>, _>>());
    // the same bytes through iterators that do not know their length (a filter, a generator function, a chain of
    // one-byte pieces): the result must not depend on where the bytes come from
    let (b2, b3, b4) = (bytes.to_vec(), bytes.to_vec(), bytes.to_vec());
    let others = [
        catch_unwind(move || asm::from_bytes(b2.iter().copied().filter(|_| true)).collect::<Result<Vec<_>, _>>()),
        catch_unwind(move || { let mut i = 0; asm::from_bytes(std::iter::from_fn(move || { let x = b3.get(i).copied(); i += 1; x })).collect::<Result<Vec<_>, _>>() }),
        catch_unwind(move || asm::from_bytes(b4.iter().flat_map(|x| std::iter::once(*x))).collect::<Result<Vec<_>, _>>()),
    ];
    let key = |r: &std::thread::Result<Result<Vec<Op>, asm::FromBytesError>>| match r { Ok(Ok(ops)) => format!("ok {:?}", ops), Ok(Err(e)) => format!("err {:?}", e), Err(_) => "panic".to_string() };
    if others.iter().any(|o| key(o) != key(&r)) { return ("PRPanic (* the result depends on the kind of byte iterator *)".into(), None); }
    // the discriminant of the generated (repr(u8)) opcode enums must be the declared opcode byte as well
    if let Ok(Ok(ops)) = &r {
        for op in ops {
            let oc = op.to_opcode();
            let declared: u8 = oc.into();
            let cast: u8 = match oc {
                asm::Opcode::Access(x) => x as u8, asm::Opcode::Alu(x) => x as u8, asm::Opcode::Compute(x) => x as u8, asm::Opcode::Crypto(x) => x as u8,
                asm::Opcode::Memory(x) => x as u8, asm::Opcode::ParentMemory(x) => x as u8, asm::Opcode::Pred(x) => x as u8, asm::Opcode::Stack(x) => x as u8,
                asm::Opcode::StateRead(x) => x as u8, asm::Opcode::TotalControlFlow(x) => x as u8,
            };
            if cast != declared { return ("PRPanic (* `as u8` of the opcode enum differs from the declared opcode byte *)".into(), None); }
        }
    }
    match r {
        Ok(Ok(ops)) => (format!("(PROk {})", coq_ops(&ops)), Some(ops)),
        Ok(Err(asm::FromBytesError::InvalidOpcode(e))) => (format!("(PRInvalid {})", e.0), None),
        Ok(Err(asm::FromBytesError::NotEnoughBytes(_))) => ("PRNotEnough".into(), None),
        Err(_) => ("PRPanic".into(), None),
    }
}

fn bytes_case(bytes: &[u8]) -> (String, serde_json::Value) {
    let (p, ops) = presult(bytes);
    let (reenc, raw) = match &ops {
        Some(ops) => {
            let re: Vec<u8> = asm::to_bytes(ops.iter().cloned()).collect();
            let raw = list_of(ops, |op| {
                let ob: u8 = op.to_opcode().into();
                let tb: Vec<u8> = op.to_bytes().into_iter().collect();
                format!("({}, {}, {})", ob, coq_str(&op_path(op)), blist(&tb[1..]))
            });
            (blist(&re), raw)
        }
        None => ("[]".into(), "[]".into()),
    };
    (format!("CBytes {} {} {} {}", blist(bytes), p, reenc, raw), json!({"kind": "bytes", "bytes": bytes, "impl": p}))
}

fn ops_case(ops: &[Op]) -> (String, serde_json::Value) {
    let bytes: Vec<u8> = asm::to_bytes(ops.iter().cloned()).collect();
    let (back, _) = presult(&bytes);
    (format!("COps {} {} {}", coq_ops(ops), blist(&bytes), back),
     json!({"kind": "ops", "ops": format!("{:?}", ops), "bytes": bytes}))
}

fn random_ops(rng: &mut Rng, all: &[Op], n: usize) -> Vec<Op> {
    (0..n).map(|_| {
        if rng.chance(1, 3) { Op::Stack(asm::Stack::Push(rng.word())) } else { with_imm(rng.pick(all), rng.word()) }
    }).collect()
}

pub fn run_asm(a: &Args) {
    let all = all_ops();
    let mut out = Out::new("From EB Require Import Corr.RunAsm.", "asm_case", &["asm_mismatches", "asm_spec_failures"]);
    out.only = a.only;
    let mut id = 0u64;
    let mut push = |out: &mut Out, c: (String, serde_json::Value), kind: &str| {
        let nt = c.0.len() > 40;   // non-trivial: more than a single byte / empty op list
        out.push(id, c.0, c.1, nt); out.bump(kind); id += 1;
    };

    // the 256-row opcode table as the compiled crate implements it
    let rows: Vec<String> = (0..=255u8).map(|b| match Opcode::try_from(b) {
        Ok(opc) => {
            let mut it = std::iter::repeat(0u8).take(8);
            let op = opc.parse_op(&mut it).expect("8 bytes suffice");
            let consumed = 8 - it.count();
            let back: u8 = opc.into();
            format!("({}, true, {}, {}, {})", b, coq_str(&op_path(&op)), back, consumed)
        }
        Err(_) => format!("({}, false, \"\", 0, 0)", b),
    }).collect();
    push(&mut out, (format!("CTable [{}]", rows.join("; ")), json!({"kind": "table"})), "table");
    // short constants
    let shorts: Vec<String> = short_table().iter().map(|(name, op)| {
        let ob: u8 = op.to_opcode().into();
        let n = op.to_bytes().into_iter().count() - 1;
        format!("({}, {}, {})", coq_str(name), ob, n)
    }).collect();
    push(&mut out, (format!("CShorts [{}]", shorts.join("; ")), json!({"kind": "shorts"})), "shorts");

    // every op alone, every ordered pair of ops (as one sequence per first op)
    for op in &all { push(&mut out, ops_case(&[with_imm(op, -2)]), "ops_single"); }
    for x in &all {
        let mut seq = vec![];
        for y in &all { seq.push(with_imm(x, 0x0102030405060708)); seq.push(with_imm(y, -0x0102030405060708)); }
        push(&mut out, ops_case(&seq), "ops_pairs");
    }
    // Push immediates: bit walking, complements, boundary pool
    let mut imms: Vec<i64> = vec![];
    for k in 0..64 { imms.push((1u64 << k) as i64); imms.push(!(1u64 << k) as i64); }
    imms.extend_from_slice(BOUNDARY);
    for chunk in imms.chunks(16) {
        let ops: Vec<Op> = chunk.iter().map(|w| Op::Stack(asm::Stack::Push(*w))).collect();
        push(&mut out, ops_case(&ops), "ops_imm");
    }
    // every single byte; every byte followed by a valid op; truncated Push at every length
    for b in 0..=255u8 { push(&mut out, bytes_case(&[b]), "bytes_single"); }
    for b in 0..=255u8 { push(&mut out, bytes_case(&[2, b, 3]), "bytes_mid"); }
    for n in 0..=9usize {
        let mut v = vec![3u8, 1];
        v.extend((0..n).map(|i| 0x80 + i as u8));
        push(&mut out, bytes_case(&v), "bytes_trunc");
    }
    if a.thorough {
        for b0 in 0..=255u8 { for b1 in (0..=255u8).step_by(1) {
            if (b0 as usize * 256 + b1 as usize) % 4 == 0 { push(&mut out, bytes_case(&[b0, b1]), "bytes_pair"); }
        } }
    }
    // random: op sequences, their serialisations mutated, uniform bytes
    let n = a.count;
    for i in 0..n as u64 {
        let mut rng = Rng::for_case(a.seed, 13, i);
        match rng.below(4) {
            0 => { let len = rng.range(0, 40) as usize; let ops = random_ops(&mut rng, &all, len); push(&mut out, ops_case(&ops), "ops_random"); }
            1 => {
                let len = rng.range(1, 30) as usize;
                let ops = random_ops(&mut rng, &all, len);
                let mut bytes: Vec<u8> = asm::to_bytes(ops).collect();
                match rng.below(3) {
                    0 => { let k = rng.below(bytes.len() as u64 + 1) as usize; bytes.truncate(k); }
                    1 => { let k = rng.below(bytes.len() as u64) as usize; bytes[k] = rng.next() as u8; }
                    _ => { let k = rng.below(bytes.len() as u64 + 1) as usize; bytes.insert(k, rng.next() as u8); }
                }
                push(&mut out, bytes_case(&bytes), "bytes_mutated");
            }
            2 => {
                let len = rng.range(0, 24) as usize;
                let bytes: Vec<u8> = (0..len).map(|_| { let op = rng.pick(&all).clone(); let b: u8 = op.to_opcode().into(); if rng.chance(1, 6) { rng.next() as u8 } else { b } }).collect();
                push(&mut out, bytes_case(&bytes), "bytes_opcodes");
            }
            _ => { let len = rng.range(0, 20) as usize; let bytes: Vec<u8> = (0..len).map(|_| rng.next() as u8).collect(); push(&mut out, bytes_case(&bytes), "bytes_uniform"); }
        }
    }
    out.write(&a.out, a.shards, "asm");
}

// ---------------------------------------------------------------- C15
fn fx_case(ops: &[Op]) -> (String, serde_json::Value) {
    use asm::effects::{analyze, bytes_contains_any, Effects};
    let bytes: Vec<u8> = asm::to_bytes(ops.iter().cloned()).collect();
    let an = analyze(ops).bits();
    let answers: Vec<String> = (0..64u8).map(|fl| coq_bool(bytes_contains_any(&bytes, Effects::from_bits_retain(fl))).to_string()).collect();
    (format!("CFx {} {} {} [{}]", coq_ops(ops), blist(&bytes), an, answers.join("; ")),
     json!({"kind": "fx", "ops": format!("{:?}", ops), "analyze": an}))
}

fn fx_raw_case(bytes: &[u8]) -> (String, serde_json::Value) {
    use asm::effects::{bytes_contains_any, Effects};
    let b = bytes.to_vec();
    let answers: Vec<String> = match catch_unwind(move || (0..64u8).map(|fl| bytes_contains_any(&b, Effects::from_bits_retain(fl))).collect::<Vec<bool>>()) {
        Ok(v) => v.into_iter().map(|x| coq_bool(x).to_string()).collect(),
        Err(_) => vec![],            // a panic: no answers at all
    };
    (format!("CFxRaw {} [{}]", blist(bytes), answers.join("; ")), json!({"kind": "fx_raw", "bytes": bytes}))
}

pub fn run_fx(a: &Args) {
    let all = all_ops();
    let mut out = Out::new("From EB Require Import Corr.RunAsm.", "asm_case", &["asm_mismatches", "asm_spec_failures"]);
    out.only = a.only;
    let mut id = 0u64;
    let mut push = |out: &mut Out, c: (String, serde_json::Value), kind: &str| {
        let nt = c.0.len() > 40;   // non-trivial: more than a single byte / empty op list
        out.push(id, c.0, c.1, nt); out.bump(kind); id += 1;
    };
    push(&mut out, fx_case(&[]), "empty");
    for op in &all { push(&mut out, fx_case(&[op.clone()]), "single"); }
    // immediates containing every opcode byte at every position, followed / not followed by an effect op
    let fx_ops: Vec<Op> = all.iter().filter(|o| {
        let p = op_path(o); p.starts_with("StateRead.") || p == "Access.ThisAddress" || p == "Access.ThisContractAddress"
    }).cloned().collect();
    for op in &all {
        let b: u8 = op.to_opcode().into();
        for pos in 0..8 {
            let mut imm = [0x02u8; 8];
            imm[pos] = b;
            let w = i64::from_be_bytes(imm);
            let tail = fx_ops[(b as usize + pos) % fx_ops.len()].clone();
            push(&mut out, fx_case(&[Op::Stack(asm::Stack::Push(w)), Op::Stack(asm::Stack::Pop)]), "imm_only");
            if (b as usize + pos) % 3 == 0 { push(&mut out, fx_case(&[Op::Stack(asm::Stack::Push(w)), tail]), "imm_then_fx"); }
        }
    }
    // all-effect-byte immediates
    for f in &fx_ops {
        let b: u8 = f.to_opcode().into();
        let w = i64::from_be_bytes([b; 8]);
        push(&mut out, fx_case(&[Op::Stack(asm::Stack::Push(w))]), "imm_fx_bytes");
        push(&mut out, fx_case(&[Op::Stack(asm::Stack::Push(w)), f.clone(), Op::Stack(asm::Stack::Push(w))]), "imm_fx_bytes");
    }
    // all 64 subsets of effect ops, in program order and reversed
    for mask in 0..64usize {
        let mut ops = vec![];
        for (k, f) in fx_ops.iter().enumerate() { if mask >> k & 1 == 1 { ops.push(Op::Stack(asm::Stack::Push(k as i64))); ops.push(f.clone()); } }
        push(&mut out, fx_case(&ops), "subset");
        ops.reverse();
        push(&mut out, fx_case(&ops), "subset_rev");
    }
    // arbitrary byte strings: truncated Push at the end, lone opcodes, random bytes (the scan runs on untrusted bytecode)
    for n in 0..=9usize { let mut v = vec![0x82u8, 0x01]; v.extend((0..n).map(|i| 0x80 + i as u8)); push(&mut out, fx_raw_case(&v), "raw_truncated_push"); }
    push(&mut out, fx_raw_case(&[0x01]), "raw_truncated_push");
    for i in 0..(a.count as u64 / 4) {
        let mut rng = Rng::for_case(a.seed, 16, i);
        let len = rng.range(0, 24) as usize;
        let bytes: Vec<u8> = (0..len).map(|_| if rng.chance(1, 3) { 0x01 } else if rng.chance(1, 3) { *rng.pick(&[0x80u8, 0x81, 0x82, 0x83, 0x30, 0x31]) } else { rng.next() as u8 }).collect();
        push(&mut out, fx_raw_case(&bytes), "raw_random");
    }
    for i in 0..a.count as u64 {
        let mut rng = Rng::for_case(a.seed, 15, i);
        let len = rng.range(0, 30) as usize;
        let ops: Vec<Op> = (0..len).map(|_| match rng.below(6) {
            0 => rng.pick(&fx_ops).clone(),
            1 => { let b: u8 = rng.pick(&fx_ops).to_opcode().into(); let mut imm = [0u8; 8]; for x in imm.iter_mut() { *x = if rng.chance(1, 2) { b } else { rng.next() as u8 }; } Op::Stack(asm::Stack::Push(i64::from_be_bytes(imm))) }
            2 => Op::Stack(asm::Stack::Push(rng.word())),
            _ => with_imm(rng.pick(&all), rng.word()),
        }).collect();
        push(&mut out, fx_case(&ops), "random");
    }
    out.write(&a.out, a.shards, "fx");
}

// ---------------------------------------------------------------- C14: mapped bytecode structure
fn optop(o: &Option<Op>) -> String { match o { Some(op) => format!("(Some {})", coq_op(op)), None => "None".into() } }

fn mapped_case(bytes: &[u8]) -> (String, serde_json::Value) {
    use essential_vm::BytecodeMapped;
    let (p, ops) = presult(bytes);
    let owned = catch_unwind(|| BytecodeMapped::try_from(bytes.to_vec()));
    let b2 = bytes.to_vec();
    let borrowed_ok = catch_unwind(move || BytecodeMapped::try_from(&b2[..]).is_ok()).unwrap_or(false);
    let (ok, err, indices, mops, random) = match owned {
        Ok(Ok(m)) => {
            let idx: Vec<i64> = m.op_indices().iter().map(|i| *i as i64).collect();
            let m2 = m.clone();
            let all: Vec<Op> = catch_unwind(move || m2.ops().collect()).unwrap_or_default();
            let n = all.len();
            // a panic of op(i) is recorded as an operation no program of the case contains
            let rnd: Vec<Option<Op>> = (0..n + 2).map(|i| { let m3 = m.clone(); catch_unwind(move || m3.op(i)).unwrap_or(Some(Op::Stack(asm::Stack::Push(-987654321987)))) }).collect();
            (borrowed_ok, "(PROk [])".to_string(), idx, all, rnd)
        }
        Ok(Err(asm::FromBytesError::InvalidOpcode(e))) => (false, format!("(PRInvalid {})", e.0), vec![], vec![], vec![]),
        Ok(Err(asm::FromBytesError::NotEnoughBytes(_))) => (false, "PRNotEnough".into(), vec![], vec![], vec![]),
        Err(_) => (false, "PRPanic".into(), vec![], vec![], vec![]),
    };
    let (fib, fii) = match &ops {
        Some(ops) => {
            let m: essential_vm::BytecodeMapped = ops.iter().cloned().collect();
            // the same operations through iterators whose size hints are loose (no lower bound, a huge upper bound)
            let (o2, o3) = (ops.clone(), ops.clone());
            let loose = [
                catch_unwind(move || (0..usize::MAX).map_while(|i| o2.get(i).cloned()).collect::<essential_vm::BytecodeMapped>()),
                catch_unwind(move || o3.into_iter().filter(|_| true).collect::<essential_vm::BytecodeMapped>()),
            ];
            let same = loose.iter().all(|l| matches!(l, Ok(x) if x.bytecode() == m.bytecode() && x.op_indices() == m.op_indices()));
            if same { (m.bytecode().to_vec(), m.op_indices().iter().map(|i| *i as i64).collect::<Vec<i64>>()) }
            else { (vec![0xEE], vec![-1]) }      // building depends on the kind of iterator (or panics): flagged by both evaluators
        }
        None => (vec![], vec![]),
    };
    (format!("Build_mapped_case {} {} {} {} {} {} {} {} {}", blist(bytes), p, coq_bool(ok), err, zlist(indices.iter().copied()),
             coq_ops(&mops), list_of(&random, optop), blist(&fib), zlist(fii.iter().copied())),
     json!({"kind": "mapped", "bytes": bytes, "parse": p}))
}

pub fn run_mapped(a: &Args) {
    let all = all_ops();
    let mut out = Out::new("From EB Require Import Corr.RunMapped.", "mapped_case", &["mapped_mismatches", "mapped_spec_failures"]);
    out.only = a.only;
    let mut id = 0u64;
    let mut push = |out: &mut Out, c: (String, serde_json::Value), kind: &str| { let nt = c.0.len() > 120; out.push(id, c.0, c.1, nt); out.bump(kind); id += 1; };
    push(&mut out, mapped_case(&[]), "empty");
    for b in 0..=255u8 { push(&mut out, mapped_case(&[2, b, 3]), "invalid_mid"); }
    // an invalid opcode at every position of a valid program; truncated Push at the end
    let prog: Vec<Op> = vec![all[0].clone(), with_imm(&all[0], -1), all[5].clone(), with_imm(&all[0], 7), all[20].clone()];
    let pb: Vec<u8> = asm::to_bytes(prog.iter().cloned()).collect();
    for k in 0..=pb.len() { let mut v = pb.clone(); v.insert(k, 0xEE); push(&mut out, mapped_case(&v), "invalid_at"); }
    for k in 0..=pb.len() { push(&mut out, mapped_case(&pb[..k]), "truncated"); }
    for i in 0..a.count as u64 {
        let mut rng = Rng::for_case(a.seed, 14, i);
        let len = rng.range(0, 30) as usize;
        let ops = random_ops(&mut rng, &all, len);
        let mut bytes: Vec<u8> = asm::to_bytes(ops).collect();
        match rng.below(5) {
            0 => { let k = rng.below(bytes.len() as u64 + 1) as usize; bytes.truncate(k); push(&mut out, mapped_case(&bytes), "rand_truncated"); }
            1 if !bytes.is_empty() => { let k = rng.below(bytes.len() as u64) as usize; bytes[k] = rng.next() as u8; push(&mut out, mapped_case(&bytes), "rand_mutated"); }
            _ => push(&mut out, mapped_case(&bytes), "rand_valid"),
        }
    }
    out.write(&a.out, a.shards, "mapped");
}
