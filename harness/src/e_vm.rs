//! Engine `vm`: generated VM cases by family (see DESIGN.md section 5, item 4).
use crate::util::*;
use crate::vmrun::*;
use essential_asm::{self as asm, short::*, Op};
use essential_types::{solution::{Mutation, Solution}, ContentAddress, PredicateAddress, Word};

fn push(w: Word) -> Op { PUSH(w) }

fn base_stack(rng: &mut Rng) -> Vec<Word> {
    match rng.below(12) {
        0 => vec![],
        1..=7 => (0..rng.range(1, 8)).map(|_| rng.small()).collect(),
        8 => (0..rng.range(9, 40)).map(|_| rng.word()).collect(),
        9 => (0..4096 - rng.range(0, 6)).map(|i| i as Word).collect(),
        10 => (0..4096).map(|i| (i % 7) as Word).collect(),
        _ => (0..rng.range(1, 5)).map(|_| *rng.pick(BOUNDARY)).collect(),
    }
}
fn base_memory(rng: &mut Rng) -> Vec<Word> {
    match rng.below(10) {
        0..=2 => vec![],
        3..=6 => (0..rng.range(1, 12)).map(|_| rng.small()).collect(),
        7 => (0..rng.range(13, 64)).map(|_| rng.word()).collect(),
        8 => (0..10240 - rng.range(0, 4)).map(|i| i as Word).collect(),
        _ => (0..10240).map(|i| (i % 5) as Word).collect(),
    }
}

/// Encodes a set the way EqSet expects it: elem words, elem len, ..., total len.
fn encode_set(elems: &[Vec<Word>]) -> Vec<Word> {
    let mut v = vec![];
    for e in elems { v.extend(e.iter().copied()); v.push(e.len() as Word); }
    let n = v.len() as Word;
    v.push(n);
    v
}

fn some_solutions(rng: &mut Rng) -> (Vec<Solution>, usize) {
    let n = rng.range(1, 4) as usize;
    let sols: Vec<Solution> = (0..n).map(|i| {
        let mut c = [0u8; 32]; let mut p = [0u8; 32];
        for k in 0..32 { c[k] = rng.next() as u8; p[k] = rng.next() as u8; }
        if rng.chance(1, 4) { c = [0xFF; 32]; }
        if rng.chance(1, 6) { p[0] = 0x80; p[8] = 0xFF; }
        let slots = rng.range(0, 4) as usize;
        Solution { predicate_to_solve: PredicateAddress { contract: ContentAddress(c), predicate: ContentAddress(p) },
            predicate_data: (0..slots).map(|_| (0..rng.range(0, 6)).map(|_| rng.word()).collect()).collect(),
            state_mutations: if i == 0 { vec![Mutation { key: vec![1], value: vec![2] }] } else { vec![] } }
    }).collect();
    let mut sols = sols;
    // several solutions of the same predicate with different data (and sometimes an exact duplicate)
    if n > 1 && rng.chance(1, 3) {
        let addr = sols[0].predicate_to_solve.clone();
        for s in sols.iter_mut().skip(1) { s.predicate_to_solve = addr.clone(); }
        if rng.chance(1, 4) { let d = sols[0].predicate_data.clone(); sols[n - 1].predicate_data = d; }
    }
    let ix = rng.below(n as u64) as usize;
    (sols, ix)
}

// ---------------------------------------------------------------- family: single data op
const DATA_OPS: &[Op] = &[POP, DUP, DUPF, SWAP, SWAPI, SEL, SLTR, RES, LODS, STOS, DROP,
    EQ, EQRA, GT, LT, GTE, LTE, AND, OR, NOT, EQST, BAND, BOR, ADD, SUB, MUL, DIV, MOD, SHL, SHR, SHRI,
    ALOC, FREE, LOD, STO, LODR, STOR, LODP, LODPR];

/// Operand pairs at which checked arithmetic changes its answer.
const PAIRS: &[(i64, i64)] = &[(i64::MIN, -1), (i64::MIN, 1), (i64::MIN, i64::MIN), (i64::MAX, -1), (i64::MAX, 1), (i64::MAX, i64::MAX), (i64::MIN, i64::MAX),
    (i64::MAX, i64::MIN), (-1, i64::MIN), (1, i64::MIN), (0, i64::MIN), (i64::MIN, 0), (-1, -1), (0, 0), (1 << 32, 1 << 31), (1 << 32, 1 << 32), (-(1 << 32), 1 << 31),
    (3037000500, 3037000500), (3037000499, 3037000500), (i64::MIN / 2, 2), (i64::MIN / 2 - 1, 2), (i64::MAX / 2 + 1, 2), (-7, 2), (7, -2), (-7, -2), (i64::MIN + 1, -1)];

pub fn gen_single(rng: &mut Rng) -> Case {
    let mut c = Case { family: "single", ..Default::default() };
    let op = if rng.chance(1, 12) { push(rng.word()) } else { rng.pick(DATA_OPS).clone() };
    c.stack = base_stack(rng);
    c.memory = base_memory(rng);
    if rng.chance(1, 2) || matches!(op, Op::ParentMemory(_)) && rng.chance(5, 6) { c.parent = Some(base_memory(rng)); }
    let room = 4096usize.saturating_sub(c.stack.len());
    let mut extra: Vec<Word> = vec![];
    let depth = c.stack.len() as i64;
    let mlen = c.memory.len() as i64;
    let plen = c.parent.as_ref().map(|m| m.len() as i64).unwrap_or(0);
    // around the bound n; now and then an in-range value plus a multiple of 2^8 / 2^16 / 2^32 (aliases under a truncating cast) or its negation
    let near = |rng: &mut Rng, n: i64| -> Word { match rng.below(8) { 0 => n, 1 => n.wrapping_sub(1), 2 => n.wrapping_add(1), 3 => 0, 4 => -1,
        5 => rng.range(0, n.max(1)).wrapping_add(*rng.pick(&[1i64 << 8, 1 << 16, 1 << 32, 1 << 33, 3 << 32, 0x7FFF_FFFF_0000_0000, i64::MIN])),
        6 => rng.range(1, n.max(1)).wrapping_neg(), _ => rng.range(0, n.max(1)) } };
    // op specific, mostly valid operands (70 %), otherwise arbitrary words
    if rng.chance(7, 10) {
        match op {
            Op::Stack(asm::Stack::DupFrom) | Op::Stack(asm::Stack::SwapIndex) => extra.push(near(rng, depth)),
            Op::Stack(asm::Stack::Drop) => extra.push(near(rng, depth)),
            Op::Stack(asm::Stack::Load) => extra.push(near(rng, depth)),
            Op::Stack(asm::Stack::Store) => { extra.push(rng.word()); extra.push(near(rng, depth)); }
            Op::Stack(asm::Stack::Reserve) => extra.push(near(rng, room as i64)),
            Op::Stack(asm::Stack::Select) => { extra.push(rng.word()); extra.push(rng.word()); extra.push(rng.range(-1, 2)); }
            Op::Stack(asm::Stack::SelectRange) | Op::Pred(asm::Pred::EqRange) => {
                let n = rng.range(0, 5);
                let a: Vec<Word> = (0..n).map(|_| rng.small()).collect();
                let b: Vec<Word> = if rng.chance(1, 2) { a.clone() } else { (0..n).map(|_| rng.small()).collect() };
                extra.extend(a); extra.extend(b);
                extra.push(if rng.chance(1, 5) { near(rng, n) } else { n });
                if matches!(op, Op::Stack(_)) { extra.push(rng.range(-1, 2)); }
            }
            Op::Pred(asm::Pred::EqSet) => {
                let mk = |rng: &mut Rng| -> Vec<Vec<Word>> { (0..rng.range(0, 4)).map(|_| (0..rng.range(0, 3)).map(|_| rng.range(0, 3)).collect()).collect() };
                let a = mk(rng);
                let mut b = if rng.chance(1, 2) { let mut x = a.clone(); x.reverse(); if rng.chance(1, 2) && !x.is_empty() { x.push(x[0].clone()); } x } else { mk(rng) };
                if rng.chance(1, 8) { b.push(vec![rng.word()]); }
                extra.extend(encode_set(&a)); extra.extend(encode_set(&b));
                if rng.chance(1, 6) { let k = extra.len() - 1; extra[k] = near(rng, extra[k]); }
            }
            Op::Alu(asm::Alu::Shl) | Op::Alu(asm::Alu::Shr) | Op::Alu(asm::Alu::ShrI) => { extra.push(rng.word()); extra.push(near(rng, 63)); }
            Op::Alu(_) | Op::Pred(_) => {
                // a quarter of the binary cases use operand pairs at which checked arithmetic changes its answer
                if matches!(op, Op::Alu(asm::Alu::Div) | Op::Alu(asm::Alu::Mod)) && rng.chance(1, 3) {
                    // the only quotient that does not fit, zero divisors, and the sign rules of truncated division
                    let p = rng.pick(&[(i64::MIN, -1i64), (i64::MIN, -1), (i64::MIN, 1), (i64::MIN + 1, -1), (i64::MAX, -1), (7, 0), (i64::MIN, 0), (0, 0), (-7, 2), (7, -2), (-7, -2), (i64::MIN, i64::MIN), (i64::MIN, 2), (-1, i64::MIN)]);
                    extra.push(p.0); extra.push(p.1);
                } else if rng.chance(1, 4) { let p = rng.pick(PAIRS); extra.push(p.0); extra.push(p.1); } else { extra.push(rng.word()); extra.push(rng.word()); }
            }
            Op::Memory(asm::Memory::Alloc) => extra.push(near(rng, 10240 - mlen)),
            Op::Memory(asm::Memory::Free) => extra.push(near(rng, mlen)),
            Op::Memory(asm::Memory::Load) => extra.push(near(rng, mlen)),
            Op::Memory(asm::Memory::Store) => { extra.push(rng.word()); extra.push(near(rng, mlen)); }
            Op::Memory(asm::Memory::LoadRange) => { let a = near(rng, mlen); extra.push(a); extra.push(near(rng, mlen.wrapping_sub(a).min(room as i64 + 1))); }
            Op::Memory(asm::Memory::StoreRange) => {
                let n = rng.range(0, 5);
                extra.extend((0..n).map(|_| rng.word()));
                extra.push(if rng.chance(1, 6) { near(rng, n) } else { n });
                extra.push(near(rng, mlen - n));
            }
            Op::ParentMemory(asm::ParentMemory::Load) => extra.push(near(rng, plen)),
            Op::ParentMemory(asm::ParentMemory::LoadRange) => { let a = near(rng, plen); extra.push(a); extra.push(near(rng, plen.wrapping_sub(a).min(room as i64 + 1))); }
            _ => {}
        }
    } else {
        for _ in 0..rng.range(0, 4) { extra.push(rng.word()); }
    }
    let extra: Vec<Word> = extra.into_iter().take(room).collect();
    c.stack.extend(extra);
    c.ops = vec![op];
    c
}

/// A state read whose laid-out result (2 words per value plus the values) lands exactly at / one past the memory limit.
pub fn exact_fill_state(rng: &mut Rng, delta: i64) -> Case {
    let mut c = Case { family: "limits", ..Default::default() };
    let seq = |n: usize| -> Vec<Word> { (0..n).map(|i| i as Word).collect() };
    let (n, l) = *rng.pick(&[(2048i64, 3usize), (1024, 8), (5120, 0), (2, 5118)]);
    let total = n * (2 + l as i64);               // = 10240
    c.memory = seq(10240);
    c.pre_mode = ViewMode::Uniform(l); c.post_mode = ViewMode::Uniform(l);
    let op = rng.pick(&[KRNG, PKRNG, KREX, PKREX]).clone();
    let mut ops = vec![];
    if matches!(op, Op::StateRead(asm::StateRead::KeyRangeExtern) | Op::StateRead(asm::StateRead::PostKeyRangeExtern)) { for w in [1, 2, 3, 4] { ops.push(push(w)); } }
    // count n + delta at address 0, or count n at address max(delta, 0)
    if rng.chance(1, 2) { ops.extend([push(7), push(1), push(n + delta), push(0)]); } else { ops.extend([push(7), push(1), push(n), push(delta.max(0) + (10240 - total))]); }
    ops.push(op);
    c.ops = ops; c.limit = 100;
    c
}

// ---------------------------------------------------------------- family: every growing op at its size limit
/// Each op that can grow the stack, the memory or the repeat stack, from a state in which the result lands one
/// below, exactly at, or one above the documented limit.
pub fn gen_limits(rng: &mut Rng) -> Case {
    let mut c = Case { family: "limits", ..Default::default() };
    let delta = rng.range(-1, 1);                      // result size relative to the limit
    let seq = |n: usize| -> Vec<Word> { (0..n).map(|i| i as Word).collect() };
    match rng.below(15) {
        14 => { return exact_fill_state(rng, delta); }
        13 => { // Compute nesting: one level is the limit, whatever the memories hold
            let mut ops = vec![];
            if rng.chance(1, 2) { ops.extend([push(rng.range(1, 3)), ALOC, POP]); }
            ops.extend([push(rng.range(1, 3)), COM]);
            if rng.chance(1, 2) { ops.extend([push(1), ALOC, POP]); }
            if delta >= 0 { ops.extend([push(rng.range(1, 2)), COM, push(1), ALOC, POP, COME]); }
            ops.extend([COME, push(7)]);
            c.ops = ops; c.limit = 4000;
        }
        0 => { c.stack = seq((4095 + delta) as usize); c.ops = vec![push(rng.word())]; }
        1 => { c.stack = seq((4095 + delta) as usize); c.ops = vec![DUP]; }
        2 => { let mut s = seq((4095 + delta.min(0)) as usize); s.push(rng.range(0, 3)); c.stack = s; c.ops = vec![DUPF]; }
        3 => { // Reserve: start + len (+1 for the returned index) around 4096
            let base = *rng.pick(&[0usize, 1, 10, 4000, 4090]);
            let mut s = seq(base); s.push(4096 + delta - base as i64 - if rng.chance(1, 2) { 1 } else { 0 }); c.stack = s; c.ops = vec![RES];
        }
        4 => { // LoadRange: pushes `size` words
            let base = *rng.pick(&[0usize, 7, 4000]);
            let size = 4096 + delta - base as i64;
            c.memory = seq(size.max(0) as usize + 2);
            let mut s = seq(base); s.push(0); s.push(size); c.stack = s; c.ops = vec![LODR];
        }
        5 => { let base = *rng.pick(&[0usize, 7, 4000]); let size = 4096 + delta - base as i64;
               c.parent = Some(seq(size.max(0) as usize + 1)); let mut s = seq(base); s.push(1.min(size)); s.push(size - 1.min(size)); c.stack = s; c.ops = vec![LODPR]; }
        6 => { // Alloc around the memory limit
            let m = *rng.pick(&[0usize, 5, 10000, 10239]);
            c.memory = seq(m); c.stack = vec![10240 + delta - m as i64]; c.ops = vec![ALOC];
        }
        7 => { c.stack = seq((4092 + delta) as usize); c.ops = vec![rng.pick(&[THIS, THISC]).clone()]; }
        8 => { // PredicateData pushing k words
            let k = rng.range(4, 6) as usize;
            c.sols[0].predicate_data = vec![(0..k as i64).collect()];
            let mut s = seq((4096 + delta) as usize - k); s.extend([0, 0, k as i64]); c.stack = s; c.ops = vec![DATA];
        }
        9 => { let mut s = seq((4092 + delta) as usize); s.push(0); c.stack = s; c.ops = vec![SHA2]; c.sha.push(vec![]); }
        10 => { c.stack = seq((4095 + delta) as usize); c.ops = vec![rng.pick(&[DSLT, push(1)]).clone()]; }
        11 => { // Compute: joined memory around the limit
            let k = rng.range(1, 4);
            let m = 10240 + delta - 2 * k;
            c.memory = seq(m as usize);
            c.ops = vec![push(2), COM, push(k), ALOC, POP, COME];
        }
        _ => { // state read writing exactly to the end of memory
            let m = rng.range(4, 12) as usize;
            c.memory = seq(m); c.view_seed = rng.next();
            c.ops = vec![push(7), push(1), push(2), push(m as i64 - 4 + delta), KRNG];
        }
    }
    c
}

// ---------------------------------------------------------------- snippets for programs
fn snippet(rng: &mut Rng, out: &mut Vec<Op>) {
    match rng.below(30) {
        0..=4 => out.push(push(rng.word())),
        5..=9 => { if rng.chance(1, 6) { let p = rng.pick(PAIRS); out.push(push(p.0)); out.push(push(p.1)); } else { out.push(push(rng.word())); out.push(push(rng.word())); }
                   out.push(rng.pick(&[ADD, SUB, MUL, DIV, MOD, EQ, GT, LT, GTE, LTE, AND, OR, BAND, BOR]).clone()); }
        10 => { out.push(push(rng.word())); out.push(push(if rng.chance(1, 8) { rng.range(0, 63) + (*rng.pick(&[1i64, 2, 3]) << 32) } else { rng.range(-1, 65) })); out.push(rng.pick(&[SHL, SHR, SHRI]).clone()); }
        11 => out.push(rng.pick(&[DUP, SWAP, POP, NOT]).clone()),
        12 => { out.push(push(rng.range(0, 4))); out.push(rng.pick(&[DUPF, SWAPI, DROP, LODS]).clone()); }
        13 => { out.push(push(rng.small())); out.push(push(rng.range(0, 4))); out.push(STOS); }
        14 => { out.push(push(rng.range(0, 6))); out.push(RES); }
        15 => { out.push(push(rng.small())); out.push(push(rng.small())); out.push(push(rng.range(-1, 2))); out.push(SEL); }
        16 => { let n = rng.range(0, 3); for _ in 0..2 * n { out.push(push(rng.range(0, 2))); } out.push(push(n)); if rng.chance(1, 2) { out.push(push(rng.range(0, 1))); out.push(SLTR); } else { out.push(EQRA); } }
        17 => { out.push(push(rng.range(0, 9))); out.push(ALOC); }
        18 => { out.push(push(rng.small())); out.push(push(rng.range(0, 8))); out.push(STO); }
        19 => { out.push(push(rng.range(0, 8))); out.push(LOD); }
        20 => { out.push(push(rng.range(0, 6))); out.push(push(rng.range(0, 4))); out.push(LODR); }
        21 => { let n = rng.range(0, 3); for _ in 0..n { out.push(push(rng.small())); } out.push(push(n)); out.push(push(rng.range(0, 6))); out.push(STOR); }
        22 => { out.push(push(rng.range(0, 6))); out.push(FREE); }
        23 => { let a: Vec<Vec<Word>> = vec![vec![1], vec![2, 3]]; for w in encode_set(&a) { out.push(push(w)); } let mut b = a.clone(); if rng.chance(1, 2) { b.reverse(); } else { b.pop(); } for w in encode_set(&b) { out.push(push(w)); } out.push(EQST); }
        24 => out.push(rng.pick(&[THIS, THISC, DSLT, REPC]).clone()),
        25 => { out.push(push(rng.range(0, 1))); out.push(rng.pick(&[HLTIF, PNCIF]).clone()); }
        26 => { out.push(push(rng.range(0, 4))); out.push(rng.pick(&[LODP, LODS]).clone()); }
        _ => { out.push(push(rng.small())); }
    }
}

pub fn gen_prog(rng: &mut Rng) -> Case {
    let mut c = Case { family: "prog", ..Default::default() };
    let n = rng.range(1, 14);
    for _ in 0..n { snippet(rng, &mut c.ops); }
    if rng.chance(1, 3) { c.stack = (0..rng.range(0, 5)).map(|_| rng.small()).collect(); }
    if rng.chance(1, 3) { c.memory = (0..rng.range(0, 9)).map(|_| rng.small()).collect(); }
    if rng.chance(1, 4) { c.parent = Some((0..rng.range(0, 6)).map(|_| rng.small()).collect()); }
    c
}

/// Uniformly random ops: the malformed stream.
pub fn gen_malformed(rng: &mut Rng, all: &[Op]) -> Case {
    let mut c = Case { family: "malformed", ..Default::default() };
    for _ in 0..rng.range(1, 10) {
        let op = rng.pick(all).clone();
        // a Compute whose breadth is an arbitrary word would allocate a result vector of that size and
        // abort the process (known finding F12); the malformed stream keeps the breadth small
        if matches!(op, Op::Compute(asm::Compute::Compute)) { c.ops.push(push(rng.range(-1, 5))); }
        c.ops.push(match op { Op::Stack(asm::Stack::Push(_)) => push(rng.word()), o => o });
    }
    c.stack = (0..rng.range(0, 12)).map(|_| rng.word()).collect();
    c.memory = (0..rng.range(0, 6)).map(|_| rng.word()).collect();
    c.limit = 300;
    c
}

// ---------------------------------------------------------------- family: control flow
fn body(rng: &mut Rng, out: &mut Vec<Op>, depth: u32) {
    for _ in 0..rng.range(0, 3) {
        match rng.below(8) {
            0 if depth < 3 => repeat_block(rng, out, depth + 1),
            1 => { out.push(REPC); out.push(POP); }
            2 => { out.push(REPC); }
            3 => { out.push(push(1)); out.push(ALOC); out.push(POP); }
            _ => { out.push(push(rng.small())); out.push(POP); }
        }
    }
}
fn repeat_block(rng: &mut Rng, out: &mut Vec<Op>, depth: u32) {
    let n = match rng.below(8) { 0 => 0, 1 => -3, 2 => 1, 3 => *rng.pick(BOUNDARY), _ => rng.range(2, 5) };
    let n = if n > 6 && depth > 1 { 3 } else { n };
    out.push(push(n));
    out.push(push(if rng.chance(1, 12) { rng.range(-1, 2) } else { rng.range(0, 1) }));
    out.push(REP);
    body(rng, out, depth);
    out.push(REPE);
}

pub fn gen_control(rng: &mut Rng) -> Case {
    let mut c = Case { family: "control", ..Default::default() };
    match rng.below(6) {
        0 | 1 => { // repeat loops
            for _ in 0..rng.range(0, 2) { c.ops.push(push(rng.small())); }
            repeat_block(rng, &mut c.ops, 1);
            if rng.chance(1, 2) { repeat_block(rng, &mut c.ops, 1); }
            if rng.chance(1, 4) { c.ops.push(rng.pick(&[REPE, REPC]).clone()); }
        }
        2 => { // jump with a distance from the boundary pool or in range, at a random position
            let n = rng.range(1, 10) as usize;
            let at = rng.below(n as u64) as usize;
            for i in 0..n {
                if i == at {
                    let dist = match rng.below(5) { 0 => *rng.pick(BOUNDARY), 1 => 0, _ => rng.range(-(n as i64) - 2, n as i64 + 2) };
                    // a backward jump needs a way out: guard it with a counter in memory slot 0
                    c.ops.push(push(dist));
                    c.ops.push(push(match rng.below(10) { 0 => 2, 1 => -1, 2..=4 => 0, _ => 1 }));
                    c.ops.push(JMPIF);
                } else { c.ops.push(push(rng.small())); if rng.chance(1, 2) { c.ops.push(POP); } }
            }
            c.limit = 200;
        }
        3 => { // counted backward loop:  PUSH k ; [ PUSH 1 ; SUB ; DUP ; PUSH -dist ; SWAP ; JMPIF ] with cond = (k != 0)
            let k = rng.range(1, 6);
            c.ops.push(push(k));
            c.ops.extend([push(1), SUB, DUP, push(0), EQ, NOT, push(-6), SWAP, JMPIF]);
            c.ops.push(push(7));
            c.limit = 400;
        }
        4 => { // halts and panics in the middle
            for _ in 0..rng.range(0, 4) { c.ops.push(push(rng.small())); }
            c.ops.push(push(rng.range(-1, 2)));
            c.ops.push(rng.pick(&[HLTIF, PNCIF, HLT]).clone());
            for _ in 0..rng.range(0, 3) { c.ops.push(push(rng.small())); }
        }
        _ => { // mixture
            for _ in 0..rng.range(1, 4) { snippet(rng, &mut c.ops); }
            repeat_block(rng, &mut c.ops, 2);
            c.ops.push(push(rng.range(-3, 3))); c.ops.push(push(rng.range(0, 1))); c.ops.push(JMPIF);
            for _ in 0..rng.range(0, 3) { snippet(rng, &mut c.ops); }
            c.limit = 600;
        }
    }
    if rng.chance(1, 5) { c.pc = rng.below(c.ops.len() as u64 + 2) as usize; }
    c
}

// ---------------------------------------------------------------- family: compute
pub fn gen_compute(rng: &mut Rng) -> Case {
    let mut c = Case { family: "compute", ..Default::default() };
    for _ in 0..rng.range(0, 3) { c.ops.push(push(rng.small())); }
    if rng.chance(1, 2) { c.ops.extend([push(rng.range(1, 4)), ALOC, POP, push(41), push(0), STO]); }
    if rng.chance(1, 6) { c.ops.extend([push(3), push(1), REP]); }
    let breadth = match rng.below(12) { 0 => 0, 1 => -1, 2 => 1, 3 => 17, 4 => *rng.pick(&[64, 200, 1000]), 5 => *rng.pick(BOUNDARY).min(&1200), _ => rng.range(2, 6) };
    c.ops.push(push(breadth));
    c.ops.push(COM);
    // child body; the compute index is on top of the stack
    match rng.below(11) {
        8 => { // two exits: odd (or even) children leave through another ComputeEnd than the rest
            c.ops.extend([push(2), MOD]); if rng.chance(1, 2) { c.ops.push(NOT); }
            c.ops.extend([push(5), SWAP, JMPIF, push(1), ALOC, POP, COME, push(2), ALOC, POP, push(9), push(0), STO]);
        }
        9 => { // even children leave an open Repeat frame behind (they jump out of their loop); odd children ask for the
               // repeat counter outside any loop of their own: every child must start from the parent's state alone
            // (usually inside a loop of the parent, so that the odd children have a counter to read: the parent's)
            if rng.chance(3, 4) { c.ops.splice(0..0, [push(5), push(1), REP]); }
            c.ops.extend([push(2), MOD, push(13), SWAP, JMPIF,
                          push(3), push(rng.range(0, 1)), REP, push(1), ALOC, POP, push(3), push(1), JMPIF, REPE, COME, COME,
                          REPC, push(1), ALOC, POP, push(0), STO]);
        }
        10 => { // children that halt, fail or fall through depending on their index, after leaving residue on stack and memory
            c.ops.extend([DUP, push(3), MOD, push(1), EQ, push(8), SWAP, JMPIF, push(2), ALOC, POP, push(5), push(0), STO, COME, push(77), push(78)]);
        }
        0 => { c.ops.extend([DUP, ALOC, POP]); }                               // allocate `index` words
        1 => { c.ops.extend([push(1), ALOC, POP, push(0), STO]); }            // store index at 0
        2 => { c.ops.extend([push(2), MOD, push(3), SWAP, JMPIF, push(1), ALOC, POP, push(2), ALOC, POP]); } // odd children skip
        3 => { c.ops.extend([push(0), LODP, ADD, push(1), ALOC, POP, push(0), STO]); } // read parent memory
        4 => { c.ops.extend([push(1), EQ, HLTIF, push(1), ALOC, POP]); }      // child 1 halts
        5 => { c.ops.extend([push(2), EQ, PNCIF]); }                          // child 2 fails
        6 => { c.ops.extend([push(2), COM, COME]); }                          // nested compute: depth error
        _ => { c.ops.extend([REPC, ADD, push(1), ALOC, POP, push(0), STO]); } // needs a repeat context
    }
    match rng.below(5) { 0 => {}, 1 => c.ops.push(HLT), _ => c.ops.push(COME) }
    for _ in 0..rng.range(0, 3) { c.ops.push(push(rng.small())); }
    if rng.chance(1, 4) { c.ops.extend([push(0), LOD]); }
    if rng.chance(1, 8) { c.memory = (0..10240 - rng.range(0, 3)).map(|i| i as Word).collect(); }
    if rng.chance(1, 8) { c.parent = Some(vec![5, 6]); }
    c.limit = if breadth > 100 { 20_000 } else { 3000 };
    c
}

// ---------------------------------------------------------------- family: state reads
pub fn gen_state(rng: &mut Rng) -> Case {
    let (sols, ix) = some_solutions(rng);
    if rng.chance(1, 120) { let d = rng.range(-1, 1); let mut c = exact_fill_state(rng, d); c.family = "state"; return c; }
    let mut c = Case { family: "state", sols, index: ix, view_seed: rng.next(), ..Default::default() };
    c.pre_mode = *rng.pick(&[ViewMode::Exact, ViewMode::Exact, ViewMode::Exact, ViewMode::Fewer, ViewMode::More, ViewMode::Empty, ViewMode::Fail]);
    c.post_mode = *rng.pick(&[ViewMode::Exact, ViewMode::Exact, ViewMode::Fewer, ViewMode::More, ViewMode::Fail]);
    c.memory = (0..rng.range(0, 40)).map(|i| 900 + i).collect();
    c.stack = (0..rng.range(0, 3)).map(|_| rng.small()).collect();
    for _ in 0..rng.range(1, 3) {
        let op = rng.pick(&[KRNG, KREX, PKRNG, PKREX]).clone();
        if matches!(op, Op::StateRead(asm::StateRead::KeyRangeExtern) | Op::StateRead(asm::StateRead::PostKeyRangeExtern)) && rng.chance(9, 10) {
            for _ in 0..4 { c.ops.push(push(rng.word())); }
        }
        if rng.chance(9, 10) {
            let klen = rng.range(0, 4);
            for _ in 0..klen { c.ops.push(push(rng.word())); }
            c.ops.push(push(if rng.chance(1, 10) { klen + rng.range(-2, 2) } else { klen }));
        }
        c.ops.push(push(match rng.below(8) { 0 => 0, 1 => -1, 2 => *rng.pick(BOUNDARY), _ => rng.range(1, 4) }));
        c.ops.push(push(match rng.below(8) { 0 => -1, 1 => c.memory.len() as i64, 2 => *rng.pick(BOUNDARY), _ => rng.range(0, c.memory.len().max(1) as i64) }));
        c.ops.push(op);
    }
    c
}

// ---------------------------------------------------------------- family: access and crypto
fn push_words(out: &mut Vec<Op>, ws: &[Word]) { for w in ws { out.push(push(*w)); } }
fn words_of_bytes(b: &[u8]) -> Vec<Word> {
    b.chunks(8).map(|ch| { let mut a = [0u8; 8]; a[..ch.len()].copy_from_slice(ch); i64::from_be_bytes(a) }).collect()
}

pub fn gen_access(rng: &mut Rng) -> Case {
    let (sols, ix) = some_solutions(rng);
    let mut c = Case { family: "access", sols, index: ix, ..Default::default() };
    let data = c.sols[ix].predicate_data.clone();
    c.stack = if rng.chance(1, 8) { (0..4094).map(|i| i as Word).collect() } else { (0..rng.range(0, 3)).map(|_| rng.small()).collect() };
    for _ in 0..rng.range(1, 3) {
        match rng.below(7) {
            0 | 1 => {
                let slot = if rng.chance(4, 5) && !data.is_empty() { rng.below(data.len() as u64) as i64 } else { *rng.pick(&[-1, data.len() as i64, i64::MAX, 7]) };
                let l = data.get(slot.max(0) as usize).map(|s| s.len() as i64).unwrap_or(0);
                let vix = if rng.chance(4, 5) { rng.range(0, l.max(0)) } else { *rng.pick(BOUNDARY) };
                let len = if rng.chance(4, 5) { rng.range(0, (l - vix).max(0)) } else { *rng.pick(&[-1, l + 1, i64::MAX, l - vix + 1]) };
                c.ops.extend([push(slot), push(vix), push(len), DATA]);
            }
            2 => { c.ops.extend([push(if rng.chance(3, 4) { rng.range(0, data.len() as i64) } else { *rng.pick(BOUNDARY) }), DLEN]); }
            3 => c.ops.push(DSLT),
            4 => c.ops.push(rng.pick(&[THIS, THISC]).clone()),
            _ => {
                // PredicateExists: the hash of some solution's pre-image, or a perturbed one
                let s = rng.pick(&c.sols).clone();
                let mut h = essential_hash::hash_bytes(&pred_data_preimage(&s));
                if rng.chance(1, 3) { h[rng.below(32) as usize] ^= 1 << rng.below(8); }
                if rng.chance(1, 10) { c.ops.push(push(1)); } else { push_words(&mut c.ops, &words_of_bytes(&h)); }
                c.ops.push(PEX);
            }
        }
    }
    c
}

pub fn gen_crypto(rng: &mut Rng) -> Case {
    let mut c = Case { family: "crypto", ..Default::default() };
    c.stack = (0..rng.range(0, 2)).map(|_| rng.small()).collect();
    match rng.below(3) {
        0 => { // Sha256 over n bytes of pushed words
            let nwords = rng.range(0, 12) as usize;
            let words: Vec<Word> = (0..nwords).map(|_| rng.next() as i64).collect();
            let bytes: Vec<u8> = words.iter().flat_map(|w| w.to_be_bytes()).collect();
            let n = match rng.below(6) { 0 => bytes.len() as i64, 1 => -1, 2 => bytes.len() as i64 + rng.range(1, 9), _ => rng.range((bytes.len() as i64 - 7).max(0), bytes.len() as i64) };
            push_words(&mut c.ops, &words);
            c.ops.push(push(n)); c.ops.push(SHA2);
            if n >= 0 {
                // the words consumed are the top ceil(n/8) of the pushed ones (possibly including base stack words)
                let need = ((n as usize) + 7) / 8;
                let mut all: Vec<Word> = c.stack.clone(); all.extend(words.iter().copied());
                if need <= all.len() { let used = &all[all.len() - need..]; let b: Vec<u8> = used.iter().flat_map(|w| w.to_be_bytes()).take(n as usize).collect(); c.sha.push(b); }
            }
        }
        1 => { // VerifyEd25519
            use ed25519_dalek::{Signer, SigningKey};
            let mut sk = [0u8; 32]; for b in sk.iter_mut() { *b = rng.next() as u8; }
            let key = SigningKey::from_bytes(&sk);
            let nwords = rng.range(0, 5) as usize;
            let words: Vec<Word> = (0..nwords).map(|_| rng.next() as i64).collect();
            let bytes: Vec<u8> = words.iter().flat_map(|w| w.to_be_bytes()).collect();
            let n = if bytes.is_empty() { 0 } else { rng.range((bytes.len() as i64 - 7).max(0), bytes.len() as i64) };
            let msg: Vec<u8> = { let need = ((n as usize) + 7) / 8; words[words.len() - need..].iter().flat_map(|w| w.to_be_bytes()).take(n as usize).collect() };
            let mut sig = key.sign(&msg).to_bytes().to_vec();
            let mut pk = key.verifying_key().to_bytes().to_vec();
            match rng.below(8) { 0 => sig[rng.below(64) as usize] ^= 1, 1 => pk[rng.below(32) as usize] ^= 0x40, 2 => { pk = vec![0xFF; 32]; } 3 => { sig = vec![0; 64]; }
                // well-formed keys and signatures built from small-order points: plain verification (the reference) accepts some of
                // them for any message, "strict" variants refuse them
                4 => { pk = vec![0; 32]; pk[0] = 1; sig = vec![0; 64]; sig[0] = 1; }
                5 => { pk = vec![0xFF; 32]; pk[0] = 0xEC; pk[31] = 0x7F; sig = vec![0; 64]; sig[0] = 1; }
                _ => {} }
            push_words(&mut c.ops, &words);
            c.ops.push(push(n));
            push_words(&mut c.ops, &words_of_bytes(&sig));
            push_words(&mut c.ops, &words_of_bytes(&pk));
            c.ops.push(VRFYED);
            c.ed.push((pk, sig, msg));
        }
        _ => { // RecoverSecp256k1
            use secp256k1::{Message, Secp256k1, SecretKey};
            let mut skb = [1u8; 32]; for b in skb.iter_mut() { *b = (rng.next() as u8) | 1; }
            let sk = SecretKey::from_slice(&skb).unwrap();
            let mut digest = [0u8; 32]; for b in digest.iter_mut() { *b = rng.next() as u8; }
            let (rid, sigb) = Secp256k1::new().sign_ecdsa_recoverable(&Message::from_digest(digest), &sk).serialize_compact();
            let mut sig = sigb.to_vec();
            let mut id: i64 = i32::from(rid) as i64;
            match rng.below(8) { 0 => sig[rng.below(64) as usize] ^= 1, 1 => { sig = vec![0; 64]; } 2 => { sig = vec![0xFF; 64]; } 3 => id = *rng.pick(&[-1, 4, 255, i64::MAX, 1 << 32]), 4 => id = (id + 1) % 4, 5 => digest[0] ^= 1, _ => {} }
            if rng.chance(1, 5) {
                // the high-S twin (r, n - s) with the other parity: a different encoding that recovers the same key
                const N: [u8; 32] = [0xFF, 0xFF, 0xFF, 0xFF, 0xFF, 0xFF, 0xFF, 0xFF, 0xFF, 0xFF, 0xFF, 0xFF, 0xFF, 0xFF, 0xFF, 0xFE,
                                     0xBA, 0xAE, 0xDC, 0xE6, 0xAF, 0x48, 0xA0, 0x3B, 0xBF, 0xD2, 0x5E, 0x8C, 0xD0, 0x36, 0x41, 0x41];
                let mut borrow = 0i32;
                for k in (0..32).rev() { let d = N[k] as i32 - sig[32 + k] as i32 - borrow; if d < 0 { sig[32 + k] = (d + 256) as u8; borrow = 1; } else { sig[32 + k] = d as u8; borrow = 0; } }
                if (0..=3).contains(&id) { id ^= 1; }
            }
            push_words(&mut c.ops, &words_of_bytes(&digest));
            push_words(&mut c.ops, &words_of_bytes(&sig));
            c.ops.push(push(id)); c.ops.push(RSECP);
            if (0..=3).contains(&id) { c.secp.push((digest.to_vec(), sig, id)); }
        }
    }
    c
}

// ---------------------------------------------------------------- cost / limit grids
fn vary_gas(rng: &mut Rng, c: &mut Case) {
    let has_back = c.ops.iter().any(|o| matches!(o, Op::TotalControlFlow(asm::TotalControlFlow::JumpIf) | Op::Stack(asm::Stack::Repeat)));
    match rng.below(8) {
        0 if !has_back => c.cost = Cost::Const(0),
        1 => c.cost = Cost::Const(*rng.pick(&[2, 3, 1 << 20])),
        2 => { c.cost = Cost::Const(*rng.pick(&[1u64 << 62, u64::MAX, u64::MAX / 2, (1 << 63) + 1])); c.limit = *rng.pick(&[u64::MAX, u64::MAX - 1, 1 << 63]); return; }
        3 => { let t = (0..rng.range(1, 6)).map(|_| (rng.pick(DATA_OPS).clone(), rng.range(1, 9) as u64)).map(|(o, g)| { let b: u8 = essential_asm::ToOpcode::to_opcode(&o).into(); (b, g) }).collect(); c.cost = Cost::Table(t, rng.range(1, 3) as u64); }
        4 => { let t = vec![(0x90u8, *rng.pick(&[0u64, 5, 1 << 40])), (0x01u8, rng.range(1, 4) as u64)]; c.cost = Cost::Table(t, 1); }
        // everything up to and including Compute is free, so that the children share a limit of exactly u64::MAX (or just below),
        // and the other operations are so dear that a few children together exceed 2^64
        5 if !has_back => { let t = vec![(0x01u8, 0u64), (0x90, 0), (0x91, 0)];
               c.cost = Cost::Table(t, *rng.pick(&[1u64 << 63, 1 << 62, (1 << 63) - 1, (1 << 62) + 1, u64::MAX / 3 + 1]));
               c.limit = *rng.pick(&[u64::MAX, u64::MAX, u64::MAX - 1, 1 << 63]); return; }
        _ => {}
    }
    c.limit = match rng.below(20) { 0 => 0, 1 => 1, 2 | 3 => rng.range(2, 30) as u64, 4 | 5 => u64::MAX, 6..=8 => (c.limit as i64 + rng.range(-3, 3)).max(0) as u64, _ => c.limit };
    if c.cost.min() == 0 && has_back { c.cost = Cost::Const(1); }
    // keep the number of executed operations small enough for the model to replay
    let min = c.cost.min().max(1);
    if c.limit / min > 30_000 { c.limit = 30_000 * min; if let Cost::Const(k) = c.cost { if k > 1 << 40 { c.limit = u64::MAX; } } }
}

pub fn run(a: &Args) {
    let fams: Vec<String> = flag(a, "--families").map(|s| s.split(',').map(|x| x.to_string()).collect()).unwrap_or_else(|| vec!["single".into(), "prog".into()]);
    let evals: Vec<String> = flag(a, "--evals").map(|s| s.split(',').map(|x| x.to_string()).collect()).unwrap_or_else(|| vec!["vm_mismatches".into()]);
    let gas = a.extra.iter().any(|x| x == "--gas");
    let sweep = a.extra.iter().any(|x| x == "--sweep");
    let mut ev: Vec<&str> = evals.iter().map(|s| s.as_str()).collect();
    if a.only.is_some() { ev.push("show_models"); }   // replay: also print the model's result
    let mut out = Out::new("From EB Require Import Corr.RunVm.", "vm_case", &ev);
    out.only = a.only;
    // VerifyEd25519 / RecoverSecp256k1 are answered by oracle tables that only the crypto family fills: keep them out of
    // the random op stream (Sha256 is computed by the model itself when the table has no entry)
    let all: Vec<Op> = crate::e_asm::all_ops().into_iter().filter(|o| !matches!(o, Op::Crypto(asm::Crypto::VerifyEd25519) | Op::Crypto(asm::Crypto::RecoverSecp256k1))).collect();
    let mut id = 0u64;
    let mut emit = |out: &mut Out, c: &Case, enabled: bool| {
        if !enabled { id += 1; return; }
        if let Some(o) = a.only { if o != id { id += 1; return; } }
        if std::env::var("EBH_TRACE").is_ok() { eprintln!("case {} {} ops={:?} limit={} costmin={}", id, c.family, c.ops, c.limit, c.cost.min()); }
        let obs = run_case(c);
        out.bump(&format!("family_{}", c.family));
        out.bump(if obs.panicked { "impl_panic" } else if obs.is_err { "impl_err" } else { "impl_ok" });
        // per operation: how often it was the (last) operation of a single-op case and succeeded / failed
        if c.family == "single" || c.family == "limits" { if let Some(o) = c.ops.last() { out.bump(&format!("op:{}:{}", crate::util::op_path(o), if obs.is_err || obs.panicked { "err" } else { "ok" })); } }
        if let Some(e) = obs.res_json.get("err") { out.bump(&format!("err_class_{}", e[1])); }
        out.bump(&format!("steps_{}", match obs.steps { 0 => "0", 1 => "1", 2..=9 => "2-9", 10..=99 => "10-99", _ => "100+" }));
        let nt = obs.steps >= 2 || c.family == "single";
        out.push(id, obs.lit.clone(), describe(c, &obs), nt);
        id += 1;
    };
    // corpus: fixed regression cases always run first
    // (ids are kept when the corpus is switched off for the later batches of a large run)
    let no_corpus = a.extra.iter().any(|x| x == "--no-corpus");
    for c in corpus() { let en = !no_corpus && fams.iter().any(|f| f == c.family || f == "corpus"); emit(&mut out, &c, en); }
    for i in 0..a.count as u64 {
        let mut rng = Rng::for_case(a.seed, 5, i);
        let fam = rng.pick(&fams).clone();
        let mut c = match fam.as_str() {
            "single" => gen_single(&mut rng),
            "limits" => gen_limits(&mut rng),
            "prog" => gen_prog(&mut rng),
            "malformed" => gen_malformed(&mut rng, &all),
            "control" => gen_control(&mut rng),
            "compute" => gen_compute(&mut rng),
            "state" => gen_state(&mut rng),
            "access" => gen_access(&mut rng),
            "crypto" => gen_crypto(&mut rng),
            _ => gen_prog(&mut rng),
        };
        if gas { vary_gas(&mut rng, &mut c); }
        if sweep && rng.chance(1, 10) {
            // every intermediate state: cost 1 and limit k stops before the (k+1)-th operation
            c.cost = Cost::Const(1);
            c.limit = c.limit.min(30_000);      // a loop must end by running out of gas within what the model can replay
            let full = run_case(&c);
            for k in 0..full.steps.min(25) { let mut ck = c.clone(); ck.limit = k; emit(&mut out, &ck, true); }
        }
        emit(&mut out, &c, true);
    }
    out.write(&a.out, a.shards, "vm");
}

fn flag(a: &Args, name: &str) -> Option<String> {
    a.extra.iter().position(|x| x == name).and_then(|i| a.extra.get(i + 1).cloned())
}

/// Minimised past failures and hand-picked boundary cases (ids are stable: append only).
pub fn corpus() -> Vec<Case> {
    let mut v = vec![];
    // F1: |i64::MIN| in JumpIf
    v.push(Case { family: "control", ops: vec![push(i64::MIN), push(1), JMPIF], ..Default::default() });
    v.push(Case { family: "control", ops: vec![push(i64::MIN + 1), push(1), JMPIF], ..Default::default() });
    // F2: gas sums of compute children overflow u64
    v.push(Case { family: "compute", ops: vec![push(8), COM, push(1), POP, COME], cost: Cost::Const(1 << 62), limit: u64::MAX, ..Default::default() });
    v.push(Case { family: "compute", ops: vec![push(3), COM, push(1), POP, COME], cost: Cost::Const((1 << 62) + 7), limit: u64::MAX, ..Default::default() });
    // F3: children restart with the full limit
    let mut ops = vec![push(50), COM]; for _ in 0..40 { ops.push(push(1)); ops.push(POP); } ops.push(COME);
    v.push(Case { family: "compute", ops, limit: 100, ..Default::default() });
    v.push(Case { family: "compute", ops: vec![push(4), COM, push(1), POP, COME], limit: 10, ..Default::default() });
    v.push(Case { family: "compute", ops: vec![push(4), COM, push(1), POP, COME], limit: 14, ..Default::default() });
    v.push(Case { family: "compute", ops: vec![push(4), COM, push(1), POP, COME], limit: 13, ..Default::default() });
    // the repeat stack at its limit: 4096 nested Repeat succeed, the 4097th fails
    for n in [4096usize, 4097] {
        let mut ops = vec![]; for _ in 0..n { ops.extend([push(1), push(1), REP]); }
        v.push(Case { family: "limits", ops, limit: 20_000, ..Default::default() });
    }
    // the children's sum passes 2^64 while the limit they share is exactly u64::MAX (everything before them is free)
    v.push(Case { family: "compute", ops: vec![push(2), COM, push(7), POP, COME], cost: Cost::Table(vec![(0x01, 0), (0x90, 0), (0x91, 0)], 1 << 63), limit: u64::MAX, ..Default::default() });
    v.push(Case { family: "compute", ops: vec![push(4), COM, push(7), POP, COME], cost: Cost::Table(vec![(0x01, 0), (0x90, 0), (0x91, 0)], 1 << 62), limit: u64::MAX, ..Default::default() });
    // every binary arithmetic op on every operand pair at which checked arithmetic changes its answer
    for op in [ADD, SUB, MUL, DIV, MOD] { for (x, y) in PAIRS { v.push(Case { family: "single", stack: vec![*x, *y], ops: vec![op.clone()], ..Default::default() }); } }
    // shifts by amounts that alias an in-range amount under a truncating cast
    for op in [SHL, SHR, SHRI] { for k in [64i64, 65, 1 << 8, (1 << 8) + 3, 1 << 16, 1 << 32, (1 << 32) + 3, (3 << 32) + 63, i64::MIN, i64::MIN + 5, -1] { v.push(Case { family: "single", stack: vec![-0x1234_5678, k], ops: vec![op.clone()], ..Default::default() }); } }
    // the repeat stack limit again, with the last (or every) loop counting down
    for (n, last_dir, dir) in [(4096usize, 0i64, 1i64), (4095, 0, 1), (4096, 1, 0), (4096, 0, 0), (4095, 0, 0)] {
        let mut ops = vec![]; for _ in 0..n { ops.extend([push(2), push(dir), REP]); }
        ops.extend([push(2), push(last_dir), REP]);
        v.push(Case { family: "limits", ops, limit: 20_000, ..Default::default() });
    }
    // boundary sweep of every index / range operand over a three-word stack, memory and parent memory: every position from
    // one below the start to two past the end, and every length from -1 to one more than fits
    {
        let one = |stack: Vec<Word>, memory: Vec<Word>, parent: Option<Vec<Word>>, op: &Op| Case { family: "single", stack, memory, parent, ops: vec![op.clone()], ..Default::default() };
        let (m, pm) = (vec![10, 20, 30], Some(vec![40, 50, 60]));
        for a in -1..=5i64 {
            for op in [LOD, FREE, ALOC] { v.push(one(vec![7, a], m.clone(), None, &op)); }
            v.push(one(vec![7, 99, a], m.clone(), None, &STO));
            v.push(one(vec![7, a], vec![], pm.clone(), &LODP));
            for op in [DUPF, SWAPI, DROP, LODS] { v.push(one(vec![1, 2, 3, a], vec![], None, &op)); }
            v.push(one(vec![1, 2, 3, 99, a], vec![], None, &STOS));
            v.push(one(vec![1, a], vec![], None, &RES));
            for n in -1..=5i64 {
                v.push(one(vec![7, a, n], m.clone(), None, &LODR));
                v.push(one(vec![7, a, n], vec![], pm.clone(), &LODPR));
            }
            for k in 0..=2i64 { for dk in -1..=1i64 { let mut st: Vec<Word> = vec![7]; st.extend((0..k).map(|x| 90 + x)); st.extend([k + dk, a]); v.push(one(st, m.clone(), None, &STOR)); } }
        }
        for cond in -1..=2i64 { v.push(one(vec![5, 6, cond], vec![], None, &SEL)); }
        for len in -1..=3i64 { for cond in -1..=2i64 { v.push(one(vec![1, 2, 3, 4, len, cond], vec![], None, &SLTR)); } v.push(one(vec![1, 2, 1, 2, len], vec![], None, &EQRA)); v.push(one(vec![1, 2, 1, 3, len], vec![], None, &EQRA)); }
    }
    v
}
