//! Engine `graph`: the two-pass solution-set check on generated predicate graphs (C01, C03, C04, C16, C06).
use crate::util::*;
use crate::vmrun::coq_solution;
use essential_asm::{self as asm, short::*, Op};
use essential_check::solution::{self as chk, CheckPredicateConfig, MutationsError, PredicateError, PredicatesError, RunMode};
use essential_types::{predicate::{Node, Predicate, Program}, solution::{Mutation, Solution, SolutionSet}, ContentAddress, Key, PredicateAddress, Word};
use essential_vm::StateRead;
#[allow(unused_imports)]
use essential_vm::StateRead as _;
use serde_json::json;
use std::collections::{BTreeMap, HashMap};
use std::panic::{catch_unwind, AssertUnwindSafe};
use std::sync::Arc;

/// The in-memory state the model's `state_view` describes: a range is answered by walking successor keys,
/// at most 10241 of them; absent keys have the empty value.
#[derive(Clone, Default)]
pub struct MemState(pub Arc<BTreeMap<ContentAddress, BTreeMap<Key, Vec<Word>>>>);
pub fn next_key(mut key: Key) -> Option<Key> {
    for w in key.iter_mut().rev() {
        match *w { Word::MAX => *w = Word::MIN, _ => { *w += 1; return Some(key); } }
    }
    None
}
impl MemState { pub fn default2() -> (MemState, MemState) { (MemState::default(), MemState::default()) } }
impl StateRead for MemState {
    type Error = String;
    fn key_range(&self, c: ContentAddress, mut key: Key, n: usize) -> Result<Vec<Vec<Word>>, String> {
        let m = self.0.get(&c);
        let mut out = vec![];
        for _ in 0..n.min(10241) {
            out.push(m.and_then(|m| m.get(&key)).cloned().unwrap_or_default());
            match next_key(key) { Some(k) => key = k, None => break }
        }
        Ok(out)
    }
}

/// Program lookup that delays each call by a pseudo-random amount, to perturb the order in which parallel tasks finish.
#[derive(Clone)]
pub struct JitterPrograms(pub Arc<HashMap<ContentAddress, Arc<Program>>>, pub u64);
fn jitter(seed: u64, salt: u64) {
    if seed == 0 { return; }
    let mut r = Rng::new(seed ^ salt.wrapping_mul(0x9E3779B97F4A7C15));
    let us = r.below(300);
    if us > 150 { std::thread::sleep(std::time::Duration::from_micros(us - 150)); } else if us > 100 { std::thread::yield_now(); }
}
impl chk::GetProgram for JitterPrograms {
    fn get_program(&self, ca: &ContentAddress) -> Arc<Program> {
        static CALLS: std::sync::atomic::AtomicU64 = std::sync::atomic::AtomicU64::new(0);
        let n = CALLS.fetch_add(1, std::sync::atomic::Ordering::Relaxed);
        jitter(self.1, n ^ ca.0[0] as u64);
        self.0[ca].clone()
    }
}

#[derive(Clone, Debug)]
enum Kind {
    Const(Word), Pass, MemProd(Word), PreRead(Key), PostRead(Key), PostReadExt(usize, Key), Fail,
    LeafConst(Word), LeafFold(Option<Word>), LeafData(Vec<Word>), LeafPostCheck(Key, Option<Word>),
    Raw(Vec<Op>),
}

fn push(w: Word) -> Op { PUSH(w) }

fn read_prog(ops: &mut Vec<Op>, key: &Key, op: Op, ext: Option<&ContentAddress>) {
    ops.extend([push(5), ALOC]);                                  // [.., base]
    let mut extra = 0;
    if let Some(c) = ext { for w in essential_types::convert::word_4_from_u8_32(c.0) { ops.push(push(w)); } extra = 4; }
    for w in key { ops.push(push(*w)); }
    ops.extend([push(key.len() as Word), push(1), push(key.len() as Word + 2 + extra), DUPF, op]); // [.., base]
    ops.extend([DUP, LOD, LOD, SWAP, POP]);                       // [.., first word of the value (0 when empty)]
}

fn program_of(kind: &Kind, cin: usize, contracts: &[ContentAddress]) -> Vec<Op> {
    let mut ops = vec![];
    match kind {
        Kind::Raw(v) => ops.extend(v.iter().cloned()),
        Kind::Const(k) => ops.push(push(*k)),
        Kind::Pass => {}
        Kind::MemProd(v) => ops.extend([push(2), ALOC, push(*v), SWAP, STO]),
        Kind::PreRead(k) => read_prog(&mut ops, k, KRNG, None),
        Kind::PostRead(k) => read_prog(&mut ops, k, PKRNG, None),
        Kind::PostReadExt(c, k) => read_prog(&mut ops, k, PKREX, Some(&contracts[*c])),
        Kind::Fail => ops.extend([push(1), PNCIF]),
        Kind::LeafConst(r) => ops.extend([push(cin as Word), DROP, push(*r)]),
        Kind::LeafFold(exp) => {
            for _ in 1..cin.max(1) { ops.extend([push(3), MUL, ADD]); }
            match exp { Some(e) => ops.extend([push(*e), EQ]), None => ops.extend([DUP, EQ]) }
        }
        Kind::LeafData(words) => {
            ops.extend([push(cin as Word), DROP, push(0), FREE, push(words.len() as Word), ALOC, POP]);
            for (i, w) in words.iter().enumerate() { ops.extend([push(*w), push(i as Word), STO]); }
            ops.push(push(2));
        }
        Kind::LeafPostCheck(k, exp) => {
            ops.extend([push(cin as Word), DROP]);
            read_prog(&mut ops, k, PKRNG, None);
            match exp { Some(e) => ops.extend([push(*e), EQ]), None => ops.extend([DUP, EQ]) }
        }
    }
    ops
}

struct Built { pred: Predicate, programs: Vec<Program>, data_keys: Vec<Key>, data_muts: Vec<Mutation> }

/// Abstract random DAG -> numbering with non-leaves first (arbitrary, usually non-topological order) -> CSR encoding.
/// `hints`: (key, value) pairs the solution is going to declare; some leaves require exactly that value in the post state.
fn gen_dag(rng: &mut Rng, contracts: &[ContentAddress], keys: &[Key], hints: &[(Key, Word)]) -> Built {
    let n = rng.range(1, 8) as usize;
    // edges from lower to higher topological label
    let mut ch: Vec<Vec<usize>> = vec![vec![]; n];
    for u in 0..n { for v in u + 1..n { if rng.chance(1, 3) { ch[u].push(v); if rng.chance(1, 8) { ch[u].push(v); } } } }
    let is_leaf: Vec<bool> = ch.iter().map(|c| c.is_empty()).collect();
    // numbering
    let mut nonleaves: Vec<usize> = (0..n).filter(|u| !is_leaf[*u]).collect();
    let mut leaves: Vec<usize> = (0..n).filter(|u| is_leaf[*u]).collect();
    let shuffle = |rng: &mut Rng, v: &mut Vec<usize>| { for i in (1..v.len()).rev() { let j = rng.below(i as u64 + 1) as usize; v.swap(i, j); } };
    if rng.chance(3, 4) { shuffle(rng, &mut nonleaves); shuffle(rng, &mut leaves); }
    let order: Vec<usize> = nonleaves.iter().chain(leaves.iter()).copied().collect(); // position -> label
    let mut num = vec![0usize; n]; for (pos, lab) in order.iter().enumerate() { num[*lab] = pos; }
    // kinds and input-count simulation in topological (label) order
    let mut parents: Vec<Vec<usize>> = vec![vec![]; n];
    for u in 0..n { for v in &ch[u] { parents[*v].push(u); } }
    let mut kinds: Vec<Kind> = vec![Kind::Pass; n];
    let mut cout = vec![0usize; n];
    let mut vals: Vec<Option<Vec<Word>>> = vec![None; n];
    let mut cins = vec![0usize; n];
    for v in 0..n {
        // the implementation concatenates parents in ascending node NUMBER, with multiplicity
        let mut ps = parents[v].clone(); ps.sort_by_key(|u| num[*u]);
        let cin: usize = ps.iter().map(|u| cout[*u]).sum();
        cins[v] = cin;
        let inval: Option<Vec<Word>> = ps.iter().map(|u| vals[*u].clone()).collect::<Option<Vec<_>>>().map(|vs| vs.concat());
        let key = rng.pick(keys).clone();
        if !is_leaf[v] {
            kinds[v] = match rng.below(16) {
                0..=5 => Kind::Const(rng.range(0, 9)), 6 | 7 => Kind::Pass, 8 => Kind::MemProd(rng.range(1, 9)),
                9 | 10 => Kind::PreRead(key), 11 | 12 => Kind::PostRead(key), 13 => Kind::PostReadExt(rng.below(contracts.len() as u64) as usize, key),
                14 => if rng.chance(1, 3) { Kind::Fail } else { Kind::Pass }, _ => Kind::Const(rng.range(0, 3)),
            };
            let (produced, nv) = match &kinds[v] {
                Kind::Const(k) => (1, inval.clone().map(|mut x| { x.push(*k); x })),
                Kind::Pass | Kind::MemProd(_) => (0, inval.clone()),
                Kind::Fail => (0, None),
                _ => (1, None),
            };
            cout[v] = cin + produced; vals[v] = nv;
        } else {
            kinds[v] = match rng.below(12) {
                0..=2 => Kind::LeafConst(*rng.pick(&[1, 1, 1, 1, 1, 1, 1, 0, 2, 5])),
                3..=5 => {
                    let exp = inval.as_ref().filter(|x| !x.is_empty()).map(|x| { let mut acc = *x.last().unwrap(); for w in x.iter().rev().skip(1) { acc = acc * 3 + *w; } acc });
                    if cin == 0 { Kind::LeafConst(1) } else { Kind::LeafFold(if rng.chance(9, 10) { exp } else { Some(rng.range(0, 50)) }) }
                }
                6..=8 => {
                    let nm = rng.range(0, 2) as usize;
                    let ms: Vec<Mutation> = (0..nm).map(|_| Mutation { key: rng.pick(keys).clone(), value: if rng.chance(1, 4) { vec![] } else { vec![rng.range(1, 90)] } }).collect();
                    let mut words: Vec<Word> = essential_types::solution::encode::encode_mutations(&ms).collect();
                    match rng.below(24) { 0 => { words.pop(); } 1 => { words = vec![1, -1]; } 2 => { words = vec![2, 1, 5]; } _ => {} }
                    Kind::LeafData(words)
                }
                _ => if !hints.is_empty() && rng.chance(2, 3) { let h = rng.pick(hints).clone(); Kind::LeafPostCheck(h.0, Some(h.1)) }
                     else { Kind::LeafPostCheck(key, if rng.chance(1, 5) { Some(rng.range(0, 90)) } else { None }) },
            };
        }
    }
    // CSR in numbering order
    let mut nodes = vec![]; let mut edges: Vec<u16> = vec![]; let mut programs = vec![];
    for lab in &order {
        let mut prog = Program(asm::to_bytes(program_of(&kinds[*lab], cins[*lab], contracts)).collect());
        // untrusted bytecode: now and then truncated (possibly inside a Push immediate), extended by a lone Push opcode,
        // given an invalid opcode, or replaced by random bytes
        if rng.chance(1, 14) {
            match rng.below(4) {
                0 => { let k = rng.below(prog.0.len() as u64 + 1) as usize; prog.0.truncate(k); }
                1 => { prog.0.push(0x01); for _ in 0..rng.below(8) { prog.0.push(rng.next() as u8); } }
                2 => { let k = rng.below(prog.0.len() as u64 + 1) as usize; prog.0.insert(k, *rng.pick(&[0x00u8, 0xFF, 0x0F, 0x82])); }
                _ => { prog.0 = (0..rng.range(1, 12)).map(|_| rng.next() as u8).collect(); }
            }
        }
        let addr = essential_hash::content_addr(&prog);
        // a leaf is a node with an empty edge range: usually spelled Edge::MAX, now and then as an empty in-range slice
        let edge_start = if is_leaf[*lab] && !rng.chance(1, 4) { u16::MAX } else { edges.len() as u16 };
        let mut cs: Vec<u16> = ch[*lab].iter().map(|v| num[*v] as u16).collect();
        if rng.chance(1, 2) { cs.reverse(); }
        // now and then an edge to a node that does not exist (accepted by validation; ignored by the schedule)
        if !is_leaf[*lab] && rng.chance(1, 14) { let at = rng.below(cs.len() as u64 + 1) as usize; cs.insert(at, n as u16 + rng.below(3) as u16); }
        edges.extend(cs);
        nodes.push(Node { edge_start, program_address: addr });
        programs.push(prog);
    }
    let mut data_muts: Vec<Mutation> = vec![];
    for k in &kinds { if let Kind::LeafData(w) = k { if let Ok(ms) = essential_types::solution::decode::decode_mutations(w) { data_muts.extend(ms); } } }
    let data_keys: Vec<Key> = data_muts.iter().map(|m| m.key.clone()).collect();
    Built { pred: Predicate { nodes, edges }, programs, data_keys, data_muts }
}

/// Raw random node/edge vectors: overlapping ranges, leaves in the middle, invalid ranges, cycles, self loops, dangling targets.
fn gen_raw(rng: &mut Rng) -> Built {
    let n = rng.range(1, 6) as usize;
    let ne = rng.range(0, 7) as usize;
    let edges: Vec<u16> = (0..ne).map(|_| if rng.chance(1, 12) { rng.range(n as i64, n as i64 + 2) as u16 } else { rng.below(n as u64) as u16 }).collect();
    let mut nodes = vec![]; let mut programs = vec![];
    let mut start = 0u16;
    for _ in 0..n {
        let es = match rng.below(6) { 0 | 1 => u16::MAX, 2 => rng.below(ne as u64 + 2) as u16, _ => { let s = start; start = (start + rng.below(3) as u16).min(ne as u16); s } };
        nodes.push(Node { edge_start: es, program_address: ContentAddress([0; 32]) });
    }
    let pred0 = Predicate { nodes: nodes.clone(), edges: edges.clone() };
    for (i, nd) in nodes.iter_mut().enumerate() {
        let leaf = catch_unwind(AssertUnwindSafe(|| pred0.node_edges(i).map(|e| e.is_empty()))).ok().flatten().unwrap_or(true);
        let prog = Program(asm::to_bytes(if leaf { vec![push(if rng.chance(1, 10) { 0 } else { 1 })] } else { vec![] }).collect());
        nd.program_address = essential_hash::content_addr(&prog);
        programs.push(prog);
    }
    Built { pred: Predicate { nodes, edges }, programs, data_keys: vec![], data_muts: vec![] }
}

pub struct GCase {
    pub preds: Vec<(ContentAddress, ContentAddress, Predicate)>, pub programs: Vec<(ContentAddress, Vec<u8>)>,
    pub sols: Vec<Solution>, pub state: BTreeMap<ContentAddress, BTreeMap<Key, Vec<Word>>>, pub collect_all: bool, pub family: &'static str,
    pub known_class: Option<&'static str>,
}

pub fn key_pool() -> Vec<Key> { vec![vec![1], vec![2], vec![3], vec![i64::MAX], vec![1, i64::MAX], vec![7, 7], vec![]] }

/// Two or three solutions of DIFFERENT contracts that use the same key: one declares it, another computes it in a data
/// output (every (contract, key) slot still has a single proposer).
pub fn gen_cross_contract(rng: &mut Rng) -> GCase {
    let contracts: Vec<ContentAddress> = (0..3).map(|i| ContentAddress([0x30 + i as u8; 32])).collect();
    let key = rng.pick(&key_pool()).clone();
    let n = rng.range(2, 3) as usize;
    let computing = rng.below(n as u64) as usize;
    let mut preds = vec![]; let mut programs = vec![]; let mut sols = vec![];
    for i in 0..n {
        let (kind, muts) = if i == computing {
            let words: Vec<Word> = essential_types::solution::encode::encode_mutations(&[Mutation { key: key.clone(), value: vec![rng.range(1, 90)] }]).collect();
            (Kind::LeafData(words), vec![])
        } else { (Kind::LeafConst(1), vec![Mutation { key: key.clone(), value: vec![rng.range(1, 90)] }]) };
        let prog = Program(asm::to_bytes(program_of(&kind, 0, &contracts)).collect());
        let pa = essential_hash::content_addr(&prog);
        let pred = Predicate { nodes: vec![Node { edge_start: u16::MAX, program_address: pa.clone() }], edges: vec![] };
        let pr = essential_hash::content_addr(&pred);
        programs.push((pa, prog.0));
        preds.push((contracts[i].clone(), pr.clone(), pred));
        sols.push(Solution { predicate_to_solve: PredicateAddress { contract: contracts[i].clone(), predicate: pr }, predicate_data: vec![], state_mutations: muts });
    }
    GCase { preds, programs, sols, state: BTreeMap::new(), collect_all: rng.chance(1, 2), family: "cross_contract", known_class: None }
}

pub fn gen_case(rng: &mut Rng) -> GCase {
    if rng.chance(1, 12) { return gen_cross_contract(rng); }
    let contracts: Vec<ContentAddress> = (0..2).map(|i| ContentAddress([0x10 + i as u8; 32])).collect();
    let keys = key_pool();
    let nsol = rng.range(1, 3) as usize;
    let raw = rng.chance(1, 5);
    let mut preds = vec![]; let mut programs = vec![]; let mut sols = vec![];
    let mut proposed: Vec<(ContentAddress, Vec<Key>)> = vec![];   // per solution: contract and every key it may propose
    for i in 0..nsol {
        let c = contracts[if rng.chance(1, 2) { 0 } else { i % 2 }].clone();
        // declared mutations: distinct keys within a solution and, to stay outside known finding F10, a key is declared
        // for a contract by at most one solution (cases inside F10's class are generated separately)
        let mut muts: Vec<Mutation> = vec![];
        for _ in 0..rng.range(0, 2) {
            let k = rng.pick(&keys).clone();
            let taken = sols.iter().any(|s: &Solution| s.predicate_to_solve.contract == c && s.state_mutations.iter().any(|m| m.key == k));
            if !muts.iter().any(|m| m.key == k) && !taken { muts.push(Mutation { key: k, value: if rng.chance(1, 5) { vec![] } else { vec![rng.range(1, 90)] } }); }
        }
        // what a post-state read of a declared key must see: the proposed word, or 0 (= empty) for a proposed deletion
        let hints: Vec<(Key, Word)> = muts.iter().filter(|m| m.value.len() <= 1).map(|m| (m.key.clone(), m.value.first().copied().unwrap_or(0))).collect();
        let b = if raw { gen_raw(rng) } else { gen_dag(rng, &contracts, &keys, &hints) };
        let paddr = essential_hash::content_addr(&b.pred);
        for (nd, pr) in b.pred.nodes.iter().zip(b.programs.iter()) { programs.push((nd.program_address.clone(), pr.0.clone())); }
        preds.push((c.clone(), paddr.clone(), b.pred));
        // now and then the solution declares exactly (same key, same value) what one of its data outputs computes
        if rng.chance(1, 6) { if let Some(m) = b.data_muts.first() { if !muts.iter().any(|x| x.key == m.key) { muts.push(m.clone()); } } }
        proposed.push((c.clone(), muts.iter().map(|m| m.key.clone()).chain(b.data_keys.iter().cloned()).collect()));
        sols.push(Solution { predicate_to_solve: PredicateAddress { contract: c, predicate: paddr },
            predicate_data: (0..rng.range(0, 2)).map(|_| vec![rng.small()]).collect(), state_mutations: muts });
    }
    let mut state: BTreeMap<ContentAddress, BTreeMap<Key, Vec<Word>>> = BTreeMap::new();
    for c in &contracts { for k in &keys { if rng.chance(1, 2) { state.entry(c.clone()).or_default().insert(k.clone(), vec![rng.range(100, 190)]); } } }
    // known finding F10: two different solutions of one contract propose a value for the same key (declared or computed)
    let mut f10 = false;
    for i in 0..proposed.len() { for j in i + 1..proposed.len() {
        if proposed[i].0 == proposed[j].0 && proposed[i].1.iter().any(|k| proposed[j].1.contains(k)) { f10 = true; }
    } }
    GCase { preds, programs, sols, state, collect_all: rng.chance(1, 2), family: if raw { "raw" } else { "dag" },
            known_class: if f10 { Some("cross_solution_dup_key") } else { None } }
}

fn coq_pred(p: &Predicate) -> String {
    format!("(Build_predicate {} {})", list_of(&p.nodes, |n| format!("(Build_node {} {})", n.edge_start, blist(&n.program_address.0))),
        zlist(p.edges.iter().map(|e| *e as i64)))
}

pub fn run_case(c: &GCase) -> (String, serde_json::Value, bool) { run_case_in(c, None, 0) }

/// What one run of the two-pass entry point returned, in the canonical form compared with the model.
#[derive(Clone)]
pub struct Outcome { pub res: i64, pub gas: u64, pub sols: Vec<Solution>, pub errs: Vec<(i64, i64, Vec<i64>)>, pub err_sol: i64, pub runs: Vec<chk::verif::Run>, pub no_result: bool }

/// Runs the case inside the given rayon pool (or the global one) with the given jitter seed (0 = none).
pub fn run_case_in(c: &GCase, pool: Option<&rayon::ThreadPool>, jitter_seed: u64) -> (String, serde_json::Value, bool) {
    let o = exec_case(c, pool, jitter_seed);
    render(c, &o)
}

pub fn exec_case(c: &GCase, pool: Option<&rayon::ThreadPool>, jitter_seed: u64) -> Outcome {
    let get_pred: Arc<HashMap<PredicateAddress, Arc<Predicate>>> = Arc::new(c.preds.iter().map(|(ca, pa, p)|
        (PredicateAddress { contract: ca.clone(), predicate: pa.clone() }, Arc::new(p.clone()))).collect());
    let get_prog = JitterPrograms(Arc::new(c.programs.iter().map(|(a, b)| (a.clone(), Arc::new(Program(b.clone())))).collect()), jitter_seed);
    let state = MemState(Arc::new(c.state.clone()));
    let set = SolutionSet { solutions: c.sols.clone() };
    let config = Arc::new(CheckPredicateConfig { collect_all_failures: c.collect_all });
    let _ = chk::verif::take_runs();
    let call = || chk::check_and_compute_solution_set_two_pass(&state, set, get_pred.clone(), get_prog.clone(), config);
    let r = catch_unwind(AssertUnwindSafe(|| match pool { Some(p) => p.install(call), None => call() }));
    let runs = chk::verif::take_runs();
    let (mut res, mut gas, mut sols, mut errs, mut err_sol) = (4i64, 0u64, vec![], vec![], 0i64);
    match r {
        Ok(Ok((g, s))) => { res = 0; gas = g; sols = s.solutions; }
        Ok(Err(PredicatesError::Failed(pe))) => {
            res = 1;
            for (sol, e) in pe.0.iter() {
                match e {
                    PredicateError::InvalidNodeEdges(ix) => errs.push((*sol as i64, 0, vec![*ix as i64])),
                    PredicateError::ProgramErrors(p) => {
                        let d = format!("{}", p);
                        let nodes: Vec<i64> = d.lines().filter_map(|l| { let t = l.strip_prefix("  ")?; if t.starts_with(' ') { return None; } t.split(':').next()?.parse().ok() }).collect();
                        errs.push((*sol as i64, 1, nodes));
                    }
                    PredicateError::ConstraintsUnsatisfied(cu) => errs.push((*sol as i64, 2, cu.0.iter().map(|x| *x as i64).collect())),
                    PredicateError::Mutations(MutationsError::DecodeError(_)) => { res = 2; err_sol = *sol as i64; }
                    PredicateError::Mutations(MutationsError::DuplicateMutations(_)) => { res = 3; err_sol = *sol as i64; }
                }
            }
        }
        Ok(Err(_)) => { res = 4; }
        Err(_) => { res = 4; }
    }
    Outcome { res, gas, sols, errs, err_sol, runs, no_result: false }
}

pub fn render(c: &GCase, o: &Outcome) -> (String, serde_json::Value, bool) {
    let (res, gas, sols, errs, err_sol, runs) = (o.res, o.gas, &o.sols, &o.errs, o.err_sol, &o.runs);
    let events = list_of(runs, |(sol, node, inputs, mode)| format!("({}, {}, {}, {})", if *mode == RunMode::Outputs { 0 } else { 1 }, sol, node,
        list_of(inputs, |io| format!("({}, {})", zlist(io.0.iter().copied()), zlist(io.1.iter().copied())))));
    let state_lit = list_of(&c.state.iter().collect::<Vec<_>>(), |(ca, m)| format!("({}, {})", blist(&ca.0),
        list_of(&m.iter().collect::<Vec<_>>(), |(k, v)| format!("({}, {})", zlist(k.iter().copied()), zlist(v.iter().copied())))));
    let lit = format!("Build_graph_case {} {} {} {} {} {}%N {} {} {} {} {} {}",
        list_of(&c.preds, |(ca, pa, p)| format!("({}, {}, {})", blist(&ca.0), blist(&pa.0), coq_pred(p))),
        list_of(&c.programs, |(a, b)| format!("({}, {})", blist(&a.0), blist(b))),
        list_of(&c.sols, coq_solution), state_lit, coq_bool(c.collect_all), 4000,
        res, gas, list_of(sols, coq_solution), list_of(errs, |e| format!("({}, {}, {})", e.0, e.1, zlist(e.2.iter().copied()))), err_sol, events);
    let mut desc = json!({"family": c.family, "solutions": c.sols.len(), "nodes": c.preds.iter().map(|p| p.2.nodes.len()).collect::<Vec<_>>(),
        "edges": c.preds.iter().map(|p| p.2.edges.clone()).collect::<Vec<_>>(), "edge_starts": c.preds.iter().map(|p| p.2.nodes.iter().map(|n| n.edge_start).collect::<Vec<_>>()).collect::<Vec<_>>(),
        "collect_all": c.collect_all, "impl_res": res, "gas": gas, "runs": runs.len(),
        "declared": c.sols.iter().map(|s| s.state_mutations.iter().map(|m| (m.key.clone(), m.value.clone())).collect::<Vec<_>>()).collect::<Vec<_>>()});
    if let Some(k) = c.known_class { desc["known_class"] = json!(k); }
    if o.no_result { desc["no_result"] = json!("the entry point did not return within the watchdog's time limit"); }
    // canonical form for comparing runs under different schedules: the recorded events as a sorted multiset
    let mut evs: Vec<String> = runs.iter().map(|r| format!("{:?}", r)).collect();
    evs.sort();
    desc["canon"] = json!(format!("{} {} {:?} {:?} {} {:?}", res, gas, sols, errs, err_sol, evs));
    (lit, desc, runs.len() >= 2)
}

/// Fixed regression cases (ids stable: append only).
pub fn corpus() -> Vec<GCase> {
    let mut v = vec![];
    let c0 = ContentAddress([0x10; 32]);
    let mk = |kinds: Vec<(Kind, usize, u16)>, edges: Vec<u16>, muts: Vec<Mutation>, state: Vec<(Key, Vec<Word>)>| -> GCase {
        let contracts = vec![c0.clone(), ContentAddress([0x11; 32])];
        let mut nodes = vec![]; let mut programs = vec![];
        for (k, cin, es) in &kinds {
            let prog = Program(asm::to_bytes(program_of(k, *cin, &contracts)).collect());
            let a = essential_hash::content_addr(&prog);
            nodes.push(Node { edge_start: *es, program_address: a.clone() }); programs.push((a, prog.0));
        }
        let pred = Predicate { nodes, edges };
        let pa = essential_hash::content_addr(&pred);
        let mut st = BTreeMap::new(); for (k, val) in state { st.entry(c0.clone()).or_insert_with(BTreeMap::new).insert(k, val); }
        GCase { preds: vec![(c0.clone(), pa.clone(), pred)], programs, sols: vec![Solution { predicate_to_solve: PredicateAddress { contract: c0.clone(), predicate: pa }, predicate_data: vec![], state_mutations: muts }],
                state: st, collect_all: false, family: "corpus", known_class: None }
    };
    // F11: chain 2 -> 1 -> 0 with the post-state read in node 2 (non-topological numbering)
    v.push(mk(vec![(Kind::LeafFold(Some(9)), 1, u16::MAX), (Kind::Pass, 1, 0), (Kind::PostRead(vec![1]), 0, 1)], vec![0, 1],
              vec![Mutation { key: vec![1], value: vec![9] }], vec![(vec![1], vec![4])]));
    // the same chain numbered topologically
    v.push(mk(vec![(Kind::PostRead(vec![1]), 0, 0), (Kind::Pass, 1, 1), (Kind::LeafFold(Some(9)), 1, u16::MAX)], vec![1, 2],
              vec![Mutation { key: vec![1], value: vec![9] }], vec![(vec![1], vec![4])]));
    // F9: a computed mutation for a key the solution declares
    let dup: Vec<Word> = essential_types::solution::encode::encode_mutations(&[Mutation { key: vec![9], value: vec![3] }]).collect();
    v.push(mk(vec![(Kind::LeafData(dup), 0, u16::MAX)], vec![], vec![Mutation { key: vec![9], value: vec![4] }], vec![]));
    // F4/F5: data outputs that are not valid encodings
    v.push(mk(vec![(Kind::LeafData(vec![1, 1, 5]), 0, u16::MAX)], vec![], vec![], vec![]));
    v.push(mk(vec![(Kind::LeafData(vec![i64::MAX]), 0, u16::MAX)], vec![], vec![], vec![]));
    // F6: a post-state read of i64::MAX keys of a contract with proposed mutations
    let mut big = mk(vec![(Kind::Pass, 0, u16::MAX)], vec![], vec![Mutation { key: vec![i64::MAX], value: vec![1] }], vec![]);
    {
        let prog = Program(asm::to_bytes(vec![push(i64::MAX), push(1), push(i64::MAX), push(0), PKRNG, push(1)]).collect());
        let a = essential_hash::content_addr(&prog);
        big.preds[0].2.nodes[0].program_address = a.clone(); big.programs = vec![(a, prog.0)];
        let pa = essential_hash::content_addr(&big.preds[0].2); big.preds[0].1 = pa.clone(); big.sols[0].predicate_to_solve.predicate = pa;
    }
    v.push(big);
    // cyclic graph and a dangling edge
    v.push(mk(vec![(Kind::Pass, 0, 0), (Kind::Pass, 0, 1)], vec![1, 0], vec![], vec![]));
    v.push(mk(vec![(Kind::Pass, 0, 0), (Kind::LeafConst(1), 0, u16::MAX)], vec![1, 5], vec![], vec![]));
    // two roots feeding one leaf: a prefix of the parents' outputs is exactly as large as the stack / memory limit, so the
    // next parent's words are what overflows (or what the leaf needs); both numberings of the roots
    for big_first in [true, false] {
        let order = |big: Kind, small: Kind, leaf: Kind| -> Vec<(Kind, usize, u16)> {
            if big_first { vec![(big, 0, 0), (small, 0, 1), (leaf, 0, u16::MAX)] } else { vec![(small, 0, 0), (big, 0, 1), (leaf, 0, u16::MAX)] } };
        for n in [4093i64, 4094, 4095] {
            v.push(mk(order(Kind::Raw(vec![push(n), RES]), Kind::Raw(vec![push(7)]), Kind::Raw(vec![POP, push(4095), DROP, push(1)])), vec![2, 2], vec![], vec![]));
        }
        v.push(mk(order(Kind::Raw(vec![push(10240), ALOC, POP]), Kind::Raw(vec![push(1), ALOC, POP]), Kind::Raw(vec![push(1)])), vec![2, 2], vec![], vec![]));
        v.push(mk(order(Kind::Raw(vec![push(10240), ALOC, POP]), Kind::Raw(vec![push(1)]), Kind::Raw(vec![push(1), EQ])), vec![2, 2], vec![], vec![]));
        v.push(mk(order(Kind::Raw(vec![push(10239), ALOC, POP]), Kind::Raw(vec![push(1), ALOC, POP, push(1)]), Kind::Raw(vec![push(1), EQ])), vec![2, 2], vec![], vec![]));
    }
    v
}

pub fn run(a: &Args) {
    let evals: Vec<String> = a.extra.iter().position(|x| x == "--evals").and_then(|i| a.extra.get(i + 1)).map(|s| s.split(',').map(|x| x.to_string()).collect())
        .unwrap_or_else(|| vec!["graph_mismatches".into(), "graph_spec_failures".into()]);
    let ev: Vec<&str> = evals.iter().map(|s| s.as_str()).collect();
    let mut out = Out::new("From EB Require Import Corr.RunGraph.", "graph_case", &ev);
    out.only = a.only;
    let mut id = 0u64;
    for c in corpus() {
        if a.only.map(|o| o == id).unwrap_or(true) { let (lit, d, nt) = run_case(&c); out.push(id, lit, d, nt); out.bump("corpus"); }
        id += 1;
    }
    for i in 0..a.count as u64 {
        if a.only.map(|o| o == id).unwrap_or(true) {
            let mut rng = Rng::for_case(a.seed, 1, i);
            let c = gen_case(&mut rng);
            let (lit, d, nt) = run_case(&c);
            out.bump(&format!("family_{}", c.family));
            out.bump(&format!("impl_res_{}", d["impl_res"]));
            out.push(id, lit, d, nt);
        }
        id += 1;
    }
    out.write(&a.out, a.shards, "graph");
}

/// Stress shape for the shared lazy cache of a VM (the predicate-data hashes behind `PredicateExists`): every solution's
/// only node forks many Compute children that all ask `PredicateExists` at once, and the LAST solution carries predicate
/// data that takes milliseconds to hash, so that first use of the cache overlaps with unstarted children.  These cases are
/// too large for the Coq model (megabytes of predicate data); they are compared between pool sizes only.
pub fn gen_stress(rng: &mut Rng) -> GCase {
    let c0 = ContentAddress([0x10; 32]);
    let nsol = rng.range(2, 3) as usize;
    let mut preds = vec![]; let mut programs = vec![]; let mut sols = vec![];
    for i in 0..nsol {
        let breadth = *rng.pick(&[8i64, 16, 32, 64]);
        let mut ops = vec![push(breadth), COM];
        for _ in 0..4 { ops.push(push(rng.next() as i64)); }
        ops.extend([PEX, POP, COME, push(i as Word), POP, push(1)]);
        let prog = Program(asm::to_bytes(ops).collect());
        let pa = essential_hash::content_addr(&prog);
        let pred = Predicate { nodes: vec![Node { edge_start: u16::MAX, program_address: pa.clone() }], edges: vec![] };
        let pr = essential_hash::content_addr(&pred);
        programs.push((pa, prog.0));
        preds.push((c0.clone(), pr.clone(), pred));
        // every solution takes a while to hash (so that an idle worker has time to steal a half of a parallel
        // initialisation), the later ones longer
        let data: Vec<Vec<Word>> = vec![vec![7 + i as Word; 8000]; (rng.range(4, 12) as usize) * (1 + 3 * i)];
        sols.push(Solution { predicate_to_solve: PredicateAddress { contract: c0.clone(), predicate: pr }, predicate_data: data, state_mutations: vec![] });
    }
    GCase { preds, programs, sols, state: BTreeMap::new(), collect_all: rng.chance(1, 2), family: "stress_cache", known_class: None }
}

/// Engine `sched`: every case is run under thread pools of several sizes with perturbed task timing; the results must be
/// identical to each other; the literal of one of the runs is then compared with the sequential model and reference in Coq.
pub fn run_sched(a: &Args) {
    let mut out = Out::new("From EB Require Import Corr.RunGraph.", "graph_case", &["graph_mismatches", "graph_spec_failures"]);
    out.only = a.only;
    let sizes = [1usize, 2, 3, 4, 8, 16];
    let pools: Vec<Arc<rayon::ThreadPool>> = sizes.iter().map(|n| Arc::new(rayon::ThreadPoolBuilder::new().num_threads(*n).build().unwrap())).collect();
    let limit = std::time::Duration::from_secs(std::env::var("EBH_WATCHDOG_SECS").ok().and_then(|s| s.parse().ok()).unwrap_or(120));
    let mut id = 0u64;
    let mut cases: Vec<GCase> = corpus();
    for i in 0..a.count as u64 { let mut rng = Rng::for_case(a.seed, 2, i); cases.push(gen_case(&mut rng)); }
    for i in 0..(a.count as u64 / 8).max(4) { let mut rng = Rng::for_case(a.seed, 22, i); cases.push(gen_stress(&mut rng)); }
    let cases: Vec<Arc<GCase>> = cases.into_iter().map(Arc::new).collect();
    let mut hung = false;
    for c in &cases {
        if a.only.map(|o| o == id).unwrap_or(true) {
            let mut outs: Vec<Outcome> = vec![];
            for (k, p) in pools.iter().enumerate() {
                // watchdog: the run happens on its own thread; a run that does not come back is itself a result
                // ("every schedule returns the same result" fails), after which this process cannot go on
                let (tx, rx) = std::sync::mpsc::channel();
                let (c2, p2, js) = (c.clone(), p.clone(), a.seed.wrapping_add(id * 31 + k as u64) | 1);
                std::thread::spawn(move || { let o = exec_case(&c2, Some(&p2), js); let _ = tx.send(o); });
                match rx.recv_timeout(limit) {
                    Ok(o) => outs.push(o),
                    Err(_) => { hung = true; outs.push(Outcome { res: 4, gas: 0, sols: vec![], errs: vec![], err_sol: 0, runs: vec![], no_result: true }); break; }
                }
            }
            if c.family == "stress_cache" {
                // compared between pool sizes only; reported to Coq (as a failing placeholder) only when something is wrong
                let canon = |o: &Outcome| format!("{} {} {:?} {:?} {}", o.res, o.gas, o.sols.len(), o.errs, o.err_sol);
                let bad = hung || outs.iter().any(|o| canon(o) != canon(&outs[0])) || outs[0].res == 4;
                out.bump("stress_cache_cases_x6_pools");
                if bad {
                    out.bump(if hung { "no_result_within_time_limit" } else { "pools_disagree" });
                    out.push(id, "Build_graph_case [] [] [] [] false 4000%N 4 0 [] [] 0 []".into(),
                        json!({"family": c.family, "solutions": c.sols.len(), "no_result": hung, "results": outs.iter().map(|o| canon(o)).collect::<Vec<_>>(),
                               "what": "many Compute children ask PredicateExists at once while the predicate data of the last solution takes milliseconds to hash; regenerate with the same seed and case id"}), true);
                }
                if hung { break; }
                id += 1;
                continue;
            }
            let mut lits: Vec<(String, serde_json::Value, bool)> = outs.iter().map(|o| render(c, o)).collect();
            let first = lits[0].1["canon"].clone();
            let differing: Vec<usize> = lits.iter().enumerate().filter(|(_, l)| l.1["canon"] != first).map(|(k, _)| sizes[k]).collect();
            let pick = if hung { lits.len() - 1 } else { (id as usize) % lits.len() };
            let (mut lit, mut d, nt) = lits.swap_remove(pick);
            d["pool_sizes"] = json!(sizes); d["pools_disagree"] = json!(differing);
            if !differing.is_empty() && !hung {
                // make the disagreement visible to the specification check: the run counts as a failure of determinism
                lit = lit.replacen("%N 0 ", "%N 4 ", 1).replacen("%N 1 ", "%N 4 ", 1).replacen("%N 2 ", "%N 4 ", 1).replacen("%N 3 ", "%N 4 ", 1);
                out.bump("pools_disagree");
            }
            if hung { out.bump("no_result_within_time_limit"); }
            out.bump("cases_x6_pools");
            out.push(id, lit, d, nt);
            if hung { break; }
        }
        id += 1;
    }
    out.write(&a.out, a.shards, "sched");
    if hung { std::process::exit(0); }   // worker threads of the stuck pool never finish
}

/// Engine `post`: read_or_fallback and next_key through the verification hook (C03).
pub fn run_post(a: &Args) {
    let mut out = Out::new("From EB Require Import Corr.RunGraph.", "post_case", &["post_mismatches", "post_spec_failures"]);
    out.only = a.only;
    let contracts: Vec<ContentAddress> = (0..3).map(|i| ContentAddress([0x20 + i as u8; 32])).collect();
    let words: [Word; 9] = [i64::MIN, -1, 0, 1, 2, 5, i64::MAX - 1, i64::MAX, 7];
    for i in 0..a.count as u64 {
        let mut rng = Rng::for_case(a.seed, 3, i);
        let n: usize = match rng.below(8) { 0 => 0, 1 => 1, 2 => usize::MAX >> 1, 3 => 5000, _ => rng.range(2, 8) as usize };
        let klen = if n > 100 { *rng.pick(&[1usize, 2, 3]) } else { *rng.pick(&[0usize, 1, 1, 1, 2, 2, 3]) };
        let mk_key = |rng: &mut Rng| -> Key { (0..klen).map(|_| *rng.pick(&words)).collect() };
        // a huge count is only interesting (and only terminates quickly) near the maximal key, where the range is cut short
        let base: Key = if n > 100 { let mut k = vec![i64::MAX; klen]; k[klen - 1] = i64::MAX - rng.range(0, 4); k } else { mk_key(&mut rng) };
        // keys in the neighbourhood of `base`, so that ranges straddle mutated, deleted and untouched keys and word carries
        let mut near: Vec<Key> = vec![base.clone()];
        let mut k = base.clone();
        for _ in 0..6 { match next_key(k.clone()) { Some(n) => { near.push(n.clone()); k = n; } None => break } }
        let mut state: BTreeMap<ContentAddress, BTreeMap<Key, Vec<Word>>> = BTreeMap::new();
        let mut entries: Vec<(ContentAddress, Key, Vec<Word>)> = vec![];
        for c in &contracts {
            for kk in &near {
                if rng.chance(1, 2) { state.entry(c.clone()).or_default().insert(kk.clone(), (0..rng.range(1, 3)).map(|_| rng.range(100, 199)).collect()); }
                if rng.chance(1, 3) && *c != contracts[2] { entries.push((c.clone(), kk.clone(), if rng.chance(1, 4) { vec![] } else { vec![rng.range(1, 99)] })); }
            }
        }
        if rng.chance(1, 4) { if let Some(e) = entries.first().cloned() { entries.push((e.0, e.1, vec![rng.range(200, 299)])); } }
        let c = rng.pick(&contracts).clone();
        let st = MemState(Arc::new(state.clone()));
        let res = chk::verif::read_post(&entries, &st, c.clone(), base.clone(), n).unwrap();
        let pre_res = st.key_range(c.clone(), base.clone(), n).unwrap();
        let mut samples: Vec<Key> = near.clone();
        samples.push(vec![]); samples.push(vec![i64::MAX]); samples.push(vec![i64::MAX, i64::MAX]); samples.push(vec![-1, i64::MAX]); samples.push(mk_key(&mut rng));
        let succ: Vec<(Key, Option<Key>)> = samples.into_iter().map(|kk| { let r = chk::verif::successor(kk.clone()); (kk, r) }).collect();
        let state_lit = list_of(&state.iter().collect::<Vec<_>>(), |(ca, m)| format!("({}, {})", blist(&ca.0),
            list_of(&m.iter().collect::<Vec<_>>(), |(k, v)| format!("({}, {})", zlist(k.iter().copied()), zlist(v.iter().copied())))));
        // a huge count on a contract with proposals would make the Rust loop run that many times: keep those on the pass-through path
        let lit = format!("Build_post_case {} {} {} {} {} {} {} {}",
            list_of(&entries, |e| format!("({}, {}, {})", blist(&e.0 .0), zlist(e.1.iter().copied()), zlist(e.2.iter().copied()))),
            state_lit, blist(&c.0), zlist(base.iter().copied()), n.min(i64::MAX as usize),
            list_of(&res, |v| zlist(v.iter().copied())), list_of(&pre_res, |v| zlist(v.iter().copied())),
            list_of(&succ, |e| format!("({}, {})", zlist(e.0.iter().copied()), match &e.1 { Some(k) => format!("(Some {})", zlist(k.iter().copied())), None => "None".into() })));
        out.push(i, lit, json!({"key": base, "n": n.min(1 << 40), "entries": entries.len(), "values": res.len()}), res.len() >= 2);
        out.bump(if entries.iter().any(|e| e.0 == c) { "contract_has_proposals" } else { "pass_through" });
    }
    out.write(&a.out, a.shards, "post");
}

fn perms_ix(n: usize) -> Vec<Vec<usize>> {
    fn go(v: &[usize]) -> Vec<Vec<usize>> {
        if v.len() <= 1 { return vec![v.to_vec()]; }
        let mut out = vec![];
        for i in 0..v.len() { let mut rest = v.to_vec(); let x = rest.remove(i); for mut p in go(&rest) { p.insert(0, x); out.push(p); } }
        out
    }
    go(&(0..n).collect::<Vec<_>>())
}

/// Engine `perm`: every permutation of a solution set through content_addr, check_set and the two-pass check (C04).
pub fn run_perm(a: &Args) {
    let mut out = Out::new("From EB Require Import Corr.RunGraph.", "perm_case", &["perm_mismatches", "perm_spec_failures"]);
    out.only = a.only;
    let mut cases: Vec<GCase> = vec![];
    // known finding F10: two solutions of one contract propose different values for one key; the post-state keeps the last one
    {
        let c0 = ContentAddress([0x10; 32]);
        let contracts = vec![c0.clone(), ContentAddress([0x11; 32])];
        let mk = |kind: Kind, muts: Vec<Mutation>| -> (Predicate, Vec<(ContentAddress, Vec<u8>)>, Solution) {
            let prog = Program(asm::to_bytes(program_of(&kind, 0, &contracts)).collect());
            let pa = essential_hash::content_addr(&prog);
            let pred = Predicate { nodes: vec![Node { edge_start: u16::MAX, program_address: pa.clone() }], edges: vec![] };
            let pr = essential_hash::content_addr(&pred);
            (pred, vec![(pa, prog.0)], Solution { predicate_to_solve: PredicateAddress { contract: c0.clone(), predicate: pr }, predicate_data: vec![], state_mutations: muts })
        };
        let (p1, g1, s1) = mk(Kind::LeafPostCheck(vec![9], Some(1)), vec![Mutation { key: vec![9], value: vec![1] }]);
        let (p2, g2, s2) = mk(Kind::LeafConst(1), vec![Mutation { key: vec![9], value: vec![2] }]);
        let mut programs = g1; programs.extend(g2);
        cases.push(GCase { preds: vec![(c0.clone(), s1.predicate_to_solve.predicate.clone(), p1), (c0.clone(), s2.predicate_to_solve.predicate.clone(), p2)],
            programs, sols: vec![s1, s2], state: BTreeMap::new(), collect_all: false, family: "f10", known_class: Some("cross_solution_dup_key") });
    }
    for i in 0..a.count as u64 {
        let mut rng = Rng::for_case(a.seed, 4, i);
        if rng.chance(1, 8) {
            // a set in which the same (mutation-free) solution occurs more than once, next to others: [a, a, b], [a, b, a], ...
            let c0 = ContentAddress([0x10; 32]);
            let prog = Program(asm::to_bytes(vec![push(1)]).collect());
            let pa = essential_hash::content_addr(&prog);
            let pred = Predicate { nodes: vec![Node { edge_start: u16::MAX, program_address: pa.clone() }], edges: vec![] };
            let pr = essential_hash::content_addr(&pred);
            let kinds: Vec<Solution> = (0..2).map(|k| Solution { predicate_to_solve: PredicateAddress { contract: c0.clone(), predicate: pr.clone() }, predicate_data: vec![vec![k as Word]], state_mutations: vec![] }).collect();
            let n = rng.range(3, 4) as usize;
            let mut sols: Vec<Solution> = (0..n).map(|_| kinds[rng.below(2) as usize].clone()).collect();
            sols[0] = kinds[0].clone(); sols[1] = kinds[0].clone(); sols[n - 1] = kinds[1].clone();
            cases.push(GCase { preds: vec![(c0.clone(), pr.clone(), pred)], programs: vec![(pa, prog.0)], sols, state: BTreeMap::new(), collect_all: false, family: "repeated_solutions", known_class: None });
            continue;
        }
        let mut c = gen_case(&mut rng); if c.sols.len() == 1 && rng.chance(1, 2) { continue; } c.collect_all = false; cases.push(c);
    }
    for (id, c) in cases.iter().enumerate() {
        if !a.only.map(|o| o == id as u64).unwrap_or(true) { continue; }
        let n = c.sols.len();
        let get_pred: Arc<HashMap<PredicateAddress, Arc<Predicate>>> = Arc::new(c.preds.iter().map(|(ca, pa, p)|
            (PredicateAddress { contract: ca.clone(), predicate: pa.clone() }, Arc::new(p.clone()))).collect());
        let get_prog = JitterPrograms(Arc::new(c.programs.iter().map(|(a, b)| (a.clone(), Arc::new(Program(b.clone())))).collect()), 0);
        let state = MemState(Arc::new(c.state.clone()));
        let mut addrs = vec![]; let mut checks = vec![]; let mut results = vec![];
        for perm in perms_ix(n) {
            let sols: Vec<Solution> = perm.iter().map(|i| c.sols[*i].clone()).collect();
            let set = SolutionSet { solutions: sols };
            addrs.push(blist(&essential_hash::content_addr(&set).0));
            checks.push(coq_bool(chk::check_set(&set).is_ok()).to_string());
            let config = Arc::new(CheckPredicateConfig { collect_all_failures: false });
            let r = catch_unwind(AssertUnwindSafe(|| chk::check_and_compute_solution_set_two_pass(&state, set, get_pred.clone(), get_prog.clone(), config)));
            let _ = chk::verif::take_runs();
            let (code, gas, per_orig): (i64, u64, Vec<Vec<Vec<Word>>>) = match r {
                Ok(Ok((g, s))) => {
                    let mut per = vec![vec![]; n];
                    for (pos, sol) in s.solutions.iter().enumerate() {
                        let mut enc: Vec<Vec<Word>> = sol.state_mutations.iter().map(|m| m.encode().collect()).collect();
                        enc.sort();
                        per[perm[pos]] = enc;
                    }
                    (0, g, per)
                }
                Ok(Err(PredicatesError::Failed(pe))) => {
                    let kind = pe.0.iter().map(|(_, e)| match e { PredicateError::Mutations(MutationsError::DecodeError(_)) => 2, PredicateError::Mutations(_) => 3, _ => 1 }).max().unwrap_or(1);
                    (kind, 0, vec![])
                }
                _ => (4, 0, vec![]),
            };
            results.push(format!("({}, {}, {})", code, gas, list_of(&per_orig, |ms| list_of(ms, |m| zlist(m.iter().copied())))));
        }
        let lit = format!("Build_perm_case {} [{}] [{}] [{}]", list_of(&c.sols, coq_solution), addrs.join("; "), checks.join("; "), results.join("; "));
        let mut d = json!({"family": c.family, "solutions": n, "permutations": addrs.len(), "results": results.iter().map(|r| r.chars().take(12).collect::<String>()).collect::<Vec<_>>()});
        if let Some(k) = c.known_class { d["known_class"] = json!(k); }
        out.push(id as u64, lit, d, n >= 2);
        out.bump(&format!("solutions_{}", n));
    }
    out.write(&a.out, a.shards, "perm");
}

/// Engine `helpers`: create_parent_map, parallel_topo_sort, find_deferred and should_cache through the hook.
pub fn run_helpers(a: &Args) {
    let mut out = Out::new("From EB Require Import Corr.RunGraph.", "helper_case", &["helper_mismatches", "helper_spec_failures"]);
    out.only = a.only;
    let contracts: Vec<ContentAddress> = (0..2).map(|i| ContentAddress([0x10 + i as u8; 32])).collect();
    for i in 0..a.count as u64 {
        let mut rng = Rng::for_case(a.seed, 6, i);
        let b = if rng.chance(1, 2) { gen_raw(&mut rng) } else { gen_dag(&mut rng, &contracts, &key_pool(), &[]) };
        let p = &b.pred;
        let n = p.nodes.len();
        let seeds: Vec<usize> = (0..n).filter(|_| rng.chance(1, 5)).collect();
        let is_seed = |node: &Node| -> bool { p.nodes.iter().position(|x| std::ptr::eq(x, node)).map(|ix| seeds.contains(&ix)).unwrap_or(false) };
        let pm = chk::verif::parent_map(p);
        let (pm_lit, pm_err, levels_lit, cached) = match &pm {
            Ok(m) => {
                let lv = chk::verif::topo_sort(p, m);
                let lv_lit = match &lv { Ok(l) => format!("(Some {})", list_of(l, |x| zlist(x.iter().map(|v| *v as i64)))), Err(_) => "None".into() };
                let def = chk::verif::deferred(p, is_seed);
                let cached: Vec<String> = (0..n).map(|ix| coq_bool(chk::verif::cached(ix as u16, p, &def)).to_string()).collect();
                (format!("(Some {})", list_of(&m.iter().collect::<Vec<_>>(), |(k, v)| format!("({}, {})", k, zlist(v.iter().map(|x| *x as i64))))), 0usize, lv_lit, cached)
            }
            Err(ix) => ("None".to_string(), *ix, "None".to_string(), vec![]),
        };
        // find_deferred calls node_edges(..).expect only for nodes it visits; it is total after the fix
        let def = std::panic::catch_unwind(std::panic::AssertUnwindSafe(|| chk::verif::deferred(p, is_seed))).unwrap_or_else(|_| vec![u16::MAX]);
        let lit = format!("Build_helper_case {} {} {} {} {} {} [{}]", coq_pred(p), zlist(seeds.iter().map(|x| *x as i64)), pm_lit, pm_err, levels_lit,
            zlist(def.iter().map(|x| *x as i64)), cached.join("; "));
        out.push(i, lit, json!({"nodes": n, "edges": p.edges, "edge_starts": p.nodes.iter().map(|x| x.edge_start).collect::<Vec<_>>(), "seeds": seeds, "valid": pm.is_ok()}), n >= 2);
        out.bump(if pm.is_ok() { "valid_edges" } else { "invalid_edges" });
    }
    out.write(&a.out, a.shards, "helpers");
}
