//! Correspondence harness: runs the implementation on generated inputs and writes `cases_k.v` files
//! that Coq evaluates against the model and the specification (see /verif/DESIGN.md section 5).
mod util;
mod e_asm;
mod vmrun;
mod e_vm;
mod e_graph;
mod e_types;
mod e_sign;

fn main() {
    // panics of the implementation are caught and reported as outcomes; keep stderr quiet
    std::panic::set_hook(Box::new(|_| {}));
    let a = util::parse_args();
    match a.engine.as_str() {
        "asm" => e_asm::run_asm(&a),
        "fx" => e_asm::run_fx(&a),
        "mapped" => e_asm::run_mapped(&a),
        "vm" => e_vm::run(&a),
        "graph" => e_graph::run(&a),
        "sched" => e_graph::run_sched(&a),
        "post" => e_graph::run_post(&a),
        "types" => e_types::run(&a),
        "sign" => e_sign::run(&a),
        other => { eprintln!("unknown engine {other}"); std::process::exit(2); }
    }
}
