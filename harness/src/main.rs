//! Correspondence harness: runs the implementation on generated inputs and writes `cases_k.v` files
//! that Coq evaluates against the model and the specification (see /verif/DESIGN.md section 5).
mod util;
mod e_asm;
mod vmrun;
mod e_vm;
mod e_graph;
mod e_types;
mod e_sign;
mod e_lock;

fn main() {
    // panics of the implementation are caught and reported as outcomes; keep stderr quiet
    std::panic::set_hook(Box::new(|info| { if std::env::var("EBH_TRACE").is_ok() { eprintln!("panic: {info}"); } }));
    let a = util::parse_args();
    match a.engine.as_str() {
        "asm" => e_asm::run_asm(&a),
        "fx" => e_asm::run_fx(&a),
        "mapped" => e_asm::run_mapped(&a),
        "vm" => e_vm::run(&a),
        "graph" => e_graph::run(&a),
        "sched" => e_graph::run_sched(&a),
        "post" => e_graph::run_post(&a),
        "perm" => e_graph::run_perm(&a),
        "helpers" => e_graph::run_helpers(&a),
        "types" => e_types::run(&a),
        "sign" => e_sign::run(&a),
        "lock" => e_lock::run(&a),
        "probe-compute-breadth" => {
            // known finding F12: a Compute whose breadth is a huge word makes rayon collect that many results
            use essential_asm::short::*;
            let ops = vec![PUSH(1 << 40), COM, COME];
            let sol = vmrun::default_solution();
            let mut vm = essential_vm::Vm::default();
            let r = vm.exec_ops(&ops, essential_vm::Access::new(std::sync::Arc::new(vec![sol]), 0), &e_graph::MemState::default2(), &|_: &essential_asm::Op| 1, essential_vm::GasLimit { per_yield: 4096, total: 1000 });
            println!("probe returned: {:?}", r.map_err(|e| format!("{e}")));
        }
        "probe-post-read-count" => {
            // known finding F13: a post-state read of a huge count on a contract with proposals iterates (and allocates) count times
            use essential_types::{ContentAddress, solution::{Solution, Mutation}, PredicateAddress};
            let c = ContentAddress([7; 32]);
            let entries = vec![(c.clone(), vec![5i64], vec![1i64])];
            let st = e_graph::MemState::default();
            let _ = (Solution { predicate_to_solve: PredicateAddress { contract: c.clone(), predicate: c.clone() }, predicate_data: vec![], state_mutations: vec![Mutation { key: vec![5], value: vec![1] }] });
            let r = essential_check::solution::verif::read_post(&entries, &st, c, vec![0], 1usize << 40);
            println!("probe returned {} values", r.map(|v| v.len()).unwrap_or(0));
        }
        other => { eprintln!("unknown engine {other}"); std::process::exit(2); }
    }
}
