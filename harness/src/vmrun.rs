//! Running one VM case on the implementation and rendering it as a Gallina `vm_case` literal.
use crate::util::*;
use essential_asm::{self as asm, Op, ToOpcode};
use essential_types::{solution::{Mutation, Solution}, ContentAddress, PredicateAddress, Word};
use essential_vm::{error::{ExecError, OpError}, Access, BytecodeMapped, GasLimit, Memory, Stack, StateRead, Vm};
use serde_json::json;
use std::panic::{catch_unwind, AssertUnwindSafe};
use std::sync::{Arc, Mutex};

#[derive(Clone)]
pub enum Cost { Const(u64), Table(Vec<(u8, u64)>, u64) }
impl Cost {
    pub fn of(&self, op: &Op) -> u64 {
        match self {
            Cost::Const(c) => *c,
            Cost::Table(t, d) => { let b: u8 = op.to_opcode().into(); t.iter().find(|e| e.0 == b).map(|e| e.1).unwrap_or(*d) }
        }
    }
    pub fn coq(&self) -> String {
        match self {
            Cost::Const(c) => format!("(CostConst {})", c),
            Cost::Table(t, d) => format!("(CostTable {} {})", list_of(t, |e| format!("({}, {})", e.0, e.1)), d),
        }
    }
    pub fn min(&self) -> u64 { match self { Cost::Const(c) => *c, Cost::Table(t, d) => t.iter().map(|e| e.1).chain([*d]).min().unwrap() } }
}

/// How a scripted state view answers.
#[derive(Clone, Copy, PartialEq)]
pub enum ViewMode { Exact, Fewer, More, Empty, Fail,
    /// exactly as many values as asked for (up to 6000), each of the given number of words
    Uniform(usize) }

pub type ReadLog = Arc<Mutex<Vec<(u8, Vec<u8>, Vec<Word>, usize, Option<Vec<Vec<Word>>>)>>>;

/// A state view whose answers are a deterministic function of (tag, seed, contract, key, count); every
/// call is recorded so that the model can be given exactly the same oracle.
#[derive(Clone)]
pub struct ScriptView { pub tag: u8, pub seed: u64, pub mode: ViewMode, pub log: ReadLog }
impl StateRead for ScriptView {
    type Error = String;
    fn key_range(&self, c: ContentAddress, key: Vec<Word>, n: usize) -> Result<Vec<Vec<Word>>, String> {
        let mut h = fnv(&format!("{}:{}:{:?}:{:?}:{}", self.tag, self.seed, c.0, key, n));
        let mut next = || { h ^= h << 13; h ^= h >> 7; h ^= h << 17; h };
        let res = if let ViewMode::Uniform(l) = self.mode { Some((0..n.min(6000)).map(|i| (0..l).map(|j| ((i * 7 + j) % 90) as i64).collect()).collect::<Vec<Vec<Word>>>()) }
        else if self.mode == ViewMode::Fail { None } else {
            let want = n.min(6);
            let cnt = match self.mode { ViewMode::Exact => want, ViewMode::Fewer => want.saturating_sub(1), ViewMode::More => want + 1, _ => 0 };
            Some((0..cnt).map(|_| { let l = (next() % 5) as usize; (0..l).map(|_| (next() % 200) as i64 - 50 + self.tag as i64 * 1000).collect() }).collect::<Vec<Vec<Word>>>())
        };
        self.log.lock().unwrap().push((self.tag, c.0.to_vec(), key, n, res.clone()));
        res.ok_or_else(|| "scripted state failure".to_string())
    }
}

#[derive(Clone)]
pub struct Case {
    pub sols: Vec<Solution>, pub index: usize, pub ops: Vec<Op>,
    pub pc: usize, pub stack: Vec<Word>, pub memory: Vec<Word>, pub parent: Option<Vec<Word>>,
    pub cost: Cost, pub limit: u64, pub view_seed: u64, pub pre_mode: ViewMode, pub post_mode: ViewMode,
    pub sha: Vec<Vec<u8>>,                         // inputs the generator expects to be hashed
    pub ed: Vec<(Vec<u8>, Vec<u8>, Vec<u8>)>,      // (key, sig, msg) the generator expects to be verified
    pub secp: Vec<(Vec<u8>, Vec<u8>, i64)>,        // (digest, sig, id) the generator expects to be recovered
    pub family: &'static str,
}
impl Default for Case {
    fn default() -> Self {
        Case { sols: vec![default_solution()], index: 0, ops: vec![], pc: 0, stack: vec![], memory: vec![], parent: None,
               cost: Cost::Const(1), limit: 4000, view_seed: 0, pre_mode: ViewMode::Exact, post_mode: ViewMode::Exact,
               sha: vec![], ed: vec![], secp: vec![], family: "" }
    }
}
pub fn default_solution() -> Solution {
    Solution { predicate_to_solve: PredicateAddress { contract: ContentAddress([0xC0; 32]), predicate: ContentAddress([0xAB; 32]) },
               predicate_data: vec![], state_mutations: vec![] }
}

pub fn err_class<E>(e: &OpError<E>) -> i64 {
    match e {
        OpError::Access(_) => 0, OpError::Alu(_) => 1, OpError::Crypto(_) => 2, OpError::Stack(_) => 3, OpError::Repeat(_) => 4,
        OpError::TotalControlFlow(_) => 5, OpError::Memory(_) => 6, OpError::ParentMemory(_) => 7, OpError::PcOverflow => 8,
        OpError::Decode(_) => 9, OpError::Encode(_) => 10, OpError::StateRead(_) => 11, OpError::Compute(_) => 12,
        OpError::FromBytes(_) => 13, OpError::OutOfGas(_) => 14,
    }
}

pub fn coq_solution(s: &Solution) -> String {
    format!("(Build_solution {} {} {} {})", blist(&s.predicate_to_solve.contract.0), blist(&s.predicate_to_solve.predicate.0),
        list_of(&s.predicate_data, |v| zlist(v.iter().copied())),
        list_of(&s.state_mutations, |m: &Mutation| format!("(Build_mutation {} {})", zlist(m.key.iter().copied()), zlist(m.value.iter().copied()))))
}

/// Parses `Repeat { stack: [Slot { counter: 0, limit: Up(3), repeat_index: 1 }, ..] }`.
pub fn repeat_obs(r: &essential_vm::Repeat) -> Vec<(i64, i64, i64, i64)> {
    let d = format!("{:?}", r);
    let mut out = vec![];
    for part in d.split("Slot {").skip(1) {
        let num = |key: &str| -> i64 {
            let i = part.find(key).unwrap() + key.len();
            let rest = &part[i..];
            let end = rest.find(|c: char| !(c.is_ascii_digit() || c == '-')).unwrap_or(rest.len());
            rest[..end].parse().unwrap()
        };
        let counter = num("counter: ");
        let index = num("repeat_index: ");
        if let Some(i) = part.find("Up(") {
            let rest = &part[i + 3..];
            let end = rest.find(')').unwrap();
            out.push((counter, 1, rest[..end].parse().unwrap(), index));
        } else { out.push((counter, 0, 0, index)); }
    }
    out
}

/// Renders a word list compactly: as a generator expression when it is `i` or `i mod m`, else a literal.
pub fn gen_expr(v: &[Word]) -> String {
    if v.len() >= 32 {
        if v.iter().enumerate().all(|(i, w)| *w == i as Word) { return format!("(zrange_z {})", v.len()); }
        for m in [5i64, 7] { if v.iter().enumerate().all(|(i, w)| *w == i as Word % m) { return format!("(zmods {} {})", v.len(), m); } }
    }
    zlist(v.iter().copied())
}
/// Renders `v` relative to named reference lists (common prefix / suffix of at least 24 words).
pub fn rel_expr(v: &[Word], refs: &[(&str, &[Word])]) -> String {
    let mut best: Option<(usize, usize, &str, usize)> = None; // (saved, prefix, name, suffix)
    for (name, r) in refs {
        let pre = v.iter().zip(r.iter()).take_while(|(a, b)| a == b).count();
        let max_suf = v.len().min(r.len()) - pre;
        let suf = v.iter().rev().zip(r.iter().rev()).take(max_suf).take_while(|(a, b)| a == b).count();
        let saved = pre + suf;
        if saved >= 24 && best.map(|b| saved > b.0).unwrap_or(true) { best = Some((saved, pre, name, suf)); }
    }
    match best {
        None => zlist(v.iter().copied()),
        Some((_, pre, name, suf)) => {
            let r = refs.iter().find(|x| x.0 == name).unwrap().1;
            let mid = &v[pre..v.len() - suf];
            format!("(firstn {} {} ++ {} ++ skipn {} {})", pre, name, zlist(mid.iter().copied()), r.len() - suf, name)
        }
    }
}

pub struct Observed {
    pub res: String, pub res_json: serde_json::Value, pub lit: String, pub steps: u64, pub is_err: bool, pub panicked: bool,
}

fn sha256(b: &[u8]) -> [u8; 32] { essential_hash::hash_bytes(b) }

pub fn pred_data_preimage(s: &Solution) -> Vec<u8> {
    let mut words: Vec<Word> = vec![];
    for slot in &s.predicate_data { words.push(slot.len() as Word); words.extend(slot.iter().copied()); }
    words.extend(essential_types::convert::word_4_from_u8_32(s.predicate_to_solve.contract.0));
    words.extend(essential_types::convert::word_4_from_u8_32(s.predicate_to_solve.predicate.0));
    words.iter().flat_map(|w| w.to_be_bytes()).collect()
}

pub fn ed_oracle(key: &[u8], sig: &[u8], msg: &[u8]) -> i64 {
    use ed25519_dalek::{Signature, Verifier, VerifyingKey};
    let k: [u8; 32] = key.try_into().unwrap();
    let s: [u8; 64] = sig.try_into().unwrap();
    match VerifyingKey::from_bytes(&k) {
        Err(_) => 0,
        Ok(vk) => if vk.verify(msg, &Signature::from_bytes(&s)).is_ok() { 2 } else { 1 },
    }
}
pub fn secp_oracle(digest: &[u8], sig: &[u8], id: i64) -> Vec<u8> {
    use secp256k1::{ecdsa::{RecoverableSignature, RecoveryId}, Message, Secp256k1};
    let Ok(rid) = RecoveryId::try_from(id as i32) else { return vec![] };
    let Ok(rs) = RecoverableSignature::from_compact(sig, rid) else { return vec![] };
    let d: [u8; 32] = digest.try_into().unwrap();
    match Secp256k1::new().recover_ecdsa(&Message::from_digest(d), &rs) {
        Ok(pk) => pk.serialize().to_vec(),
        Err(_) => vec![0],
    }
}

/// Runs the case on the implementation (operation list and mapped bytecode) and renders the literal.
pub fn run_case(c: &Case) -> Observed {
    let log: ReadLog = Arc::new(Mutex::new(vec![]));
    let pre = ScriptView { tag: 0, seed: c.view_seed, mode: c.pre_mode, log: log.clone() };
    let post = ScriptView { tag: 1, seed: c.view_seed, mode: c.post_mode, log: log.clone() };
    let priced: Arc<Mutex<(u64, u128)>> = Arc::new(Mutex::new((0, 0)));
    let mk_vm = || Vm {
        pc: c.pc,
        stack: Stack::try_from(c.stack.clone()).expect("generator keeps the stack within its limit"),
        memory: Memory::try_from(c.memory.clone()).expect("generator keeps memory within its limit"),
        parent_memory: c.parent.iter().map(|m| Arc::new(Memory::try_from(m.clone()).unwrap())).collect(),
        ..Default::default()
    };
    let access = Access::new(Arc::new(c.sols.clone()), c.index as u16);
    let limit = GasLimit { per_yield: GasLimit::DEFAULT_PER_YIELD, total: c.limit };
    let cost = c.cost.clone();
    let p2 = priced.clone();
    let cost_fn = move |op: &Op| { let g = cost.of(op); let mut p = p2.lock().unwrap(); p.0 += 1; p.1 += g as u128; g };

    let mut vm = mk_vm();
    let state = (pre.clone(), post.clone());
    // run on a worker thread of the (global) rayon pool, as the checker does: parallel sections started from outside the
    // pool are split differently (the injected job counts as stolen), which would hide what the children of one split share
    let r = catch_unwind(AssertUnwindSafe(|| rayon::join(|| vm.exec_ops(&c.ops, access.clone(), &state, &cost_fn, limit), || ()).0));
    let (steps, cost_sum) = *priced.lock().unwrap();
    let reads = log.lock().unwrap().clone();

    // the same program as mapped bytecode, from the same state
    let bytes: Vec<u8> = asm::to_bytes(c.ops.iter().cloned()).collect();
    let cost2 = c.cost.clone();
    let cost_fn2 = move |op: &Op| cost2.of(op);
    let log2: ReadLog = Arc::new(Mutex::new(vec![]));
    let state2 = (ScriptView { log: log2.clone(), ..pre.clone() }, ScriptView { log: log2.clone(), ..post.clone() });
    let mut vm2 = mk_vm();
    let mut vm3 = mk_vm();
    let r2 = catch_unwind(AssertUnwindSafe(|| {
        let mapped = BytecodeMapped::try_from(bytes.clone()).map_err(|e| format!("{e:?}"))?;
        // errors are compared by position and class: WHICH failing child of a Compute is reported is up to rayon
        let ek = |e: ExecError<String>| format!("{} {}", e.0, err_class(&e.1));
        let a = vm2.exec_bytecode(&mapped, access.clone(), &state2, &cost_fn2, limit).map_err(ek);
        let borrowed = BytecodeMapped::try_from(&bytes[..]).map_err(|e| format!("{e:?}"))?;
        let b = vm3.exec_bytecode(&borrowed, access.clone(), &state2, &cost_fn2, limit).map_err(ek);
        Ok::<_, String>((a, b))
    }));
    let same = |a: &Vm, b: &Vm| a.pc == b.pc && a.stack == b.stack && a.memory == b.memory && a.halt == b.halt && a.repeat == b.repeat && a.parent_memory == b.parent_memory;
    let mapped_same = match (&r, &r2) {
        (Ok(x), Ok(Ok((a, b)))) => {
            let xs = x.as_ref().map_err(|e| format!("{} {}", e.0, err_class(&e.1)));
            xs == a.as_ref().map(|g| g) .map_err(|e| e.clone()) && xs == b.as_ref().map_err(|e| e.clone()) && same(&vm, &vm2) && same(&vm, &vm3)
        }
        (Err(_), Err(_)) => true,
        _ => false,
    };

    let (res, res_json, is_err, panicked) = match &r {
        Ok(Ok(g)) => (format!("(IOk {})", g), json!({"ok": g}), false, false),
        Ok(Err(ExecError(pc, e))) => (format!("(IErr {} {})", pc, err_class(e)), json!({"err": [pc, err_class(e), format!("{e}").lines().next().unwrap_or("")]}), true, false),
        Err(_) => ("IPanic".to_string(), json!("panic"), true, true),
    };
    let stack: Vec<Word> = vm.stack.iter().copied().collect();
    let memory: Vec<Word> = vm.memory.iter().copied().collect();
    let rep = if panicked { vec![] } else { repeat_obs(&vm.repeat) };
    let empty: Vec<Word> = vec![];
    let p0v: &[Word] = c.parent.as_deref().unwrap_or(&empty);
    let refs: [(&str, &[Word]); 3] = [("s0", &c.stack), ("m0", &c.memory), ("p0", p0v)];
    // Vm::eval_ops from the same state
    let cost3 = c.cost.clone();
    let cost_fn3 = move |op: &Op| cost3.of(op);
    let log3: ReadLog = Arc::new(Mutex::new(vec![]));
    let state3 = (ScriptView { log: log3.clone(), ..pre.clone() }, ScriptView { log: log3.clone(), ..post.clone() });
    let mut vm4 = mk_vm();
    let eval = match catch_unwind(AssertUnwindSafe(|| vm4.eval_ops(&c.ops, access.clone(), &state3, &cost_fn3, limit))) {
        Ok(Ok(false)) => 0, Ok(Ok(true)) => 1,
        Ok(Err(essential_vm::error::EvalError::InvalidEvaluation(_))) => 2,
        Ok(Err(essential_vm::error::EvalError::Exec(_))) => 3,
        Err(_) => 4,
    };
    let obs = format!("(Build_obs {} {} {} {} {} {} {} {} {} {} {})", res, vm.pc, rel_expr(&stack, &refs), rel_expr(&memory, &refs),
        coq_bool(vm.halt), list_of(&rep, |q| format!("({}, {}, {}, {})", z(q.0), q.1, z(q.2), q.3)), steps, cost_sum,
        list_of(&reads, |r| format!("({}, {}, {}, {})", r.0, blist(&r.1), zlist(r.2.iter().copied()), r.3)), coq_bool(mapped_same), eval);

    // oracle tables
    let view_tbl = |tag: u8| list_of(&reads.iter().filter(|r| r.0 == tag).cloned().collect::<Vec<_>>(), |r| {
        let res = match &r.4 { None => "None".to_string(), Some(vs) => format!("(Some {})", list_of(vs, |v| zlist(v.iter().copied()))) };
        format!("({}, {}, {}, {})", blist(&r.1), zlist(r.2.iter().copied()), r.3, res)
    });
    let mut sha_inputs = c.sha.clone();
    if c.ops.iter().any(|o| matches!(o, Op::Access(asm::Access::PredicateExists))) {
        for s in &c.sols { sha_inputs.push(pred_data_preimage(s)); }
    }
    let sha_tbl = list_of(&sha_inputs, |b| format!("({}, {})", blist(b), blist(&sha256(b))));
    let ed_tbl = list_of(&c.ed, |e| format!("({}, {}, {}, {})", blist(&e.0), blist(&e.1), blist(&e.2), ed_oracle(&e.0, &e.1, &e.2)));
    let secp_tbl = list_of(&c.secp, |e| format!("({}, {}, {}, {})", blist(&e.0), blist(&e.1), e.2, blist(&secp_oracle(&e.0, &e.1, e.2))));
    let env = format!("(Build_env_lit {} {} {} {} {} {} {} {})", list_of(&c.sols, coq_solution), c.index, view_tbl(0), view_tbl(1),
        c.cost.coq(), sha_tbl, ed_tbl, secp_tbl);
    let parent = if c.parent.is_some() { "(Some p0)" } else { "None" };
    let fuel = steps + 6000;
    let lit = format!("(let s0 : list Z := {} in let m0 : list Z := {} in let p0 : list Z := {} in Build_vm_case {} {} {} s0 m0 {} {} {}%N {})",
        gen_expr(&c.stack), gen_expr(&c.memory), gen_expr(p0v), env, coq_ops(&c.ops), c.pc, parent, c.limit, fuel, obs);
    Observed { res, res_json, lit, steps, is_err, panicked }
}

pub fn describe(c: &Case, o: &Observed) -> serde_json::Value {
    json!({"family": c.family, "ops": c.ops.iter().map(|o| format!("{:?}", o)).collect::<Vec<_>>(), "pc": c.pc,
           "stack": if c.stack.len() > 40 { json!(format!("{} words", c.stack.len())) } else { json!(c.stack) },
           "memory": if c.memory.len() > 40 { json!(format!("{} words", c.memory.len())) } else { json!(c.memory) },
           "parent": c.parent.as_ref().map(|m| m.len()), "limit": c.limit, "cost_min": c.cost.min(), "impl": o.res_json, "steps": o.steps})
}
