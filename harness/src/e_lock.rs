//! Engine `lock`: StdLock under real OS threads, and the current source of the lock crate compiled against
//! shuttle's Mutex and explored under random, PCT and bounded-DFS schedulers (C20).
use crate::util::*;
use serde_json::json;
use std::sync::atomic::{AtomicU64, Ordering};
use std::sync::{Arc, Mutex};

/// The lock crate's source text with `std::sync::Mutex` resolved to shuttle's Mutex.
#[allow(dead_code, missing_docs)]
mod shuttled {
    // everything of std, with the synchronisation primitives, atomics, yield and spin hints replaced by shuttle's
    // so that whatever the lock is built from is explored under shuttle's schedulers
    mod std {
        pub use ::std::*;
        pub mod sync {
            pub use ::std::sync::*;
            pub use shuttle::sync::{Condvar, Mutex, MutexGuard, RwLock, RwLockReadGuard, RwLockWriteGuard};
            pub mod atomic { pub use shuttle::sync::atomic::*; }
        }
        pub mod thread { pub use ::std::thread::*; pub use shuttle::thread::{sleep, spawn, yield_now}; }
        pub mod hint { pub use ::std::hint::*; pub use shuttle::hint::spin_loop; }
    }
    include!(concat!(env!("OUT_DIR"), "/lock_src.rs"));
}

type Rec = (u64, u64, u64, u64, u64, bool); // (seq, tid, seen, written, returned, torn)

fn spin(n: u64) { let mut x = 0u64; for i in 0..n { x = x.wrapping_add(i).rotate_left(3); } std::hint::black_box(x); }

fn real_threads(rng: &mut Rng, threads: usize, calls: usize, init: u64) -> (Vec<Rec>, u64) {
    let lock = Arc::new(essential_lock::StdLock::new((init, init)));
    let seq = Arc::new(AtomicU64::new(0));
    let log: Arc<Mutex<Vec<Rec>>> = Arc::new(Mutex::new(vec![]));
    let durations: Vec<Vec<u64>> = (0..threads).map(|_| (0..calls).map(|_| match rng.below(4) { 0 => 0, 1 => rng.below(200), 2 => rng.below(if calls > 30 { 600 } else { 5000 }), _ => rng.below(40) }).collect()).collect();
    let handles: Vec<_> = (0..threads).map(|t| {
        let (lock, seq, log, durs) = (lock.clone(), seq.clone(), log.clone(), durations[t].clone());
        std::thread::spawn(move || {
            for d in durs {
                let mut rec: Option<Rec> = None;
                let ret = lock.apply(|data| {
                    let seen = data.0;
                    let torn = data.0 != data.1;
                    spin(d);
                    data.0 = seen + 1;
                    if d % 3 == 0 { std::thread::yield_now(); }
                    spin(d / 2);
                    data.1 = seen + 1;
                    let s = seq.fetch_add(1, Ordering::SeqCst);
                    rec = Some((s, t as u64, seen, seen + 1, 0, torn));
                    seen
                });
                let mut r = rec.unwrap(); r.4 = ret;
                log.lock().unwrap().push(r);
                if d % 5 == 0 { std::thread::yield_now(); }
            }
        })
    }).collect();
    for h in handles { h.join().unwrap(); }
    let fin = lock.apply(|d| d.0);
    let mut l = log.lock().unwrap().clone();
    l.sort();
    (l, fin)
}

fn shuttle_body(threads: usize, calls: usize, init: u64, sink: Arc<Mutex<Vec<(Vec<Rec>, u64)>>>) {
    let lock = Arc::new(shuttled::StdLock::new((init, init)));
    let seq = Arc::new(AtomicU64::new(0));
    let log: Arc<Mutex<Vec<Rec>>> = Arc::new(Mutex::new(vec![]));
    let hs: Vec<_> = (0..threads).map(|t| {
        let (lock, seq, log) = (lock.clone(), seq.clone(), log.clone());
        shuttle::thread::spawn(move || {
            for _ in 0..calls {
                let mut rec: Option<Rec> = None;
                let ret = lock.apply(|data| {
                    let seen = data.0;
                    let torn = data.0 != data.1;
                    shuttle::thread::yield_now();
                    data.0 = seen + 1;
                    shuttle::thread::yield_now();
                    data.1 = seen + 1;
                    let s = seq.fetch_add(1, Ordering::SeqCst);
                    rec = Some((s, t as u64, seen, seen + 1, 0, torn));
                    seen
                });
                let mut r = rec.unwrap(); r.4 = ret;
                log.lock().unwrap().push(r);
            }
        })
    }).collect();
    for h in hs { h.join().unwrap(); }
    let fin = lock.apply(|d| d.0);
    let mut l = log.lock().unwrap().clone();
    l.sort();
    sink.lock().unwrap().push((l, fin));
}

fn serial_ok(h: &[Rec], init: u64, fin: u64, total: usize) -> bool {
    let mut v = init;
    for r in h { if r.2 != v || r.3 != v + 1 || r.4 != v || r.5 { return false; } v = r.3; }
    h.len() == total && fin == init + total as u64
}

fn lit(h: &[Rec], fin: u64, threads: usize, calls: usize, init: u64) -> String {
    format!("Build_lock_case {} {} {} {} {} {}", init, threads, calls,
        list_of(h, |r| format!("({}, {}, {}, {})", r.1, r.2, r.3, r.4)), fin, coq_bool(h.iter().any(|r| r.5)))
}

pub fn run(a: &Args) {
    let mut out = Out::new("From EB Require Import Corr.RunLock.", "lock_case", &["lock_mismatches", "lock_spec_failures"]);
    out.only = a.only;
    let mut id = 0u64;
    // 1. the lock source under shuttle: every schedule's history is checked here, a sample goes to Coq as well
    let iters = if a.thorough { 60_000 } else { 2_500 };
    let mut explored = 0usize; let mut bad = 0usize;
    for (name, threads, calls) in [("random", 3usize, 2usize), ("pct", 3, 2), ("random", 4, 2), ("dfs", 2, 2)] {
        let sink: Arc<Mutex<Vec<(Vec<Rec>, u64)>>> = Arc::new(Mutex::new(vec![]));
        let s2 = sink.clone();
        let body = move || shuttle_body(threads, calls, 7, s2.clone());
        // a lock that spins without a shuttle-visible yield would hang the exploration: bound it by a timeout
        let (tx, rx) = std::sync::mpsc::channel();
        let nm = name.to_string();
        std::thread::spawn(move || {
            let r = std::panic::catch_unwind(std::panic::AssertUnwindSafe(|| match nm.as_str() {
                "random" => shuttle::check_random(body, iters),
                "pct" => shuttle::check_pct(body, iters, 3),
                _ => shuttle::check_dfs(body, Some(iters)),
            }));
            let _ = tx.send(r.is_err());
        });
        let r: Result<(), ()> = match rx.recv_timeout(std::time::Duration::from_secs(if a.thorough { 600 } else { 60 })) {
            Ok(false) => Ok(()),
            _ => Err(()),
        };
        let hs = sink.lock().unwrap().clone();
        explored += hs.len();
        let failing: Vec<&(Vec<Rec>, u64)> = hs.iter().filter(|(h, fin)| !serial_ok(h, 7, *fin, threads * calls)).collect();
        bad += failing.len();
        let deadlock = r.is_err();
        // failing histories first, then an evenly spaced sample
        let step = (hs.len() / 40).max(1);
        let chosen: Vec<&(Vec<Rec>, u64)> = failing.iter().copied().take(5).chain(hs.iter().step_by(step)).collect();
        for (h, fin) in chosen {
            out.push(id, lit(h, *fin, threads, calls, 7), json!({"kind": format!("shuttle_{name}"), "threads": threads, "calls": calls}), true);
            id += 1;
        }
        if deadlock {
            // shuttle reports a deadlock or a panic inside the lock by panicking: make it a failing case
            out.push(id, format!("Build_lock_case 7 {} {} [] 0 false", threads, calls), json!({"kind": format!("shuttle_{name}_deadlock_or_panic")}), true);
            id += 1;
        }
        out.bump(&format!("shuttle_{name}_schedules_x{}", hs.len()));
    }
    // 2. real OS threads (after the exploration, which reports a deadlock of the lock as a failing case of its own);
    //    a history that does not complete within the watchdog's limit is a failing case too ("never deadlocks")
    let limit = std::time::Duration::from_secs(std::env::var("EBH_WATCHDOG_SECS").ok().and_then(|s| s.parse().ok()).unwrap_or(60));
    for i in 0..a.count as u64 {
        let mut rng = Rng::for_case(a.seed, 20, i);
        let threads = *rng.pick(&[2usize, 2, 3, 4, 8, 16]);
        // mostly short histories; one in six is long (hundreds of acquisitions of one lock: periodic behaviour such as a fair
        // hand-off every N-th release only shows then)
        let long = rng.chance(1, 6);
        let calls = if long { rng.range(40, 120) as usize } else { rng.range(1, if threads > 8 { 6 } else { 12 }) as usize };
        let init = rng.below(1000);
        let (tx, rx) = std::sync::mpsc::channel();
        std::thread::spawn(move || { let mut rng = rng; let r = real_threads(&mut rng, threads, calls, init); let _ = tx.send(r); });
        match rx.recv_timeout(limit) {
            Ok((h, fin)) => {
                out.push(id, lit(&h, fin, threads, calls, init), json!({"kind": "os_threads", "threads": threads, "calls": calls, "first": h.iter().take(6).map(|r| (r.1, r.2, r.3)).collect::<Vec<_>>()}), threads * calls >= 2);
                out.bump("os_thread_histories"); id += 1;
            }
            Err(_) => {
                out.push(id, format!("Build_lock_case {} {} {} [] 0 false", init, threads, calls),
                    json!({"kind": "os_threads_no_progress", "threads": threads, "calls": calls, "what": "the threads did not finish their calls within the time limit (deadlock or lost wake-up)"}), true);
                out.bump("os_thread_histories_stuck"); id += 1;
                break;      // the stuck threads stay around; stop here
            }
        }
    }
    out.stats.insert("shuttle_schedules_explored".into(), json!(explored));
    out.stats.insert("shuttle_schedules_not_serial".into(), json!(bad));
    out.write(&a.out, a.shards, "lock");
    std::process::exit(0);      // an exploration thread that hung must not keep the process alive
}
