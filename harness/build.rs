// Generates `shorts.rs`: one entry per operation of asm.yml naming the `short::*` constant that
// asm-gen is expected to emit for it.  A missing or renamed constant fails the build (reported by
// the driver as a broken tie for C13).
use std::{env, fs, path::Path};

fn main() {
    let tree = essential_asm_spec::tree();
    let mut out = String::from("pub fn short_table() -> Vec<(&'static str, essential_asm::Op)> {\n    use essential_asm::short;\n    vec![\n");
    essential_asm_spec::visit::ops(&tree, &mut |names, op| {
        let name = names.last().unwrap();
        let c = if op.short.is_empty() { name.to_uppercase() } else { op.short.clone() };
        if op.num_arg_bytes == 0 {
            out.push_str(&format!("        (\"{c}\", short::{c}),\n"));
        } else {
            out.push_str(&format!("        (\"{c}\", short::{c}(0)),\n"));
        }
    });
    out.push_str("    ]\n}\n");
    let dest = Path::new(&env::var("OUT_DIR").unwrap()).join("shorts.rs");
    fs::write(dest, out).unwrap();
    // the current source of the lock crate, to be compiled against shuttle's Mutex (see src/e_lock.rs)
    let lock_src = fs::read_to_string("/repo/crates/lock/src/lib.rs").unwrap();
    let stripped: String = lock_src.lines().filter(|l| !l.trim_start().starts_with("//!") && !l.trim_start().starts_with("#![")).collect::<Vec<_>>().join("\n");
    fs::write(Path::new(&env::var("OUT_DIR").unwrap()).join("lock_src.rs"), stripped).unwrap();
    println!("cargo:rerun-if-changed=/repo/crates/lock/src/lib.rs");
    println!("cargo:rerun-if-changed=/repo/crates/asm-spec/asm.yml");
    println!("cargo:rerun-if-changed=build.rs");
}
