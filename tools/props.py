"""Per-property configuration of the check driver."""

TRUSTED_BASE = [
    "Coq 8.16.1 kernel incl. its bytecode VM (vm_compute); no native_compute",
    "translators tools/gen_optable.py, tools/gen_consts.py, tools/inventory.py",
    "correspondence harness /verif/harness (differential execution of model and implementation; coverage reported, not assumed)",
    "all Rust code is modelled by hand, not verified directly; 64-bit usize assumed",
]

PROPS = {
    "C13": {
        "properties": "Properties/C13",
        "corr": ["Corr/RunAsm"],
        "engines": [{"engine": "asm", "quick": 1500, "thorough": 40000}],
        "rule": "op table of all 256 bytes, short constants, every op alone, every ordered op pair, bit-walking/boundary "
                "Push immediates, every single byte, truncated Push at every length, random op sequences and mutated/uniform "
                "byte strings; a case is non-trivial when it has more than one byte/op; distinct by literal",
        "assumes": ["bytes are u8 (0..255)", "Push immediates are i64"],
    },
    "C15": {
        "properties": "Properties/C15",
        "corr": ["Corr/RunAsm"],
        "engines": [{"engine": "fx", "quick": 1500, "thorough": 30000}],
        "rule": "every op alone, Push immediates containing every opcode byte at every position (with and without a following "
                "effect op), all 64 subsets of effect ops in both orders, random programs biased towards effect bytes inside "
                "immediates; each case queries all 64 effect subsets; non-trivial when the program is non-empty",
        "assumes": ["effect sets are the 64 subsets of the six documented flags"],
    },
}
