"""Per-property configuration of the check driver."""

TRUSTED_BASE = [
    "Coq 8.16.1 kernel incl. its bytecode VM (vm_compute); no native_compute",
    "translators tools/gen_optable.py, tools/gen_consts.py, tools/inventory.py",
    "correspondence harness /verif/harness (differential execution of model and implementation; coverage reported, not assumed)",
    "all Rust code is modelled by hand, not verified directly; 64-bit usize assumed",
]

HOOK_COMMITS = ["df32574"]
NOT_APPLICABLE = {}

PROPS = {
    "C13": {
        "level_text": "Coq theorems over the hand-written 62-op codec model: decode(encode ops)=ops and encode(decode bytes)=bytes for all inputs, injectivity, totality, invalid-opcode and truncated-Push errors at every op boundary; the model's op table is proved equal to the table regenerated from asm.yml on every run and to the pinned table. Tied to the compiled crate by an exhaustive 256-byte table comparison, all op pairs, the short-constant table and random/mutated byte strings evaluated inside Coq.",
        "properties": "Properties/C13",
        "corr": ["Corr/RunAsm"],
        "engines": [{"engine": "asm", "quick": 1500, "thorough": 12000}],
        "rule": "op table of all 256 bytes, short constants, every op alone, every ordered op pair, bit-walking/boundary "
                "Push immediates, every single byte, truncated Push at every length, random op sequences and mutated/uniform "
                "byte strings; a case is non-trivial when it has more than one byte/op; distinct by literal",
        "assumes": ["bytes are u8 (0..255)", "Push immediates are i64"],
    },
    "C15": {
        "level_text": "Coq theorems: the byte-level scan of the serialisation of any well-formed program equals 'some op has one of the queried effects' for each of the 64 subsets (induction over programs; Push skips exactly 8 bytes), and analyze equals the union of per-op effects; flag values regenerated from the Rust source. Correspondence runs analyze and bytes_contains_any for all 64 subsets on immediates containing every opcode byte at every position.",
        "properties": "Properties/C15",
        "corr": ["Corr/RunAsm"],
        "engines": [{"engine": "fx", "quick": 1500, "thorough": 12000}],
        "rule": "every op alone, Push immediates containing every opcode byte at every position (with and without a following "
                "effect op), all 64 subsets of effect ops in both orders, random programs biased towards effect bytes inside "
                "immediates; each case queries all 64 effect subsets; non-trivial when the program is non-empty",
        "assumes": ["effect sets are the 64 subsets of the six documented flags"],
    },

    "C05": {
        "inventory": True,
        "probes": [{"class": "compute_breadth_allocation", "cmd": "probe-compute-breadth", "mem_kb": 3000000, "timeout": 60,
                    "what": "PUSH 2^40; COM; COME under a gas limit of 1000 aborts the process on allocation (rayon collects one result per child)"}],
        "level_text": 'Coq theorems by induction over all 62 ops and over exec (fuel induction, Compute children included): from any state satisfying the invariant (stack<=4096, memory<=10240, repeat<=4096, depth<=1, all words i64) every step and every execution preserves the invariant and never reaches a modelled panic/overflow site (unchecked +=, expect, indexing are explicit Panic outcomes in the model). Correspondence in two build profiles (overflow checks off/on) incl. limit sweeps that expose the state after every executed op.',
        "properties": "Properties/C05",
        "corr": ["Corr/RunVm"],
        "engines": [
            {"engine": "vm", "name": "vm_release", "profile": "release", "quick": 900, "thorough": 7200,
             "args": ["--families", "limits,limits,single,single,prog,malformed,control,compute,state,access,crypto", "--evals", "c05_mismatches,c05_spec_failures", "--gas", "--sweep"]},
            {"engine": "vm", "name": "vm_checked", "profile": "relchk", "quick": 900, "thorough": 7200,
             "args": ["--families", "limits,limits,single,single,prog,malformed,control,compute,state,access,crypto", "--evals", "c05_mismatches,c05_spec_failures", "--gas", "--sweep"]},
        ],
        "rule": "all VM case families (single data op on boundary operands and stack/memory shapes at the limits, structured and "
                "malformed programs, control flow, compute, state reads, access, crypto) with cost/limit grids and limit sweeps "
                "(limit k at cost 1 exposes the machine state after every executed operation); run with overflow checks off and on; "
                "non-trivial = at least 2 executed ops or a single-op boundary case; distinct by literal",
        "assumes": ["64-bit usize", "allocation failure is not modelled (see known finding F12 / DESIGN.md section 10)"],
    },
    "C07": {
        "level_text": "Coq theorems: reported gas = spent + sum of costs of the executed-op list (children included), gas <= limit <= u64::MAX, out-of-gas error before the op with the state unchanged, termination with positive costs (Compute-free) and the exact cause of fuel exhaustion otherwise. Correspondence over cost/limit grids with the implementation's own priced-op record.",
        "properties": "Properties/C07",
        "corr": ["Corr/RunVm", "Corr/RunGraph"],
        "engines": [{"engine": "vm", "quick": 1200, "thorough": 9600,
                     "args": ["--families", "prog,control,compute,malformed,state", "--evals", "c07_mismatches,c07_spec_failures", "--gas", "--sweep"]},
                    # the checker's total: the saturating sum over nodes, solutions and both passes equals the reference's
                    {"engine": "graph", "name": "graph07", "quick": 400, "thorough": 3200}],
        "rule": "programs with backward jumps, repeats and Compute under cost functions const 0/1/2^62/u64::MAX/per-opcode tables and "
                "limits 0,1,small,u64::MAX and +-3 around the default; the cost closure records every op it prices (the implementation's own "
                "executed-op list); non-trivial = at least 2 executed ops; plus predicate graphs through the two-pass entry point, whose reported "
                "gas is compared with the sum over every node run of the reference semantics",
        "assumes": ["the caller-supplied cost function is deterministic"],
    },
    "C08": {
        "level_text": "A declarative op specification (Spec/Ops.v, written from asm.yml without the model's helpers) and Coq theorems that the code-shaped model refines it for all 40 data ops: Ok iff spec Some with exactly that stack/memory and untouched pc/halt/repeat/parent; spec None => typed error; failing op reported at its own index. Correspondence evaluates the spec directly on the implementation's single-op results.",
        "properties": "Properties/C08",
        "corr": ["Corr/RunVm"],
        "engines": [{"engine": "vm", "quick": 1600, "thorough": 12800,
                     "args": ["--families", "single,single,single,limits,prog", "--evals", "vm_mismatches,c08_spec_failures"]}],
        "rule": "every Stack/Pred/Alu/Memory/ParentMemory op on operands from the boundary pool and structurally valid operands, "
                "stack shapes empty/short/at the 4096 limit, memory shapes empty/short/at the 10240 limit, parent memory present/absent; "
                "plus short programs of data-op snippets; single-op cases are checked against the declarative op_spec directly",
        "assumes": [],
    },
    "C09": {
        "level_text": 'Coq theorems: exact clause tables for JumpIf/HaltIf/PanicIf/Halt, the repeat stack as a state machine (counter sequences up/down, trip count max(n,1), outer slots untouched), a whole-program loop theorem for straight-line bodies, exec stopping cases as equations and eval_spec. Correspondence over control-flow programs incl. all boundary distances/counts and Vm::eval_ops.',
        "properties": "Properties/C09",
        "corr": ["Corr/RunVm"],
        "engines": [{"engine": "vm", "quick": 1500, "thorough": 12000,
                     "args": ["--families", "control,control,control,control,prog,limits", "--evals", "vm_mismatches,sem_failures", "--sweep"]}],
        "rule": "repeat loops (counts <=0, 1, n, boundary values; both directions; nested), JumpIf with distances from the boundary pool and "
                "all in-range distances, counted backward loops, Halt/HaltIf/PanicIf in the middle, start pcs inside and outside the program, "
                "limit sweeps; Vm::eval_ops is run on every case",
        "assumes": [],
    },
    "C10": {
        "level_text": 'Coq theorems: compute_with equals a sequential left fold over indices 0..n-1 (child start state, memories appended in index order, max pc, gas sum against the remaining limit), all failure clauses, parent memory prefix preserved, resume equation of exec. Correspondence over breadths/child bodies/parents.',
        "properties": "Properties/C10",
        "corr": ["Corr/RunVm"],
        "engines": [{"engine": "vm", "quick": 1000, "thorough": 8000,
                     "args": ["--families", "compute", "--evals", "vm_mismatches,sem_failures", "--gas"]},
                    # with two workers several compute indices share a rayon split: a sequential loop over fresh children
                    # must still be what the join looks like
                    {"engine": "vm", "name": "vm_pool2", "quick": 400, "thorough": 3200, "env": {"RAYON_NUM_THREADS": "2"},
                     "args": ["--families", "compute", "--evals", "vm_mismatches,sem_failures", "--gas"]}],
        "rule": "Compute with breadths <=0,1,2..5,17,64,200,1000,boundary values; children allocating index-dependent amounts, storing, "
                "jumping on index parity, reading parent memory, halting, failing, nesting Compute, using the repeat counter; parents with "
                "memory at the limit and inside a parent memory; varying cost/limit",
        "assumes": ["rayon delivers results by index; thread schedules are sampled (see C02)"],
    },
    "C11": {
        "level_text": 'Coq theorems: the exact request (view pre/post, contract own/extern as 32 bytes of the 4 words, key, count) and the memory layout equation (pairs then values back to back, length preserved, frame unchanged, EMemory when it does not fit, view error returned unchanged). Correspondence with recording scripted views.',
        "properties": "Properties/C11",
        "corr": ["Corr/RunVm"],
        "engines": [{"engine": "vm", "quick": 1500, "thorough": 12000,
                     "args": ["--families", "state", "--evals", "vm_mismatches,sem_failures"]}],
        "rule": "all four key-range ops, keys of length 0..4 incl. inconsistent key_len, counts 0/-1/boundary/1..4, addresses -1/in range/at "
                "the end/boundary, scripted views answering exactly/fewer/more/no values/failing with values of length 0..4; every view call "
                "of the implementation is recorded and given to the model as its oracle, a request the implementation did not make is answered "
                "with a sentinel",
        "assumes": ["the StateRead implementation is a deterministic function of its arguments"],
    },
    "C12": {
        "level_text": "Coq theorems for arbitrary hash/signature oracles: PredicateData/Len/Slots exact results and failures, This*Address as 4 big-endian words (32-byte/4-word bijection), PredicateExists iff some solution's documented pre-image hashes to the words, Sha256/VerifyEd25519/RecoverSecp256k1 marshal exactly the documented bytes and results. Correspondence fills the oracles by calling essential-hash, ed25519-dalek and secp256k1 on the same bytes.",
        "properties": "Properties/C12",
        "corr": ["Corr/RunVm"],
        "engines": [{"engine": "vm", "quick": 1200, "thorough": 9600,
                     "args": ["--families", "access,crypto", "--evals", "vm_mismatches,sem_failures"]}],
        "rule": "1..4 solutions with 0..4 slots; PredicateData/Len/Slots with in-range, boundary and out-of-range operands, near-full stacks; "
                "ThisAddress/ThisContractAddress; PredicateExists with the hash of some solution's pre-image (computed by the harness with the "
                "hash crate) or a perturbed one; Sha256 over byte lengths that are not multiples of 8 (oracle = essential_hash::hash_bytes); "
                "VerifyEd25519 with real keys, corrupted signatures/keys (oracle = ed25519-dalek); RecoverSecp256k1 with real signatures, "
                "corrupted ones, recovery ids outside 0..3 (oracle = secp256k1 crate)",
        "assumes": ["SHA-256, Ed25519 and secp256k1 are third-party primitives: the theorems hold for arbitrary oracles, the correspondence fills the oracles by calling the crates"],
    },
    "C14": {
        "level_text": "Coq theorems about a code-shaped model of BytecodeMapped: mapping succeeds exactly when parsing succeeds with the identical error; ops(), op(i) and the index table agree with the parsed list (the slice index and both expects are unreachable for values built by try_from_bytes or from_iter); from_iter reproduces to_bytes; exec depends on its accessor only pointwise, hence execution over the mapped form equals execution over the list (state, gas, trace, errors; Compute children included). Correspondence: structure of mapped values on valid/invalid/truncated byte strings, and every VM case is executed as list, owned mapped and borrowed mapped bytecode.",
        "properties": "Properties/C14",
        "corr": ["Corr/RunMapped", "Corr/RunVm"],
        "engines": [
            {"engine": "mapped", "quick": 1200, "thorough": 9600},
            {"engine": "vm", "quick": 700, "thorough": 5600,
             "args": ["--families", "prog,control,compute,state,access,malformed", "--evals", "c14_spec_failures", "--gas"]},
        ],
        "rule": "byte strings: every byte in the middle of a program, an invalid opcode inserted at every position of a program with Pushes, "
                "every truncation, random valid/truncated/mutated serialisations; mapped structure compared field by field (indices, ops(), "
                "op(i) for i up to len+1, from_iter); plus VM programs (jumps, repeats, compute) executed three ways from the same state",
        "assumes": [],
    },
    "C16": {
        "level_text": "Coq theorems: check_set accepts exactly the sets with 1..=100 solutions, <=100 slots of <=10000 words, <=1000 mutations in total with keys <=1000 and values <=10000 words and no key twice within a solution (iff, literal limits; the constants are regenerated from the Rust sources); predicate/contract/signed-contract validators iff their limits; the set returned by the mutation-computing check and by the two-pass check keeps the one-mutation-per-slot rule (a computed mutation duplicating a declared key is an error). Correspondence: each limit at/below/above its bound in combinations, permutations of small sets, and computed-vs-declared overlaps through the graph engine.",
        "properties": "Properties/C16",
        "corr": ["Corr/RunTypes", "Corr/RunGraph"],
        "engines": [
            {"engine": "types", "quick": 500, "thorough": 4000, "args": ["--kinds", "validate"]},
            {"engine": "graph", "name": "graph16", "quick": 700, "thorough": 5600},
        ],
        "rule": "boundary grid over number of solutions {0,1,2,3,100,101}, slots {0,1,100,101}, slot words {0,3,10000,10001}, total mutations "
                "{999,1000,1001}, key words {1000,1001}, value words {10000,10001}, duplicate key within / across solutions; predicates with "
                "nodes/edges {0,1,999,1000,1001}; contracts with {0,1,99,100,101} predicates; graph cases whose data outputs overlap declared keys",
        "assumes": ["signature validity is an oracle (secp256k1)"],
    },
    "C17": {
        "level_text": "Coq theorems for an arbitrary hash function H: contract and set pre-images are invariant under permutation (sorted address lists are determined by their multiset), the address-list pre-images are injective up to multiset and salt, the postcard encoding of a solution is prefix-free and injective (varint/zig-zag round trips, a proved decoder), the predicate pre-image is its binary encoding (injective, reported size = length = 34n+2e+4), helpers agree, unencodable predicates map to the zero address (and therefore collide - stated). Correspondence recomputes every address with a Gallina SHA-256 over the model's pre-image and compares with essential_hash::content_addr, incl. all permutations of small contracts/sets and the from_*_addrs helpers.",
        "properties": "Properties/C17",
        "corr": ["Corr/RunTypes"],
        "engines": [{"engine": "types", "quick": 600, "thorough": 4800, "args": ["--kinds", "addr,pred"]}],
        "rule": "random predicates (0..4 nodes, 0..5 edges incl. leaf markers), programs of 0..150 bytes, solutions with 0..2 slots and 0..3 mutations, "
                "contracts of 0..2 predicates with random salt and sets of 0..2 solutions with ALL permutations, predicate encode/decode/size",
        "assumes": ["injectivity is of the pre-image, i.e. up to SHA-256 collisions (by statement)"],
    },
    "C19": {
        "level": "proof",
        "level_text": "Coq theorems under an explicit correctness hypothesis for the abstract recoverable signature scheme (never an axiom): sign-then-recover returns the signer's key for any predicate order; the signed digest is H of the contract pre-image and a changed salt or predicate-address multiset changes the signed bytes unless H collides (the step to 'a different key is recovered' is the ECDSA assumption and is not claimed); recovery ids outside 0..3 and malformed signatures are errors, never panics; the 33-byte/5-word and 65-byte/9-word encodings are injective; the VM's RecoverSecp256k1 consumes exactly sign::encode::signature and produces exactly sign::encode::public_key. Correspondence with real secp256k1 keys: sign/recover/verify, all predicate permutations, single-bit and structural tamperings, recovery ids 0..255 sampled, VM op vs sign crate. Partial: the binding itself rests on ECDSA and SHA-256.",
        "properties": "Properties/C19",
        "corr": ["Corr/RunSign"],
        "engines": [{"engine": "sign", "quick": 250, "thorough": 4000}],
        "rule": "seeded secret keys, contracts of 0..2 random predicates with zero/random salt; per case: recover, verify, recover over all predicate "
                "permutations, 3-7 tamperings (salt bit, added edge/node, dropped/added predicate, program address bit, signature bit), 11 recovery ids, "
                "sign::encode of key and signature, and the VM op executed on words4(address) ++ encoded signature",
        "assumes": ["secp256k1 ECDSA recover(sign(sk, h)) = pk(sk) (hypothesis of the theorems; sampled by the correspondence)", "unforgeability and collision resistance are cryptographic assumptions, not claimed"],
    },
    "C01": {
        "level_text": "Coq theorems about the code-shaped model of the predicate-graph checker and an independent reference semantics (Spec/GraphRef.v): the level sort succeeds exactly on acyclic graphs, lists every node once with every edge going to a strictly later level, and never panics or runs out of fuel; malformed or cyclic graphs are rejected with the invalid-graph error before a single program is run; every node is run exactly once after all its parents on exactly the concatenation of their outputs in ascending parent order (nothing dropped by the filter_map); the verdict, gas and data outputs equal the reference; the first reported failing node is a genuine failure; the verdict, gas and data are invariant under renumberings that keep the order of co-parents; the two run modes over a shared cache evaluate each node exactly once. Correspondence: random DAGs with non-topological numberings, multi-edges, diamonds, raw malformed/cyclic/dangling encodings, 1-3 solutions, both collect_all values; the run recorder hook reports every program run with its inputs; the reference semantics is evaluated against the implementation's verdict, gas, returned set and runs.",
        "properties": ["Properties/C01", "Properties/TwoModeThms", "Properties/C01Renumber", "Properties/C01Set"],
        "corr": ["Corr/RunGraph"],
        "engines": [{"engine": "graph", "quick": 900, "thorough": 7200},
                    {"engine": "helpers", "quick": 800, "thorough": 6400}],
        "rule": "abstract random DAGs of 1..8 nodes numbered with non-leaves first in arbitrary (usually non-topological) order, multi-edges, "
                "reversed child lists; raw random edge_start/edges vectors (overlapping ranges, leaves in the middle, invalid ranges, cycles, "
                "self loops, dangling targets); node programs: constants, pass-through, memory producers, pre/post/extern state readers, "
                "failing nodes, fold-check leaves, data-output leaves (valid and invalid encodings), post-check leaves; non-trivial = at least 2 program runs",
        "assumes": ["node programs run with unlimited gas: OutOfFuel of the model is allowed (DESIGN.md section 10)", "graphs have at most 65535 nodes (u16 casts)"],
    },
    "C02": {
        "inventory": True,
        "level_text": "Coq theorems on an interleaving model of rayon's indexed parallel sections (Check/Par.v): for every complete schedule, any number of workers and any assignment, the slot vector equals the sequential map; the OnceLock cache is benign (its initialiser is a pure function of the immutable solution list); failures partitioned by index and the Compute children's 'some child failed' projection are schedule independent although which child error rayon returns is not; instantiated on the sequential models so that exec, check_set_predicates, check_and_compute and two_pass under arbitrary schedule oracles equal the sequential models. Tie to the code: a shared-state inventory of check/vm sources (only the OnceLock), and the implementation run under thread pools of 1,2,3,4,8,16 workers with jittered task timing, compared with each other and with the sequential model. Partial: the interleavings of rayon and the OS are sampled, not enumerated.",
        "properties": "Properties/C02",
        "corr": ["Corr/RunGraph", "Corr/RunVm"],
        "engines": [
            {"engine": "sched", "quick": 250, "thorough": 2000},
            {"engine": "vm", "name": "vm_pool1", "quick": 250, "thorough": 4000, "env": {"RAYON_NUM_THREADS": "1"},
             "args": ["--families", "compute", "--evals", "vm_mismatches,sem_failures", "--gas"]},
            {"engine": "vm", "name": "vm_pool16", "quick": 250, "thorough": 4000, "env": {"RAYON_NUM_THREADS": "16"},
             "args": ["--families", "compute", "--evals", "vm_mismatches,sem_failures", "--gas"]},
            # few workers: several compute indices end up in one rayon split, so state carried from one child to the next shows
            {"engine": "vm", "name": "vm_pool3", "quick": 250, "thorough": 4000, "env": {"RAYON_NUM_THREADS": "3"},
             "args": ["--families", "compute", "--evals", "vm_mismatches,sem_failures", "--gas"]},
        ],
        "rule": "every graph case is executed under rayon pools of 1,2,3,4,8,16 workers with pseudo-random delays injected through the program "
                "lookup; the six results (verdict, indices, gas, set, multiset of runs) must be identical, one of them is compared with the "
                "sequential model and the reference; Compute cases run with 1, 3 and 16 workers",
        "assumes": ["tasks are pure functions of immutable inputs (checked by the shared-state inventory)", "rayon delivers indexed results by index"],
    },
    "C03": {
        "level_text": "Coq theorems: find_deferred is exactly reachability from the nodes whose bytecode contains a post-state read (= the reference's ancestors-or-self), for any numbering; the two passes partition the nodes (Outputs never evaluates a deferred node, Checks only deferred ones) and should_cache is 'not deferred with a deferred child'; next_key is the numeric successor of the key as a big-endian number with None exactly at the maximal key; read_or_fallback returns, key by key over the successor range, the last proposed value for (contract, key) else the pre-state value, passes the request through unchanged for contracts without proposals, and is well defined and order independent when each slot is proposed once; KeyRange ops depend only on the pre view and PostKeyRange ops only on the post view. Correspondence: the hook exposes read_or_fallback and next_key (keys around word carries and the maximal key, ranges straddling mutated/deleted/untouched keys, huge counts) and whole two-pass runs with readers at every graph position.",
        "properties": "Properties/C03",
        "corr": ["Corr/RunGraph"],
        "engines": [{"engine": "post", "quick": 1200, "thorough": 9600},
                    {"engine": "graph", "name": "graph03", "quick": 500, "thorough": 4000},
                    {"engine": "helpers", "name": "helpers03", "quick": 500, "thorough": 4000}],
        "rule": "post engine: keys of 0..3 words from {MIN,-1,0,1,2,5,MAX-1,MAX,7} and their successor neighbourhoods, three contracts (one never "
                "has proposals), proposals incl. deletions and re-proposals, counts 0,1,2..8,5000 and isize::MAX near the maximal key; graph engine: "
                "pre/post/extern readers at random graph positions with declared and computed mutations",
        "assumes": ["the StateRead implementation is range-consistent (the harness state walks successor keys)", "counts above 10241 are capped in the model: such a result cannot fit the VM memory"],
    },
    "C20": {
        "inventory": True,
        "level_text": "Coq theorems on an interleaving model of StdLock::apply (acquire / finish with the guard alive across the closure): mutual exclusion, serialisability (the log is a serial chain in acquisition order, final value = fold of the closures), no lost update for counters with pairwise distinct results, per-thread program order, deadlock freedom for non-reentrant closures, the several-locks projection, soundness and completeness of the history checker, and a refuted broken variant that loses an update. Tie to the code: histories of real OS threads (2..16) applying read-modify-write closures of varying duration, and the CURRENT source text of crates/lock compiled against shuttle's Mutex and explored under random, PCT and bounded-DFS schedulers; every history is checked by the model's checker inside Coq (a sample) and in the harness (all). Partial: std::sync::Mutex and the OS scheduler are runtime.",
        "properties": "Properties/C20",
        "corr": ["Corr/RunLock"],
        "engines": [{"engine": "lock", "quick": 150, "thorough": 1500}],
        "rule": "OS threads: 2,3,4,8,16 threads x 1..12 closures with spin/yield durations 0..5000 and a two-field datum to detect tearing; shuttle: "
                "3x2 and 4x2 closures under random and PCT schedulers, 2x2 under bounded DFS (2500 schedules each quick, 60000 thorough); a history is "
                "non-trivial when at least two closures ran",
        "assumes": ["closures neither panic (poisoning) nor re-enter apply"],
    },
    "C04": {
        "level_text": "Coq theorems: the set's content address and the verdict of set validation are invariant under permutation of the solutions; acceptance guarantees unique keys per solution only - the whole-set statement is refuted with a concrete accepted witness on which the post-state depends on the order (known finding F10); for sets whose (contract, key) slots are pairwise distinct the proposed value of every slot and the whole post-state view read by the second pass are order independent, exec depends on the solution list only through the solution being checked and the SET of predicate-data hashes, the per-solution check does not depend on the position of the solution, and the complete two-pass result corresponds under the permutation (same verdict, same gas, same computed mutations per solution; C04_two_pass_perm). The correspondence runs content_addr, check_set and the two-pass check on ALL permutations of generated sets of 1..3 solutions (shared and distinct contracts, overlapping keys) and compares them.",
        "properties": ["Properties/C04", "Properties/C04TwoPass"],
        "corr": ["Corr/RunGraph"],
        "engines": [{"engine": "perm", "quick": 500, "thorough": 4000}],
        "rule": "sets of 1..3 solutions over two contracts with declared and computed mutations from a shared key pool, all 1/2/6 permutations "
                "each through content_addr, check_set and check_and_compute_solution_set_two_pass; sets in which two solutions of one contract "
                "propose a value for the same key are the known finding F10 and are reported as such; non-trivial = at least two solutions",
        "assumes": ["claimed outside the class of known finding F10 (cross-solution proposals for one slot)"],
    },
    "C06": {
        "inventory": True,
        "level_text": "Coq theorems that no modelled panic site (slice indexing, expect, unchecked arithmetic - all explicit Panic outcomes in the models) is reachable: the mutation, predicate and bytecode decoders and the mapped-bytecode constructor are total on every input; set/contract validation is total; the level sort is total on every graph; run_program never panics from well-typed inputs and produces well-typed outputs (via C05's exec_no_panic), and by an invariant over the caches check_predicate, check_set_predicates, check_and_compute and the two-pass entry point never panic for ANY lookup (cyclic, dangling, malformed graphs; arbitrary program bytes; data outputs that are not mutation encodings; any read counts). OutOfFuel (non-termination of a node program under unlimited gas) is explicitly allowed. Correspondence: exhaustive short word strings over boundary values and random/mutated inputs for the decoders, graph cases with invalid data outputs, cyclic/dangling graphs and huge read counts. Known findings F12/F13: allocation exhaustion by a huge Compute breadth or post-read count is outside what the model expresses and is probed in a child process.",
        "properties": "Properties/C06",
        "corr": ["Corr/RunTypes", "Corr/RunGraph", "Corr/RunMapped"],
        "engines": [
            {"engine": "types", "quick": 500, "thorough": 4000, "args": ["--kinds", "mut,pred"]},
            {"engine": "graph", "name": "graph06", "quick": 400, "thorough": 4000},
            {"engine": "mapped", "quick": 300, "thorough": 4000},
        ],
        "probes": [
            {"class": "compute_breadth_allocation", "cmd": "probe-compute-breadth", "mem_kb": 3000000, "timeout": 60,
             "what": "a node program PUSH 2^40; COM aborts the process on allocation"},
            {"class": "post_read_count_allocation", "cmd": "probe-post-read-count", "mem_kb": 1500000, "timeout": 60,
             "what": "read_or_fallback with a count of 2^40 on a contract with proposals iterates and allocates count times"},
        ],
        "rule": "all word strings of length <=4 over {-1,0,1,2,i64::MAX} (thorough: <=5 over 7 values) through decode_mutations, the F4/F5 inputs, "
                "random encodings mutated/truncated/extended; random predicates encoded, decoded, truncated, corrupted; node_edges for every index; "
                "byte strings with an invalid opcode at every position; graph cases with non-encodings as data outputs, cycles, dangling edges, i64::MAX read counts",
        "assumes": ["solutions, state and programs are well-typed values (i64 words, 32-byte addresses, u8 bytes)", "termination of node programs is not claimed (unlimited gas)"],
    },
    "C18": {
        "level_text": "Coq theorems: decode(encode) = id for mutation lists (any keys/values) and predicates (<=1000 nodes/edges, any edge_start incl. the leaf marker, trailing bytes ignored), injectivity, reported sizes = lengths; word/8-byte, 4-word/32-byte, 8-word/64-byte conversions inverse in both directions; hex upper/lower encode with case-insensitive decode, words<->hex, Display/FromStr of ContentAddress and Signature with wrong lengths rejected; node_edges returns exactly the documented sub-range (empty for leaves, None exactly for invalid ranges); the human-readable serde surface of all public types round-trips at the data-model level incl. the legacy field names `data` and `decision_variables`, any field order, unknown fields ignored; the binary (postcard) encoding of every public type (ContentAddress, PredicateAddress, Mutation, Solution, SolutionSet, Node, Predicate, Program, Contract, Signature, SignedContract) decodes back, is prefix free and injective, and everything decoded is well formed. Correspondence against the crates incl. serde_json::to_value trees read back by the model, the bytes of postcard::to_allocvec compared with the model's encoder and read back by the model's decoder, acceptance of truncated / extended postcard bytes, and postcard/JSON round trips of the implementation. Partial: serde_json and postcard themselves are third-party.",
        "properties": ["Properties/C18", "Properties/PredicateCodecThms", "Properties/TextCodecThms", "Properties/PostcardThms"],
        "corr": ["Corr/RunTypes"],
        "engines": [{"engine": "types", "quick": 1500, "thorough": 12000, "args": ["--kinds", "mut,pred,conv,text"]}],
        "rule": "mutation lists with keys/values of 0..3 words, their encodings and mutated encodings; predicates with 0..4 nodes, 0..5 edges, leaf markers "
                "and out-of-range edge_start; words from the boundary pool; 32/64-byte arrays; hex of word lists in both cases; Display/FromStr of random "
                "addresses and signatures in both cases; solution sets through serde_json (value tree, string, legacy names) and postcard; postcard bytes of random values of all ten public types, whole, truncated or followed by garbage",
        "assumes": ["serde_json / postcard / hex are third-party; their text/byte level behaviour is covered by correspondence only"],
    },
}
