#!/usr/bin/env python3
"""Applies a seeded change to /repo, runs the given checks, undoes the change.
usage: tools/seedtest.py <patch.diff> C07 [C05 ...]   (prints one line per check: DETECTED / MISSED and the VIOLATION lines)"""
import subprocess, sys, os
ROOT = os.path.dirname(os.path.dirname(os.path.abspath(__file__)))
patch = os.path.abspath(sys.argv[1])
props = sys.argv[2:]
assert subprocess.run(["git", "-C", "/repo", "status", "--porcelain"], capture_output=True, text=True).stdout.strip() == "", "/repo not clean"
import shutil, tempfile
# evidence files describe runs on the unchanged tree: keep them out of the way while a seeded change is applied
keep = tempfile.mkdtemp(prefix="evidence_keep_")
for f in os.listdir(os.path.join(ROOT, "evidence")):
    shutil.copy(os.path.join(ROOT, "evidence", f), keep)
subprocess.run(["git", "-C", "/repo", "apply", patch], check=True)
try:
    for p in props:
        r = subprocess.run([os.path.join(ROOT, "check"), p], cwd=ROOT, capture_output=True, text=True)
        lines = [l for l in r.stdout.splitlines() if l.startswith(("VIOLATION", "KNOWN-FINDING", "BROKEN-TIE", p))]
        print("%s rc=%d %s" % (p, r.returncode, "DETECTED" if r.returncode == 1 else "MISSED"))
        for l in lines[:8]:
            print("   " + l[:400])
finally:
    subprocess.run(["git", "-C", "/repo", "apply", "-R", patch], check=True)
    for f in os.listdir(keep):
        shutil.copy(os.path.join(keep, f), os.path.join(ROOT, "evidence", f))
    shutil.rmtree(keep)
    assert subprocess.run(["git", "-C", "/repo", "status", "--porcelain"], capture_output=True, text=True).stdout.strip() == "", "/repo not clean after undo"
