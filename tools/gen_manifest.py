#!/usr/bin/env python3
"""Writes /verif/MANIFEST.json from tools/props.py (single source of truth for the registered checks)."""
import json, os, sys
HERE = os.path.dirname(os.path.abspath(__file__))
ROOT = os.path.dirname(HERE)
sys.path.insert(0, HERE)
import props as P

ALL = ["C%02d" % i for i in range(1, 21)]

def main():
    checks = []
    for pid in ALL:
        c = P.PROPS.get(pid)
        if not c or not c.get("claimed", True):
            continue
        checks.append({
            "property_id": pid,
            "quick_cmd": "./check %s --tier quick" % pid,
            "thorough_cmd": "./check %s --tier thorough" % pid,
            "evidence_file": "evidence/%s.json" % pid,
            "replay_cmd_template": "./check %s --replay {path}" % pid,
            "engine": ",".join(sorted(set(e["engine"] for e in c["engines"]))) or "coq",
            "level_claimed": {"category": c.get("level", "proof"), "text": c["level_text"], "design_ref": "DESIGN.md section 7 (%s)" % pid},
            "level_note": c.get("level_note", "Trusted: Coq kernel + vm_compute, the translators, the correspondence harness; the Rust code is modelled by hand."),
            "technique": c.get("technique", "machine-checked proof (Coq) about an executable model + differential correspondence evaluated in Coq"),
        })
    na = [{"property_id": pid, "reason": P.NOT_APPLICABLE.get(pid, "not yet claimed: machinery under construction (DESIGN.md section 11)")}
          for pid in ALL if pid not in [c["property_id"] for c in checks]]
    engines = {}
    for pid, c in P.PROPS.items():
        for e in c["engines"]:
            engines.setdefault(e["engine"], set()).add(pid)
    m = {
        "version": 1,
        "setup_cmd": "./check --setup",
        "hooks": {"guard": "essential_base_verif",
                  "enable": "RUSTFLAGS=\"--cfg essential_base_verif\" (set by tools/driver.py when it builds /verif/harness and its path dependencies on /repo/crates/*)",
                  "baseline_off_cmd": "cd /repo && cargo test --workspace --no-fail-fast --offline",
                  "source_commits": P.HOOK_COMMITS, "add_only": True},
        "engines": [{"name": k, "path": "harness/src", "serves_properties": sorted(v),
                     "kind_free_text": "differential execution of the compiled crates; results are compared with the Coq model and specification by vm_compute inside coqc"}
                    for k, v in sorted(engines.items())],
        "checks": checks,
        "notes": "Machine-checked proof in Coq 8.16.1 about hand-written executable models of essential-base, tied to /repo on every run by "
                 "regenerated tables/constants and by a differential correspondence evaluated inside Coq (DESIGN.md).",
        "not_applicable": na,
    }
    json.dump(m, open(os.path.join(ROOT, "MANIFEST.json"), "w"), indent=1)

if __name__ == "__main__":
    main()
